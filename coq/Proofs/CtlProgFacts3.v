(* CtlProgFacts3.v — C09: the whole-program theorem of CtlProgFacts.v for a wider statement language.

   Expressions, environments, outcomes, the state relation [Rel], [res_ok], [finish], [same_ctl] are
   those of CtlProgFacts.v.  The statement language [stmt2] / [block2] has its constructs
       XSet v e | XIncr v k | XIf c t | XIfElse c t e | XWhile c b | XBreak | XContinue
   and in addition
       XFor i c nx b      for {\n i} {c} {\n nx} {\n b}     init and next are blocks of the language;
                          next runs after a completed or continued body, not after break; a break in
                          next ends the loop, a continue in next is molt's error; init's break /
                          continue / error leaves the command
       XCatch v b         set v [catch {\n b}]              v := 0 / 1 / 3 / 4 (ok / error / break /
                          continue); the environment is as the body left it
       XForeach v zs b    foreach v {z1 z2 ...} {\n b}       one variable, a literal list of integers
   Reference semantics [exec2] / [run2] (fuelled); rendering [render_stmt2] / [render_block2];
   [wf_stmt2] / [wf_block2]; [depth_stmt2].  Main theorem [run_agrees2] (same shape as
   CtlProgFacts.run_agrees, with [cmds_ok2]: also for / catch / foreach are molt's own commands) and
   [run_agrees_top2].  Induction: [all_ok2] = statements, while, for (on the loop without init),
   foreach (on the rest of the list), each by [*_step2].  Examples by computation on both sides:
   [ex_for], [ex_catch], [ex_foreach].  Not covered: procedures. *)
From Molt Require Import Model.Base Model.Tokenizer Model.ListSyn Model.Float Model.Value
  Model.State Model.Script Model.Parser Model.Eval Model.Expr Model.Commands Model.Unicode
  Model.Interp.
From Molt Require Import Spec.SpecGrammar Spec.SpecVars Spec.SpecExpr.
From Molt Require Import Proofs.BaseFacts Proofs.ValueFacts Proofs.BindFacts Proofs.NoEvalFacts
  Proofs.ExprFacts Proofs.InterpFacts Proofs.ScopeFacts Proofs.CtlFacts Proofs.GrammarFacts.
From Molt Require Import Spec.SpecCtl Proofs.CtlStructFacts.
From Molt Require Proofs.ExprFacts2 Proofs.TotalFacts Proofs.RepFacts.
From Molt Require Import Proofs.CtlProgFacts.
From Coq Require Import Lia ZifyBool ZifyN.

Arguments N.eqb : simpl never.
Arguments N.leb : simpl never.
Arguments N.ltb : simpl never.
Arguments Z.eqb : simpl never.
Arguments Z.leb : simpl never.
Arguments Z.ltb : simpl never.

Local Open Scope N_scope.

(* the commands of the wider language *)
Definition cmds_ok2 (st : interp) : Prop :=
  cmds_ok st /\ has_native st "for" NFor /\ has_native st "catch" NCatch /\ has_native st "foreach" NForeach.

Lemma cmds_ok2_same st st' : same_ctl st st' -> cmds_ok2 st -> cmds_ok2 st'.
Proof.
  intros Hs (H1 & H2). split; [exact (cmds_ok_same st st' Hs H1)|].
  destruct Hs as (E & _ & _). unfold has_native in *. rewrite E. exact H2.
Qed.


(* ---- literal lists of integers (foreach) ---- *)
Definition ltext (zs : list Z) : str := join_str [c_space] (map show_Z zs).

Definition simplec (c : char) : bool := num_char c || ascii_name_char c.

Lemma mode_scan_simple : forall w nq safe d, forallb simplec w = true -> mode_scan w nq safe d = (nq, safe, d).
Proof.
  induction w as [|c r IH]; intros nq safe d H; [reflexivity|].
  cbn [forallb] in H. apply andb_true_iff in H. destruct H as [Hc Hr]. cbn [mode_scan].
  assert (E : is_whitespace c = false /\ is_quote_special c = false /\ (c =? c_lbrace) = false /\
              (c =? c_rbrace) = false /\ (c =? c_bslash) = false).
  { unfold simplec, num_char, ascii_name_char, is_digit10, is_whitespace, is_quote_special, c_minus, c_underscore,
      c_lbrace, c_rbrace, c_bslash, c_semi, c_dollar, c_lbracket, c_rbracket, c_dquote in *. lia. }
  destruct E as (E1 & E2 & E3 & E4 & E5). rewrite E1, E2, E3, E4, E5. apply IH, Hr.
Qed.

Definition simplew (w : str) : bool := nonemptyb w && forallb simplec w.

Lemma format_simple : forall l, forallb simplew l = true -> format_items false l = l.
Proof.
  induction l as [|w r IH]; [reflexivity|]. cbn [forallb]. intros H. apply andb_true_iff in H. destruct H as [Hw Hr].
  unfold simplew in Hw. apply andb_true_iff in Hw. destruct Hw as [Hn Hs].
  cbn [format_items]. unfold get_mode. destruct w as [|c t]; [discriminate|].
  rewrite (mode_scan_simple (c :: t) false true O Hs). cbn [negb]. rewrite (IH Hr). reflexivity.
Qed.

Lemma list_to_string_simple l : forallb simplew l = true -> list_to_string l = join_str [c_space] l.
Proof.
  intros H. unfold list_to_string.
  assert (Hh : starts_with_hash l = false).
  { destruct l as [|[|c t] r]; try reflexivity. cbn [forallb] in H. apply andb_true_iff in H. destruct H as [Hw _].
    unfold simplew in Hw. apply andb_true_iff in Hw. destruct Hw as [_ Hs]. cbn [forallb] in Hs.
    apply andb_true_iff in Hs. destruct Hs as [Hc _]. cbn [starts_with_hash].
    unfold simplec, num_char, ascii_name_char, is_digit10, c_minus, c_underscore, c_hash in *. lia. }
  rewrite Hh, (format_simple l H). reflexivity.
Qed.

Lemma show_Z_simplew z : simplew (show_Z z) = true.
Proof.
  destruct (show_Z_chars z) as [H1 H2]. unfold simplew. apply andb_true_iff. split.
  - destruct (show_Z z); [congruence|reflexivity].
  - apply (forallb_imp num_char); [|exact H2]. intros c Hc. unfold simplec. rewrite Hc. reflexivity.
Qed.

Lemma nums_simple zs : forallb simplew (map show_Z zs) = true.
Proof. induction zs as [|z r IH]; [reflexivity|]. cbn [map forallb]. rewrite show_Z_simplew, IH. reflexivity. Qed.

Lemma ltext_as_list zs : v_as_list (VStr (ltext zs)) = inr (map (fun z => VStr (show_Z z)) zs).
Proof.
  cbn [v_as_list as_str]. unfold ltext. rewrite <- (list_to_string_simple _ (nums_simple zs)).
  rewrite str_as_list_roundtrip, map_map. reflexivity.
Qed.

Lemma name_as_list v : good_name v = true -> v_as_list (VStr v) = inr [VStr v].
Proof.
  intros Hv. destruct (good_name_facts v Hv) as (Hne & Hn & _). cbn [v_as_list as_str].
  assert (Hs : forallb simplew [v] = true).
  { cbn [forallb]. unfold simplew. rewrite andb_true_r. apply andb_true_iff. split.
    - destruct v; [congruence|reflexivity].
    - apply (forallb_imp ascii_name_char); [|exact Hn]. intros c Hc. unfold simplec. rewrite Hc. apply orb_true_r. }
  pose proof (list_to_string_simple [v] Hs) as E. cbn [join_str] in E.
  pose proof (str_as_list_roundtrip [v]) as R. rewrite E in R. exact R.
Qed.

Lemma ltext_brace zs : forallb brace_text_char (ltext zs) = true.
Proof.
  unfold ltext. induction zs as [|z r IH]; [reflexivity|]. cbn [map join_str].
  assert (Hz : forallb brace_text_char (show_Z z) = true)
    by (apply (forallb_imp num_char); [exact num_char_brace|apply show_Z_chars]).
  destruct (map show_Z r) eqn:Er; [exact Hz|].
  rewrite !forallb_app, Hz. cbn [forallb]. rewrite IH. reflexivity.
Qed.

Definition nez (zs : list Z) : bool := match zs with [] => false | _ => true end.

Lemma ltext_nonempty zs : nez zs = true -> nonemptyb (ltext zs) = true.
Proof.
  destruct zs as [|z r]; [discriminate|]. intros _. unfold ltext. cbn [map join_str].
  destruct (show_Z_chars z) as [H _]. destruct (show_Z z) eqn:E; [congruence|].
  destruct (map show_Z r); reflexivity.
Qed.

Lemma int_val_str z : in_i64 z = true -> int_val (VStr (show_Z z)) z.
Proof.
  intros Hz. split.
  - unfold expr_parse_value. cbn [already_number as_str]. apply RepFacts.expr_parse_string_show_Z, Hz.
  - cbn [v_as_int as_str]. rewrite (int_roundtrip z Hz). reflexivity.
Qed.

Inductive stmt2 :=
| XSet (v : str) (e : expr)
| XIncr (v : str) (k : Z)
| XIf (c : expr) (t : block2)
| XIfElse (c : expr) (t e : block2)
| XWhile (c : expr) (b : block2)
| XBreak
| XContinue
| XFor (i : block2) (c : expr) (nx b : block2)
| XCatch (v : str) (b : block2)
| XForeach (v : str) (zs : list Z) (b : block2)
with block2 :=
| B2Nil
| B2Cons (s : stmt2) (r : block2).

Scheme stmt_mut2 := Induction for stmt2 Sort Prop
with block_mut2 := Induction for block2 Sort Prop.
Combined Scheme stmt_block_ind2 from stmt_mut2, block_mut2.

Fixpoint block_of_list2 (l : list stmt2) : block2 :=
  match l with [] => B2Nil | s :: r => B2Cons s (block_of_list2 r) end.

Fixpoint render_stmt2 (s : stmt2) : str :=
  match s with
  | XSet v e => lit "set " ++ v ++ lit " [expr " ++ braced (rexpr e) ++ lit "]"
  | XIncr v k => lit "incr " ++ v ++ 32 :: show_Z k
  | XIf c t => lit "if " ++ braced (rexpr c) ++ 32 :: braced (10 :: render_block2 t)
  | XIfElse c t e => lit "if " ++ braced (rexpr c) ++ 32 :: braced (10 :: render_block2 t)
                    ++ lit " else " ++ braced (10 :: render_block2 e)
  | XWhile c b => lit "while " ++ braced (rexpr c) ++ 32 :: braced (10 :: render_block2 b)
  | XBreak => lit "break"
  | XContinue => lit "continue"
  | XFor i c nx b => lit "for " ++ braced (10 :: render_block2 i) ++ 32 :: braced (rexpr c)
                     ++ 32 :: braced (10 :: render_block2 nx) ++ 32 :: braced (10 :: render_block2 b)
  | XCatch v b => lit "set " ++ v ++ lit " [catch " ++ braced (10 :: render_block2 b) ++ lit "]"
  | XForeach v zs b => lit "foreach " ++ v ++ 32 :: braced (ltext zs) ++ 32 :: braced (10 :: render_block2 b)
  end
with render_block2 (b : block2) : str :=
  match b with
  | B2Nil => []
  | B2Cons s r => render_stmt2 s ++ 10 :: render_block2 r
  end.

Fixpoint wf_stmt2 (s : stmt2) : bool :=
  match s with
  | XSet v e => good_name v && wf_expr e
  | XIncr v k => good_name v && in_i64 k
  | XIf c t => wf_expr c && wf_block2 t
  | XIfElse c t e => wf_expr c && wf_block2 t && wf_block2 e
  | XWhile c b => wf_expr c && wf_block2 b
  | XBreak | XContinue => true
  | XFor i c nx b => wf_block2 i && wf_expr c && wf_block2 nx && wf_block2 b
  | XCatch v b => good_name v && wf_block2 b
  | XForeach v zs b => good_name v && nez zs && forallb in_i64 zs && wf_block2 b
  end
with wf_block2 (b : block2) : bool :=
  match b with
  | B2Nil => true
  | B2Cons s r => wf_stmt2 s && wf_block2 r
  end.

(* nesting depth of evaluation levels a program needs *)
Fixpoint depth_stmt2 (s : stmt2) : N :=
  match s with
  | XIf _ t => 1 + depth_block2 t
  | XIfElse _ t e => 1 + N.max (depth_block2 t) (depth_block2 e)
  | XWhile _ b => 1 + depth_block2 b
  | XFor i _ nx b => 1 + N.max (depth_block2 i) (N.max (depth_block2 nx) (depth_block2 b))
  | XCatch _ b => 1 + depth_block2 b
  | XForeach _ _ b => 1 + depth_block2 b
  | _ => 0
  end
with depth_block2 (b : block2) : N :=
  match b with
  | B2Nil => 0
  | B2Cons s r => N.max (depth_stmt2 s) (depth_block2 r)
  end.

Fixpoint run_with2 (ex : env -> stmt2 -> env * outcome) (en : env) (b : block2) (last : str)
  : env * outcome :=
  match b with
  | B2Nil => (en, ONorm last)
  | B2Cons s r =>
      match ex en s with
      | (en1, ONorm v) => run_with2 ex en1 r v
      | other => other
      end
  end.

Fixpoint exec2 (n : nat) (en : env) (s : stmt2) {struct n} : env * outcome :=
  match n with
  | O => (en, OFuel)
  | S n' =>
      let blk := run_with2 (exec2 n') in
      match s with
      | XSet v e =>
          match xev en e with
          | Ok z => (assoc_set v z en, ONorm (show_Z z))
          | other => (en, OErr (err_msg other))
          end
      | XIncr v k =>
          let old := match assoc_get v en with Some z => z | None => 0%Z end in
          if in_i64 (k + old) then (assoc_set v (k + old)%Z en, ONorm (show_Z (k + old)))
          else (en, OErr (lit "integer overflow"))
      | XIf c t =>
          match xev en c with
          | Ok z => if (z =? 0)%Z then (en, ONorm []) else blk en t []
          | other => (en, OErr (err_msg other))
          end
      | XIfElse c t e =>
          match xev en c with
          | Ok z => if (z =? 0)%Z then blk en e [] else blk en t []
          | other => (en, OErr (err_msg other))
          end
      | XWhile c b =>
          match xev en c with
          | Ok z =>
              if (z =? 0)%Z then (en, ONorm [])
              else
                match blk en b [] with
                | (en1, ONorm _) | (en1, OContinue) => exec2 n' en1 (XWhile c b)
                | (en1, OBreak) => (en1, ONorm [])
                | other => other
                end
          | other => (en, OErr (err_msg other))
          end
      | XBreak => (en, OBreak)
      | XContinue => (en, OContinue)
      | XFor i c nx b =>
          (* init (its break / continue / error leaves the command), then the loop; the loop is
             re-entered as a `for` with an empty init *)
          match blk en i [] with
          | (en0, ONorm _) =>
              match xev en0 c with
              | Ok z =>
                  if (z =? 0)%Z then (en0, ONorm [])
                  else
                    match blk en0 b [] with
                    | (en1, ONorm _) | (en1, OContinue) =>
                        (* next runs after a completed or continued body *)
                        match blk en1 nx [] with
                        | (en2, ONorm _) => exec2 n' en2 (XFor B2Nil c nx b)
                        | (en2, OBreak) => (en2, ONorm [])
                        | (en2, OContinue) => (en2, OErr (lit "invoked ""continue"" outside of a loop"))
                        | other => other
                        end
                    | (en1, OBreak) => (en1, ONorm [])      (* next does not run *)
                    | other => other
                    end
              | other => (en0, OErr (err_msg other))
              end
          | other => other
          end
      | XCatch v b =>
          (* the code of the body, stored in v; the environment is as the body left it *)
          match blk en b [] with
          | (en1, OFuel) => (en1, OFuel)
          | (en1, o1) =>
              let code := match o1 with OErr _ => 1 | OBreak => 3 | OContinue => 4 | _ => 0 end%Z in
              (assoc_set v code en1, ONorm (show_Z code))
          end
      | XForeach v zs b =>
          (* one iteration per element; the loop is re-entered on the rest of the list *)
          match zs with
          | [] => (en, ONorm [])
          | z :: r =>
              match blk (assoc_set v z en) b [] with
              | (en1, ONorm _) | (en1, OContinue) => exec2 n' en1 (XForeach v r b)
              | (en1, OBreak) => (en1, ONorm [])
              | other => other
              end
          end
      end
  end.

(* a block2: the result is that of the last statement, the empty string for the empty block2 *)
Definition run2 (n : nat) (en : env) (b : block2) : env * outcome := run_with2 (exec2 n) en b [].

(* brace segments of a statement / block2: their rendering and their value is the text *)
Fixpoint bs_stmt2 (s : stmt2) : list bseg :=
  match s with
  | XSet v e => [BText (lit "set " ++ v ++ lit " [expr "); BNest [BText (rexpr e)]; BText (lit "]")]
  | XIncr v k => [BText (lit "incr " ++ v ++ 32 :: show_Z k)]
  | XIf c t => [BText (lit "if "); BNest [BText (rexpr c)]; BText sp1; BNest (BText nl1 :: bs_block2 t)]
  | XIfElse c t e => [BText (lit "if "); BNest [BText (rexpr c)]; BText sp1; BNest (BText nl1 :: bs_block2 t);
                     BText (lit " else "); BNest (BText nl1 :: bs_block2 e)]
  | XWhile c b => [BText (lit "while "); BNest [BText (rexpr c)]; BText sp1; BNest (BText nl1 :: bs_block2 b)]
  | XBreak => [BText (lit "break")]
  | XContinue => [BText (lit "continue")]
  | XFor i c nx b => [BText (lit "for "); BNest (BText nl1 :: bs_block2 i); BText sp1; BNest [BText (rexpr c)];
                      BText sp1; BNest (BText nl1 :: bs_block2 nx); BText sp1; BNest (BText nl1 :: bs_block2 b)]
  | XCatch v b => [BText (lit "set " ++ v ++ lit " [catch "); BNest (BText nl1 :: bs_block2 b); BText (lit "]")]
  | XForeach v zs b => [BText (lit "foreach " ++ v ++ sp1); BNest [BText (ltext zs)]; BText sp1;
                        BNest (BText nl1 :: bs_block2 b)]
  end
with bs_block2 (b : block2) : list bseg :=
  match b with
  | B2Nil => []
  | B2Cons s r => bs_stmt2 s ++ BText nl1 :: bs_block2 r
  end.

Definition body_word2 (b : block2) : wordc := CBrace (BText nl1 :: bs_block2 b).

Definition words_of2 (s : stmt2) : list (str * wordc) :=
  match s with
  | XSet v e => [([], bw (lit "set")); (sp1, bw v);
                 (sp1, CBare [SCmd [ICmd [] [([], bw (lit "expr")); (sp1, cond_word e)] [] []]])]
  | XIncr v k => [([], bw (lit "incr")); (sp1, bw v); (sp1, bw (show_Z k))]
  | XIf c t => [([], bw (lit "if")); (sp1, cond_word c); (sp1, body_word2 t)]
  | XIfElse c t e => [([], bw (lit "if")); (sp1, cond_word c); (sp1, body_word2 t);
                     (sp1, bw (lit "else")); (sp1, body_word2 e)]
  | XWhile c b => [([], bw (lit "while")); (sp1, cond_word c); (sp1, body_word2 b)]
  | XBreak => [([], bw (lit "break"))]
  | XContinue => [([], bw (lit "continue"))]
  | XFor i c nx b => [([], bw (lit "for")); (sp1, body_word2 i); (sp1, cond_word c); (sp1, body_word2 nx);
                      (sp1, body_word2 b)]
  | XCatch v b => [([], bw (lit "set")); (sp1, bw v);
                   (sp1, CBare [SCmd [ICmd [] [([], bw (lit "catch")); (sp1, body_word2 b)] [] []]])]
  | XForeach v zs b => [([], bw (lit "foreach")); (sp1, bw v); (sp1, CBrace [BText (ltext zs)]); (sp1, body_word2 b)]
  end.

Definition cst_stmt2 (s : stmt2) : item := ICmd [] (words_of2 s) [] nl1.
Fixpoint cst_block2 (b : block2) : list item :=
  match b with B2Nil => [] | B2Cons s r => cst_stmt2 s :: cst_block2 r end.

Lemma bs_render2 :
  (forall s, flat_map render_bseg (bs_stmt2 s) = render_stmt2 s) /\
  (forall b, flat_map render_bseg (bs_block2 b) = render_block2 b).
Proof.
  apply stmt_block_ind2; intros; cbn [bs_stmt2 bs_block2 render_stmt2 render_block2].
  - cbn [flat_map render_bseg app]. rewrite !app_nil_r. unfold braced.
    repeat (rewrite <- ?app_assoc; cbn [app]). reflexivity.
  - cbn [flat_map render_bseg app]. rewrite !app_nil_r. reflexivity.
  - cbn [flat_map render_bseg app]. rewrite H, !app_nil_r. unfold braced, nl1.
    repeat (rewrite <- ?app_assoc; cbn [app]). reflexivity.
  - cbn [flat_map render_bseg app]. rewrite H, H0, !app_nil_r. unfold braced, nl1.
    repeat (rewrite <- ?app_assoc; cbn [app]). reflexivity.
  - cbn [flat_map render_bseg app]. rewrite H, !app_nil_r. unfold braced, nl1.
    repeat (rewrite <- ?app_assoc; cbn [app]). reflexivity.
  - reflexivity.
  - reflexivity.
  - cbn [flat_map render_bseg app]. rewrite H, H0, H1, !app_nil_r. unfold braced, nl1, sp1.
    repeat (rewrite <- ?app_assoc; cbn [app]). reflexivity.
  - cbn [flat_map render_bseg app]. rewrite H, !app_nil_r. unfold braced, nl1.
    repeat (rewrite <- ?app_assoc; cbn [app]). reflexivity.
  - cbn [flat_map render_bseg app]. rewrite H, !app_nil_r. unfold braced, nl1, sp1.
    repeat (rewrite <- ?app_assoc; cbn [app]). reflexivity.
  - reflexivity.
  - rewrite flat_map_app. cbn [flat_map render_bseg]. rewrite H, H0. reflexivity.
Qed.

Lemma bs_value2 :
  (forall s, flat_map bseg_value (bs_stmt2 s) = render_stmt2 s) /\
  (forall b, flat_map bseg_value (bs_block2 b) = render_block2 b).
Proof.
  apply stmt_block_ind2; intros; cbn [bs_stmt2 bs_block2 render_stmt2 render_block2].
  - cbn [flat_map bseg_value app]. rewrite !app_nil_r. unfold braced.
    repeat (rewrite <- ?app_assoc; cbn [app]). reflexivity.
  - cbn [flat_map bseg_value app]. rewrite !app_nil_r. reflexivity.
  - cbn [flat_map bseg_value app]. rewrite H, !app_nil_r. unfold braced, nl1.
    repeat (rewrite <- ?app_assoc; cbn [app]). reflexivity.
  - cbn [flat_map bseg_value app]. rewrite H, H0, !app_nil_r. unfold braced, nl1.
    repeat (rewrite <- ?app_assoc; cbn [app]). reflexivity.
  - cbn [flat_map bseg_value app]. rewrite H, !app_nil_r. unfold braced, nl1.
    repeat (rewrite <- ?app_assoc; cbn [app]). reflexivity.
  - reflexivity.
  - reflexivity.
  - cbn [flat_map bseg_value app]. rewrite H, H0, H1, !app_nil_r. unfold braced, nl1, sp1.
    repeat (rewrite <- ?app_assoc; cbn [app]). reflexivity.
  - cbn [flat_map bseg_value app]. rewrite H, !app_nil_r. unfold braced, nl1.
    repeat (rewrite <- ?app_assoc; cbn [app]). reflexivity.
  - cbn [flat_map bseg_value app]. rewrite H, !app_nil_r. unfold braced, nl1, sp1.
    repeat (rewrite <- ?app_assoc; cbn [app]). reflexivity.
  - reflexivity.
  - rewrite flat_map_app. cbn [flat_map bseg_value]. rewrite H, H0. reflexivity.
Qed.

Lemma render_body_word2 b : render_word (body_word2 b) = braced (10 :: render_block2 b).
Proof.
  unfold body_word2, braced. cbn [render_word flat_map render_bseg nl1 app].
  rewrite (proj2 bs_render2). reflexivity.
Qed.

Lemma render_cst_stmt2 s : render_item (cst_stmt2 s) = render_stmt2 s ++ nl1.
Proof.
  unfold cst_stmt2. cbn [render_item app]. rewrite ?app_nil_r.
  destruct s; cbn [words_of2 flat_map render_stmt2]; rewrite ?render_body_word2;
    cbn [render_word render_seg render_item flat_map bw cond_word render_bseg app sp1];
    rewrite ?render_body_word2;
    rewrite ?app_nil_r; unfold braced, nl1;
    repeat (rewrite <- ?app_assoc; cbn [app]); reflexivity.
Qed.

Theorem render_cst_block2 b : SpecGrammar.render (cst_block2 b) = render_block2 b.
Proof.
  unfold SpecGrammar.render. induction b as [|s r IH].
  - reflexivity.
  - cbn [cst_block2 flat_map render_block2]. rewrite render_cst_stmt2, IH.
    rewrite <- app_assoc. reflexivity.
Qed.

Lemma bs_wf2 :
  (forall s, wf_stmt2 s = true -> forallb wf_bseg (bs_stmt2 s) = true) /\
  (forall b, wf_block2 b = true -> forallb wf_bseg (bs_block2 b) = true).
Proof.
  apply stmt_block_ind2; intros; cbn [bs_stmt2 bs_block2 wf_stmt2 wf_block2] in *.
  - apply andb_true_iff in H. destruct H as [Hv He].
    destruct (good_name_facts v Hv) as (_ & Hn & _).
    cbn [forallb wf_bseg]. rewrite (rexpr_brace e He).
    rewrite !forallb_app, (forallb_imp _ _ v name_char_brace Hn).
    pose proof (rexpr_nonempty e) as Hne. destruct (rexpr e); [discriminate|]. reflexivity.
  - apply andb_true_iff in H. destruct H as [Hv _].
    destruct (good_name_facts v Hv) as (_ & Hn & _).
    cbn [forallb wf_bseg]. rewrite !forallb_app. cbn [forallb].
    rewrite (forallb_imp _ _ v name_char_brace Hn).
    rewrite (forallb_imp _ _ _ num_char_brace (proj2 (show_Z_chars k))). reflexivity.
  - apply andb_true_iff in H0. destruct H0 as [Hc Ht].
    cbn [forallb wf_bseg]. rewrite (rexpr_brace c Hc), (H Ht).
    pose proof (rexpr_nonempty c) as Hne. destruct (rexpr c); [discriminate|]. reflexivity.
  - apply andb_true_iff in H1. destruct H1 as [H1 He]. apply andb_true_iff in H1. destruct H1 as [Hc Ht].
    cbn [forallb wf_bseg]. rewrite (rexpr_brace c Hc), (H Ht), (H0 He).
    pose proof (rexpr_nonempty c) as Hne. destruct (rexpr c); [discriminate|]. reflexivity.
  - apply andb_true_iff in H0. destruct H0 as [Hc Ht].
    cbn [forallb wf_bseg]. rewrite (rexpr_brace c Hc), (H Ht).
    pose proof (rexpr_nonempty c) as Hne. destruct (rexpr c); [discriminate|]. reflexivity.
  - reflexivity.
  - reflexivity.
  - apply andb_true_iff in H2. destruct H2 as [H2 Hb]. apply andb_true_iff in H2. destruct H2 as [H2 Hnx].
    apply andb_true_iff in H2. destruct H2 as [Hi Hc].
    cbn [forallb wf_bseg]. rewrite (rexpr_brace c Hc), (H Hi), (H0 Hnx), (H1 Hb).
    pose proof (rexpr_nonempty c) as Hne. destruct (rexpr c); [discriminate|]. reflexivity.
  - apply andb_true_iff in H0. destruct H0 as [Hv Hb].
    destruct (good_name_facts v Hv) as (_ & Hn & _).
    cbn [forallb wf_bseg]. rewrite (H Hb).
    rewrite !forallb_app, (forallb_imp _ _ v name_char_brace Hn). reflexivity.
  - apply andb_true_iff in H0. destruct H0 as [H0 Hb]. apply andb_true_iff in H0. destruct H0 as [H0 _].
    apply andb_true_iff in H0. destruct H0 as [Hv Hz].
    destruct (good_name_facts v Hv) as (_ & Hn & _).
    cbn [forallb wf_bseg]. rewrite (H Hb), (ltext_brace zs).
    rewrite !forallb_app, (forallb_imp _ _ v name_char_brace Hn).
    pose proof (ltext_nonempty zs Hz) as Hne. destruct (ltext zs); [discriminate|]. reflexivity.
  - reflexivity.
  - apply andb_true_iff in H1. destruct H1 as [Hs Hr].
    rewrite forallb_app. cbn [forallb wf_bseg]. rewrite (H Hs), (H0 Hr). reflexivity.
Qed.

Lemma wf_body_word2 b : wf_block2 b = true -> wf_word (body_word2 b) = true.
Proof. intros H. unfold body_word2. cbn [wf_word forallb wf_bseg nl1]. exact (proj2 bs_wf2 b H). Qed.

Lemma wf_cst_stmt2 s last : wf_stmt2 s = true -> wf_item false last (cst_stmt2 s) = true.
Proof.
  intros H. unfold cst_stmt2. destruct s; cbn [wf_stmt2] in H; cbn [words_of2 wf_item forallb].
  - apply andb_true_iff in H. destruct H as [Hv He].
    destruct (good_name_facts v Hv) as (Hne & Hn & _).
    rewrite (wf_bw v) by (destruct v; [congruence|reflexivity] || exact (forallb_imp _ _ v name_char_bare Hn)).
    cbn [wf_word forallb wf_seg wf_item adjacency_ok]. rewrite (wf_cond_word e He). reflexivity.
  - apply andb_true_iff in H. destruct H as [Hv _].
    destruct (good_name_facts v Hv) as (Hne & Hn & _).
    rewrite (wf_bw v) by (destruct v; [congruence|reflexivity] || exact (forallb_imp _ _ v name_char_bare Hn)).
    destruct (show_Z_chars k) as [K1 K2].
    rewrite (wf_bw (show_Z k)) by (destruct (show_Z k); [congruence|reflexivity] ||
                                    exact (forallb_imp _ _ _ num_char_bare K2)).
    reflexivity.
  - apply andb_true_iff in H. destruct H as [Hc Ht].
    rewrite (wf_cond_word c Hc), (wf_body_word2 t Ht). reflexivity.
  - apply andb_true_iff in H. destruct H as [H He]. apply andb_true_iff in H. destruct H as [Hc Ht].
    rewrite (wf_cond_word c Hc), (wf_body_word2 t Ht), (wf_body_word2 e He). reflexivity.
  - apply andb_true_iff in H. destruct H as [Hc Ht].
    rewrite (wf_cond_word c Hc), (wf_body_word2 b Ht). reflexivity.
  - reflexivity.
  - reflexivity.
  - apply andb_true_iff in H. destruct H as [H Hb]. apply andb_true_iff in H. destruct H as [H Hnx].
    apply andb_true_iff in H. destruct H as [Hi Hc].
    rewrite (wf_cond_word c Hc), (wf_body_word2 i Hi), (wf_body_word2 nx Hnx), (wf_body_word2 b Hb). reflexivity.
  - apply andb_true_iff in H. destruct H as [Hv Hb].
    destruct (good_name_facts v Hv) as (Hne & Hn & _).
    rewrite (wf_bw v) by (destruct v; [congruence|reflexivity] || exact (forallb_imp _ _ v name_char_bare Hn)).
    cbn [wf_word forallb wf_seg wf_item adjacency_ok]. rewrite (wf_body_word2 b Hb). reflexivity.
  - apply andb_true_iff in H. destruct H as [H Hb]. apply andb_true_iff in H. destruct H as [H _].
    apply andb_true_iff in H. destruct H as [Hv Hz].
    destruct (good_name_facts v Hv) as (Hne & Hn & _).
    rewrite (wf_bw v) by (destruct v; [congruence|reflexivity] || exact (forallb_imp _ _ v name_char_bare Hn)).
    rewrite (wf_body_word2 b Hb). cbn [wf_word forallb].
    rewrite (wf_btext _ (ltext_nonempty zs Hz) (ltext_brace zs)). reflexivity.
Qed.

Lemma wf_cst_items2 b : wf_block2 b = true -> wf_items false (cst_block2 b) = true.
Proof.
  induction b as [|s r IH]; [reflexivity|]. cbn [wf_block2 cst_block2]. intros H.
  apply andb_true_iff in H. destruct H as [Hs Hr]. cbn [wf_items].
  destruct (cst_block2 r) eqn:E.
  - apply wf_cst_stmt2, Hs.
  - rewrite (wf_cst_stmt2 s false Hs), (IH Hr). reflexivity.
Qed.

(* ---------- the script the reader produces ---------- *)
Definition ast_stmt2 (s : stmt2) : list word :=
  match s with
  | XSet v e => [WValue (lit "set"); WValue v; WScript [[WValue (lit "expr"); WValue (rexpr e)]]]
  | XIncr v k => [WValue (lit "incr"); WValue v; WValue (show_Z k)]
  | XIf c t => [WValue (lit "if"); WValue (rexpr c); WValue (10 :: render_block2 t)]
  | XIfElse c t e => [WValue (lit "if"); WValue (rexpr c); WValue (10 :: render_block2 t);
                     WValue (lit "else"); WValue (10 :: render_block2 e)]
  | XWhile c b => [WValue (lit "while"); WValue (rexpr c); WValue (10 :: render_block2 b)]
  | XBreak => [WValue (lit "break")]
  | XContinue => [WValue (lit "continue")]
  | XFor i c nx b => [WValue (lit "for"); WValue (10 :: render_block2 i); WValue (rexpr c);
                      WValue (10 :: render_block2 nx); WValue (10 :: render_block2 b)]
  | XCatch v b => [WValue (lit "set"); WValue v; WScript [[WValue (lit "catch"); WValue (10 :: render_block2 b)]]]
  | XForeach v zs b => [WValue (lit "foreach"); WValue v; WValue (ltext zs); WValue (10 :: render_block2 b)]
  end.
Fixpoint ast_block2 (b : block2) : script :=
  match b with B2Nil => [] | B2Cons s r => ast_stmt2 s :: ast_block2 r end.

Lemma ast_body_word2 b : ast_word (body_word2 b) = WValue (10 :: render_block2 b).
Proof.
  unfold body_word2. cbn [ast_word flat_map bseg_value nl1 app]. rewrite (proj2 bs_value2). reflexivity.
Qed.

Lemma ast_words_of2 s : words_ast ast_word false (words_of2 s) = ast_stmt2 s.
Proof.
  destruct s; cbn [words_of2 words_ast ast_stmt2]; rewrite ?andb_false_r, ?ast_bw, ?ast_cond_word, ?ast_body_word2;
    try reflexivity.
  - cbn [ast_word fold_left tok_seg items_with ast_item words_ast].
    unfold cond_word at 1. cbn [star_word]. rewrite rexpr_not_star. cbn [andb].
    rewrite ast_bw, ast_cond_word. reflexivity.
  - cbn [ast_word fold_left tok_seg items_with ast_item words_ast].
    assert (Hs : star_word (body_word2 b) = false).
    { unfold body_word2. cbn [star_word]. destruct (bs_block2 b); reflexivity. }
    rewrite Hs. cbn [andb]. rewrite ast_bw, ast_body_word2. reflexivity.
  - cbn [ast_word flat_map bseg_value]. rewrite app_nil_r. reflexivity.
Qed.

Lemma ast_cst_items2 b : forall p,
  ast_items false p (cst_block2 b) =
  ast_block2 b ++ (if p || match b with B2Nil => false | _ => true end then [[]] else []).
Proof.
  unfold ast_items. induction b as [|s r IH]; intros p.
  - cbn [cst_block2 items_with ast_block2 app]. rewrite orb_false_r. reflexivity.
  - cbn [cst_block2 items_with ast_block2 app]. unfold cst_stmt2 at 1. cbn [ast_item].
    change (cmd_bad false [] nl1) with false. rewrite ast_words_of2.
    cbn [item_pend]. change (str_eqb nl1 [c_nl]) with true. rewrite IH.
    rewrite orb_true_r. cbn [orb]. reflexivity.
Qed.

(* the top-level program text and the text of a body ("\n" followed by the block2) *)
Theorem parse_block2 b : wf_block2 b = true ->
  parse (u_alnum std_uni) (render_block2 b) =
  POk (ast_block2 b ++ match b with B2Nil => [] | _ => [[]] end) [].
Proof.
  intros H. rewrite <- render_cst_block2.
  rewrite (parse_render_model _ (cst_block2 b) name_ok_std (wf_cst_items2 b H)).
  unfold ast_of_model. rewrite ast_cst_items2. destruct b; reflexivity.
Qed.

Theorem parse_body2 b : wf_block2 b = true ->
  parse (u_alnum std_uni) (10 :: render_block2 b) = POk (ast_block2 b ++ [[]]) [].
Proof.
  intros H.
  assert (E : 10 :: render_block2 b = SpecGrammar.render (IEmpty [] nl1 :: cst_block2 b)).
  { unfold SpecGrammar.render. cbn [flat_map render_item app nl1].
    change (flat_map render_item (cst_block2 b)) with (SpecGrammar.render (cst_block2 b)).
    rewrite render_cst_block2. reflexivity. }
  rewrite E. rewrite (parse_render_model _ _ name_ok_std).
  - unfold ast_of_model, ast_items. cbn [items_with ast_item].
    change (str_eqb nl1 [c_semi]) with false. cbv iota.
    change (items_with (ast_item false) (cst_block2 b) true) with (ast_items false true (cst_block2 b)).
    rewrite ast_cst_items2. reflexivity.
  - unfold wf. cbn [wf_items]. pose proof (wf_cst_items2 b H) as W.
    destruct (cst_block2 b) eqn:Eb; [reflexivity|].
    cbn [wf_item forallb]. change (str_eqb nl1 [c_semi] || str_eqb nl1 [c_nl]) with true.
    cbn [andb]. exact W.
Qed.

Local Open Scope Z_scope.

Definition pre2 (st : interp) (d : N) : Prop :=
  cmds_ok2 st /\ (1 <= i_levels st)%N /\ (i_levels st + d <= i_limit st)%N.

Lemma pre_same2 st st' d : same_ctl st st' -> pre2 st d -> pre2 st' d.
Proof.
  intros Hs (H1 & H2 & H3). pose proof (cmds_ok2_same st st' Hs H1) as Hc.
  destruct Hs as (_ & E1 & E2). unfold pre2. rewrite E1, E2. auto.
Qed.
Lemma pre_le2 st d d' : (d' <= d)%N -> pre2 st d -> pre2 st d'.
Proof. intros Hd (H1 & H2 & H3). unfold pre2. split; [exact H1|]. split; [exact H2|]. lia. Qed.

Definition StmtOK2 (n : nat) : Prop :=
  forall s en en' o, exec2 n en s = (en', o) -> o <> OFuel -> wf_stmt2 s = true ->
  exists F, forall f, (F <= f)%nat -> forall st res0, Rel en st -> pre2 st (depth_stmt2 s) ->
  exists st' r, eval_cmds (EX f) st [ast_stmt2 s] res0 = (st', r) /\ res_ok o r /\ Rel en' st' /\ same_ctl st st'.

Definition BlockOK2 (n : nat) : Prop :=
  forall b en last en' o, run_with2 (exec2 n) en b last = (en', o) -> o <> OFuel -> wf_block2 b = true ->
  exists F, forall f, (F <= f)%nat -> forall st res0, as_str res0 = last -> Rel en st -> pre2 st (depth_block2 b) ->
  exists st' r, eval_cmds (EX f) st (ast_block2 b) res0 = (st', r) /\ res_ok o r /\ Rel en' st' /\ same_ctl st st'.

Definition BodyOK2 (n : nat) : Prop :=
  forall b en en' o, run_with2 (exec2 n) en b [] = (en', o) -> o <> OFuel -> wf_block2 b = true ->
  exists F, forall f, (F <= f)%nat -> forall st, Rel en st -> cmds_ok2 st ->
    (i_levels st + 1 + depth_block2 b <= i_limit st)%N ->
  exists st' r, eval_value_with std_uni (EX f) st (VStr (10%N :: render_block2 b)) = (st', r) /\
                res_ok (finish (i_levels st =? 0)%N o) r /\ Rel en' st' /\ same_ctl st st'.

Definition WhileOK2 (n : nat) : Prop :=
  forall c b en en' o, exec2 n en (XWhile c b) = (en', o) -> o <> OFuel -> wf_stmt2 (XWhile c b) = true ->
  exists F, forall f k, (F <= f)%nat -> (F <= k)%nat -> forall st, Rel en st -> pre2 st (1 + depth_block2 b) ->
  exists st' r, while_loop (mkrec f) k st (VStr (rexpr c)) (VStr (10%N :: render_block2 b)) = (st', r) /\
                res_ok o r /\ Rel en' st' /\ same_ctl st st'.

Lemma stmt_block2 n : StmtOK2 n -> BlockOK2 n.
Proof.
  intros HS b. induction b as [|s r IH]; intros en last en' o H Ho Hw.
  - cbn [run_with2] in H. injection H as <- <-. exists O. intros f _ st res0 Hl HR Hp.
    exists st, (Ok res0). split; [reflexivity|]. split; [cbn [res_ok]; eauto|]. split; [exact HR|apply same_ctl_refl].
  - cbn [run_with2] in H. cbn [wf_block2] in Hw. apply andb_true_iff in Hw. destruct Hw as [Hws Hwr].
    destruct (exec2 n en s) as [en1 o1] eqn:Es.
    assert (Hd1 : (depth_stmt2 s <= depth_block2 (B2Cons s r))%N) by (cbn [depth_block2]; lia).
    assert (Hd2 : (depth_block2 r <= depth_block2 (B2Cons s r))%N) by (cbn [depth_block2]; lia).
    destruct o1 as [v| | |m|].
    + destruct (HS s en en1 (ONorm v) Es ltac:(discriminate) Hws) as (F1 & HF1).
      destruct (IH en1 v en' o H Ho Hwr) as (F2 & HF2).
      exists (max F1 F2). intros f Hf st res0 Hl HR Hp.
      destruct (HF1 f ltac:(lia) st res0 HR (pre_le2 _ _ _ Hd1 Hp)) as (st1 & r1 & E1 & (a & -> & Ha) & HR1 & Hs1).
      destruct (HF2 f ltac:(lia) st1 a Ha HR1 (pre_same2 _ _ _ Hs1 (pre_le2 _ _ _ Hd2 Hp)))
        as (st2 & r2 & E2 & Hr2 & HR2 & Hs2).
      exists st2, r2. split; [|split; [exact Hr2|split; [exact HR2|exact (same_ctl_trans _ _ _ Hs1 Hs2)]]].
      cbn [ast_block2]. change (ast_stmt2 s :: ast_block2 r) with ([ast_stmt2 s] ++ ast_block2 r).
      unfold eval_cmds in *. rewrite eval_cmds_with_app, E1. cbn [bind]. exact E2.
    + injection H as <- <-.
      destruct (HS s en en1 OBreak Es ltac:(discriminate) Hws) as (F1 & HF1).
      exists F1. intros f Hf st res0 Hl HR Hp.
      destruct (HF1 f Hf st res0 HR (pre_le2 _ _ _ Hd1 Hp)) as (st1 & r1 & E1 & Hr1 & HR1 & Hs1).
      exists st1, r1. split; [|auto].
      destruct (res_ok_abrupt _ _ Hr1 ltac:(discriminate)) as [e ->].
      cbn [ast_block2]. change (ast_stmt2 s :: ast_block2 r) with ([ast_stmt2 s] ++ ast_block2 r).
      unfold eval_cmds in *. rewrite eval_cmds_with_app, E1. reflexivity.
    + injection H as <- <-.
      destruct (HS s en en1 OContinue Es ltac:(discriminate) Hws) as (F1 & HF1).
      exists F1. intros f Hf st res0 Hl HR Hp.
      destruct (HF1 f Hf st res0 HR (pre_le2 _ _ _ Hd1 Hp)) as (st1 & r1 & E1 & Hr1 & HR1 & Hs1).
      exists st1, r1. split; [|auto].
      destruct (res_ok_abrupt _ _ Hr1 ltac:(discriminate)) as [e ->].
      cbn [ast_block2]. change (ast_stmt2 s :: ast_block2 r) with ([ast_stmt2 s] ++ ast_block2 r).
      unfold eval_cmds in *. rewrite eval_cmds_with_app, E1. reflexivity.
    + injection H as <- <-.
      destruct (HS s en en1 (OErr m) Es ltac:(discriminate) Hws) as (F1 & HF1).
      exists F1. intros f Hf st res0 Hl HR Hp.
      destruct (HF1 f Hf st res0 HR (pre_le2 _ _ _ Hd1 Hp)) as (st1 & r1 & E1 & Hr1 & HR1 & Hs1).
      exists st1, r1. split; [|auto].
      destruct (res_ok_abrupt _ _ Hr1 ltac:(discriminate)) as [e ->].
      cbn [ast_block2]. change (ast_stmt2 s :: ast_block2 r) with ([ast_stmt2 s] ++ ast_block2 r).
      unfold eval_cmds in *. rewrite eval_cmds_with_app, E1. reflexivity.
    + injection H as <- <-. congruence.
Qed.

Lemma block_body2 n : BlockOK2 n -> BodyOK2 n.
Proof.
  intros HB b en en' o H Ho Hw. destruct (HB b en [] en' o H Ho Hw) as (F & HF).
  exists F. intros f Hf st HR Hc Hlim.
  apply (eval_value_block (EX f) en' st _ (ast_block2 b ++ [[]]) o (parse_body2 b Hw)); [lia|].
  unfold eval_script. rewrite eval_cmds_trailing.
  apply (HF f Hf (set_levels st (i_levels st + 1)) v_empty eq_refl); [exact HR|].
  split; [exact Hc|]. cbn [i_levels i_limit set_levels]. lia.
Qed.

Lemma while_step2 n : BodyOK2 n -> WhileOK2 n -> WhileOK2 (S n).
Proof.
  intros HB IHw c b en en' o H Ho Hw. cbn [exec2] in H. pose proof Hw as Hw0.
  cbn [wf_stmt2] in Hw. apply andb_true_iff in Hw. destruct Hw as [Hc Hb].
  destruct (xev_total en c Hc) as [[z Ez]|[m Em]].
  2:{ rewrite Em in H. injection H as <- <-. exists 1%nat. intros f k Hf Hk st HR Hp.
      destruct k as [|k]; [lia|]. cbn [while_loop].
      destruct (expr_bool_err f en st c _ HR Hc Em) as (st' & E & HR' & Hs'). rewrite E. cbn [bind].
      exists st'. eexists. split; [reflexivity|]. split; [|auto].
      cbn [res_ok err_msg]. eexists. split; [reflexivity|]. split; reflexivity. }
  rewrite Ez in H. destruct (z =? 0) eqn:Ez0.
  { injection H as <- <-. exists 1%nat. intros f k Hf Hk st HR Hp.
    destruct k as [|k]; [lia|]. cbn [while_loop]. rewrite (expr_bool_ok f en st c z HR Hc Ez). cbn [bind].
    rewrite Ez0. cbn [negb]. exists st, (Ok v_empty). split; [reflexivity|].
    split; [cbn [res_ok]; exists v_empty; auto|]. split; [exact HR|apply same_ctl_refl]. }
  destruct (run_with2 (exec2 n) en b []) as [en1 o1] eqn:Eb.
  assert (Ho1 : o1 <> OFuel) by (intros ->; injection H as <- <-; congruence).
  destruct (HB b en en1 o1 Eb Ho1 Hb) as (F1 & HF1).
  assert (Hstep : forall f k st, (F1 <= f)%nat -> Rel en st -> pre2 st (1 + depth_block2 b) ->
            exists st1 r1, while_loop (mkrec f) (S k) st (VStr (rexpr c)) (VStr (10%N :: render_block2 b)) =
              (let '(st1, r) := (st1, r1) in
               match loop_body_outcome r with
               | Some true => while_loop (mkrec f) k st1 (VStr (rexpr c)) (VStr (10%N :: render_block2 b))
               | Some false => ok_empty st1
               | None => (st1, r)
               end) /\ res_ok o1 r1 /\ Rel en1 st1 /\ same_ctl st st1).
  { intros f k st Hf HR (Hcm & Hl1 & Hl2). cbn [while_loop].
    rewrite (expr_bool_ok f en st c z HR Hc Ez). cbn [bind]. rewrite Ez0. cbn [negb r_eval mkrec].
    destruct (HF1 f Hf st HR Hcm ltac:(lia)) as (st1 & r1 & E1 & Hr1 & HR1 & Hs1).
    rewrite (levels_nonzero st Hl1) in Hr1. cbn [finish] in Hr1.
    exists st1, r1. rewrite E1. auto. }
  destruct o1 as [v| | |m|].
  - destruct (IHw c b en1 en' o H Ho Hw0) as (F2 & HF2).
    exists (S (max F1 F2)). intros f k Hf Hk st HR Hp. destruct k as [|k]; [lia|].
    destruct (Hstep f k st ltac:(lia) HR Hp) as (st1 & r1 & E1 & (a & -> & _) & HR1 & Hs1).
    rewrite E1. cbn [loop_body_outcome].
    destruct (HF2 f k ltac:(lia) ltac:(lia) st1 HR1 (pre_same2 _ _ _ Hs1 Hp)) as (st2 & r2 & E2 & Hr2 & HR2 & Hs2).
    exists st2, r2. split; [exact E2|]. split; [exact Hr2|]. split; [exact HR2|exact (same_ctl_trans _ _ _ Hs1 Hs2)].
  - injection H as <- <-. exists (S F1). intros f k Hf Hk st HR Hp. destruct k as [|k]; [lia|].
    destruct (Hstep f k st ltac:(lia) HR Hp) as (st1 & r1 & E1 & Hr1 & HR1 & Hs1).
    cbn [res_ok] in Hr1. subst r1. rewrite E1. cbn [loop_body_outcome molt_break x_code].
    exists st1, (Ok v_empty). split; [reflexivity|]. split; [cbn [res_ok]; exists v_empty; auto|auto].
  - destruct (IHw c b en1 en' o H Ho Hw0) as (F2 & HF2).
    exists (S (max F1 F2)). intros f k Hf Hk st HR Hp. destruct k as [|k]; [lia|].
    destruct (Hstep f k st ltac:(lia) HR Hp) as (st1 & r1 & E1 & Hr1 & HR1 & Hs1).
    cbn [res_ok] in Hr1. subst r1. rewrite E1. cbn [loop_body_outcome molt_continue x_code].
    destruct (HF2 f k ltac:(lia) ltac:(lia) st1 HR1 (pre_same2 _ _ _ Hs1 Hp)) as (st2 & r2 & E2 & Hr2 & HR2 & Hs2).
    exists st2, r2. split; [exact E2|]. split; [exact Hr2|]. split; [exact HR2|exact (same_ctl_trans _ _ _ Hs1 Hs2)].
  - injection H as <- <-. exists (S F1). intros f k Hf Hk st HR Hp. destruct k as [|k]; [lia|].
    destruct (Hstep f k st ltac:(lia) HR Hp) as (st1 & r1 & E1 & Hr1 & HR1 & Hs1).
    pose proof Hr1 as Hr1'. cbn [res_ok] in Hr1. destruct Hr1 as (e & -> & Hce & Hve).
    rewrite E1. cbn [loop_body_outcome]. rewrite Hce.
    exists st1, (Err e). split; [reflexivity|]. auto.
  - congruence.
Qed.

Definition ForOK2 (n : nat) : Prop :=
  forall c nx b en en' o, exec2 n en (XFor B2Nil c nx b) = (en', o) -> o <> OFuel ->
  wf_expr c = true -> wf_block2 nx = true -> wf_block2 b = true ->
  exists F, forall f k, (F <= f)%nat -> (F <= k)%nat -> forall st, Rel en st ->
    pre2 st (1 + N.max (depth_block2 nx) (depth_block2 b)) ->
  exists st' r, for_loop (mkrec f) k st (VStr (rexpr c)) (VStr (10%N :: render_block2 nx))
                  (VStr (10%N :: render_block2 b)) = (st', r) /\
                res_ok o r /\ Rel en' st' /\ same_ctl st st'.

(* a body evaluated inside a command (level >= 1): no top-level conversion *)
Lemma body_run2 n : BodyOK2 n ->
  forall b en en1 o1, run_with2 (exec2 n) en b [] = (en1, o1) -> o1 <> OFuel -> wf_block2 b = true ->
  exists F, forall f, (F <= f)%nat -> forall st, Rel en st -> cmds_ok2 st -> (1 <= i_levels st)%N ->
    (i_levels st + 1 + depth_block2 b <= i_limit st)%N ->
  exists st1 r1, eval_value_with std_uni (EX f) st (VStr (10%N :: render_block2 b)) = (st1, r1) /\
                 res_ok o1 r1 /\ Rel en1 st1 /\ same_ctl st st1.
Proof.
  intros HB b en en1 o1 H Ho Hw. destruct (HB b en en1 o1 H Ho Hw) as (F & HF). exists F.
  intros f Hf st HR Hc Hl1 Hl2. destruct (HF f Hf st HR Hc Hl2) as (st1 & r1 & E & Hr & HR1 & Hs).
  rewrite (levels_nonzero st Hl1) in Hr. cbn [finish] in Hr. exists st1, r1. auto.
Qed.

Definition continue_msg : str := lit "invoked ""continue"" outside of a loop".

Lemma for_step2 n : BodyOK2 n -> ForOK2 n -> ForOK2 (S n).
Proof.
  intros HB IHf c nx b en en' o H Ho Hc Hnx Hb. cbn [exec2 run_with2] in H.
  destruct (xev_total en c Hc) as [[z Ez]|[m Em]].
  2:{ rewrite Em in H. injection H as <- <-. exists 1%nat. intros f k Hf Hk st HR Hp.
      destruct k as [|k]; [lia|]. cbn [for_loop].
      destruct (expr_bool_err f en st c _ HR Hc Em) as (st' & E & HR' & Hs'). rewrite E. cbn [bind].
      exists st'. eexists. split; [reflexivity|]. split; [|auto].
      cbn [res_ok err_msg]. eexists. split; [reflexivity|]. split; reflexivity. }
  rewrite Ez in H. destruct (z =? 0) eqn:Ez0.
  { injection H as <- <-. exists 1%nat. intros f k Hf Hk st HR Hp.
    destruct k as [|k]; [lia|]. cbn [for_loop]. rewrite (expr_bool_ok f en st c z HR Hc Ez). cbn [bind].
    rewrite Ez0. cbn [negb]. exists st, (Ok v_empty). split; [reflexivity|].
    split; [cbn [res_ok]; exists v_empty; auto|]. split; [exact HR|apply same_ctl_refl]. }
  (* what happens after a completed or continued body: next, then the loop again *)
  assert (Hnext : forall en1,
            match run_with2 (exec2 n) en1 nx [] with
            | (en2, ONorm _) => exec2 n en2 (XFor B2Nil c nx b)
            | (en2, OBreak) => (en2, ONorm [])
            | (en2, OContinue) => (en2, OErr (lit "invoked ""continue"" outside of a loop"))
            | other => other
            end = (en', o) ->
            exists F, forall f k, (F <= f)%nat -> (F <= k)%nat -> forall st1, Rel en1 st1 ->
              pre2 st1 (1 + N.max (depth_block2 nx) (depth_block2 b)) ->
            exists st' r,
              (let '(st2, r2) := eval_value_with std_uni (EX f) st1 (VStr (10%N :: render_block2 nx)) in
               match r2 with
               | Ok _ => for_loop (mkrec f) k st2 (VStr (rexpr c)) (VStr (10%N :: render_block2 nx))
                           (VStr (10%N :: render_block2 b))
               | Err e => match x_code e with
                          | CBreak => ok_empty st2
                          | CContinue => fail st2 (lit "invoked ""continue"" outside of a loop")
                          | _ => (st2, r2)
                          end
               | _ => (st2, r2)
               end) = (st', r) /\ res_ok o r /\ Rel en' st' /\ same_ctl st1 st').
  { intros en1 H1. destruct (run_with2 (exec2 n) en1 nx []) as [en2 o2] eqn:En.
    assert (Ho2 : o2 <> OFuel) by (intros ->; injection H1 as <- <-; congruence).
    destruct (body_run2 n HB nx en1 en2 o2 En Ho2 Hnx) as (F2 & HF2).
    destruct o2 as [v| | |m|].
    - destruct (IHf c nx b en2 en' o H1 Ho Hc Hnx Hb) as (F3 & HF3).
      exists (max F2 F3). intros f k Hf Hk st1 HR1 Hp. pose proof Hp as (Hcm & Hl1 & Hl2).
      destruct (HF2 f ltac:(lia) st1 HR1 Hcm Hl1 ltac:(lia)) as (st2 & r2 & E2 & (a & -> & _) & HR2 & Hs2).
      rewrite E2.
      destruct (HF3 f k ltac:(lia) ltac:(lia) st2 HR2 (pre_same2 _ _ _ Hs2 Hp)) as (st3 & r3 & E3 & Hr3 & HR3 & Hs3).
      exists st3, r3. split; [exact E3|]. split; [exact Hr3|]. split; [exact HR3|exact (same_ctl_trans _ _ _ Hs2 Hs3)].
    - injection H1 as <- <-. exists F2. intros f k Hf Hk st1 HR1 Hp. pose proof Hp as (Hcm & Hl1 & Hl2).
      destruct (HF2 f ltac:(lia) st1 HR1 Hcm Hl1 ltac:(lia)) as (st2 & r2 & E2 & Hr2 & HR2 & Hs2).
      cbn [res_ok] in Hr2. subst r2. rewrite E2. cbn [molt_break x_code].
      exists st2, (Ok v_empty). split; [reflexivity|]. split; [cbn [res_ok]; exists v_empty; auto|auto].
    - injection H1 as <- <-. exists F2. intros f k Hf Hk st1 HR1 Hp. pose proof Hp as (Hcm & Hl1 & Hl2).
      destruct (HF2 f ltac:(lia) st1 HR1 Hcm Hl1 ltac:(lia)) as (st2 & r2 & E2 & Hr2 & HR2 & Hs2).
      cbn [res_ok] in Hr2. subst r2. rewrite E2. cbn [molt_continue x_code].
      exists st2. eexists. split; [reflexivity|]. split; [|auto].
      cbn [res_ok]. eexists. split; [reflexivity|]. split; reflexivity.
    - injection H1 as <- <-. exists F2. intros f k Hf Hk st1 HR1 Hp. pose proof Hp as (Hcm & Hl1 & Hl2).
      destruct (HF2 f ltac:(lia) st1 HR1 Hcm Hl1 ltac:(lia)) as (st2 & r2 & E2 & Hr2 & HR2 & Hs2).
      pose proof Hr2 as Hr2'. cbn [res_ok] in Hr2. destruct Hr2 as (e & -> & Hce & Hve).
      rewrite E2, Hce. exists st2, (Err e). split; [reflexivity|]. auto.
    - congruence. }
  destruct (run_with2 (exec2 n) en b []) as [en1 o1] eqn:Eb.
  assert (Ho1 : o1 <> OFuel) by (intros ->; injection H as <- <-; congruence).
  destruct (body_run2 n HB b en en1 o1 Eb Ho1 Hb) as (F1 & HF1).
  assert (Hstep : forall f k st, (F1 <= f)%nat -> Rel en st ->
            pre2 st (1 + N.max (depth_block2 nx) (depth_block2 b)) ->
            exists st1 r1, eval_value_with std_uni (EX f) st (VStr (10%N :: render_block2 b)) = (st1, r1) /\
              for_loop (mkrec f) (S k) st (VStr (rexpr c)) (VStr (10%N :: render_block2 nx))
                (VStr (10%N :: render_block2 b)) =
              match loop_body_outcome r1 with
              | Some true =>
                  let '(st2, r2) := eval_value_with std_uni (EX f) st1 (VStr (10%N :: render_block2 nx)) in
                  match r2 with
                  | Ok _ => for_loop (mkrec f) k st2 (VStr (rexpr c)) (VStr (10%N :: render_block2 nx))
                              (VStr (10%N :: render_block2 b))
                  | Err e => match x_code e with
                             | CBreak => ok_empty st2
                             | CContinue => fail st2 (lit "invoked ""continue"" outside of a loop")
                             | _ => (st2, r2)
                             end
                  | _ => (st2, r2)
                  end
              | Some false => ok_empty st1
              | None => (st1, r1)
              end /\ res_ok o1 r1 /\ Rel en1 st1 /\ same_ctl st st1).
  { intros f k st Hf HR (Hcm & Hl1 & Hl2). cbn [for_loop].
    rewrite (expr_bool_ok f en st c z HR Hc Ez). cbn [bind]. rewrite Ez0. cbn [negb r_eval mkrec].
    destruct (HF1 f Hf st HR Hcm Hl1 ltac:(lia)) as (st1 & r1 & E1 & Hr1 & HR1 & Hs1).
    exists st1, r1. rewrite E1. auto. }
  destruct o1 as [v| | |m|].
  - destruct (Hnext en1 H) as (F2 & HF2).
    exists (S (max F1 F2)). intros f k Hf Hk st HR Hp. destruct k as [|k]; [lia|].
    destruct (Hstep f k st ltac:(lia) HR Hp) as (st1 & r1 & _ & E1 & (a & -> & _) & HR1 & Hs1).
    rewrite E1. cbn [loop_body_outcome].
    destruct (HF2 f k ltac:(lia) ltac:(lia) st1 HR1 (pre_same2 _ _ _ Hs1 Hp)) as (st2 & r2 & E2 & Hr2 & HR2 & Hs2).
    exists st2, r2. split; [exact E2|]. split; [exact Hr2|]. split; [exact HR2|exact (same_ctl_trans _ _ _ Hs1 Hs2)].
  - injection H as <- <-. exists (S F1). intros f k Hf Hk st HR Hp. destruct k as [|k]; [lia|].
    destruct (Hstep f k st ltac:(lia) HR Hp) as (st1 & r1 & _ & E1 & Hr1 & HR1 & Hs1).
    cbn [res_ok] in Hr1. subst r1. rewrite E1. cbn [loop_body_outcome molt_break x_code].
    exists st1, (Ok v_empty). split; [reflexivity|]. split; [cbn [res_ok]; exists v_empty; auto|auto].
  - destruct (Hnext en1 H) as (F2 & HF2).
    exists (S (max F1 F2)). intros f k Hf Hk st HR Hp. destruct k as [|k]; [lia|].
    destruct (Hstep f k st ltac:(lia) HR Hp) as (st1 & r1 & _ & E1 & Hr1 & HR1 & Hs1).
    cbn [res_ok] in Hr1. subst r1. rewrite E1. cbn [loop_body_outcome molt_continue x_code].
    destruct (HF2 f k ltac:(lia) ltac:(lia) st1 HR1 (pre_same2 _ _ _ Hs1 Hp)) as (st2 & r2 & E2 & Hr2 & HR2 & Hs2).
    exists st2, r2. split; [exact E2|]. split; [exact Hr2|]. split; [exact HR2|exact (same_ctl_trans _ _ _ Hs1 Hs2)].
  - injection H as <- <-. exists (S F1). intros f k Hf Hk st HR Hp. destruct k as [|k]; [lia|].
    destruct (Hstep f k st ltac:(lia) HR Hp) as (st1 & r1 & _ & E1 & Hr1 & HR1 & Hs1).
    pose proof Hr1 as Hr1'. cbn [res_ok] in Hr1. destruct Hr1 as (e & -> & Hce & Hve).
    rewrite E1. cbn [loop_body_outcome]. rewrite Hce.
    exists st1, (Err e). split; [reflexivity|]. auto.
  - congruence.
Qed.

(* ---- for, catch: the commands ---- *)
Lemma ca_for a b c d e : check_args "cmd_for" [a; b; c; d; e] = Ok tt. Proof. reflexivity. Qed.
Lemma ca_catch a b : check_args "cmd_catch" [a; b] = Ok tt. Proof. reflexivity. Qed.

Definition code_of (o : outcome) : Z :=
  match o with OErr _ => 1 | OBreak => 3 | OContinue => 4 | _ => 0 end.

Lemma cmd_catch2 rec st B st1 r1 o1 :
  r_eval rec st (VStr B) = (st1, r1) -> res_ok o1 r1 ->
  cmd_catch rec st [VStr (lit "catch"); VStr B] = (st1, Ok (VInt (code_of o1))).
Proof.
  intros E Hr. unfold cmd_catch. rewrite ca_catch. cbn [lift bind arg nth]. rewrite E.
  destruct o1 as [v| | |m|]; cbn [res_ok] in Hr.
  - destruct Hr as (a & -> & _). reflexivity.
  - subst r1. reflexivity.
  - subst r1. reflexivity.
  - destruct Hr as (e & -> & Hc & _). rewrite Hc. reflexivity.
  - contradiction.
Qed.

Lemma subst_ok exec st a b cmd st2 v :
  assoc_get a (i_cmds st) = Some cmd -> exec st cmd [VStr a; VStr b] = (st2, Ok v) ->
  Eval.eval_word exec st (WScript [[WValue a; WValue b]]) = (st2, Ok v).
Proof.
  intros Hc He. cbn [Eval.eval_word eval_cmds_with eval_words_with rev app as_str]. rewrite Hc, He. reflexivity.
Qed.

(* ---- foreach ---- *)
Lemma ca_foreach a b c d : check_args "cmd_foreach" [a; b; c; d] = Ok tt. Proof. reflexivity. Qed.

Definition zvals (zs : list Z) : list value := map (fun z => VStr (show_Z z)) zs.

Definition ForeachOK2 (n : nat) : Prop :=
  forall v zs b en en' o, exec2 n en (XForeach v zs b) = (en', o) -> o <> OFuel ->
  good_name v = true -> forallb in_i64 zs = true -> wf_block2 b = true ->
  exists F, forall f k, (F <= f)%nat -> (length zs < k)%nat -> forall st, Rel en st ->
    pre2 st (1 + depth_block2 b) ->
  exists st' r, foreach_loop (mkrec f) k st [VStr v] (zvals zs) (VStr (10%N :: render_block2 b)) = (st', r) /\
                res_ok o r /\ Rel en' st' /\ same_ctl st st'.

Lemma foreach_step2 n : BodyOK2 n -> ForeachOK2 n -> ForeachOK2 (S n).
Proof.
  intros HB IH v zs b en en' o H Ho Hv Hzs Hb. cbn [exec2] in H.
  destruct zs as [|z zr].
  { injection H as <- <-. exists O. intros f k _ Hk st HR Hp. destruct k as [|k]; [cbn in Hk; lia|].
    exists st, (Ok v_empty). split; [reflexivity|]. split; [cbn [res_ok]; exists v_empty; auto|].
    split; [exact HR|apply same_ctl_refl]. }
  cbn [forallb] in Hzs. apply andb_true_iff in Hzs. destruct Hzs as [Hz Hzr].
  destruct (run_with2 (exec2 n) (assoc_set v z en) b []) as [en1 o1] eqn:Eb.
  assert (Ho1 : o1 <> OFuel) by (intros ->; injection H as <- <-; congruence).
  destruct (body_run2 n HB b _ en1 o1 Eb Ho1 Hb) as (F1 & HF1).
  assert (Hstep : forall f k st, (F1 <= f)%nat -> Rel en st -> pre2 st (1 + depth_block2 b) ->
            exists st1 r1,
              foreach_loop (mkrec f) (S k) st [VStr v] (zvals (z :: zr)) (VStr (10%N :: render_block2 b)) =
              match loop_body_outcome r1 with
              | Some true => foreach_loop (mkrec f) k st1 [VStr v] (zvals zr) (VStr (10%N :: render_block2 b))
              | Some false => ok_empty st1
              | None => (st1, r1)
              end /\ res_ok o1 r1 /\ Rel en1 st1 /\ same_ctl st st1).
  { intros f k st Hf HR (Hcm & Hl1 & Hl2). cbn [foreach_loop zvals map assign_vars].
    destruct (st_set_var_rel en st v (VStr (show_Z z)) z HR Hv (int_val_str z Hz)) as (sta & Ea & HRa & Hsa).
    rewrite Ea. cbn [bind ret r_eval mkrec].
    pose proof (cmds_ok2_same _ _ Hsa Hcm) as Hcma. destruct Hsa as (Ec & Elv & Elim).
    destruct (HF1 f Hf sta HRa Hcma ltac:(rewrite Elv; exact Hl1) ltac:(rewrite Elv, Elim; lia))
      as (st1 & r1 & E1 & Hr1 & HR1 & Hs1).
    exists st1, r1. rewrite E1. split; [reflexivity|]. split; [exact Hr1|]. split; [exact HR1|].
    apply (same_ctl_trans _ sta); [repeat split; assumption|exact Hs1]. }
  destruct o1 as [v1| | |m|].
  - destruct (IH v zr b en1 en' o H Ho Hv Hzr Hb) as (F2 & HF2).
    exists (max F1 F2). intros f k Hf Hk st HR Hp. destruct k as [|k]; [lia|]. cbn [length] in Hk.
    destruct (Hstep f k st ltac:(lia) HR Hp) as (st1 & r1 & E1 & (a & -> & _) & HR1 & Hs1).
    rewrite E1. cbn [loop_body_outcome].
    destruct (HF2 f k ltac:(lia) ltac:(lia) st1 HR1 (pre_same2 _ _ _ Hs1 Hp)) as (st2 & r2 & E2 & Hr2 & HR2 & Hs2).
    exists st2, r2. split; [exact E2|]. split; [exact Hr2|]. split; [exact HR2|exact (same_ctl_trans _ _ _ Hs1 Hs2)].
  - injection H as <- <-. exists F1. intros f k Hf Hk st HR Hp. destruct k as [|k]; [lia|].
    destruct (Hstep f k st ltac:(lia) HR Hp) as (st1 & r1 & E1 & Hr1 & HR1 & Hs1).
    cbn [res_ok] in Hr1. subst r1. rewrite E1. cbn [loop_body_outcome molt_break x_code].
    exists st1, (Ok v_empty). split; [reflexivity|]. split; [cbn [res_ok]; exists v_empty; auto|auto].
  - destruct (IH v zr b en1 en' o H Ho Hv Hzr Hb) as (F2 & HF2).
    exists (max F1 F2). intros f k Hf Hk st HR Hp. destruct k as [|k]; [lia|]. cbn [length] in Hk.
    destruct (Hstep f k st ltac:(lia) HR Hp) as (st1 & r1 & E1 & Hr1 & HR1 & Hs1).
    cbn [res_ok] in Hr1. subst r1. rewrite E1. cbn [loop_body_outcome molt_continue x_code].
    destruct (HF2 f k ltac:(lia) ltac:(lia) st1 HR1 (pre_same2 _ _ _ Hs1 Hp)) as (st2 & r2 & E2 & Hr2 & HR2 & Hs2).
    exists st2, r2. split; [exact E2|]. split; [exact Hr2|]. split; [exact HR2|exact (same_ctl_trans _ _ _ Hs1 Hs2)].
  - injection H as <- <-. exists F1. intros f k Hf Hk st HR Hp. destruct k as [|k]; [lia|].
    destruct (Hstep f k st ltac:(lia) HR Hp) as (st1 & r1 & E1 & Hr1 & HR1 & Hs1).
    pose proof Hr1 as Hr1'. cbn [res_ok] in Hr1. destruct Hr1 as (e & -> & Hce & Hve).
    rewrite E1. cbn [loop_body_outcome]. rewrite Hce.
    exists st1, (Err e). split; [reflexivity|]. auto.
  - congruence.
Qed.

Lemma words4 exec st a b c d :
  eval_words exec st [WValue a; WValue b; WValue c; WValue d] [] = (st, Ok [VStr a; VStr b; VStr c; VStr d]).
Proof. reflexivity. Qed.

Lemma stmt_step2 n : BodyOK2 n -> WhileOK2 (S n) -> ForOK2 (S n) -> ForeachOK2 (S n) -> StmtOK2 (S n).
Proof.
  intros HB HW HFo HFe s en en' o H Ho Hw. destruct s as [v e|v k|c t|c t e|c b| | |i c nx b|v b|v zs b].
  - (* set *)
    cbn [exec2] in H. cbn [wf_stmt2] in Hw. apply andb_true_iff in Hw. destruct Hw as [Hv He].
    exists 1%nat. intros f Hf st res0 HR (Hcm & Hl1 & Hl2). destruct f as [|f]; [lia|].
    pose proof (expr_subst f en st e HR (proj1 Hcm) He) as Hsub.
    destruct (xev_total en e He) as [[z Ez]|[m Em]].
    + rewrite Ez in H, Hsub. injection H as <- <-.
      destruct (proj1 Hcm) as ([c1 Hset] & _).
      destruct (run_set en st v (VInt z) z HR Hv (int_val_int z)) as (st' & E & HR' & Hs').
      destruct (one_cmd (EX (S f)) st (ast_stmt2 (XSet v e)) res0 (VStr (lit "set")) [VStr v; VInt z]
                  (CmdNative NSet c1) st' (Ok (VInt z)) (ONorm (show_Z z))) as (r' & E' & Hr').
      { cbn [ast_stmt2]. rewrite words_script, Hsub. reflexivity. }
      { exact Hset. }
      { rewrite EX_S. cbn [run_native]. exact E. }
      { cbn [res_ok]. eexists. split; reflexivity. }
      exists st', r'. auto.
    + rewrite Em in H, Hsub. injection H as <- <-. cbn [err_msg].
      destruct Hsub as (st' & r & E & Hr & HR' & Hs').
      destruct (res_ok_abrupt _ _ Hr ltac:(discriminate)) as [e0 ->].
      exists st', (Err e0). split; [|auto].
      unfold eval_cmds. cbn [ast_stmt2 eval_cmds_with].
      change (eval_words_with (Eval.eval_word (EX (S f))) st
                [WValue (lit "set"); WValue v; WScript [[WValue (lit "expr"); WValue (rexpr e)]]] [])
        with (eval_words (EX (S f)) st
                [WValue (lit "set"); WValue v; WScript [[WValue (lit "expr"); WValue (rexpr e)]]] []).
      rewrite words_script, E. reflexivity.
  - (* incr *)
    cbn [exec2] in H. cbn [wf_stmt2] in Hw. apply andb_true_iff in Hw. destruct Hw as [Hv Hk].
    exists 1%nat. intros f Hf st res0 HR (Hcm & Hl1 & Hl2). destruct f as [|f]; [lia|].
    destruct (proj1 Hcm) as (_ & [c1 Hincr] & _).
    pose proof (run_incr en st v k HR Hv Hk) as Hrun. fold (incr_old en v) in H.
    destruct (in_i64 (k + incr_old en v)).
    + injection H as <- <-. destruct Hrun as (st' & E & HR' & Hs').
      destruct (one_cmd (EX (S f)) st (ast_stmt2 (XIncr v k)) res0 (VStr (lit "incr")) [VStr v; VStr (show_Z k)]
                  (CmdNative NIncr c1) st' (Ok (VInt (k + incr_old en v))) (ONorm (show_Z (k + incr_old en v)))
                  (words3 _ _ _ _ _) Hincr) as (r' & E' & Hr').
      { rewrite EX_S. cbn [run_native]. exact E. }
      { cbn [res_ok]. eexists. split; reflexivity. }
      exists st', r'. auto.
    + injection H as <- <-.
      destruct (one_cmd (EX (S f)) st (ast_stmt2 (XIncr v k)) res0 (VStr (lit "incr")) [VStr v; VStr (show_Z k)]
                  (CmdNative NIncr c1) st (err (lit "integer overflow")) (OErr (lit "integer overflow"))
                  (words3 _ _ _ _ _) Hincr) as (r' & E' & Hr').
      { rewrite EX_S. cbn [run_native]. exact Hrun. }
      { cbn [res_ok]. eexists. split; [reflexivity|]. split; reflexivity. }
      exists st, r'. split; [exact E'|]. split; [exact Hr'|]. split; [exact HR|apply same_ctl_refl].
  - (* if without else *)
    cbn [exec2] in H. cbn [wf_stmt2] in Hw. apply andb_true_iff in Hw. destruct Hw as [Hc Ht].
    destruct (xev_total en c Hc) as [[z Ez]|[m Em]].
    2:{ rewrite Em in H. injection H as <- <-. exists 1%nat.
        intros f Hf st res0 HR (Hcm & Hl1 & Hl2). destruct f as [|f]; [lia|].
        destruct (proj1 Hcm) as (_ & _ & _ & [c1 Hif] & _).
        destruct (expr_bool_err f en st c _ HR Hc Em) as (st' & E & HR' & Hs').
        destruct (one_cmd (EX (S f)) st (ast_stmt2 (XIf c t)) res0 (VStr (lit "if"))
                    [VStr (rexpr c); VStr (10%N :: render_block2 t)]
                    (CmdNative NIf c1) st' (Err (molt_err m)) (OErr m) (words3 _ _ _ _ _) Hif) as (r' & E' & Hr').
        { rewrite EX_S. cbn [run_native]. rewrite cmd_if_noelse, E. reflexivity. }
        { cbn [res_ok]. eexists. split; [reflexivity|]. split; reflexivity. }
        exists st', r'. auto. }
    rewrite Ez in H. destruct (z =? 0) eqn:Ez0.
    + injection H as <- <-. exists 1%nat.
      intros f Hf st res0 HR (Hcm & Hl1 & Hl2). destruct f as [|f]; [lia|].
      destruct (proj1 Hcm) as (_ & _ & _ & [c1 Hif] & _).
      destruct (one_cmd (EX (S f)) st (ast_stmt2 (XIf c t)) res0 (VStr (lit "if"))
                  [VStr (rexpr c); VStr (10%N :: render_block2 t)]
                  (CmdNative NIf c1) st (Ok v_empty) (ONorm []) (words3 _ _ _ _ _) Hif) as (r' & E' & Hr').
      { rewrite EX_S. cbn [run_native]. rewrite cmd_if_noelse, (expr_bool_ok f en st c z HR Hc Ez).
        cbn [bind]. rewrite Ez0. reflexivity. }
      { cbn [res_ok]. exists v_empty. auto. }
      exists st, r'. split; [exact E'|]. split; [exact Hr'|]. split; [exact HR|apply same_ctl_refl].
    + destruct (HB t en en' o H Ho Ht) as (F1 & HF1). exists (S F1).
      intros f Hf st res0 HR (Hcm & Hl1 & Hl2). destruct f as [|f]; [lia|].
      cbn [depth_stmt2] in Hl2.
      destruct (HF1 f ltac:(lia) st HR Hcm ltac:(lia)) as (st1 & r1 & E1 & Hr1 & HR1 & Hs1).
      rewrite (levels_nonzero st Hl1) in Hr1. cbn [finish] in Hr1.
      destruct (proj1 Hcm) as (_ & _ & _ & [c1 Hif] & _).
      destruct (one_cmd (EX (S f)) st (ast_stmt2 (XIf c t)) res0 (VStr (lit "if"))
                  [VStr (rexpr c); VStr (10%N :: render_block2 t)]
                  (CmdNative NIf c1) st1 r1 o (words3 _ _ _ _ _) Hif) as (r' & E' & Hr').
      { rewrite EX_S. cbn [run_native]. rewrite cmd_if_noelse, (expr_bool_ok f en st c z HR Hc Ez).
        cbn [bind]. rewrite Ez0. cbn [negb r_eval mkrec]. exact E1. }
      { exact Hr1. }
      exists st1, r'. auto.
  - (* if / else *)
    cbn [exec2] in H. cbn [wf_stmt2] in Hw. apply andb_true_iff in Hw. destruct Hw as [Hw He].
    apply andb_true_iff in Hw. destruct Hw as [Hc Ht].
    destruct (xev_total en c Hc) as [[z Ez]|[m Em]].
    2:{ rewrite Em in H. injection H as <- <-. exists 1%nat.
        intros f Hf st res0 HR (Hcm & Hl1 & Hl2). destruct f as [|f]; [lia|].
        destruct (proj1 Hcm) as (_ & _ & _ & [c1 Hif] & _).
        destruct (expr_bool_err f en st c _ HR Hc Em) as (st' & E & HR' & Hs').
        destruct (one_cmd (EX (S f)) st (ast_stmt2 (XIfElse c t e)) res0 (VStr (lit "if"))
                    [VStr (rexpr c); VStr (10%N :: render_block2 t); VStr (lit "else"); VStr (10%N :: render_block2 e)]
                    (CmdNative NIf c1) st' (Err (molt_err m)) (OErr m) (words5 _ _ _ _ _ _ _) Hif) as (r' & E' & Hr').
        { rewrite EX_S. cbn [run_native]. rewrite cmd_if_else, E. reflexivity. }
        { cbn [res_ok]. eexists. split; [reflexivity|]. split; reflexivity. }
        exists st', r'. auto. }
    rewrite Ez in H. cbn [depth_stmt2].
    set (br := if z =? 0 then e else t).
    assert (Hbr : run_with2 (exec2 n) en br [] = (en', o)) by (unfold br; destruct (z =? 0); exact H).
    assert (Hwbr : wf_block2 br = true) by (unfold br; destruct (z =? 0); assumption).
    assert (Hdbr : (depth_block2 br <= N.max (depth_block2 t) (depth_block2 e))%N)
      by (unfold br; destruct (z =? 0); lia).
    destruct (HB br en en' o Hbr Ho Hwbr) as (F1 & HF1). exists (S F1).
    intros f Hf st res0 HR (Hcm & Hl1 & Hl2). destruct f as [|f]; [lia|].
    destruct (HF1 f ltac:(lia) st HR Hcm ltac:(lia)) as (st1 & r1 & E1 & Hr1 & HR1 & Hs1).
    rewrite (levels_nonzero st Hl1) in Hr1. cbn [finish] in Hr1.
    destruct (proj1 Hcm) as (_ & _ & _ & [c1 Hif] & _).
    destruct (one_cmd (EX (S f)) st (ast_stmt2 (XIfElse c t e)) res0 (VStr (lit "if"))
                [VStr (rexpr c); VStr (10%N :: render_block2 t); VStr (lit "else"); VStr (10%N :: render_block2 e)]
                (CmdNative NIf c1) st1 r1 o (words5 _ _ _ _ _ _ _) Hif) as (r' & E' & Hr').
    { rewrite EX_S. cbn [run_native]. rewrite cmd_if_else, (expr_bool_ok f en st c z HR Hc Ez).
      cbn [bind r_eval mkrec]. unfold br in E1. destruct (z =? 0); exact E1. }
    { exact Hr1. }
    exists st1, r'. auto.
  - (* while *)
    destruct (HW c b en en' o H Ho Hw) as (F & HF). exists (S F).
    intros f Hf st res0 HR Hp. destruct f as [|f]; [lia|].
    destruct (HF f (S f) ltac:(lia) ltac:(lia) st HR Hp) as (st1 & r1 & E1 & Hr1 & HR1 & Hs1).
    destruct Hp as (Hcm & _). destruct (proj1 Hcm) as (_ & _ & _ & _ & [c1 Hwh] & _).
    destruct (one_cmd (EX (S f)) st (ast_stmt2 (XWhile c b)) res0 (VStr (lit "while"))
                [VStr (rexpr c); VStr (10%N :: render_block2 b)]
                (CmdNative NWhile c1) st1 r1 o (words3 _ _ _ _ _) Hwh) as (r' & E' & Hr').
    { rewrite EX_S. cbn [run_native]. unfold cmd_while. rewrite ca_while. exact E1. }
    { exact Hr1. }
    exists st1, r'. auto.
  - (* break *)
    cbn [exec2] in H. injection H as <- <-. exists 1%nat.
    intros f Hf st res0 HR (Hcm & _). destruct f as [|f]; [lia|].
    destruct (proj1 Hcm) as (_ & _ & _ & _ & _ & [c1 Hb] & _).
    destruct (one_cmd (EX (S f)) st (ast_stmt2 XBreak) res0 (VStr (lit "break")) []
                (CmdNative NBreak c1) st (Err molt_break) OBreak (words1 _ _ _) Hb) as (r' & E' & Hr').
    { rewrite EX_S. cbn [run_native]. unfold cmd_break. rewrite ca_break. reflexivity. }
    { reflexivity. }
    exists st, r'. split; [exact E'|]. split; [exact Hr'|]. split; [exact HR|apply same_ctl_refl].
  - (* continue *)
    cbn [exec2] in H. injection H as <- <-. exists 1%nat.
    intros f Hf st res0 HR (Hcm & _). destruct f as [|f]; [lia|].
    destruct (proj1 Hcm) as (_ & _ & _ & _ & _ & _ & [c1 Hb]).
    destruct (one_cmd (EX (S f)) st (ast_stmt2 XContinue) res0 (VStr (lit "continue")) []
                (CmdNative NContinue c1) st (Err molt_continue) OContinue (words1 _ _ _) Hb) as (r' & E' & Hr').
    { rewrite EX_S. cbn [run_native]. unfold cmd_continue. rewrite ca_continue. reflexivity. }
    { reflexivity. }
    exists st, r'. split; [exact E'|]. split; [exact Hr'|]. split; [exact HR|apply same_ctl_refl].
  - (* for *)
    cbn [wf_stmt2] in Hw. apply andb_true_iff in Hw. destruct Hw as [Hw Hwb].
    apply andb_true_iff in Hw. destruct Hw as [Hw Hwnx]. apply andb_true_iff in Hw. destruct Hw as [Hwi Hwc].
    cbn [exec2] in H.
    destruct (run_with2 (exec2 n) en i []) as [en0 o0] eqn:Ei.
    assert (Ho0 : o0 <> OFuel) by (intros ->; injection H as <- <-; congruence).
    destruct (body_run2 n HB i en en0 o0 Ei Ho0 Hwi) as (F1 & HF1).
    assert (Hinit : forall f st res0, (F1 <= f)%nat -> Rel en st -> pre2 st (depth_stmt2 (XFor i c nx b)) ->
              exists st1 r1, eval_value_with std_uni (EX f) st (VStr (10%N :: render_block2 i)) = (st1, r1) /\
                res_ok o0 r1 /\ Rel en0 st1 /\ same_ctl st st1 /\
                forall c1, assoc_get (lit "for") (i_cmds st) = Some (CmdNative NFor c1) ->
                forall st2 r2,
                  (do (st', _) <- (st1, r1);
                   for_loop (mkrec f) (S f) st' (VStr (rexpr c)) (VStr (10%N :: render_block2 nx))
                     (VStr (10%N :: render_block2 b))) = (st2, r2) -> res_ok o r2 ->
                  exists r', eval_cmds (EX (S f)) st [ast_stmt2 (XFor i c nx b)] res0 = (st2, r') /\ res_ok o r').
    { intros f st res0 Hf HR (Hcm & Hl1 & Hl2). cbn [depth_stmt2] in Hl2.
      destruct (HF1 f Hf st HR Hcm Hl1 ltac:(lia)) as (st1 & r1 & E1 & Hr1 & HR1 & Hs1).
      exists st1, r1. split; [exact E1|]. split; [exact Hr1|]. split; [exact HR1|]. split; [exact Hs1|].
      intros c1 Hfor st2 r2 E2 Hr2.
      apply (one_cmd (EX (S f)) st (ast_stmt2 (XFor i c nx b)) res0 (VStr (lit "for"))
               [VStr (10%N :: render_block2 i); VStr (rexpr c); VStr (10%N :: render_block2 nx);
                VStr (10%N :: render_block2 b)] (CmdNative NFor c1) st2 r2 o (words5 _ _ _ _ _ _ _) Hfor);
        [|exact Hr2].
      rewrite EX_S. cbn [run_native]. unfold cmd_for. rewrite ca_for. cbn [lift bind arg nth r_eval mkrec r_loop].
      rewrite E1. exact E2. }
    destruct o0 as [v0| | |m0|].
    + (* init completed: the loop *)
      assert (H' : exec2 (S n) en0 (XFor B2Nil c nx b) = (en', o)) by (cbn [exec2 run_with2]; exact H).
      destruct (HFo c nx b en0 en' o H' Ho Hwc Hwnx Hwb) as (F2 & HF2).
      exists (S (max F1 F2)). intros f Hf st res0 HR Hp. destruct f as [|f]; [lia|].
      destruct (Hinit f st res0 ltac:(lia) HR Hp) as (st1 & r1 & E1 & (a & -> & _) & HR1 & Hs1 & Hk).
      pose proof Hp as (Hcm & Hl1 & Hl2). cbn [depth_stmt2] in Hl2.
      destruct (HF2 f (S f) ltac:(lia) ltac:(lia) st1 HR1) as (st2 & r2 & E2 & Hr2 & HR2 & Hs2).
      { apply (pre_same2 _ _ _ Hs1). split; [exact Hcm|]. split; [exact Hl1|]. lia. }
      destruct Hcm as (_ & [c1 Hfor] & _).
      destruct (Hk c1 Hfor st2 r2 E2 Hr2) as (r' & E' & Hr').
      exists st2, r'. split; [exact E'|]. split; [exact Hr'|]. split; [exact HR2|exact (same_ctl_trans _ _ _ Hs1 Hs2)].
    + injection H as <- <-. exists (S F1). intros f Hf st res0 HR Hp. destruct f as [|f]; [lia|].
      destruct (Hinit f st res0 ltac:(lia) HR Hp) as (st1 & r1 & E1 & Hr1 & HR1 & Hs1 & Hk).
      destruct Hp as (Hcm & _). destruct Hcm as (_ & [c1 Hfor] & _).
      pose proof Hr1 as Hr1'. cbn [res_ok] in Hr1. subst r1.
      destruct (Hk c1 Hfor st1 _ eq_refl Hr1') as (r' & E' & Hr').
      exists st1, r'. auto.
    + injection H as <- <-. exists (S F1). intros f Hf st res0 HR Hp. destruct f as [|f]; [lia|].
      destruct (Hinit f st res0 ltac:(lia) HR Hp) as (st1 & r1 & E1 & Hr1 & HR1 & Hs1 & Hk).
      destruct Hp as (Hcm & _). destruct Hcm as (_ & [c1 Hfor] & _).
      pose proof Hr1 as Hr1'. cbn [res_ok] in Hr1. subst r1.
      destruct (Hk c1 Hfor st1 _ eq_refl Hr1') as (r' & E' & Hr').
      exists st1, r'. auto.
    + injection H as <- <-. exists (S F1). intros f Hf st res0 HR Hp. destruct f as [|f]; [lia|].
      destruct (Hinit f st res0 ltac:(lia) HR Hp) as (st1 & r1 & E1 & Hr1 & HR1 & Hs1 & Hk).
      destruct Hp as (Hcm & _). destruct Hcm as (_ & [c1 Hfor] & _).
      pose proof Hr1 as Hr1'. cbn [res_ok] in Hr1. destruct Hr1 as (e & -> & Hce & Hve).
      destruct (Hk c1 Hfor st1 _ eq_refl Hr1') as (r' & E' & Hr').
      exists st1, r'. auto.
    + congruence.
  - (* catch *)
    cbn [wf_stmt2] in Hw. apply andb_true_iff in Hw. destruct Hw as [Hv Hwb].
    cbn [exec2] in H.
    destruct (run_with2 (exec2 n) en b []) as [en1 o1] eqn:Eb.
    assert (Ho1 : o1 <> OFuel) by (intros ->; injection H as <- <-; congruence).
    assert (H' : (assoc_set v (code_of o1) en1, ONorm (show_Z (code_of o1))) = (en', o))
      by (destruct o1; try exact H; congruence).
    injection H' as <- <-.
    destruct (body_run2 n HB b en en1 o1 Eb Ho1 Hwb) as (F1 & HF1).
    exists (S F1). intros f Hf st res0 HR (Hcm & Hl1 & Hl2). destruct f as [|f]; [lia|].
    cbn [depth_stmt2] in Hl2.
    destruct (HF1 f ltac:(lia) st HR Hcm Hl1 ltac:(lia)) as (st1 & r1 & E1 & Hr1 & HR1 & Hs1).
    pose proof Hcm as (Hcm0 & _ & [c2 Hcatch] & _). destruct Hcm0 as ([c1 Hset] & _).
    assert (Hsub : Eval.eval_word (EX (S f)) st (WScript [[WValue (lit "catch"); WValue (10%N :: render_block2 b)]]) =
                   (st1, Ok (VInt (code_of o1)))).
    { apply (subst_ok _ _ _ _ _ _ _ Hcatch). rewrite EX_S. cbn [run_native].
      apply (cmd_catch2 (mkrec f) st _ st1 r1 o1); [exact E1|exact Hr1]. }
    destruct (run_set en1 st1 v (VInt (code_of o1)) _ HR1 Hv (int_val_int _)) as (st' & E & HR' & Hs').
    assert (Hset1 : assoc_get (as_str (VStr (lit "set"))) (i_cmds st1) = Some (CmdNative NSet c1)).
    { destruct Hs1 as (Ec & _). rewrite Ec. exact Hset. }
    unfold eval_cmds. cbn [ast_stmt2 eval_cmds_with].
    change (eval_words_with (Eval.eval_word (EX (S f))) st
              [WValue (lit "set"); WValue v; WScript [[WValue (lit "catch"); WValue (10%N :: render_block2 b)]]] [])
      with (eval_words (EX (S f)) st
              [WValue (lit "set"); WValue v; WScript [[WValue (lit "catch"); WValue (10%N :: render_block2 b)]]] []).
    rewrite words_script, Hsub. cbn [as_str] in Hset1 |- *. rewrite Hset1.
    rewrite EX_S. cbn [run_native]. rewrite E.
    exists st', (Ok (VInt (code_of o1))). split; [reflexivity|].
    split; [cbn [res_ok]; eexists; split; reflexivity|]. split; [exact HR'|exact (same_ctl_trans _ _ _ Hs1 Hs')].
  - (* foreach *)
    cbn [wf_stmt2] in Hw. apply andb_true_iff in Hw. destruct Hw as [Hw Hwb].
    apply andb_true_iff in Hw. destruct Hw as [Hw Hzs]. apply andb_true_iff in Hw. destruct Hw as [Hv Hnz].
    destruct (HFe v zs b en en' o H Ho Hv Hzs Hwb) as (F & HF). exists (S F).
    intros f Hf st res0 HR Hp. destruct f as [|f]; [lia|].
    destruct (HF f (S (length zs)) ltac:(lia) ltac:(lia) st HR Hp) as (st1 & r1 & E1 & Hr1 & HR1 & Hs1).
    destruct Hp as (Hcm & _). destruct Hcm as (_ & _ & _ & [c1 Hfe]).
    destruct (one_cmd (EX (S f)) st (ast_stmt2 (XForeach v zs b)) res0 (VStr (lit "foreach"))
                [VStr v; VStr (ltext zs); VStr (10%N :: render_block2 b)]
                (CmdNative NForeach c1) st1 r1 o (words4 _ _ _ _ _ _) Hfe) as (r' & E' & Hr').
    { rewrite EX_S. cbn [run_native]. unfold cmd_foreach. rewrite ca_foreach. cbn [lift bind arg nth].
      rewrite (name_as_list v Hv). cbn [lift_sum of_sum bind]. rewrite (ltext_as_list zs). cbn [of_sum bind].
      fold (zvals zs). unfold zvals at 1. rewrite map_length. exact E1. }
    { exact Hr1. }
    exists st1, r'. auto.
Qed.

Theorem all_ok2 n : StmtOK2 n /\ WhileOK2 n /\ ForOK2 n /\ ForeachOK2 n.
Proof.
  induction n as [|n (IHs & IHw & IHf & IHe)].
  - split; [|split; [|split]].
    + intros s en en' o H Ho _. cbn [exec2] in H. injection H as <- <-. congruence.
    + intros c b en en' o H Ho _. cbn [exec2] in H. injection H as <- <-. congruence.
    + intros c nx b en en' o H Ho _. cbn [exec2] in H. injection H as <- <-. congruence.
    + intros v zs b en en' o H Ho _. cbn [exec2] in H. injection H as <- <-. congruence.
  - pose proof (block_body2 n (stmt_block2 n IHs)) as HB.
    pose proof (while_step2 n HB IHw) as HW. pose proof (for_step2 n HB IHf) as HFo.
    pose proof (foreach_step2 n HB IHe) as HFe.
    split; [exact (stmt_step2 n HB HW HFo HFe)|split; [exact HW|split; [exact HFo|exact HFe]]].
Qed.

(* For every well-formed program p: if the reference semantics finishes (with reference fuel n)
   in environment en' with outcome o, then for every sufficiently large interpreter fuel the
   model, started in any state whose current scope holds exactly en (on good names), in which
   the seven commands are molt's own and which has depth_block2 p + 1 evaluation levels left,
   evaluates the text render_block2 p to a state holding exactly en' and to the result that
   corresponds to o (at level 0 an escaping break / continue is molt's error). *)
Theorem run_agrees2 : forall n p en en' o st,
  run2 n en p = (en', o) -> o <> OFuel -> wf_block2 p = true ->
  Rel en st -> cmds_ok2 st -> (i_levels st + 1 + depth_block2 p <= i_limit st)%N ->
  exists F, forall fuel, (F <= fuel)%nat ->
  exists st' r, eval std_uni fuel st (render_block2 p) = (st', r) /\
                res_ok (finish (i_levels st =? 0)%N o) r /\ Rel en' st' /\ same_ctl st st'.
Proof.
  intros n p en en' o st H Ho Hw HR Hc Hlim. unfold run2 in H.
  destruct (stmt_block2 n (proj1 (all_ok2 n)) p en [] en' o H Ho Hw) as (F & HF).
  exists F. intros f Hf. unfold eval, eval_value. fold (EX f).
  apply (eval_value_block (EX f) en' st _ _ o (parse_block2 p Hw)); [lia|].
  unfold eval_script.
  assert (E : eval_cmds (EX f) (set_levels st (i_levels st + 1))
                (ast_block2 p ++ match p with B2Nil => [] | B2Cons _ _ => [[]] end) v_empty =
              eval_cmds (EX f) (set_levels st (i_levels st + 1)) (ast_block2 p) v_empty).
  { destruct p; [rewrite app_nil_r; reflexivity|apply eval_cmds_trailing]. }
  rewrite E.
  apply (HF f Hf (set_levels st (i_levels st + 1)) v_empty eq_refl); [exact HR|].
  split; [exact Hc|]. cbn [i_levels i_limit set_levels]. lia.
Qed.
Print Assumptions run_agrees2.

Corollary run_agrees_top2 : forall n p en en' o st,
  run2 n en p = (en', o) -> o <> OFuel -> wf_block2 p = true ->
  Rel en st -> cmds_ok2 st -> i_levels st = 0%N -> (1 + depth_block2 p <= i_limit st)%N ->
  exists F, forall fuel, (F <= fuel)%nat ->
  exists st' r, eval std_uni fuel st (render_block2 p) = (st', r) /\
                res_ok (finish true o) r /\ Rel en' st' /\ same_ctl st st'.
Proof.
  intros n p en en' o st H Ho Hw HR Hc Hl Hlim.
  destruct (run_agrees2 n p en en' o st H Ho Hw HR Hc ltac:(lia)) as (F & HF).
  exists F. intros f Hf. destruct (HF f Hf) as (st' & r & E & Hr & HR' & Hs).
  rewrite Hl in Hr. exists st', r. auto.
Qed.
Print Assumptions run_agrees_top2.

(* ====================================================================================== *)
(* examples: a fresh interpreter; for with continue and break; catch                        *)
(* ====================================================================================== *)
Lemma cmds_ok2_new : cmds_ok2 interp_new.
Proof. split; [exact cmds_ok_new|]. repeat split; exists 0%N; vm_compute; reflexivity. Qed.

Definition vi : str := lit "i".
(* for {set i 1} {$i <= 9} {incr i} { if {$i == 3} continue; if {$i > 5} break; s += i }:
   s = 1 + 2 + 4 + 5 = 12, i = 6 (next is skipped by break, run after continue) *)
Definition ex_for : block2 :=
  block_of_list2
    [XSet vs (Lit 0);
     XFor (block_of_list2 [XSet vi (Lit 1)]) (Bin OLe (Var vi) (Lit 9)) (block_of_list2 [XIncr vi 1])
       (block_of_list2
          [XIf (Bin OEq (Var vi) (Lit 3)) (block_of_list2 [XContinue]);
           XIf (Bin OGt (Var vi) (Lit 5)) (block_of_list2 [XBreak]);
           XSet vs (Bin OAdd (Var vs) (Var vi))])].

Example ex_for_text : render_block2 ex_for =
  lit "set s [expr {0}]" ++ nl1 ++
  lit "for {" ++ nl1 ++ lit "set i [expr {1}]" ++ nl1 ++ lit "} {($i <= 9)} {" ++ nl1 ++ lit "incr i 1" ++ nl1 ++
  lit "} {" ++ nl1 ++ lit "if {($i == 3)} {" ++ nl1 ++ lit "continue" ++ nl1 ++ lit "}" ++ nl1 ++
  lit "if {($i > 5)} {" ++ nl1 ++ lit "break" ++ nl1 ++ lit "}" ++ nl1 ++
  lit "set s [expr {($s + $i)}]" ++ nl1 ++ lit "}" ++ nl1.
Proof. vm_compute. reflexivity. Qed.

Example ex_for_ref : run2 20 [] ex_for = ([(vs, 12); (vi, 6)], ONorm []).
Proof. vm_compute. reflexivity. Qed.

Example ex_for_model :
  let '(st', r) := eval std_uni 30 interp_new (render_block2 ex_for) in
  (match r with Ok a => Some (as_str a) | _ => None end, st_scalar st' vs, st_scalar st' vi)
  = (Some [], Ok (VInt 12), Ok (VInt 6)).
Proof. vm_compute. reflexivity. Qed.

Example ex_for_theorem :
  exists F, forall fuel, (F <= fuel)%nat ->
  exists st' r, eval std_uni fuel interp_new (render_block2 ex_for) = (st', r) /\
                res_ok (ONorm []) r /\ Rel [(vs, 12); (vi, 6)] st' /\ same_ctl interp_new st'.
Proof.
  exact (run_agrees_top2 20 ex_for [] _ _ interp_new ex_for_ref ltac:(discriminate) ltac:(vm_compute; reflexivity)
           Rel_new cmds_ok2_new eq_refl ltac:(vm_compute; discriminate)).
Qed.

(* catch around an overflowing incr (code 1, x unchanged), around a break (3), a normal body (0) *)
Definition ex_catch : block2 :=
  block_of_list2
    [XSet vx (Lit i64_max);
     XCatch (lit "a") (block_of_list2 [XSet vs (Lit 7); XIncr vx 1; XSet vs (Lit 8)]);
     XCatch (lit "b") (block_of_list2 [XBreak]);
     XCatch (lit "c") (block_of_list2 [XIncr vs 1])].

Example ex_catch_ref :
  run2 20 [] ex_catch = ([(vx, i64_max); (vs, 8); (lit "a", 1); (lit "b", 3); (lit "c", 0)], ONorm (lit "0")).
Proof. vm_compute. reflexivity. Qed.

Example ex_catch_model :
  let '(st', r) := eval std_uni 30 interp_new (render_block2 ex_catch) in
  (match r with Ok a => Some (as_str a) | _ => None end,
   st_scalar st' vx, st_scalar st' vs, st_scalar st' (lit "a"), st_scalar st' (lit "b"), st_scalar st' (lit "c"))
  = (Some (lit "0"), Ok (VInt i64_max), Ok (VInt 8), Ok (VInt 1), Ok (VInt 3), Ok (VInt 0)).
Proof. vm_compute. reflexivity. Qed.

(* foreach over a literal list, with continue and break: s = 5 + 7 = 12 (3 skipped, stops at -1) *)
Definition ex_foreach : block2 :=
  block_of_list2
    [XSet vs (Lit 0);
     XForeach vx [5; 3; 7; -1; 9]
       (block_of_list2
          [XIf (Bin OEq (Var vx) (Lit 3)) (block_of_list2 [XContinue]);
           XIf (Bin OLt (Var vx) (Lit 0)) (block_of_list2 [XBreak]);
           XSet vs (Bin OAdd (Var vs) (Var vx))])].

Example ex_foreach_text : render_block2 ex_foreach =
  lit "set s [expr {0}]" ++ nl1 ++ lit "foreach x {5 3 7 -1 9} {" ++ nl1 ++
  lit "if {($x == 3)} {" ++ nl1 ++ lit "continue" ++ nl1 ++ lit "}" ++ nl1 ++
  lit "if {($x < 0)} {" ++ nl1 ++ lit "break" ++ nl1 ++ lit "}" ++ nl1 ++
  lit "set s [expr {($s + $x)}]" ++ nl1 ++ lit "}" ++ nl1.
Proof. vm_compute. reflexivity. Qed.

Example ex_foreach_ref : run2 20 [] ex_foreach = ([(vs, 12); (vx, -1)], ONorm []).
Proof. vm_compute. reflexivity. Qed.

Example ex_foreach_model :
  let '(st', r) := eval std_uni 30 interp_new (render_block2 ex_foreach) in
  (match r with Ok a => Some (as_str a) | _ => None end, st_scalar st' vs, st_scalar st' vx)
  = (Some [], Ok (VInt 12), Ok (VStr (lit "-1"))).
Proof. vm_compute. reflexivity. Qed.

Example ex_foreach_theorem :
  exists F, forall fuel, (F <= fuel)%nat ->
  exists st' r, eval std_uni fuel interp_new (render_block2 ex_foreach) = (st', r) /\
                res_ok (ONorm []) r /\ Rel [(vs, 12); (vx, -1)] st' /\ same_ctl interp_new st'.
Proof.
  exact (run_agrees_top2 20 ex_foreach [] _ _ interp_new ex_foreach_ref ltac:(discriminate)
           ltac:(vm_compute; reflexivity) Rel_new cmds_ok2_new eq_refl ltac:(vm_compute; discriminate)).
Qed.
