(* DictFacts.v — C15: the model's dictionary operations refine the insertion-ordered map of
   Spec/SpecDict.v.

   Model side: Value.dict_insert, Value.list_to_dict(_acc), Value.v_as_dict,
   Commands.dict_get / dict_remove / dict_path_insert / dict_path_remove / cmd_dict.
   Spec side: observations keys_of / lookup, relations spec_insert / spec_remove /
   spec_remove_all / spec_of_list.

   Value semantics (property 8 of the task).  Every operation here is a Gallina FUNCTION from
   dictionaries (immutable lists) to dictionaries; there is no store, hence no aliasing:
   computing [dict_insert d k v] cannot change what [dict_get d k'] answers, for the trivial
   reason that [d] is still the same term.  In the model, a Tcl variable holding a dictionary
   holds the VALUE (State.VarScalar (VDict d)); `dict set`/`dict unset` read the variable,
   compute a NEW dictionary with dict_path_insert/dict_path_remove and store it back with
   st_set_var (see cmd_dict_set_eq / cmd_dict_unset_eq below), so a copy made earlier with
   `set b $a` is a different variable holding the old value and is not affected.  No lemma is
   needed or stated for this.

   Print Assumptions: every theorem below is closed under the global context. *)
From Molt Require Import Model.Base Model.ListSyn Model.Value Model.State Model.Eval Model.Commands.
From Molt Require Import Spec.SpecDict Proofs.BaseFacts.
From Coq Require Import Lia List Bool.
Import ListNotations.

Arguments N.eqb : simpl never.
Arguments N.leb : simpl never.
Arguments N.ltb : simpl never.

(* ---------- string equality ---------- *)

Lemma str_eqb_sym a b : str_eqb a b = str_eqb b a.
Proof.
  destruct (str_eqb a b) eqn:E1, (str_eqb b a) eqn:E2; try reflexivity.
  - apply str_eqb_eq in E1. subst. rewrite str_eqb_refl in E2. discriminate.
  - apply str_eqb_eq in E2. subst. rewrite str_eqb_refl in E1. discriminate.
Qed.

Lemma str_eqb_spec a b : reflect (a = b) (str_eqb a b).
Proof.
  destruct (str_eqb a b) eqn:E; constructor.
  - apply str_eqb_eq. exact E.
  - intros H. apply str_eqb_eq in H. congruence.
Qed.

Lemma v_eqb_sym a b : v_eqb a b = v_eqb b a.
Proof. unfold v_eqb. apply str_eqb_sym. Qed.

Lemma v_eqb_refl a : v_eqb a a = true.
Proof. unfold v_eqb. apply str_eqb_refl. Qed.

Lemma v_eqb_eq a b : v_eqb a b = true <-> as_str a = as_str b.
Proof. unfold v_eqb. apply str_eqb_eq. Qed.

(* ---------- list helpers ---------- *)

Lemma mem_In k l : mem k l = true <-> In k l.
Proof.
  unfold mem. rewrite existsb_exists. split.
  - intros (x & Hin & He). apply str_eqb_eq in He. subst. exact Hin.
  - intros H. exists k. split; [exact H|apply str_eqb_refl].
Qed.

Lemma mem_false k l : mem k l = false <-> ~ In k l.
Proof.
  rewrite <- mem_In. destruct (mem k l); split; intros H; try reflexivity; try discriminate.
  exfalso. apply H. reflexivity.
Qed.

Lemma mem_cons k x l : mem k (x :: l) = str_eqb k x || mem k l.
Proof. reflexivity. Qed.

Lemma mem_app k l1 l2 : mem k (l1 ++ l2) = mem k l1 || mem k l2.
Proof. unfold mem. apply existsb_app. Qed.

Lemma filter_filter {A} (f g : A -> bool) l :
  filter f (filter g l) = filter (fun x => g x && f x) l.
Proof.
  induction l as [|x l IH]; [reflexivity|].
  cbn [filter]. destruct (g x); cbn [filter andb]; rewrite IH; reflexivity.
Qed.

Lemma filter_true {A} (l : list A) : filter (fun _ => true) l = l.
Proof. induction l as [|x l IH]; [reflexivity|]. cbn [filter]. rewrite IH. reflexivity. Qed.

Lemma filter_all {A} (f : A -> bool) l : (forall x, In x l -> f x = true) -> filter f l = l.
Proof.
  intros H. rewrite <- (filter_true l) at 2. apply filter_ext_in. exact H.
Qed.

Lemma without_notin k l : ~ In k l -> without k l = l.
Proof.
  intros H. unfold without. apply filter_all. intros x Hx.
  destruct (str_eqb_spec x k) as [->|Hne]; [contradiction|reflexivity].
Qed.

Lemma In_without x k l : In x (without k l) <-> In x l /\ x <> k.
Proof.
  unfold without. rewrite filter_In. split; intros [H1 H2]; split; try exact H1.
  - intros ->. rewrite str_eqb_refl in H2. discriminate.
  - destruct (str_eqb_spec x k); [contradiction|reflexivity].
Qed.

Lemma NoDup_filter' {A} (f : A -> bool) l : NoDup l -> NoDup (filter f l).
Proof.
  induction 1 as [|x l Hx Hnd IH]; [constructor|].
  cbn [filter]. destruct (f x); [|exact IH].
  constructor; [|exact IH]. intros Hin. apply filter_In in Hin. apply Hx, Hin.
Qed.

Lemma NoDup_snoc {A} (x : A) l : NoDup l -> ~ In x l -> NoDup (l ++ [x]).
Proof.
  induction 1 as [|y l Hy Hnd IH]; intros Hx.
  - constructor; [intros []|constructor].
  - cbn [app]. constructor.
    + rewrite in_app_iff. intros [H|[H|[]]]; [contradiction|]. subst. apply Hx. left. reflexivity.
    + apply IH. intros H. apply Hx. right. exact H.
Qed.

(* induction over a flat list two elements at a time *)
Lemma pair_ind (P : list value -> Prop) :
  P [] -> (forall x, P [x]) -> (forall k v r, P r -> P (k :: v :: r)) -> forall l, P l.
Proof.
  intros H0 H1 H2. fix IH 1. intros [|k [|v r]].
  - exact H0.
  - apply H1.
  - apply H2. apply IH.
Qed.

(* ---------- observations: model lookup = spec lookup ---------- *)

Lemma dict_get_lookup d k : dict_get d k = lookup d (as_str k).
Proof.
  induction d as [|[k' v'] r IH]; cbn [dict_get lookup]; [reflexivity|].
  unfold v_eqb. rewrite IH. reflexivity.
Qed.

Lemma lookup_None d k : lookup d k = None <-> ~ In k (keys_of d).
Proof.
  induction d as [|[k' v'] r IH]; cbn [lookup keys_of map fst In].
  - split; [intros _ []|reflexivity].
  - fold (keys_of r). destruct (str_eqb_spec (as_str k') k) as [E|E].
    + split; [discriminate|]. intros H. exfalso. apply H. left. exact E.
    + rewrite IH. split; [intros H [H1|H1]; contradiction|]. intros H H1. apply H. right. exact H1.
Qed.

Lemma lookup_mem d k : mem k (keys_of d) = match lookup d k with Some _ => true | None => false end.
Proof.
  destruct (lookup d k) eqn:E.
  - apply mem_In. destruct (mem k (keys_of d)) eqn:M; [apply mem_In; exact M|].
    apply mem_false in M. apply lookup_None in M. congruence.
  - apply mem_false. apply lookup_None. exact E.
Qed.

Lemma dict_get_None d k : dict_get d k = None <-> ~ In (as_str k) (keys_of d).
Proof. rewrite dict_get_lookup. apply lookup_None. Qed.

(* `dict exists d k` is membership of the key string *)
Lemma dict_get_mem d k :
  mem (as_str k) (keys_of d) = match dict_get d k with Some _ => true | None => false end.
Proof. rewrite dict_get_lookup. apply lookup_mem. Qed.

(* the observations determine the dictionary, up to the representation of keys as values *)
Theorem observations_determine d1 d2 :
  wf d1 -> wf d2 -> keys_of d1 = keys_of d2 -> (forall k, lookup d1 k = lookup d2 k) ->
  abs d1 = abs d2.
Proof.
  unfold wf. revert d2.
  induction d1 as [|[k1 v1] r1 IH]; intros [|[k2 v2] r2] W1 W2 HK HL; try discriminate; [reflexivity|].
  cbn [keys_of map fst] in W1, W2, HK. fold (keys_of r1) in *. fold (keys_of r2) in *.
  injection HK as Hk Hr.
  inversion W1 as [|x1 l1 N1 W1']. inversion W2 as [|x2 l2 N2 W2']. subst.
  cbn [abs map fst snd]. fold (abs r1). fold (abs r2).
  assert (Hv : v1 = v2).
  { specialize (HL (as_str k1)). cbn [lookup] in HL. rewrite <- Hk in HL.
    rewrite str_eqb_refl in HL. congruence. }
  rewrite Hk, Hv. f_equal.
  apply IH; try assumption.
  intros k. specialize (HL k). cbn [lookup] in HL. rewrite <- Hk in HL.
  destruct (str_eqb_spec (as_str k1) k) as [E|E]; [|exact HL].
  subst k. transitivity (@None value); [|symmetry].
  - apply lookup_None. exact N1.
  - apply lookup_None. rewrite <- Hr. exact N1.
Qed.
Print Assumptions observations_determine.

(* ---------- 1-3: insert ---------- *)

(* order: an existing key keeps its position, a new key goes last (no wf needed) *)
Theorem keys_of_dict_insert d k v :
  keys_of (dict_insert d k v) =
  if existsb (str_eqb (as_str k)) (keys_of d) then keys_of d else keys_of d ++ [as_str k].
Proof.
  induction d as [|[k' v'] r IH]; [reflexivity|].
  cbn [dict_insert]. unfold v_eqb. cbn [keys_of map fst existsb]. fold (keys_of r).
  rewrite (str_eqb_sym (as_str k) (as_str k')).
  destruct (str_eqb (as_str k') (as_str k)) eqn:E; cbn [orb keys_of map fst]; [reflexivity|].
  fold (keys_of (dict_insert r k v)). rewrite IH.
  destruct (existsb (str_eqb (as_str k)) (keys_of r)); reflexivity.
Qed.
Print Assumptions keys_of_dict_insert.

Lemma lookup_dict_insert d k v k' :
  lookup (dict_insert d k v) k' = if str_eqb (as_str k) k' then Some v else lookup d k'.
Proof.
  induction d as [|[k0 v0] r IH]; [reflexivity|].
  cbn [dict_insert]. unfold v_eqb.
  destruct (str_eqb_spec (as_str k0) (as_str k)) as [E|E]; cbn [lookup].
  - rewrite E. destruct (str_eqb (as_str k) k'); reflexivity.
  - rewrite IH. destruct (str_eqb_spec (as_str k0) k') as [E1|E1]; [|reflexivity].
    destruct (str_eqb_spec (as_str k) k') as [E2|E2]; [congruence|reflexivity].
Qed.

(* lookup after insert (no wf needed) *)
Theorem dict_get_dict_insert d k v k' :
  dict_get (dict_insert d k v) k' = if v_eqb k k' then Some v else dict_get d k'.
Proof. rewrite !dict_get_lookup. unfold v_eqb. apply lookup_dict_insert. Qed.
Print Assumptions dict_get_dict_insert.

Theorem dict_insert_wf d k v : wf d -> wf (dict_insert d k v).
Proof.
  unfold wf. intros W. rewrite keys_of_dict_insert.
  destruct (existsb (str_eqb (as_str k)) (keys_of d)) eqn:E; [exact W|].
  apply NoDup_snoc; [exact W|]. apply mem_false. exact E.
Qed.
Print Assumptions dict_insert_wf.

Theorem dict_insert_refines d k v : wf d -> spec_insert d (as_str k) v (dict_insert d k v).
Proof.
  intros W. constructor.
  - apply dict_insert_wf. exact W.
  - apply keys_of_dict_insert.
  - intros k'. apply lookup_dict_insert.
Qed.
Print Assumptions dict_insert_refines.

(* the size grows by one exactly when the key is new *)
Lemma length_dict_insert d k v :
  length (dict_insert d k v) = if mem (as_str k) (keys_of d) then length d else S (length d).
Proof.
  assert (H : forall d' : dict, length d' = length (keys_of d')).
  { intros d'. unfold keys_of. rewrite map_length. reflexivity. }
  rewrite !H. unfold mem. rewrite keys_of_dict_insert.
  destruct (existsb (str_eqb (as_str k)) (keys_of d)); [reflexivity|].
  rewrite app_length. cbn [length]. lia.
Qed.

(* ---------- 1,3,4: remove ---------- *)

Theorem keys_of_dict_remove d k :
  wf d -> keys_of (dict_remove d k) = filter (fun x => negb (str_eqb x (as_str k))) (keys_of d).
Proof.
  unfold wf. induction d as [|[k' v'] r IH]; intros W; [reflexivity|].
  cbn [keys_of map fst] in W. fold (keys_of r) in W. inversion W as [|x l N W']. subst.
  cbn [dict_remove]. unfold v_eqb. cbn [keys_of map fst filter]. fold (keys_of r).
  destruct (str_eqb_spec (as_str k') (as_str k)) as [E|E]; cbn [negb].
  - symmetry. apply (without_notin (as_str k)). rewrite <- E. exact N.
  - cbn [keys_of map fst]. fold (keys_of (dict_remove r k)). rewrite IH by exact W'. reflexivity.
Qed.
Print Assumptions keys_of_dict_remove.

Lemma lookup_dict_remove d k k' :
  wf d -> lookup (dict_remove d k) k' = if str_eqb (as_str k) k' then None else lookup d k'.
Proof.
  unfold wf. induction d as [|[k0 v0] r IH]; intros W.
  - cbn [dict_remove lookup]. destruct (str_eqb (as_str k) k'); reflexivity.
  - cbn [keys_of map fst] in W. fold (keys_of r) in W. inversion W as [|x l N W']. subst.
    cbn [dict_remove]. unfold v_eqb.
    destruct (str_eqb_spec (as_str k0) (as_str k)) as [E|E]; cbn [lookup].
    + rewrite E. destruct (str_eqb_spec (as_str k) k') as [E1|E1]; [|reflexivity].
      apply lookup_None. rewrite <- E1, <- E. exact N.
    + rewrite IH by exact W'. destruct (str_eqb_spec (as_str k0) k') as [E1|E1]; [|reflexivity].
      destruct (str_eqb_spec (as_str k) k') as [E2|E2]; [congruence|reflexivity].
Qed.

Theorem dict_get_dict_remove d k k' :
  wf d -> dict_get (dict_remove d k) k' = if v_eqb k k' then None else dict_get d k'.
Proof. intros W. rewrite !dict_get_lookup. unfold v_eqb. apply lookup_dict_remove. exact W. Qed.
Print Assumptions dict_get_dict_remove.

Theorem dict_remove_wf d k : wf d -> wf (dict_remove d k).
Proof.
  intros W. unfold wf. rewrite keys_of_dict_remove by exact W. apply NoDup_filter'. exact W.
Qed.
Print Assumptions dict_remove_wf.

Theorem dict_remove_refines d k : wf d -> spec_remove d (as_str k) (dict_remove d k).
Proof.
  intros W. constructor.
  - apply dict_remove_wf. exact W.
  - apply keys_of_dict_remove. exact W.
  - intros k'. apply lookup_dict_remove. exact W.
Qed.
Print Assumptions dict_remove_refines.

(* removing an absent key changes nothing (no wf needed) *)
Lemma dict_remove_absent d k : dict_get d k = None -> dict_remove d k = d.
Proof.
  induction d as [|[k' v'] r IH]; [reflexivity|].
  cbn [dict_get dict_remove]. destruct (v_eqb k' k); [discriminate|].
  intros H. rewrite IH by exact H. reflexivity.
Qed.

(* ---------- 6: `dict remove d k1 k2 ...` ---------- *)

Theorem fold_dict_remove_wf ks d : wf d -> wf (fold_left dict_remove ks d).
Proof.
  revert d. induction ks as [|k ks IH]; intros d W; [exact W|].
  cbn [fold_left]. apply IH. apply dict_remove_wf. exact W.
Qed.
Print Assumptions fold_dict_remove_wf.

(* keys = original keys minus ks, in the original order *)
Theorem keys_of_fold_dict_remove ks d :
  wf d ->
  keys_of (fold_left dict_remove ks d) =
  filter (fun x => negb (existsb (str_eqb x) (map as_str ks))) (keys_of d).
Proof.
  revert d. induction ks as [|k ks IH]; intros d W.
  - cbn [fold_left map existsb negb]. symmetry. apply filter_true.
  - cbn [fold_left]. rewrite IH by (apply dict_remove_wf; exact W).
    rewrite keys_of_dict_remove by exact W. rewrite filter_filter.
    apply filter_ext. intros x. cbn [map existsb]. rewrite negb_orb. reflexivity.
Qed.
Print Assumptions keys_of_fold_dict_remove.

Lemma lookup_fold_dict_remove ks d k' :
  wf d ->
  lookup (fold_left dict_remove ks d) k' = if mem k' (map as_str ks) then None else lookup d k'.
Proof.
  revert d. induction ks as [|k ks IH]; intros d W; [reflexivity|].
  cbn [fold_left]. rewrite IH by (apply dict_remove_wf; exact W).
  rewrite lookup_dict_remove by exact W. cbn [map]. rewrite mem_cons.
  rewrite (str_eqb_sym k' (as_str k)).
  destruct (str_eqb (as_str k) k'), (mem k' (map as_str ks)); reflexivity.
Qed.

Theorem dict_get_fold_dict_remove ks d k' :
  wf d ->
  dict_get (fold_left dict_remove ks d) k' =
  if existsb (v_eqb k') ks then None else dict_get d k'.
Proof.
  intros W. rewrite !dict_get_lookup, lookup_fold_dict_remove by exact W.
  replace (mem (as_str k') (map as_str ks)) with (existsb (v_eqb k') ks); [reflexivity|].
  unfold mem, v_eqb. induction ks as [|k ks IH]; [reflexivity|].
  cbn [map existsb]. rewrite IH. reflexivity.
Qed.
Print Assumptions dict_get_fold_dict_remove.

Theorem fold_dict_remove_refines ks d :
  wf d -> spec_remove_all d (map as_str ks) (fold_left dict_remove ks d).
Proof.
  intros W. constructor.
  - apply fold_dict_remove_wf. exact W.
  - apply keys_of_fold_dict_remove. exact W.
  - intros k'. apply lookup_fold_dict_remove. exact W.
Qed.
Print Assumptions fold_dict_remove_refines.

(* ---------- 1,5: list_to_dict ---------- *)

Lemma list_to_dict_acc_wf l : forall acc, wf acc -> wf (list_to_dict_acc l acc).
Proof.
  induction l as [|x|k v r IH] using pair_ind; intros acc W; try exact W.
  cbn [list_to_dict_acc]. apply IH. apply dict_insert_wf. exact W.
Qed.

Theorem list_to_dict_wf l : wf (list_to_dict l).
Proof. apply list_to_dict_acc_wf. constructor. Qed.
Print Assumptions list_to_dict_wf.

Lemma keys_of_list_to_dict_acc l : forall acc,
  keys_of (list_to_dict_acc l acc) =
  keys_of acc ++ without_all (keys_of acc) (nodup_first (flat_keys l)).
Proof.
  induction l as [|x|k v r IH] using pair_ind; intros acc;
    try (cbn [list_to_dict_acc flat_keys nodup_first without_all filter]; rewrite app_nil_r; reflexivity).
  cbn [list_to_dict_acc flat_keys nodup_first]. rewrite IH, keys_of_dict_insert.
  unfold without_all at 2. cbn [filter]. fold (mem (as_str k) (keys_of acc)).
  destruct (mem (as_str k) (keys_of acc)) eqn:M; cbn [negb].
  - f_equal. unfold without_all, without. rewrite filter_filter. apply filter_ext. intros x.
    destruct (str_eqb_spec x (as_str k)) as [->|E]; cbn [negb andb]; [rewrite M|]; reflexivity.
  - rewrite <- app_assoc. cbn [app]. do 2 f_equal.
    unfold without_all, without. rewrite filter_filter. apply filter_ext. intros x.
    rewrite mem_app, mem_cons. cbn [mem existsb]. rewrite orb_false_r, negb_orb. apply andb_comm.
Qed.

(* keys in order of FIRST occurrence *)
Theorem keys_of_list_to_dict l : keys_of (list_to_dict l) = nodup_first (flat_keys l).
Proof.
  unfold list_to_dict. rewrite keys_of_list_to_dict_acc. cbn [keys_of map app].
  unfold without_all. cbn [mem existsb negb]. apply filter_true.
Qed.
Print Assumptions keys_of_list_to_dict.

Lemma lookup_list_to_dict_acc l : forall acc k,
  lookup (list_to_dict_acc l acc) k =
  match flat_last l k with Some x => Some x | None => lookup acc k end.
Proof.
  induction l as [|x|k0 v0 r IH] using pair_ind; intros acc k; try reflexivity.
  cbn [list_to_dict_acc flat_last]. rewrite IH, lookup_dict_insert.
  destruct (flat_last r k); [reflexivity|].
  destruct (str_eqb (as_str k0) k); reflexivity.
Qed.

(* the value paired with the LAST occurrence of the key *)
Theorem dict_get_list_to_dict l k : dict_get (list_to_dict l) k = flat_last l (as_str k).
Proof.
  rewrite dict_get_lookup. unfold list_to_dict. rewrite lookup_list_to_dict_acc.
  destruct (flat_last l (as_str k)); reflexivity.
Qed.
Print Assumptions dict_get_list_to_dict.

Theorem list_to_dict_refines l : spec_of_list l (list_to_dict l).
Proof.
  constructor.
  - apply list_to_dict_wf.
  - apply keys_of_list_to_dict.
  - intros k. unfold list_to_dict. rewrite lookup_list_to_dict_acc.
    destruct (flat_last l k); reflexivity.
Qed.
Print Assumptions list_to_dict_refines.

(* sanity of the spec function nodup_first: same elements, no repetition *)
Lemma In_nodup_first x l : In x (nodup_first l) <-> In x l.
Proof.
  induction l as [|y l IH]; [reflexivity|].
  cbn [nodup_first In]. rewrite In_without, IH.
  destruct (str_eqb_spec y x) as [E|E].
  - split; intros _; left; exact E.
  - split; intros [H|H]; try contradiction.
    + right. apply H.
    + right. split; [exact H|]. intros ->. apply E. reflexivity.
Qed.

Lemma NoDup_nodup_first l : NoDup (nodup_first l).
Proof.
  induction l as [|y l IH]; [constructor|].
  cbn [nodup_first]. constructor.
  - rewrite In_without. intros [_ H]. apply H. reflexivity.
  - apply NoDup_filter'. exact IH.
Qed.

(* every dictionary obtained from a value is well formed, provided typed dictionaries are:
   the string -> dictionary conversion goes through list_to_dict *)
Theorem v_as_dict_wf dv d :
  (forall d0, dv = VDict d0 -> wf d0) -> v_as_dict dv = inr d -> wf d.
Proof.
  intros Hd H. destruct dv as [s|z|f|b|l|d0];
    try (cbn [v_as_dict] in H;
         destruct (str_as_list _) as [e|l0]; [discriminate|];
         destruct (Nat.even (length l0)); [|discriminate];
         injection H as <-; apply list_to_dict_wf).
  cbn [v_as_dict] in H. injection H as <-. apply Hd. reflexivity.
Qed.
Print Assumptions v_as_dict_wf.

(* ---------- 7: nested paths ---------- *)

(* malformed outer dictionary: an error, whatever the (non-empty) path *)
Theorem dict_path_insert_malformed dv k rest v m :
  v_as_dict dv = inl m -> dict_path_insert dv (k :: rest) v = err m.
Proof. intros H. destruct rest; cbn [dict_path_insert]; rewrite H; reflexivity. Qed.

Theorem dict_path_remove_malformed dv k rest m :
  v_as_dict dv = inl m -> dict_path_remove dv (k :: rest) = err m.
Proof. intros H. destruct rest; cbn [dict_path_remove]; rewrite H; reflexivity. Qed.

Theorem dict_path_insert_nil dv v : dict_path_insert dv [] v = Panic (lit "dict_path_insert: no keys").
Proof. reflexivity. Qed.

Theorem dict_path_remove_nil dv : dict_path_remove dv [] = Panic (lit "dict_path_remove: no keys").
Proof. reflexivity. Qed.

Theorem dict_path_insert_one dv d k v :
  v_as_dict dv = inr d -> dict_path_insert dv [k] v = Ok (VDict (dict_insert d k v)).
Proof. intros H. cbn [dict_path_insert]. rewrite H. reflexivity. Qed.

Theorem dict_path_remove_one dv d k :
  v_as_dict dv = inr d -> dict_path_remove dv [k] = Ok (VDict (dict_remove d k)).
Proof. intros H. cbn [dict_path_remove]. rewrite H. reflexivity. Qed.

(* one step of a longer path: present key *)
Theorem dict_path_insert_step_present dv d k k2 rest v sub :
  v_as_dict dv = inr d -> dict_get d k = Some sub ->
  dict_path_insert dv (k :: k2 :: rest) v =
  match dict_path_insert sub (k2 :: rest) v with
  | Ok nv => Ok (VDict (dict_insert d k nv))
  | other => other
  end.
Proof. intros H G. cbn [dict_path_insert]. rewrite H, G. reflexivity. Qed.

(* one step of a longer path: absent key, a fresh inner dictionary is started *)
Theorem dict_path_insert_step_absent dv d k k2 rest v :
  v_as_dict dv = inr d -> dict_get d k = None ->
  dict_path_insert dv (k :: k2 :: rest) v =
  match dict_path_insert (VDict []) (k2 :: rest) v with
  | Ok nv => Ok (VDict (dict_insert d k nv))
  | other => other
  end.
Proof. intros H G. cbn [dict_path_insert]. rewrite H, G. reflexivity. Qed.

Theorem dict_path_insert_two_present dv d k1 k2 v sub d2 :
  v_as_dict dv = inr d -> dict_get d k1 = Some sub -> v_as_dict sub = inr d2 ->
  dict_path_insert dv [k1; k2] v = Ok (VDict (dict_insert d k1 (VDict (dict_insert d2 k2 v)))).
Proof.
  intros H G H2. rewrite (dict_path_insert_step_present _ _ _ _ _ _ _ H G).
  rewrite (dict_path_insert_one _ _ _ _ H2). reflexivity.
Qed.

Theorem dict_path_insert_two_absent dv d k1 k2 v :
  v_as_dict dv = inr d -> dict_get d k1 = None ->
  dict_path_insert dv [k1; k2] v = Ok (VDict (dict_insert d k1 (VDict [(k2, v)]))).
Proof. intros H G. rewrite (dict_path_insert_step_absent _ _ _ _ _ _ H G). reflexivity. Qed.

(* malformed INNER dictionary: an error *)
Theorem dict_path_insert_inner_malformed dv d k k2 rest v sub m :
  v_as_dict dv = inr d -> dict_get d k = Some sub -> v_as_dict sub = inl m ->
  dict_path_insert dv (k :: k2 :: rest) v = err m.
Proof.
  intros H G H2. rewrite (dict_path_insert_step_present _ _ _ _ _ _ _ H G).
  rewrite (dict_path_insert_malformed _ _ _ _ _ H2). reflexivity.
Qed.

Theorem dict_path_remove_step dv d k k2 rest sub :
  v_as_dict dv = inr d -> dict_get d k = Some sub ->
  dict_path_remove dv (k :: k2 :: rest) =
  match dict_path_remove sub (k2 :: rest) with
  | Ok nv => Ok (VDict (dict_insert d k nv))
  | other => other
  end.
Proof. intros H G. cbn [dict_path_remove]. rewrite H, G. reflexivity. Qed.

(* missing path prefix: an error *)
Theorem dict_path_remove_missing_prefix dv d k k2 rest :
  v_as_dict dv = inr d -> dict_get d k = None ->
  dict_path_remove dv (k :: k2 :: rest) = err (key_not_known k).
Proof. intros H G. cbn [dict_path_remove]. rewrite H, G. reflexivity. Qed.

Theorem dict_path_remove_inner_malformed dv d k k2 rest sub m :
  v_as_dict dv = inr d -> dict_get d k = Some sub -> v_as_dict sub = inl m ->
  dict_path_remove dv (k :: k2 :: rest) = err m.
Proof.
  intros H G H2. rewrite (dict_path_remove_step _ _ _ _ _ _ H G).
  rewrite (dict_path_remove_malformed _ _ _ _ H2). reflexivity.
Qed.

Theorem dict_path_remove_two dv d k1 k2 sub d2 :
  v_as_dict dv = inr d -> dict_get d k1 = Some sub -> v_as_dict sub = inr d2 ->
  dict_path_remove dv [k1; k2] = Ok (VDict (dict_insert d k1 (VDict (dict_remove d2 k2)))).
Proof.
  intros H G H2. rewrite (dict_path_remove_step _ _ _ _ _ _ H G).
  rewrite (dict_path_remove_one _ _ _ H2). reflexivity.
Qed.

(* the LAST key of a remove path may be absent: nothing changes at that level *)
Theorem dict_path_remove_one_absent dv d k :
  v_as_dict dv = inr d -> dict_get d k = None -> dict_path_remove dv [k] = Ok (VDict d).
Proof.
  intros H G. rewrite (dict_path_remove_one _ _ _ H), (dict_remove_absent _ _ G). reflexivity.
Qed.

(* a path operation either fails or yields a typed dictionary; Panic only on the empty path,
   never Fuel *)
Theorem dict_path_insert_result keys : forall dv v,
  keys <> [] ->
  (exists d', dict_path_insert dv keys v = Ok (VDict d')) \/ (exists m, dict_path_insert dv keys v = err m).
Proof.
  induction keys as [|k rest IH]; intros dv v Hne; [congruence|].
  destruct (v_as_dict dv) as [m|d] eqn:H.
  - right. exists m. apply dict_path_insert_malformed. exact H.
  - destruct rest as [|k2 rest].
    + left. eexists. apply dict_path_insert_one. exact H.
    + cbn [dict_path_insert]. rewrite H.
      set (sub := match dict_get d k with Some x => x | None => VDict [] end).
      destruct (IH sub v ltac:(discriminate)) as [[d' E]|[m E]].
      * left. exists (dict_insert d k (VDict d')). cbn [dict_path_insert] in E. rewrite E. reflexivity.
      * right. exists m. cbn [dict_path_insert] in E. rewrite E. reflexivity.
Qed.
Print Assumptions dict_path_insert_result.

(* ---------- 9: the `dict` command ---------- *)

(* named copies of the two anonymous loops of cmd_dict *)
Fixpoint dict_path_exists (v : value) (ks : list value) : bool :=
  match ks with
  | [] => true
  | k :: r => match v_as_dict v with
              | inr d => match dict_get d k with Some x => dict_path_exists x r | None => false end
              | inl _ => false
              end
  end.

Fixpoint dict_path_get (v : value) (ks : list value) : res value :=
  match ks with
  | [] => Ok v
  | k :: r => match v_as_dict v with
              | inr d => match dict_get d k with
                         | Some x => dict_path_get x r
                         | None => err (key_not_known k)
                         end
              | inl m => err m
              end
  end.

(* evaluates the argument checks and the subcommand dispatch of [cmd_dict] on an argument
   vector whose spine and subcommand name are concrete *)
Ltac dict_dispatch :=
  unfold cmd_dict;
  repeat match goal with
         | |- context [check_subcommand ?l] =>
             let r := eval cbv in (check_subcommand l) in change (check_subcommand l) with r
         | |- context [is_sub ?l ?n] =>
             let b := eval vm_compute in (is_sub l n) in change (is_sub l n) with b
         end;
  cbv beta iota; cbn [lift bind].

Ltac dict_check_args :=
  match goal with
  | |- context [check_args ?n ?l] =>
      let r := eval vm_compute in (check_args n l) in change (check_args n l) with r
  end; cbn [lift bind].

Theorem cmd_dict_size st c dv d :
  v_as_dict dv = inr d ->
  cmd_dict st [c; VStr (lit "size"); dv] = (st, Ok (VInt (Z.of_nat (length d)))).
Proof.
  intros H. dict_dispatch. dict_check_args.
  change (arg [c; VStr (lit "size"); dv] 2) with dv. rewrite H. reflexivity.
Qed.
Print Assumptions cmd_dict_size.

Theorem cmd_dict_keys st c dv d :
  v_as_dict dv = inr d ->
  cmd_dict st [c; VStr (lit "keys"); dv] = (st, Ok (VList (map fst d))).
Proof.
  intros H. dict_dispatch. dict_check_args.
  change (arg [c; VStr (lit "keys"); dv] 2) with dv. rewrite H. reflexivity.
Qed.
Print Assumptions cmd_dict_keys.

Theorem cmd_dict_values st c dv d :
  v_as_dict dv = inr d ->
  cmd_dict st [c; VStr (lit "values"); dv] = (st, Ok (VList (map snd d))).
Proof.
  intros H. dict_dispatch. dict_check_args.
  change (arg [c; VStr (lit "values"); dv] 2) with dv. rewrite H. reflexivity.
Qed.
Print Assumptions cmd_dict_values.

(* the strings `dict keys` lists are the observation keys_of *)
Lemma keys_of_map_fst (d : dict) : map as_str (map fst d) = keys_of d.
Proof. unfold keys_of. apply map_map. Qed.

(* a malformed dictionary argument is an error *)
Theorem cmd_dict_size_malformed st c dv m :
  v_as_dict dv = inl m -> cmd_dict st [c; VStr (lit "size"); dv] = (st, err m).
Proof.
  intros H. dict_dispatch. dict_check_args.
  change (arg [c; VStr (lit "size"); dv] 2) with dv. rewrite H. reflexivity.
Qed.

Theorem cmd_dict_keys_malformed st c dv m :
  v_as_dict dv = inl m -> cmd_dict st [c; VStr (lit "keys"); dv] = (st, err m).
Proof.
  intros H. dict_dispatch. dict_check_args.
  change (arg [c; VStr (lit "keys"); dv] 2) with dv. rewrite H. reflexivity.
Qed.

Theorem cmd_dict_values_malformed st c dv m :
  v_as_dict dv = inl m -> cmd_dict st [c; VStr (lit "values"); dv] = (st, err m).
Proof.
  intros H. dict_dispatch. dict_check_args.
  change (arg [c; VStr (lit "values"); dv] 2) with dv. rewrite H. reflexivity.
Qed.

(* `dict exists d k ...` and `dict get d ?k ...?` for any number of keys *)
Theorem cmd_dict_exists st c dv k ks :
  cmd_dict st (c :: VStr (lit "exists") :: dv :: k :: ks) = (st, Ok (VBool (dict_path_exists dv (k :: ks)))).
Proof. dict_dispatch. dict_check_args. reflexivity. Qed.
Print Assumptions cmd_dict_exists.

Theorem cmd_dict_get st c dv ks :
  cmd_dict st (c :: VStr (lit "get") :: dv :: ks) = (st, dict_path_get dv ks).
Proof. dict_dispatch. dict_check_args. reflexivity. Qed.
Print Assumptions cmd_dict_get.

Theorem cmd_dict_exists_one st c dv d k :
  v_as_dict dv = inr d ->
  cmd_dict st [c; VStr (lit "exists"); dv; k] = (st, Ok (VBool (mem (as_str k) (keys_of d)))).
Proof.
  intros H. rewrite cmd_dict_exists. cbn [dict_path_exists]. rewrite H, dict_get_mem.
  destruct (dict_get d k); reflexivity.
Qed.
Print Assumptions cmd_dict_exists_one.

Theorem cmd_dict_get_one st c dv d k :
  v_as_dict dv = inr d ->
  cmd_dict st [c; VStr (lit "get"); dv; k] =
  (st, match lookup d (as_str k) with Some x => Ok x | None => err (key_not_known k) end).
Proof.
  intros H. rewrite cmd_dict_get. cbn [dict_path_get]. rewrite H, dict_get_lookup. reflexivity.
Qed.
Print Assumptions cmd_dict_get_one.

(* malformed dictionaries on the path: `dict get` fails, `dict exists` answers false *)
Theorem dict_path_get_malformed dv k ks m : v_as_dict dv = inl m -> dict_path_get dv (k :: ks) = err m.
Proof. intros H. cbn [dict_path_get]. rewrite H. reflexivity. Qed.

Theorem dict_path_get_missing dv d k ks :
  v_as_dict dv = inr d -> dict_get d k = None -> dict_path_get dv (k :: ks) = err (key_not_known k).
Proof. intros H G. cbn [dict_path_get]. rewrite H, G. reflexivity. Qed.

Theorem dict_path_exists_malformed dv k ks m : v_as_dict dv = inl m -> dict_path_exists dv (k :: ks) = false.
Proof. intros H. cbn [dict_path_exists]. rewrite H. reflexivity. Qed.

(* `dict remove d ?k ...?` *)
Theorem cmd_dict_remove st c dv d ks :
  v_as_dict dv = inr d ->
  cmd_dict st (c :: VStr (lit "remove") :: dv :: ks) = (st, Ok (VDict (fold_left dict_remove ks d))).
Proof.
  intros H. dict_dispatch. dict_check_args.
  change (arg (c :: VStr (lit "remove") :: dv :: ks) 2) with dv. rewrite H. reflexivity.
Qed.
Print Assumptions cmd_dict_remove.

Theorem cmd_dict_remove_malformed st c dv m ks :
  v_as_dict dv = inl m -> cmd_dict st (c :: VStr (lit "remove") :: dv :: ks) = (st, err m).
Proof.
  intros H. dict_dispatch. dict_check_args.
  change (arg (c :: VStr (lit "remove") :: dv :: ks) 2) with dv. rewrite H. reflexivity.
Qed.

(* `dict create ?k v ...?` *)
Theorem cmd_dict_create st c l :
  Nat.even (length l) = true ->
  cmd_dict st (c :: VStr (lit "create") :: l) = (st, Ok (VDict (list_to_dict l))).
Proof.
  intros H. dict_dispatch.
  change (Nat.even (length (c :: VStr (lit "create") :: l))) with (Nat.even (length l)).
  rewrite H. reflexivity.
Qed.
Print Assumptions cmd_dict_create.

Theorem cmd_dict_create_odd st c l :
  Nat.even (length l) = false ->
  cmd_dict st (c :: VStr (lit "create") :: l) =
  (st, err (lit "wrong # args: should be """ ++ list_to_string [as_str c; lit "create"] ++ lit " ?key value?""")).
Proof.
  intros H. dict_dispatch.
  change (Nat.even (length (c :: VStr (lit "create") :: l))) with (Nat.even (length l)).
  rewrite H. reflexivity.
Qed.

(* `dict set var k ?k ...? v` and `dict unset var k ?k ...?`: read the variable (an unset
   variable counts as the empty dictionary), compute a NEW dictionary value, store it back *)
Definition dict_var_old (st : interp) (name : value) : value :=
  match st_var st name with Ok o => o | _ => VDict [] end.

Theorem cmd_dict_set_eq st c name k x rest :
  cmd_dict st (c :: VStr (lit "set") :: name :: k :: x :: rest) =
  bind (lift st (dict_path_insert (dict_var_old st name) (removelast (k :: x :: rest)) (last (x :: rest) v_empty)))
       (fun st1 nv => st_set_var_return st1 name nv).
Proof. dict_dispatch. dict_check_args. reflexivity. Qed.
Print Assumptions cmd_dict_set_eq.

Theorem cmd_dict_set_one st c name k v d :
  v_as_dict (dict_var_old st name) = inr d ->
  cmd_dict st [c; VStr (lit "set"); name; k; v] = st_set_var_return st name (VDict (dict_insert d k v)).
Proof.
  intros H. rewrite cmd_dict_set_eq. cbn [removelast last].
  rewrite (dict_path_insert_one _ _ _ _ H). reflexivity.
Qed.
Print Assumptions cmd_dict_set_one.

Theorem cmd_dict_unset_eq st c name k rest :
  cmd_dict st (c :: VStr (lit "unset") :: name :: k :: rest) =
  bind (lift st (dict_path_remove (dict_var_old st name) (k :: rest)))
       (fun st1 nv => st_set_var_return st1 name nv).
Proof. dict_dispatch. dict_check_args. reflexivity. Qed.
Print Assumptions cmd_dict_unset_eq.

Theorem cmd_dict_unset_one st c name k d :
  v_as_dict (dict_var_old st name) = inr d ->
  cmd_dict st [c; VStr (lit "unset"); name; k] = st_set_var_return st name (VDict (dict_remove d k)).
Proof.
  intros H. rewrite cmd_dict_unset_eq. rewrite (dict_path_remove_one _ _ _ H). reflexivity.
Qed.
Print Assumptions cmd_dict_unset_one.

(* a successful path operation rebuilds the OUTER dictionary with one dict_insert / dict_remove
   at the first key: the other outer entries keep their positions and values *)
Theorem dict_path_insert_outer dv d k rest v r :
  v_as_dict dv = inr d -> dict_path_insert dv (k :: rest) v = Ok r ->
  exists nv, r = VDict (dict_insert d k nv).
Proof.
  intros H E. destruct rest as [|k2 rest]; cbn [dict_path_insert] in E; rewrite H in E.
  - injection E as <-. eexists. reflexivity.
  - match type of E with
    | match ?x with _ => _ end = _ => destruct x as [nv| | |]; try discriminate
    end.
    injection E as <-. eexists. reflexivity.
Qed.
Print Assumptions dict_path_insert_outer.

Theorem dict_path_remove_outer dv d k rest r :
  v_as_dict dv = inr d -> dict_path_remove dv (k :: rest) = Ok r ->
  r = VDict (dict_remove d k) \/ exists nv, r = VDict (dict_insert d k nv).
Proof.
  intros H E. destruct rest as [|k2 rest]; cbn [dict_path_remove] in E; rewrite H in E.
  - injection E as <-. left. reflexivity.
  - destruct (dict_get d k) as [sub|]; [|discriminate].
    match type of E with
    | match ?x with _ => _ end = _ => destruct x as [nv| | |]; try discriminate
    end.
    injection E as <-. right. eexists. reflexivity.
Qed.
Print Assumptions dict_path_remove_outer.

Corollary dict_path_insert_wf dv d k rest v r :
  v_as_dict dv = inr d -> wf d -> dict_path_insert dv (k :: rest) v = Ok r ->
  exists d', r = VDict d' /\ wf d' /\
             keys_of d' = if mem (as_str k) (keys_of d) then keys_of d else keys_of d ++ [as_str k].
Proof.
  intros H W E. destruct (dict_path_insert_outer _ _ _ _ _ _ H E) as [nv ->].
  eexists. split; [reflexivity|]. split; [apply dict_insert_wf; exact W|apply keys_of_dict_insert].
Qed.
Print Assumptions dict_path_insert_wf.

(* ---------- examples (checked by computation) ---------- *)
Section Examples.
  Let a := VStr (lit "a"). Let b := VStr (lit "b"). Let ab := VStr (lit "a b").
  Let i1 := VInt 1. Let s1 := VStr (lit "1").
  Let l := [a; i1; b; s1; a; b; ab; a; i1; a; s1; b].   (* a 1 b 1 a b {a b} a 1 a 1 b *)

  (* first occurrence fixes the position; the integer 1 and the string "1" are the same key *)
  Example ex_keys : keys_of (list_to_dict l) = [lit "a"; lit "b"; lit "a b"; lit "1"].
  Proof. vm_compute. reflexivity. Qed.
  (* last occurrence fixes the value *)
  Example ex_get : dict_get (list_to_dict l) s1 = Some b /\ dict_get (list_to_dict l) a = Some b.
  Proof. vm_compute. split; reflexivity. Qed.
  (* the KEY VALUE stored is the one of the first insertion (IndexMap::insert keeps the old key) *)
  Example ex_stored_key : map fst (list_to_dict [i1; a; s1; b]) = [i1].
  Proof. vm_compute. reflexivity. Qed.
  (* without wf, dict_remove only removes the first entry: wf is needed in keys_of_dict_remove *)
  Example ex_remove_needs_wf :
    keys_of (dict_remove [(a, i1); (a, b)] a) = [lit "a"] /\
    filter (fun x => negb (str_eqb x (as_str a))) (keys_of [(a, i1); (a, b)]) = [].
  Proof. vm_compute. split; reflexivity. Qed.
  Example ex_path_insert :
    dict_path_insert (VStr (lit "a {x 1} b 2")) [VStr (lit "c"); VStr (lit "y")] i1 =
    Ok (VDict [(VStr (lit "a"), VStr (lit "x 1")); (VStr (lit "b"), VStr (lit "2"));
               (VStr (lit "c"), VDict [(VStr (lit "y"), i1)])]).
  Proof. vm_compute. reflexivity. Qed.
  Example ex_path_remove_malformed :
    dict_path_remove (VStr (lit "a {x 1 z} b 2")) [a; VStr (lit "y")] = err (lit "missing value to go with key").
  Proof. vm_compute. reflexivity. Qed.
End Examples.
