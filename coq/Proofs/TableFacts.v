(* TableFacts.v — C18: the command table and the command contexts stay consistent.
   Proofs about the definitions of Spec/SpecTable.v:
     table_inv_init, apply_op_inv, reachable_inv      reference count = number of bound users
     apply_op_refines (+ corollaries)                 the table refines the abstract name map
     context_kept_while_used, context_dropped_when_unused   context lifetime *)
From Molt Require Import Model.Base Model.Value Model.State Model.Eval Model.Commands Model.Interp.
From Molt Require Import Spec.SpecTable Proofs.BaseFacts.
From Coq Require Import Lia ZifyBool ZifyN.

Arguments N.eqb : simpl never.
Arguments N.leb : simpl never.
Arguments N.ltb : simpl never.

Local Open Scope N_scope.

(* ---------- strings ---------- *)

Lemma str_eqb_neq a b : str_eqb a b = false <-> a <> b.
Proof.
  split.
  - intros H E. apply str_eqb_eq in E. congruence.
  - intros H. destruct (str_eqb a b) eqn:E; [|reflexivity]. apply str_eqb_eq in E. contradiction.
Qed.

Lemma str_eqb_sym a b : str_eqb a b = str_eqb b a.
Proof.
  destruct (str_eqb a b) eqn:E1, (str_eqb b a) eqn:E2; try reflexivity.
  - apply str_eqb_eq in E1. subst. rewrite str_eqb_refl in E2. discriminate.
  - apply str_eqb_eq in E2. subst. rewrite str_eqb_refl in E1. discriminate.
Qed.

(* ---------- association lists ---------- *)
Section Assoc.
Context {A : Type}.
Implicit Types (m : list (str * A)) (k : str) (a : A).

Lemma assoc_get_In k m a : assoc_get k m = Some a -> In (k, a) m.
Proof.
  induction m as [|[k0 a0] r IH]; cbn [assoc_get]; [discriminate|].
  destruct (str_eqb k0 k) eqn:E.
  - intros H. injection H as ->. apply str_eqb_eq in E. subst. left. reflexivity.
  - intros H. right. apply IH. exact H.
Qed.

Lemma assoc_get_None k m : assoc_get k m = None <-> ~ In k (map fst m).
Proof.
  induction m as [|[k0 a0] r IH]; cbn [assoc_get map fst In].
  - split; [intros _ []|reflexivity].
  - destruct (str_eqb k0 k) eqn:E.
    + apply str_eqb_eq in E. subst. split; [discriminate|]. intros H. exfalso. apply H. left. reflexivity.
    + apply str_eqb_neq in E. rewrite IH. split.
      * intros H [H1|H1]; [contradiction|]. apply H. exact H1.
      * intros H H1. apply H. right. exact H1.
Qed.

Lemma In_assoc_get k m a : NoDup (map fst m) -> In (k, a) m -> assoc_get k m = Some a.
Proof.
  induction m as [|[k0 a0] r IH]; cbn [assoc_get map fst In]; [intros _ []|].
  intros Hnd Hin. inversion Hnd as [|x l Hnotin Hnd']. subst.
  destruct Hin as [Hin|Hin].
  - injection Hin as -> ->. rewrite str_eqb_refl. reflexivity.
  - destruct (str_eqb k0 k) eqn:E.
    + apply str_eqb_eq in E. subst. exfalso. apply Hnotin.
      change k with (fst (k, a)). apply in_map. exact Hin.
    + apply IH; assumption.
Qed.

Lemma assoc_get_set k a m k' :
  assoc_get k' (assoc_set k a m) = if str_eqb k k' then Some a else assoc_get k' m.
Proof.
  induction m as [|[k0 a0] r IH]; cbn [assoc_set assoc_get]; [reflexivity|].
  destruct (str_eqb k0 k) eqn:E; cbn [assoc_get].
  - apply str_eqb_eq in E. subst. destruct (str_eqb k k'); reflexivity.
  - rewrite IH. destruct (str_eqb k k') eqn:E2; [|reflexivity].
    apply str_eqb_eq in E2. subst. rewrite E. reflexivity.
Qed.

Lemma assoc_get_remove k m k' :
  NoDup (map fst m) ->
  assoc_get k' (assoc_remove k m) = if str_eqb k k' then None else assoc_get k' m.
Proof.
  induction m as [|[k0 a0] r IH]; cbn [assoc_remove assoc_get map fst]; intros Hnd.
  - destruct (str_eqb k k'); reflexivity.
  - inversion Hnd as [|x l Hnotin Hnd']. subst.
    destruct (str_eqb k0 k) eqn:E; cbn [assoc_get].
    + apply str_eqb_eq in E. subst. destruct (str_eqb k k') eqn:E2; [|reflexivity].
      apply str_eqb_eq in E2. subst. apply assoc_get_None. exact Hnotin.
    + rewrite (IH Hnd'). destruct (str_eqb k k') eqn:E2; [|reflexivity].
      apply str_eqb_eq in E2. subst. rewrite E. reflexivity.
Qed.

Lemma in_fst_assoc_set x k a m : In x (map fst (assoc_set k a m)) -> x = k \/ In x (map fst m).
Proof.
  induction m as [|[k0 a0] r IH]; cbn [assoc_set map fst In].
  - intros [H|[]]. left. symmetry. exact H.
  - destruct (str_eqb k0 k); cbn [map fst In].
    + intros H. right. exact H.
    + intros [H|H]; [right; left; exact H|]. destruct (IH H) as [H1|H1]; [left; exact H1|right; right; exact H1].
Qed.

Lemma NoDup_assoc_set k a m : NoDup (map fst m) -> NoDup (map fst (assoc_set k a m)).
Proof.
  induction m as [|[k0 a0] r IH]; cbn [assoc_set map fst]; intros Hnd.
  - constructor; [intros []|constructor].
  - inversion Hnd as [|x l Hnotin Hnd']. subst.
    destruct (str_eqb k0 k) eqn:E; cbn [map fst].
    + constructor; assumption.
    + apply str_eqb_neq in E. constructor; [|apply IH; exact Hnd'].
      intros H. apply in_fst_assoc_set in H. destruct H as [H|H]; [contradiction|]. apply Hnotin. exact H.
Qed.

Lemma in_fst_assoc_remove x k m : In x (map fst (assoc_remove k m)) -> In x (map fst m).
Proof.
  induction m as [|[k0 a0] r IH]; cbn [assoc_remove map fst In]; [intros []|].
  destruct (str_eqb k0 k); cbn [map fst In].
  - intros H. right. exact H.
  - intros [H|H]; [left; exact H|right; apply IH; exact H].
Qed.

Lemma NoDup_assoc_remove k m : NoDup (map fst m) -> NoDup (map fst (assoc_remove k m)).
Proof.
  induction m as [|[k0 a0] r IH]; cbn [assoc_remove map fst]; intros Hnd; [constructor|].
  inversion Hnd as [|x l Hnotin Hnd']. subst.
  destruct (str_eqb k0 k); cbn [map fst]; [exact Hnd'|].
  constructor; [|apply IH; exact Hnd'].
  intros H. apply Hnotin. apply in_fst_assoc_remove in H. exact H.
Qed.
End Assoc.

(* ---------- users ---------- *)

(* the number of references one command holds to context [c] *)
Definition use (cmd : command) (c : N) : nat := if uses_ctx cmd c then 1%nat else 0%nat.
Definition use_opt (o : option command) (c : N) : nat :=
  match o with Some cmd => use cmd c | None => 0%nat end.
(* the context id a (possibly absent) command carries; 0 = none *)
Definition ctx_of_opt (o : option command) : N :=
  match o with Some cmd => cmd_context cmd | None => 0 end.

Lemma users_nil c : users [] c = 0%nat.
Proof. reflexivity. Qed.

Lemma users_cons k a r c : users ((k, a) :: r) c = (use a c + users r c)%nat.
Proof. unfold users, use. cbn [filter snd]. destruct (uses_ctx a c); reflexivity. Qed.

Global Opaque users.

Lemma use_opt_ctx o c : c <> 0 -> use_opt o c = if ctx_of_opt o =? c then 1%nat else 0%nat.
Proof.
  intros Hc. destruct o as [[n k|p b]|]; cbn [use_opt ctx_of_opt cmd_context]; unfold use; cbn [uses_ctx].
  - reflexivity.
  - destruct (0 =? c) eqn:E; [|reflexivity]. apply N.eqb_eq in E. congruence.
  - destruct (0 =? c) eqn:E; [|reflexivity]. apply N.eqb_eq in E. congruence.
Qed.

(* overwriting a binding removes one user of the old command's context and adds one of the new *)
Lemma users_assoc_set k a m c :
  (users (assoc_set k a m) c + use_opt (assoc_get k m) c = users m c + use a c)%nat.
Proof.
  induction m as [|[k0 a0] r IH]; cbn [assoc_set assoc_get use_opt].
  - rewrite users_cons, users_nil. lia.
  - destruct (str_eqb k0 k); rewrite !users_cons; cbn [use_opt]; lia.
Qed.

Lemma users_assoc_remove k m c :
  (users (assoc_remove k m) c + use_opt (assoc_get k m) c = users m c)%nat.
Proof.
  induction m as [|[k0 a0] r IH]; cbn [assoc_remove assoc_get use_opt].
  - lia.
  - destruct (str_eqb k0 k); rewrite !users_cons; cbn [use_opt]; lia.
Qed.

Lemma users_pos_iff m c :
  (0 < users m c)%nat <-> exists k n, In (k, CmdNative n c) m.
Proof.
  induction m as [|[k0 a0] r IH].
  - rewrite users_nil. split; [lia|]. intros (k & n & []).
  - rewrite users_cons. split.
    + intros H. destruct (use a0 c) eqn:E.
      * destruct IH as [IH _]. destruct IH as (k & n & Hin); [lia|]. exists k, n. right. exact Hin.
      * unfold use in E. destruct a0 as [n0 c0|p b]; cbn [uses_ctx] in E; [|discriminate].
        destruct (c0 =? c) eqn:Ec; [|discriminate]. apply N.eqb_eq in Ec. subst.
        exists k0, n0. left. reflexivity.
    + intros (k & n & [Hin|Hin]).
      * injection Hin as -> ->. unfold use. cbn [uses_ctx]. rewrite N.eqb_refl. lia.
      * assert (0 < users r c)%nat; [|lia]. apply IH. exists k, n. exact Hin.
Qed.

(* ---------- the context map ---------- *)

Lemma ctx_get_nil c : ctx_get [] c = None.
Proof. reflexivity. Qed.

Lemma ctx_get_cons i n m c : ctx_get ((i, n) :: m) c = if i =? c then Some n else ctx_get m c.
Proof. unfold ctx_get. cbn [find fst snd]. destruct (i =? c); reflexivity. Qed.

Lemma ctx_incr_cons i n m id :
  ctx_incr ((i, n) :: m) id = (if i =? id then (i, n + 1) else (i, n)) :: ctx_incr m id.
Proof. reflexivity. Qed.

Lemma ctx_decr_cons i n m id :
  ctx_decr ((i, n) :: m) id
  = (if i =? id then (if n <=? 1 then [] else [(i, n - 1)]) else [(i, n)]) ++ ctx_decr m id.
Proof. reflexivity. Qed.

Lemma ctx_get_None m c : ctx_get m c = None <-> ~ In c (map fst m).
Proof.
  induction m as [|[i n] r IH].
  - rewrite ctx_get_nil. split; [intros _ []|reflexivity].
  - rewrite ctx_get_cons. cbn [map fst In]. destruct (i =? c) eqn:E.
    + apply N.eqb_eq in E. split; [discriminate|]. intros H. exfalso. apply H. left. exact E.
    + apply N.eqb_neq in E. rewrite IH. split.
      * intros H [H1|H1]; [contradiction|]. apply H. exact H1.
      * intros H H1. apply H. right. exact H1.
Qed.

Lemma ctx_get_incr m id c :
  ctx_get (ctx_incr m id) c
  = if c =? id then option_map (fun n => n + 1) (ctx_get m c) else ctx_get m c.
Proof.
  induction m as [|[i n] r IH].
  - change (ctx_incr [] id) with (@nil (N * N)). rewrite ctx_get_nil. destruct (c =? id); reflexivity.
  - rewrite ctx_incr_cons, ctx_get_cons.
    destruct (i =? id) eqn:E1; rewrite ctx_get_cons, IH; destruct (i =? c) eqn:E2; destruct (c =? id) eqn:E3;
      try reflexivity; lia.
Qed.

Lemma map_fst_ctx_incr m id : map fst (ctx_incr m id) = map fst m.
Proof.
  induction m as [|[i n] r IH]; [reflexivity|].
  rewrite ctx_incr_cons. cbn [map]. rewrite IH. destruct (i =? id); reflexivity.
Qed.

(* what a decrement does to one reference count *)
Definition dec_count (g : option N) : option N :=
  match g with
  | Some n => if n <=? 1 then None else Some (n - 1)
  | None => None
  end.

Lemma ctx_get_decr m id c :
  NoDup (map fst m) ->
  ctx_get (ctx_decr m id) c = if c =? id then dec_count (ctx_get m c) else ctx_get m c.
Proof.
  induction m as [|[i n] r IH]; intros Hnd.
  - change (ctx_decr [] id) with (@nil (N * N)). rewrite ctx_get_nil. destruct (c =? id); reflexivity.
  - cbn [map fst] in Hnd. inversion Hnd as [|x l Hnotin Hnd']. subst.
    specialize (IH Hnd'). rewrite ctx_decr_cons, (ctx_get_cons i n r c).
    destruct (i =? id) eqn:E1.
    + apply N.eqb_eq in E1. subst i.
      apply ctx_get_None in Hnotin.
      destruct (n <=? 1) eqn:E4; cbn [app]; [|rewrite ctx_get_cons]; rewrite ?IH;
        destruct (id =? c) eqn:E2; destruct (c =? id) eqn:E3; cbn [dec_count]; rewrite ?E4;
        try reflexivity; try lia.
      apply N.eqb_eq in E3. subst c. rewrite Hnotin. reflexivity.
    + cbn [app]. rewrite ctx_get_cons, IH.
      destruct (i =? c) eqn:E2; destruct (c =? id) eqn:E3; try reflexivity; lia.
Qed.

Lemma in_fst_ctx_decr x m id : In x (map fst (ctx_decr m id)) -> In x (map fst m).
Proof.
  induction m as [|[i n] r IH]; [intros []|].
  rewrite ctx_decr_cons, map_app, in_app_iff. cbn [map fst In].
  intros [H|H]; [|right; apply IH; exact H].
  destruct (i =? id); [destruct (n <=? 1)|]; cbn [map fst In] in H; try contradiction; destruct H as [H|[]]; left; exact H.
Qed.

Lemma NoDup_ctx_decr m id : NoDup (map fst m) -> NoDup (map fst (ctx_decr m id)).
Proof.
  induction m as [|[i n] r IH]; intros Hnd; [constructor|].
  cbn [map fst] in Hnd. inversion Hnd as [|x l Hnotin Hnd']. subst.
  rewrite ctx_decr_cons.
  assert (~ In i (map fst (ctx_decr r id))) as Hni.
  { intros H. apply Hnotin. apply in_fst_ctx_decr in H. exact H. }
  destruct (i =? id); [destruct (n <=? 1)|]; cbn [app map fst];
    try (constructor; [exact Hni|]); apply IH; exact Hnd'.
Qed.

Lemma ctx_get_snoc m id c :
  ctx_get (m ++ [(id, 0)]) c
  = match ctx_get m c with Some n => Some n | None => if id =? c then Some 0 else None end.
Proof.
  induction m as [|[i n] r IH]; cbn [app].
  - rewrite ctx_get_cons, !ctx_get_nil. reflexivity.
  - rewrite !ctx_get_cons, IH. destruct (i =? c); reflexivity.
Qed.

Lemma NoDup_snoc {A} (l : list A) x : NoDup l -> ~ In x l -> NoDup (l ++ [x]).
Proof.
  induction l as [|y l IH]; cbn [app]; intros Hnd Hx.
  - constructor; [intros []|constructor].
  - inversion Hnd as [|z l' Hy Hnd']. subst. constructor.
    + rewrite in_app_iff. intros [H|[H|[]]]; [contradiction|]. apply Hx. left. symmetry. exact H.
    + apply IH; [exact Hnd'|]. intros H. apply Hx. right. exact H.
Qed.

(* release / acquire one reference to the context with id [k] (0 = no context) *)
Definition rel_id (k : N) (ctx : list (N * N)) : list (N * N) := if k =? 0 then ctx else ctx_decr ctx k.
Definition incr0 (k : N) (ctx : list (N * N)) : list (N * N) := if k =? 0 then ctx else ctx_incr ctx k.

Lemma NoDup_incr0 k ctx : NoDup (map fst ctx) -> NoDup (map fst (incr0 k ctx)).
Proof. unfold incr0. destruct (k =? 0); [auto|]. rewrite map_fst_ctx_incr. auto. Qed.

Lemma NoDup_rel_id k ctx : NoDup (map fst ctx) -> NoDup (map fst (rel_id k ctx)).
Proof. unfold rel_id. destruct (k =? 0); [auto|]. apply NoDup_ctx_decr. Qed.

Lemma ctx_get_incr0 k ctx c :
  ctx_get (incr0 k ctx) c
  = if negb (k =? 0) && (c =? k) then option_map (fun n => n + 1) (ctx_get ctx c) else ctx_get ctx c.
Proof. unfold incr0. destruct (k =? 0); cbn [negb andb]; [reflexivity|]. apply ctx_get_incr. Qed.

Lemma ctx_get_rel_id k ctx c :
  NoDup (map fst ctx) ->
  ctx_get (rel_id k ctx) c
  = if negb (k =? 0) && (c =? k) then dec_count (ctx_get ctx c) else ctx_get ctx c.
Proof. intros Hnd. unfold rel_id. destruct (k =? 0); cbn [negb andb]; [reflexivity|]. apply ctx_get_decr. exact Hnd. Qed.

(* ---------- the invariant, pointwise ---------- *)

(* what the invariant says about one context id [c]: [g] is its entry in the context map, [u] the
   number of names bound to a command carrying it *)
Definition cinv (last : N) (g : option N) (u : nat) (c : N) : Prop :=
  match g with
  | Some n => c <> 0 /\ c <= last /\ n = N.of_nat u
  | None => c = 0 \/ u = 0%nat
  end.

Definition tinv (cmds : list (str * command)) (ctx : list (N * N)) (last : N) : Prop :=
  names_unique cmds /\ NoDup (map fst ctx) /\ forall c, cinv last (ctx_get ctx c) (users cmds c) c.

Lemma table_inv_iff st : table_inv st <-> tinv (i_cmds st) (i_ctx st) (i_last_ctx st).
Proof.
  unfold table_inv, tinv. split.
  - intros (Hu & Hnd & H3 & H4). split; [exact Hu|]. split; [exact Hnd|].
    intros c. unfold cinv. destruct (ctx_get (i_ctx st) c) as [n|] eqn:E.
    + apply H3. exact E.
    + destruct (N.eq_dec c 0) as [Hc|Hc]; [left; exact Hc|right].
      destruct (users (i_cmds st) c) eqn:Eu; [reflexivity|exfalso].
      assert (0 < users (i_cmds st) c)%nat as Hpos by lia.
      apply users_pos_iff in Hpos. destruct Hpos as (k & n0 & Hin).
      apply (In_assoc_get _ _ _ Hu) in Hin. apply (H4 _ _ _ Hin Hc). exact E.
  - intros (Hu & Hnd & H). split; [exact Hu|]. split; [exact Hnd|]. split.
    + intros c n E. specialize (H c). rewrite E in H. exact H.
    + intros name n c Hget Hc E. specialize (H c). rewrite E in H. destruct H as [H|H]; [contradiction|].
      assert (0 < users (i_cmds st) c)%nat as Hpos; [|lia].
      apply users_pos_iff. exists name, n. apply assoc_get_In. exact Hget.
Qed.

(* The heart: acquire a reference to [kn], then release one to [ko] (either may be 0 = none), while
   the number of users changes accordingly. *)
Lemma cinv_step last ctx (u u' : nat) ko kn c :
  NoDup (map fst ctx) ->
  cinv last (ctx_get ctx c) u c ->
  (kn = 0 \/ ctx_get ctx kn <> None) ->
  (c <> 0 -> (u' + (if (ko =? c)%N then 1 else 0) = u + (if (kn =? c)%N then 1 else 0))%nat) ->
  cinv last (ctx_get (rel_id ko (incr0 kn ctx)) c) u' c.
Proof.
  intros Hnd Hinv Hk Hu.
  rewrite (ctx_get_rel_id _ _ _ (NoDup_incr0 kn ctx Hnd)), ctx_get_incr0.
  destruct (N.eq_dec c 0) as [Hc|Hc].
  - subst c. unfold cinv in Hinv. destruct (ctx_get ctx 0) as [n|] eqn:E; [lia|].
    destruct (negb (ko =? 0) && (0 =? ko)) eqn:E1; [lia|].
    destruct (negb (kn =? 0) && (0 =? kn)) eqn:E2; [lia|].
    cbn [cinv]. left. reflexivity.
  - specialize (Hu Hc).
    assert (c = kn -> ctx_get ctx c <> None) as Hk'.
    { intros ->. destruct Hk as [Hk|Hk]; [contradiction|exact Hk]. }
    unfold cinv in Hinv.
    destruct (ko =? c) eqn:E1; destruct (kn =? c) eqn:E2;
      destruct (negb (ko =? 0) && (c =? ko)) eqn:E3; try lia;
      destruct (negb (kn =? 0) && (c =? kn)) eqn:E4; try lia;
      destruct (ctx_get ctx c) as [n|] eqn:E; cbn [option_map dec_count];
      try (exfalso; apply Hk'; [lia|reflexivity]);
      try (destruct (n + 1 <=? 1) eqn:E5); try (destruct (n <=? 1) eqn:E6); cbn [cinv]; lia.
Qed.

(* a reference count of zero is never produced by these updates: it is only ever inherited *)
Lemma ctx_get_step_zero ctx ko kn c :
  NoDup (map fst ctx) ->
  ctx_get (rel_id ko (incr0 kn ctx)) c = Some 0 -> ctx_get ctx c = Some 0.
Proof.
  intros Hnd.
  rewrite (ctx_get_rel_id _ _ _ (NoDup_incr0 kn ctx Hnd)), ctx_get_incr0.
  destruct (negb (ko =? 0) && (c =? ko)); destruct (negb (kn =? 0) && (c =? kn));
    destruct (ctx_get ctx c) as [n|]; cbn [option_map dec_count]; try discriminate;
    try (destruct (n + 1 <=? 1) eqn:E5); try (destruct (n <=? 1) eqn:E6);
    try discriminate; intros H; injection H as H; try (f_equal; lia); exfalso; lia.
Qed.

Lemma incr0_0 ctx : incr0 0 ctx = ctx.
Proof. reflexivity. Qed.

(* ---------- the shapes of a table update ---------- *)

(* every operation changes (commands, contexts, last id) in one of these ways *)
Inductive tstep (cmds : list (str * command)) (ctx : list (N * N)) (last : N)
  : list (str * command) -> list (N * N) -> N -> Prop :=
| ts_id : tstep cmds ctx last cmds ctx last
| ts_save : tstep cmds ctx last cmds (ctx ++ [(last + 1, 0)]) (last + 1)
| ts_bind name cmd :
    cmd_context cmd = 0 \/ ctx_get ctx (cmd_context cmd) <> None ->
    tstep cmds ctx last
      (assoc_set name cmd cmds)
      (rel_id (ctx_of_opt (assoc_get name cmds)) (incr0 (cmd_context cmd) ctx)) last
| ts_unbind name :
    tstep cmds ctx last
      (assoc_remove name cmds) (rel_id (ctx_of_opt (assoc_get name cmds)) ctx) last
| ts_move old new cmd :
    assoc_get old cmds = Some cmd ->
    tstep cmds ctx last
      (assoc_set new cmd (assoc_remove old cmds))
      (rel_id (ctx_of_opt (assoc_get new (assoc_remove old cmds))) ctx) last.

Lemma use_ctx cmd c : c <> 0 -> use cmd c = if cmd_context cmd =? c then 1%nat else 0%nat.
Proof. intros Hc. apply (use_opt_ctx (Some cmd) c Hc). Qed.

Lemma tstep_inv cmds ctx last cmds' ctx' last' :
  tstep cmds ctx last cmds' ctx' last' -> tinv cmds ctx last -> tinv cmds' ctx' last'.
Proof.
  intros Hs (Hu & Hnd & H). destruct Hs as [| |name cmd Hlive|name|old new cmd Hold].
  - split; [exact Hu|]. split; [exact Hnd|]. exact H.
  - assert (ctx_get ctx (last + 1) = None) as Hfresh.
    { destruct (ctx_get ctx (last + 1)) as [n|] eqn:E; [|reflexivity].
      specialize (H (last + 1)). rewrite E in H. cbn [cinv] in H. lia. }
    split; [exact Hu|]. split.
    + rewrite map_app. cbn [map fst]. apply NoDup_snoc; [exact Hnd|]. apply ctx_get_None. exact Hfresh.
    + intros c. rewrite ctx_get_snoc. specialize (H c). unfold cinv in *.
      destruct (ctx_get ctx c) as [n|] eqn:E; [lia|].
      destruct (last + 1 =? c) eqn:E1; [|exact H]. lia.
  - split; [apply NoDup_assoc_set; exact Hu|]. split; [apply NoDup_rel_id, NoDup_incr0; exact Hnd|].
    intros c. apply (cinv_step last ctx (users cmds c)); [exact Hnd|apply H|exact Hlive|].
    intros Hc. pose proof (users_assoc_set name cmd cmds c) as HU.
    rewrite (use_opt_ctx _ c Hc), (use_ctx _ c Hc) in HU. exact HU.
  - split; [apply NoDup_assoc_remove; exact Hu|]. split; [apply NoDup_rel_id; exact Hnd|].
    intros c. rewrite <- (incr0_0 ctx).
    apply (cinv_step last ctx (users cmds c)); [exact Hnd|apply H|left; reflexivity|].
    intros Hc. pose proof (users_assoc_remove name cmds c) as HU.
    rewrite (use_opt_ctx _ c Hc) in HU. destruct (0 =? c) eqn:E; lia.
  - split; [apply NoDup_assoc_set, NoDup_assoc_remove; exact Hu|]. split; [apply NoDup_rel_id; exact Hnd|].
    intros c. rewrite <- (incr0_0 ctx).
    apply (cinv_step last ctx (users cmds c)); [exact Hnd|apply H|left; reflexivity|].
    intros Hc. pose proof (users_assoc_set new cmd (assoc_remove old cmds) c) as HU1.
    pose proof (users_assoc_remove old cmds c) as HU2.
    rewrite Hold in HU2. cbn [use_opt] in HU2.
    rewrite (use_opt_ctx _ c Hc) in HU1. destruct (0 =? c) eqn:E; lia.
Qed.

(* ---------- the operations are table updates of these shapes ---------- *)

Lemma release_binding_proj st name :
  i_cmds (release_binding st name) = i_cmds st
  /\ i_ctx (release_binding st name) = rel_id (ctx_of_opt (assoc_get name (i_cmds st))) (i_ctx st)
  /\ i_last_ctx (release_binding st name) = i_last_ctx st.
Proof.
  unfold release_binding.
  destruct (assoc_get name (i_cmds st)) as [[n c|p b]|]; cbn [ctx_of_opt cmd_context];
    try (repeat split; reflexivity).
  unfold rel_id. destruct (c =? 0); repeat split; reflexivity.
Qed.

(* the three components the invariant talks about *)
Definition tstep_st (st st' : interp) : Prop :=
  tstep (i_cmds st) (i_ctx st) (i_last_ctx st) (i_cmds st') (i_ctx st') (i_last_ctx st').

Lemma add_context_command_step st name n c :
  c = 0 \/ ctx_get (i_ctx st) c <> None ->
  exists st', add_context_command st name n c = (st', Ok tt)
    /\ i_cmds st' = assoc_set name (CmdNative n c) (i_cmds st)
    /\ i_ctx st' = rel_id (ctx_of_opt (assoc_get name (i_cmds st))) (incr0 c (i_ctx st))
    /\ i_last_ctx st' = i_last_ctx st.
Proof.
  intros Hlive. unfold add_context_command, incr0. destruct (c =? 0) eqn:Ec.
  - apply N.eqb_eq in Ec. subst c.
    destruct (release_binding_proj st name) as (H1 & H2 & H3).
    eexists. split; [reflexivity|]. cbn [set_cmds i_cmds i_ctx i_last_ctx].
    rewrite H1, H2, H3. repeat split; reflexivity.
  - apply N.eqb_neq in Ec. destruct Hlive as [Hlive|Hlive]; [contradiction|].
    destruct (ctx_get (i_ctx st) c) as [cnt|]; [|contradiction].
    destruct (release_binding_proj (set_ctx st (ctx_incr (i_ctx st) c) (i_last_ctx st)) name) as (H1 & H2 & H3).
    eexists. split; [reflexivity|]. cbn [set_cmds i_cmds i_ctx i_last_ctx].
    rewrite H1, H2, H3. cbn [set_ctx i_cmds i_ctx i_last_ctx]. repeat split; reflexivity.
Qed.

Lemma add_context_command_dead st name n c :
  c <> 0 -> ctx_get (i_ctx st) c = None ->
  add_context_command st name n c = (st, Panic (lit "unknown context ID")).
Proof.
  intros Hc Hdead. unfold add_context_command. apply N.eqb_neq in Hc. rewrite Hc, Hdead. reflexivity.
Qed.

Lemma add_proc_proj st name parms body :
  i_cmds (add_proc st name parms body) = assoc_set name (CmdProc parms body) (i_cmds st)
  /\ i_ctx (add_proc st name parms body) = rel_id (ctx_of_opt (assoc_get name (i_cmds st))) (i_ctx st)
  /\ i_last_ctx (add_proc st name parms body) = i_last_ctx st.
Proof.
  unfold add_proc. destruct (release_binding_proj st name) as (H1 & H2 & H3).
  cbn [set_cmds i_cmds i_ctx i_last_ctx]. rewrite H1, H2, H3. repeat split; reflexivity.
Qed.

Lemma remove_command_proj st name cmd :
  assoc_get name (i_cmds st) = Some cmd ->
  exists st', remove_command st name = (st', Ok tt)
    /\ i_cmds st' = assoc_remove name (i_cmds st)
    /\ i_ctx st' = rel_id (ctx_of_opt (assoc_get name (i_cmds st))) (i_ctx st)
    /\ i_last_ctx st' = i_last_ctx st.
Proof.
  intros Hget. unfold remove_command. rewrite Hget.
  destruct (release_binding_proj st name) as (H1 & H2 & H3). rewrite Hget in H2.
  eexists. split; [reflexivity|]. cbn [set_cmds i_cmds i_ctx i_last_ctx].
  rewrite H1, H2, H3. repeat split; reflexivity.
Qed.

Lemma rename_command_proj st old new cmd :
  assoc_get old (i_cmds st) = Some cmd ->
  i_cmds (rename_command st old new) = assoc_set new cmd (assoc_remove old (i_cmds st))
  /\ i_ctx (rename_command st old new)
     = rel_id (ctx_of_opt (assoc_get new (assoc_remove old (i_cmds st)))) (i_ctx st)
  /\ i_last_ctx (rename_command st old new) = i_last_ctx st.
Proof.
  intros Hget. unfold rename_command. rewrite Hget.
  destruct (release_binding_proj (set_cmds st (assoc_remove old (i_cmds st))) new) as (H1 & H2 & H3).
  cbn [set_cmds i_cmds i_ctx i_last_ctx]. rewrite H1, H2, H3.
  cbn [set_cmds i_cmds i_ctx i_last_ctx]. repeat split; reflexivity.
Qed.

Lemma has_command_true st name :
  has_command st name = true -> exists cmd, assoc_get name (i_cmds st) = Some cmd.
Proof. unfold has_command. destruct (assoc_get name (i_cmds st)) as [cmd|]; [eauto|discriminate]. Qed.

Lemma has_command_false st name :
  has_command st name = false -> assoc_get name (i_cmds st) = None.
Proof. unfold has_command. destruct (assoc_get name (i_cmds st)) as [cmd|]; [discriminate|reflexivity]. Qed.

(* the command table after an operation, written with assoc_set / assoc_remove *)
Definition impl_cmds (m : list (str * command)) (o : tab_op) : list (str * command) :=
  match o with
  | OpSaveContext => m
  | OpAdd name n => assoc_set name (CmdNative n 0) m
  | OpAddCtx name n ctx => assoc_set name (CmdNative n ctx) m
  | OpProc name parms body => assoc_set name (CmdProc parms body) m
  | OpRename old new =>
      match assoc_get old m with
      | None => m
      | Some cmd => match new with [] => assoc_remove old m | _ => assoc_set new cmd (assoc_remove old m) end
      end
  | OpRemove name => match assoc_get name m with None => m | Some _ => assoc_remove name m end
  end.

(* an operation that is not defined (a dead context id) changes nothing *)
Lemma apply_op_undefined st o : ~ op_defined st o -> apply_op st o = st.
Proof.
  destruct o as [|name n|name n c|name parms body|old new|name]; cbn [op_defined]; try tauto.
  intros H. unfold apply_op, commit. rewrite add_context_command_dead; [reflexivity| |].
  - intros Hc. apply H. left. exact Hc.
  - destruct (ctx_get (i_ctx st) c) as [cnt|] eqn:E; [|reflexivity]. exfalso. apply H. right. discriminate.
Qed.

Lemma apply_op_step_cmds st o :
  op_defined st o ->
  tstep_st st (apply_op st o) /\ i_cmds (apply_op st o) = impl_cmds (i_cmds st) o.
Proof.
  unfold tstep_st.
  destruct o as [|name n|name n c|name parms body|old new|name]; cbn [op_defined impl_cmds]; intros Hdef;
    unfold apply_op, commit.
  - cbn. split; [apply ts_save|reflexivity].
  - destruct (add_context_command_step st name n 0) as (st' & -> & H1 & H2 & H3); [left; reflexivity|].
    rewrite H1, H2, H3. split; [|reflexivity].
    apply (ts_bind _ _ _ name (CmdNative n 0)). left. reflexivity.
  - destruct (add_context_command_step st name n c Hdef) as (st' & -> & H1 & H2 & H3).
    rewrite H1, H2, H3. split; [|reflexivity].
    apply (ts_bind _ _ _ name (CmdNative n c)). exact Hdef.
  - destruct (add_proc_proj st name parms body) as (H1 & H2 & H3).
    rewrite H1, H2, H3. split; [|reflexivity]. rewrite <- (incr0_0 (i_ctx st)).
    apply (ts_bind _ _ _ name (CmdProc parms body)). left. reflexivity.
  - destruct (has_command st old) eqn:Eh; cbn [negb].
    + apply has_command_true in Eh. destruct Eh as (cmd & Hget). rewrite Hget.
      destruct new as [|ch new'].
      * destruct (remove_command_proj st old cmd Hget) as (st' & -> & H1 & H2 & H3).
        rewrite H1, H2, H3. split; [apply ts_unbind|reflexivity].
      * destruct (rename_command_proj st old (ch :: new') cmd Hget) as (H1 & H2 & H3).
        rewrite H1, H2, H3. split; [apply ts_move; exact Hget|reflexivity].
    + apply has_command_false in Eh. rewrite Eh. split; [apply ts_id|reflexivity].
  - destruct (has_command st name) eqn:Eh.
    + apply has_command_true in Eh. destruct Eh as (cmd & Hget). rewrite Hget.
      destruct (remove_command_proj st name cmd Hget) as (st' & -> & H1 & H2 & H3).
      rewrite H1, H2, H3. split; [apply ts_unbind|reflexivity].
    + apply has_command_false in Eh. rewrite Eh. split; [apply ts_id|reflexivity].
Qed.

Lemma op_defined_dec st o : op_defined st o \/ ~ op_defined st o.
Proof.
  destruct o as [|name n|name n c|name parms body|old new|name]; cbn [op_defined]; try (left; exact I).
  destruct (N.eq_dec c 0) as [Hc|Hc]; [left; left; exact Hc|].
  destruct (ctx_get (i_ctx st) c) as [cnt|]; [left; right; discriminate|].
  right. intros [H|H]; [contradiction|]. apply H. reflexivity.
Qed.

Lemma apply_op_step st o : tstep_st st (apply_op st o).
Proof.
  destruct (op_defined_dec st o) as [Hdef|Hundef].
  - apply apply_op_step_cmds. exact Hdef.
  - rewrite (apply_op_undefined st o Hundef). apply ts_id.
Qed.

(* ---------- 1. the initial state ---------- *)

Fixpoint nodupb (l : list str) : bool :=
  match l with
  | [] => true
  | x :: r => negb (existsb (str_eqb x) r) && nodupb r
  end.

Lemma nodupb_sound l : nodupb l = true -> NoDup l.
Proof.
  induction l as [|x r IH]; cbn [nodupb]; intros H; [constructor|].
  apply andb_true_iff in H. destruct H as [H1 H2]. constructor; [|apply IH; exact H2].
  intros Hin. apply negb_true_iff in H1.
  assert (existsb (str_eqb x) r = true) as H3; [|congruence].
  apply existsb_exists. exists x. split; [exact Hin|apply str_eqb_refl].
Qed.

Lemma users_all_zero m c :
  forallb (fun kv => cmd_context (snd kv) =? 0) m = true -> c <> 0 -> users m c = 0%nat.
Proof.
  intros H Hc. induction m as [|[k a] r IH]; [apply users_nil|].
  cbn [forallb snd] in H. apply andb_true_iff in H. destruct H as [H1 H2].
  rewrite users_cons, (IH H2), (use_ctx _ _ Hc).
  destruct (cmd_context a =? c) eqn:E; lia.
Qed.

Theorem table_inv_init : table_inv interp_new.
Proof.
  apply table_inv_iff. cbn [interp_new i_cmds i_ctx i_last_ctx]. split; [|split].
  - apply nodupb_sound. vm_compute. reflexivity.
  - constructor.
  - intros c. rewrite ctx_get_nil. cbn [cinv].
    destruct (N.eq_dec c 0) as [Hc|Hc]; [left; exact Hc|right].
    apply users_all_zero; [vm_compute; reflexivity|exact Hc].
Qed.
Print Assumptions table_inv_init.

(* ---------- 2./3. every operation keeps the invariant ---------- *)

Theorem apply_op_inv : forall st o, table_inv st -> table_inv (apply_op st o).
Proof.
  intros st o H. apply table_inv_iff. apply table_inv_iff in H.
  exact (tstep_inv _ _ _ _ _ _ (apply_op_step st o) H).
Qed.
Print Assumptions apply_op_inv.

Lemma fold_apply_op_inv ops : forall st, table_inv st -> table_inv (fold_left apply_op ops st).
Proof.
  induction ops as [|o ops IH]; intros st H; cbn [fold_left]; [exact H|].
  apply IH. apply apply_op_inv. exact H.
Qed.

Theorem reachable_inv : forall ops, table_inv (fold_left apply_op ops interp_new).
Proof. intros ops. apply fold_apply_op_inv. exact table_inv_init. Qed.
Print Assumptions reachable_inv.

(* ---------- 4. the table refines the abstract name map ---------- *)

Lemma assoc_get_unbind name m k :
  assoc_get k (spec_unbind name m) = if str_eqb name k then None else assoc_get k m.
Proof.
  unfold spec_unbind. induction m as [|[k0 a0] r IH]; cbn [filter fst assoc_get].
  - destruct (str_eqb name k); reflexivity.
  - destruct (str_eqb k0 name) eqn:E; cbn [negb assoc_get].
    + apply str_eqb_eq in E. subst k0. rewrite IH. destruct (str_eqb name k); reflexivity.
    + rewrite IH. destruct (str_eqb name k) eqn:E2; [|reflexivity].
      apply str_eqb_eq in E2. subst k. rewrite E. reflexivity.
Qed.

Lemma assoc_get_bind name cmd m k :
  assoc_get k (spec_bind name cmd m) = if str_eqb name k then Some cmd else assoc_get k m.
Proof.
  unfold spec_bind. cbn [assoc_get]. rewrite assoc_get_unbind. destruct (str_eqb name k); reflexivity.
Qed.

(* the abstract map, point by point: what a lookup of [k] yields after the operation *)
Definition spec_lookup (m : list (str * command)) (o : tab_op) (k : str) : option command :=
  match o with
  | OpSaveContext => assoc_get k m
  | OpAdd name n => if str_eqb name k then Some (CmdNative n 0) else assoc_get k m
  | OpAddCtx name n ctx => if str_eqb name k then Some (CmdNative n ctx) else assoc_get k m
  | OpProc name parms body => if str_eqb name k then Some (CmdProc parms body) else assoc_get k m
  | OpRename old new =>
      match assoc_get old m with
      | None => assoc_get k m
      | Some cmd =>
          match new with
          | [] => if str_eqb old k then None else assoc_get k m
          | _ => if str_eqb new k then Some cmd else if str_eqb old k then None else assoc_get k m
          end
      end
  | OpRemove name => if str_eqb name k then None else assoc_get k m
  end.

Lemma spec_apply_lookup m o k : assoc_get k (spec_apply m o) = spec_lookup m o k.
Proof.
  destruct o as [|name n|name n c|name parms body|old new|name]; cbn [spec_apply spec_lookup];
    rewrite ?assoc_get_bind, ?assoc_get_unbind; try reflexivity.
  destruct (assoc_get old m) as [cmd|]; [|reflexivity].
  destruct new as [|ch new']; rewrite ?assoc_get_bind, ?assoc_get_unbind; reflexivity.
Qed.

Lemma impl_cmds_lookup m o k : names_unique m -> assoc_get k (impl_cmds m o) = spec_lookup m o k.
Proof.
  intros Hu.
  destruct o as [|name n|name n c|name parms body|old new|name]; cbn [impl_cmds spec_lookup];
    rewrite ?assoc_get_set; try reflexivity.
  - destruct (assoc_get old m) as [cmd|]; [|reflexivity].
    destruct new as [|ch new']; rewrite ?assoc_get_set, ?(assoc_get_remove _ _ _ Hu); reflexivity.
  - destruct (assoc_get name m) as [cmd|] eqn:E; [apply assoc_get_remove; exact Hu|].
    destruct (str_eqb name k) eqn:E2; [|reflexivity]. apply str_eqb_eq in E2. subst k. exact E.
Qed.

(* Dispatch (eval_cmds_with looks commands up with assoc_get) sees exactly the abstract map. *)
Theorem apply_op_refines : forall st o name,
  names_unique (i_cmds st) -> op_defined st o ->
  assoc_get name (i_cmds (apply_op st o)) = assoc_get name (spec_apply (i_cmds st) o).
Proof.
  intros st o name Hu Hdef.
  destruct (apply_op_step_cmds st o Hdef) as [_ ->].
  rewrite spec_apply_lookup. apply impl_cmds_lookup. exact Hu.
Qed.
Print Assumptions apply_op_refines.

(* ... and an operation that is not defined (registration with a dead context id: Rust panics)
   leaves the whole state as it was *)
Theorem apply_op_not_defined : forall st o, ~ op_defined st o -> apply_op st o = st.
Proof. exact apply_op_undefined. Qed.
Print Assumptions apply_op_not_defined.

(* the consequences spelled out *)
Corollary rename_moves : forall st old new cmd,
  names_unique (i_cmds st) -> assoc_get old (i_cmds st) = Some cmd -> new <> [] ->
  let st' := apply_op st (OpRename old new) in
  assoc_get new (i_cmds st') = Some cmd
  /\ (old <> new -> assoc_get old (i_cmds st') = None)
  /\ (forall k, k <> old -> k <> new -> assoc_get k (i_cmds st') = assoc_get k (i_cmds st)).
Proof.
  intros st old new cmd Hu Hget Hnew st'. subst st'.
  assert (forall k, assoc_get k (i_cmds (apply_op st (OpRename old new)))
                    = if str_eqb new k then Some cmd else if str_eqb old k then None else assoc_get k (i_cmds st)) as H.
  { intros k. rewrite (apply_op_refines st (OpRename old new) k Hu I), spec_apply_lookup. cbn [spec_lookup].
    rewrite Hget. destruct new as [|ch new']; [contradiction|reflexivity]. }
  split; [|split].
  - rewrite H, str_eqb_refl. reflexivity.
  - intros Hne. rewrite H, str_eqb_refl. apply not_eq_sym, str_eqb_neq in Hne. rewrite Hne. reflexivity.
  - intros k Hk1 Hk2. rewrite H. apply not_eq_sym, str_eqb_neq in Hk1. apply not_eq_sym, str_eqb_neq in Hk2.
    rewrite Hk1, Hk2. reflexivity.
Qed.
Print Assumptions rename_moves.

Corollary rename_unknown_is_noop : forall st old new,
  assoc_get old (i_cmds st) = None -> apply_op st (OpRename old new) = st.
Proof.
  intros st old new Hget. unfold apply_op, has_command. rewrite Hget. reflexivity.
Qed.

Corollary remove_unbinds : forall st name,
  names_unique (i_cmds st) ->
  let st' := apply_op st (OpRemove name) in
  assoc_get name (i_cmds st') = None
  /\ (forall k, k <> name -> assoc_get k (i_cmds st') = assoc_get k (i_cmds st)).
Proof.
  intros st name Hu st'. subst st'.
  assert (forall k, assoc_get k (i_cmds (apply_op st (OpRemove name)))
                    = if str_eqb name k then None else assoc_get k (i_cmds st)) as H.
  { intros k. rewrite (apply_op_refines st (OpRemove name) k Hu I), spec_apply_lookup. reflexivity. }
  split.
  - rewrite H, str_eqb_refl. reflexivity.
  - intros k Hk. rewrite H. apply not_eq_sym, str_eqb_neq in Hk. rewrite Hk. reflexivity.
Qed.
Print Assumptions remove_unbinds.

(* rename to the empty name is removal *)
Corollary rename_to_empty_removes : forall st old,
  has_command st old = true -> apply_op st (OpRename old []) = apply_op st (OpRemove old).
Proof. intros st old H. unfold apply_op. rewrite H. reflexivity. Qed.

(* ---------- 5. context lifetime ---------- *)

(* the data of a context stays retrievable while some command name uses it *)
Theorem context_kept_while_used : forall st o c,
  table_inv st -> ctx_get (i_ctx st) c <> None ->
  (0 < users (i_cmds (apply_op st o)) c)%nat ->
  ctx_get (i_ctx (apply_op st o)) c <> None.
Proof.
  intros st o c Hinv Hlive Hpos.
  pose proof (apply_op_inv st o Hinv) as Hinv'.
  apply table_inv_iff in Hinv. apply table_inv_iff in Hinv'.
  destruct Hinv as (_ & _ & H). destruct Hinv' as (_ & _ & H').
  specialize (H c). specialize (H' c). unfold cinv in *.
  destruct (ctx_get (i_ctx st) c) as [n|]; [|contradiction].
  destruct (ctx_get (i_ctx (apply_op st o)) c) as [n'|]; [discriminate|]. lia.
Qed.
Print Assumptions context_kept_while_used.

Lemma tstep_zero cmds ctx last cmds' ctx' last' c :
  tstep cmds ctx last cmds' ctx' last' -> tinv cmds ctx last ->
  ctx_get ctx' c = Some 0 -> users cmds c = 0%nat.
Proof.
  intros Hs (Hu & Hnd & H).
  assert (ctx_get ctx c = Some 0 -> users cmds c = 0%nat) as Hz.
  { intros E. specialize (H c). rewrite E in H. cbn [cinv] in H. lia. }
  destruct Hs as [| |name cmd Hlive|name|old new cmd Hold]; intros E.
  - apply Hz. exact E.
  - rewrite ctx_get_snoc in E. specialize (H c). unfold cinv in H.
    destruct (ctx_get ctx c) as [n|] eqn:E1; [apply Hz; exact E|].
    destruct (last + 1 =? c) eqn:E2; [|discriminate]. lia.
  - apply Hz. apply (ctx_get_step_zero _ _ _ _ Hnd E).
  - apply Hz. rewrite <- (incr0_0 ctx) in E. apply (ctx_get_step_zero _ _ _ _ Hnd E).
  - apply Hz. rewrite <- (incr0_0 ctx) in E. apply (ctx_get_step_zero _ _ _ _ Hnd E).
Qed.

(* ... and is dropped as soon as none does *)
Theorem context_dropped_when_unused : forall st o c,
  table_inv st -> (0 < users (i_cmds st) c)%nat ->
  users (i_cmds (apply_op st o)) c = 0%nat ->
  ctx_get (i_ctx (apply_op st o)) c = None.
Proof.
  intros st o c Hinv Hpos Hzero.
  pose proof (apply_op_inv st o Hinv) as Hinv'.
  apply table_inv_iff in Hinv. apply table_inv_iff in Hinv'.
  destruct (ctx_get (i_ctx (apply_op st o)) c) as [n'|] eqn:E; [exfalso|reflexivity].
  destruct Hinv' as (_ & _ & H'). specialize (H' c). rewrite E in H'. cbn [cinv] in H'.
  assert (n' = 0) as -> by lia.
  pose proof (tstep_zero _ _ _ _ _ _ c (apply_op_step st o) Hinv E). lia.
Qed.
Print Assumptions context_dropped_when_unused.

(* ---------- the premises are satisfiable: two names sharing one context ---------- *)

Definition ex_shared : interp :=
  fold_left apply_op
    [OpSaveContext; OpAddCtx (lit "a") (NDummy 1) 1; OpAddCtx (lit "b") (NDummy 2) 1] interp_new.

Example ex_shared_ok :
  table_inv ex_shared
  /\ ctx_get (i_ctx ex_shared) 1 = Some 2
  /\ users (i_cmds ex_shared) 1 = 2%nat
  (* removing one of the two names keeps the context ... *)
  /\ (let st1 := apply_op ex_shared (OpRemove (lit "a")) in
      users (i_cmds st1) 1 = 1%nat /\ ctx_get (i_ctx st1) 1 = Some 1
      (* ... overwriting the other by a proc drops it; registering with the dead id is refused *)
      /\ let st2 := apply_op st1 (OpProc (lit "b") [] v_empty) in
         users (i_cmds st2) 1 = 0%nat /\ ctx_get (i_ctx st2) 1 = None
         /\ ~ op_defined st2 (OpAddCtx (lit "c") (NDummy 3) 1))
  (* renaming one onto the other releases one reference *)
  /\ (let st3 := apply_op ex_shared (OpRename (lit "a") (lit "b")) in
      assoc_get (lit "b") (i_cmds st3) = Some (CmdNative (NDummy 1) 1)
      /\ assoc_get (lit "a") (i_cmds st3) = None
      /\ ctx_get (i_ctx st3) 1 = Some 1).
Proof.
  split; [apply reachable_inv|].
  repeat split; try (vm_compute; reflexivity).
  vm_compute. intros [H|H]; [discriminate|]. apply H. reflexivity.
Qed.
Print Assumptions ex_shared_ok.

(* ---------- the script-level commands are these operations ---------- *)
(* [rename] and [proc] as scripts invoke them change the state only through [apply_op].
   NOTE: unlike everything above, these statements mention cmd_rename / cmd_proc, whose error
   paths format values ([as_str] of a float goes through Flocq); `Print Assumptions` therefore
   lists the standard-library axioms of the real numbers that the MODEL inherits from Flocq
   (classic, functional_extensionality_dep, sig_forall_dec, sig_not_dec).  No axiom is used by the
   proofs themselves. *)

Lemma cmd_rename_is_op st argv :
  fst (cmd_rename st argv) = st
  \/ fst (cmd_rename st argv) = apply_op st (OpRename (as_str (arg argv 1)) (as_str (arg argv 2))).
Proof.
  unfold cmd_rename, lift.
  destruct (check_args "cmd_rename" argv) as [[]|e|p|]; cbn [bind fst]; try (left; reflexivity).
  right. unfold apply_op.
  destruct (negb (has_command st (as_str (arg argv 1)))); [reflexivity|].
  destruct (as_str (arg argv 2)) as [|ch new']; [|reflexivity].
  unfold commit, remove_command. destruct (assoc_get (as_str (arg argv 1)) (i_cmds st)); reflexivity.
Qed.

Lemma cmd_proc_is_op st argv :
  fst (cmd_proc st argv) = st
  \/ exists parms, fst (cmd_proc st argv) = apply_op st (OpProc (as_str (arg argv 1)) parms (arg argv 3)).
Proof.
  unfold cmd_proc, lift, lift_sum.
  destruct (check_args "cmd_proc" argv) as [[]|e|p|]; cbn [bind fst]; try (left; reflexivity).
  destruct (v_as_list (arg argv 2)) as [m|parms]; cbn [of_sum bind fst]; [left; reflexivity|].
  match goal with
  | |- fst (match ?b with Ok _ => _ | Err _ => _ | Panic _ => _ | Fuel => _ end) = _ \/ _ =>
      destruct b as [[]|e|p|]
  end; cbn [fst]; try (left; reflexivity).
  right. exists parms. reflexivity.
Qed.

Corollary cmd_rename_inv st argv : table_inv st -> table_inv (fst (cmd_rename st argv)).
Proof.
  intros H. destruct (cmd_rename_is_op st argv) as [-> | ->]; [exact H|apply apply_op_inv; exact H].
Qed.

Corollary cmd_proc_inv st argv : table_inv st -> table_inv (fst (cmd_proc st argv)).
Proof.
  intros H. destruct (cmd_proc_is_op st argv) as [-> | [parms ->]]; [exact H|apply apply_op_inv; exact H].
Qed.
