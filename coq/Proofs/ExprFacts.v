(* ExprFacts.v — C03: expressions evaluate per the documented operator grammar and numeric rules.

   PART A  facts about the tables regenerated from the Rust source (Gen/SrcFacts.v): precedence
           classes, token numbering, operator strings.
   PART B  the numeric rules of a single operator ([apply_binop]) and of the math functions
           ([call_func]), as equations valid for all operands.
   PART C  structure: [expr_loop] stops at operators of lower-or-equal precedence (C1), binary
           operators group to the left (C2), and (C3) a completeness theorem: for EVERY tree
           over the twenty ordinary binary operators [ * / % + - << >> < > <= >= == != eq ne in ni
           & ^ | ] and non-negative i64 literals, the text of the tree, parenthesised exactly
           where C precedence and left associativity require, evaluates under [expr_eval] (with
           its own fuel) to the value the reference evaluator [eval_ast] gives to the tree, and
           leaves the interpreter state untouched ([expr_eval_tree]).  The four operators spelled
           with letters need the alphabetic predicate to know the letters e q n i and to reject
           the space ([ib_ok], true of the interpreter's predicate: [expr_eval_tree_std]).
           Not covered by C3: unary operators, && || ?:, functions, float / string / variable /
           command operands, other spacing. *)
From Molt Require Import Model.Base Model.Tokenizer Model.ListSyn Model.Float Model.Value
  Model.State Model.Script Model.Parser Model.Eval Model.Expr Spec.SpecExpr.
From Molt Require Gen.SrcFacts.
From Molt Require Import Proofs.BaseFacts Proofs.ValueFacts Proofs.NoEvalFacts.
From Coq Require Import Lia ZifyBool ZifyN.

Arguments N.eqb : simpl never.
Arguments N.leb : simpl never.
Arguments N.ltb : simpl never.
Arguments Z.eqb : simpl never.
Arguments Z.leb : simpl never.
Arguments Z.ltb : simpl never.

Local Open Scope Z_scope.

(* ====================================================================================== *)
(* PART A — the regenerated tables                                                         *)
(* ====================================================================================== *)

Definition unary_toks : list Z := [T_UNARY_MINUS; T_UNARY_PLUS; T_NOT; T_BIT_NOT].
Definition binary_toks : list Z :=
  [T_MULT; T_DIVIDE; T_MOD; T_PLUS; T_MINUS; T_LEFT_SHIFT; T_RIGHT_SHIFT; T_LESS; T_GREATER;
   T_LEQ; T_GEQ; T_EQUAL; T_NEQ; T_STRING_EQ; T_STRING_NE; T_IN; T_NI; T_BIT_AND; T_BIT_XOR;
   T_BIT_OR; T_AND; T_OR; T_QUESTY; T_COLON].

(* the binary operator tokens are exactly the numbers T_MULT .. T_COLON *)
Lemma binary_toks_range : forall b, In b binary_toks <-> T_MULT <= b <= T_COLON.
Proof.
  intros b. unfold binary_toks, T_MULT, T_COLON. split.
  - intros H. cbn [In] in H.
    repeat (destruct H as [H|H]; [subst b; vm_compute; split; discriminate|]). destruct H.
  - intros [H1 H2]. cbn [In].
    assert (Hb : b = 8 \/ b = 9 \/ b = 10 \/ b = 11 \/ b = 12 \/ b = 13 \/ b = 14 \/ b = 15 \/ b = 16
                 \/ b = 17 \/ b = 18 \/ b = 19 \/ b = 20 \/ b = 21 \/ b = 22 \/ b = 23 \/ b = 24
                 \/ b = 25 \/ b = 26 \/ b = 27 \/ b = 28 \/ b = 29 \/ b = 30 \/ b = 31) by lia.
    repeat (destruct Hb as [Hb|Hb]; [subst b; tauto|]). subst b. tauto.
Qed.

(* A1 *)
Theorem unary_binds_tightest :
  forall u b, In u unary_toks -> In b binary_toks -> prec b < prec u.
Proof.
  intros u b Hu Hb. unfold unary_toks, binary_toks in *. cbn [In] in Hu, Hb.
  repeat (destruct Hu as [Hu|Hu]; [subst u|]); try contradiction;
    repeat (destruct Hb as [Hb|Hb]; [subst b; vm_compute; reflexivity|]); contradiction.
Qed.
Print Assumptions unary_binds_tightest.

(* the same, over the numeric ranges *)
Corollary unary_binds_tightest_range :
  forall u b, T_UNARY_MINUS <= u <= T_BIT_NOT -> T_MULT <= b <= T_COLON -> prec b < prec u.
Proof.
  intros u b Hu Hb. apply unary_binds_tightest; [|apply binary_toks_range; exact Hb].
  unfold unary_toks, T_UNARY_MINUS, T_UNARY_PLUS, T_NOT, T_BIT_NOT in *. cbn [In].
  assert (H : u = 32 \/ u = 33 \/ u = 34 \/ u = 35) by lia.
  destruct H as [->|[->|[->| ->]]]; tauto.
Qed.

(* the precedence classes of C, loosest class last *)
Definition prec_classes : list (list Z) :=
  [[T_MULT; T_DIVIDE; T_MOD]; [T_PLUS; T_MINUS]; [T_LEFT_SHIFT; T_RIGHT_SHIFT];
   [T_LESS; T_GREATER; T_LEQ; T_GEQ]; [T_EQUAL; T_NEQ]; [T_STRING_EQ; T_STRING_NE];
   [T_IN; T_NI]; [T_BIT_AND]; [T_BIT_XOR]; [T_BIT_OR]; [T_AND]; [T_OR]; [T_QUESTY]; [T_COLON]].

Definition class_prec (c : list Z) : Z := match c with x :: _ => prec x | [] => 0 end.
Definition class_uniform (c : list Z) : bool := forallb (fun x => prec x =? class_prec c) c.
Fixpoint strictly_decreasing (l : list Z) : bool :=
  match l with
  | a :: ((b :: _) as r) => (b <? a) && strictly_decreasing r
  | _ => true
  end.

(* A2 *)
Theorem binary_classes_ordered :
  concat prec_classes = binary_toks /\
  forallb class_uniform prec_classes = true /\
  strictly_decreasing (map class_prec prec_classes) = true /\
  forallb (fun b => 0 <? prec b) binary_toks = true.
Proof. vm_compute. repeat split. Qed.
Print Assumptions binary_classes_ordered.

(* A2, spelled out *)
Theorem binary_classes_chain :
  (prec T_MULT = prec T_DIVIDE /\ prec T_DIVIDE = prec T_MOD) /\
  prec T_PLUS = prec T_MINUS /\
  prec T_LEFT_SHIFT = prec T_RIGHT_SHIFT /\
  (prec T_LESS = prec T_GREATER /\ prec T_GREATER = prec T_LEQ /\ prec T_LEQ = prec T_GEQ) /\
  prec T_EQUAL = prec T_NEQ /\
  prec T_STRING_EQ = prec T_STRING_NE /\
  prec T_IN = prec T_NI /\
  prec T_MULT > prec T_PLUS /\ prec T_PLUS > prec T_LEFT_SHIFT /\ prec T_LEFT_SHIFT > prec T_LESS /\
  prec T_LESS > prec T_EQUAL /\ prec T_EQUAL > prec T_STRING_EQ /\ prec T_STRING_EQ > prec T_IN /\
  prec T_IN > prec T_BIT_AND /\ prec T_BIT_AND > prec T_BIT_XOR /\ prec T_BIT_XOR > prec T_BIT_OR /\
  prec T_BIT_OR > prec T_AND /\ prec T_AND > prec T_OR /\ prec T_OR > prec T_QUESTY /\
  prec T_QUESTY > prec T_COLON /\ prec T_COLON > 0.
Proof. vm_compute. repeat split. Qed.
Print Assumptions binary_classes_chain.

Lemma binary_prec_pos : forall b, T_MULT <= b <= T_COLON -> 0 < prec b.
Proof.
  intros b Hb. apply binary_toks_range in Hb. unfold binary_toks in Hb. cbn [In] in Hb.
  repeat (destruct Hb as [Hb|Hb]; [subst b; vm_compute; reflexivity|]). contradiction.
Qed.

(* tokens that are not operators have precedence 0 *)
Lemma non_operator_prec :
  prec T_VALUE = 0 /\ prec T_OPEN_PAREN = 0 /\ prec T_CLOSE_PAREN = 0 /\ prec T_COMMA = 0 /\
  prec T_END = 0 /\ prec T_UNKNOWN = 0.
Proof. vm_compute. repeat split. Qed.

(* A3: the model's token constants are the Rust constants, and each operator token prints as
   its source text *)
Theorem token_numbers_agree :
  Gen.SrcFacts.token_numbers =
  [("VALUE", T_VALUE); ("OPEN_PAREN", T_OPEN_PAREN); ("CLOSE_PAREN", T_CLOSE_PAREN);
   ("COMMA", T_COMMA); ("END", T_END); ("UNKNOWN", T_UNKNOWN); ("MULT", T_MULT);
   ("DIVIDE", T_DIVIDE); ("MOD", T_MOD); ("PLUS", T_PLUS); ("MINUS", T_MINUS);
   ("LEFT_SHIFT", T_LEFT_SHIFT); ("RIGHT_SHIFT", T_RIGHT_SHIFT); ("LESS", T_LESS);
   ("GREATER", T_GREATER); ("LEQ", T_LEQ); ("GEQ", T_GEQ); ("EQUAL", T_EQUAL); ("NEQ", T_NEQ);
   ("STRING_EQ", T_STRING_EQ); ("STRING_NE", T_STRING_NE); ("IN", T_IN); ("NI", T_NI);
   ("BIT_AND", T_BIT_AND); ("BIT_XOR", T_BIT_XOR); ("BIT_OR", T_BIT_OR); ("AND", T_AND);
   ("OR", T_OR); ("QUESTY", T_QUESTY); ("COLON", T_COLON); ("UNARY_MINUS", T_UNARY_MINUS);
   ("UNARY_PLUS", T_UNARY_PLUS); ("NOT", T_NOT); ("BIT_NOT", T_BIT_NOT)]%string.
Proof. reflexivity. Qed.
Print Assumptions token_numbers_agree.

Corollary token_numbers_in :
  In ("MULT"%string, T_MULT) Gen.SrcFacts.token_numbers /\
  In ("PLUS"%string, T_PLUS) Gen.SrcFacts.token_numbers /\
  In ("COLON"%string, T_COLON) Gen.SrcFacts.token_numbers /\
  In ("UNARY_MINUS"%string, T_UNARY_MINUS) Gen.SrcFacts.token_numbers /\
  In ("BIT_NOT"%string, T_BIT_NOT) Gen.SrcFacts.token_numbers.
Proof. rewrite token_numbers_agree. cbn [In]. tauto. Qed.

Theorem op_strings_agree :
  map op_string (binary_toks ++ unary_toks) =
  [lit "*"; lit "/"; lit "%"; lit "+"; lit "-"; lit "<<"; lit ">>"; lit "<"; lit ">"; lit "<=";
   lit ">="; lit "=="; lit "!="; lit "eq"; lit "ne"; lit "in"; lit "ni"; lit "&"; lit "^";
   lit "|"; lit "&&"; lit "||"; lit "?"; lit ":"; lit "-"; lit "+"; lit "!"; lit "~"].
Proof. reflexivity. Qed.
Print Assumptions op_strings_agree.

(* the tables cover exactly the tokens 0 .. 35, and the math functions are the documented four *)
Theorem table_sizes :
  length Gen.SrcFacts.prec_table = 36%nat /\ length Gen.SrcFacts.op_strings = 36%nat /\
  Gen.SrcFacts.func_names = [lit "abs"; lit "double"; lit "int"; lit "round"].
Proof. repeat split. Qed.

(* ====================================================================================== *)
(* PART B — numeric rules                                                                  *)
(* ====================================================================================== *)

(* decide the comparisons between token constants that occur in the goal *)
Ltac tok_tests :=
  repeat match goal with
         | |- context [Z.eqb ?a ?b] =>
             is_const a; is_const b;
             let v := eval vm_compute in (Z.eqb a b) in change (Z.eqb a b) with v
         | |- context [Z.leb ?a ?b] =>
             is_const a; is_const b;
             let v := eval vm_compute in (Z.leb a b) in change (Z.leb a b) with v
         | |- context [Z.ltb ?a ?b] =>
             is_const a; is_const b;
             let v := eval vm_compute in (Z.ltb a b) in change (Z.ltb a b) with v
         end.

Ltac binop_red :=
  unfold apply_binop; tok_tests;
  cbn [orb andb negb is_string to_flt expr_as_str i64_result]; cbv beta iota.

(* ---- B1: checked integer arithmetic ---- *)
Section B1.
Variables x y : Z.

Theorem int_plus : apply_binop T_PLUS (DInt x) (DInt y) =
  if in_i64 (x + y) then Ok (DInt (x + y)) else err (lit "integer overflow").
Proof. binop_red. reflexivity. Qed.

Theorem int_minus : apply_binop T_MINUS (DInt x) (DInt y) =
  if in_i64 (x - y) then Ok (DInt (x - y)) else err (lit "integer overflow").
Proof. binop_red. reflexivity. Qed.

Theorem int_mult : apply_binop T_MULT (DInt x) (DInt y) =
  if in_i64 (x * y) then Ok (DInt (x * y)) else err (lit "integer overflow").
Proof. binop_red. reflexivity. Qed.

Theorem int_divide : apply_binop T_DIVIDE (DInt x) (DInt y) =
  if y =? 0 then err (lit "divide by zero")
  else if in_i64 (Z.quot x y) then Ok (DInt (Z.quot x y)) else err (lit "integer overflow").
Proof. binop_red. reflexivity. Qed.

Theorem int_mod : apply_binop T_MOD (DInt x) (DInt y) =
  if y =? 0 then err (lit "divide by zero")
  else if (x =? i64_min) && (y =? -1) then err (lit "integer overflow")
  else Ok (DInt (Z.rem x y)).
Proof. binop_red. reflexivity. Qed.
End B1.

Lemma quot_half a b : 0 <= a -> 2 <= b -> 2 * (a ÷ b) <= a.
Proof.
  intros Ha Hb. rewrite Z.quot_div_nonneg by lia.
  assert (Hm : b * (a / b) <= a) by (apply Z.mul_div_le; lia).
  assert (Hp : 0 <= a / b) by (apply Z.div_pos; lia).
  generalize dependent (a / b). intros q Hm Hp. nia.
Qed.

Lemma quot_in_range x y : -9223372036854775808 <= x <= 9223372036854775807 ->
  y <> 0 -> y <> -1 -> -9223372036854775808 <= x ÷ y <= 9223372036854775807.
Proof.
  intros Hx Hy0 Hm1.
  destruct (Z.eq_dec y 1) as [->|H1]; [rewrite Z.quot_1_r; exact Hx|].
  assert (Ha : Z.abs (x ÷ y) = Z.abs x ÷ Z.abs y) by (symmetry; apply Z.quot_abs; exact Hy0).
  assert (Hh : 2 * (Z.abs x ÷ Z.abs y) <= Z.abs x) by (apply quot_half; lia).
  rewrite <- Ha in Hh. generalize dependent (x ÷ y). intros q _ Hh. lia.
Qed.

(* the only overflowing quotient of two i64 is i64_min / -1 *)
Theorem int_divide_overflow_only : forall x y,
  in_i64 x = true -> in_i64 y = true -> y <> 0 ->
  (in_i64 (Z.quot x y) = false <-> x = i64_min /\ y = -1).
Proof.
  intros x y Hx Hy Hy0. split.
  - intros Hq.
    destruct (Z.eq_dec y (-1)) as [->|Hm1].
    + split; [|reflexivity].
      assert (E : x ÷ -1 = - x).
      { replace (-1) with (Z.opp 1) by reflexivity. rewrite Z.quot_opp_r, Z.quot_1_r by lia. reflexivity. }
      rewrite E in Hq. unfold in_i64, i64_min, i64_max in *. lia.
    + exfalso.
      assert (Hr := quot_in_range x y). unfold in_i64, i64_min, i64_max in *.
      generalize dependent (x ÷ y). intros q Hq Hr. lia.
  - intros [-> ->]. vm_compute. reflexivity.
Qed.
Print Assumptions int_divide_overflow_only.

(* ---- B2: int-to-float promotion ---- *)
Section B2.
Variables (x y : Z) (a b : fl).

Theorem promote_plus_l : apply_binop T_PLUS (DInt x) (DFlt b) = Ok (DFlt (fadd (f_of_Z x) b)).
Proof. binop_red. reflexivity. Qed.
Theorem promote_plus_r : apply_binop T_PLUS (DFlt a) (DInt y) = Ok (DFlt (fadd a (f_of_Z y))).
Proof. binop_red. reflexivity. Qed.
Theorem flt_plus : apply_binop T_PLUS (DFlt a) (DFlt b) = Ok (DFlt (fadd a b)).
Proof. binop_red. reflexivity. Qed.

Theorem promote_minus_l : apply_binop T_MINUS (DInt x) (DFlt b) = Ok (DFlt (fsub (f_of_Z x) b)).
Proof. binop_red. reflexivity. Qed.
Theorem promote_minus_r : apply_binop T_MINUS (DFlt a) (DInt y) = Ok (DFlt (fsub a (f_of_Z y))).
Proof. binop_red. reflexivity. Qed.
Theorem flt_minus : apply_binop T_MINUS (DFlt a) (DFlt b) = Ok (DFlt (fsub a b)).
Proof. binop_red. reflexivity. Qed.

Theorem promote_mult_l : apply_binop T_MULT (DInt x) (DFlt b) = Ok (DFlt (fmul (f_of_Z x) b)).
Proof. binop_red. reflexivity. Qed.
Theorem promote_mult_r : apply_binop T_MULT (DFlt a) (DInt y) = Ok (DFlt (fmul a (f_of_Z y))).
Proof. binop_red. reflexivity. Qed.
Theorem flt_mult : apply_binop T_MULT (DFlt a) (DFlt b) = Ok (DFlt (fmul a b)).
Proof. binop_red. reflexivity. Qed.

Theorem promote_divide_l : apply_binop T_DIVIDE (DInt x) (DFlt b) =
  if f_is_zero b then err (lit "divide by zero") else Ok (DFlt (fdiv (f_of_Z x) b)).
Proof. binop_red. reflexivity. Qed.
Theorem promote_divide_r : apply_binop T_DIVIDE (DFlt a) (DInt y) =
  if f_is_zero (f_of_Z y) then err (lit "divide by zero") else Ok (DFlt (fdiv a (f_of_Z y))).
Proof. binop_red. reflexivity. Qed.
Theorem flt_divide : apply_binop T_DIVIDE (DFlt a) (DFlt b) =
  if f_is_zero b then err (lit "divide by zero") else Ok (DFlt (fdiv a b)).
Proof. binop_red. reflexivity. Qed.
End B2.

(* ---- B3: shifts ---- *)
Definition wrap_i64 (w : Z) : Z := let m := w mod 2 ^ 64 in if m <? 2 ^ 63 then m else m - 2 ^ 64.

Lemma wrap_i64_range w : in_i64 (wrap_i64 w) = true.
Proof.
  unfold wrap_i64, in_i64, i64_min, i64_max. cbv zeta.
  assert (H : 0 <= w mod 2 ^ 64 < 2 ^ 64) by (apply Z.mod_pos_bound; reflexivity).
  change (2 ^ 64) with 18446744073709551616 in *. change (2 ^ 63) with 9223372036854775808.
  destruct (w mod 18446744073709551616 <? 9223372036854775808) eqn:E; lia.
Qed.

Theorem shift_left : forall x y, apply_binop T_LEFT_SHIFT (DInt x) (DInt y) =
  if (y <? 0) || (63 <? y) then err (lit "shift count out of range")
  else Ok (DInt (wrap_i64 (Z.shiftl x y))).
Proof. intros. binop_red. reflexivity. Qed.

Theorem shift_right : forall x y, apply_binop T_RIGHT_SHIFT (DInt x) (DInt y) =
  if (y <? 0) || (63 <? y) then err (lit "shift count out of range")
  else Ok (DInt (Z.shiftr x y)).
Proof. intros. binop_red. reflexivity. Qed.

Lemma shiftr_range x y : in_i64 x = true -> 0 <= y -> in_i64 (Z.shiftr x y) = true.
Proof.
  intros Hx Hy. rewrite Z.shiftr_div_pow2 by assumption.
  assert (Hp : 0 < 2 ^ y) by (apply Z.pow_pos_nonneg; lia).
  unfold in_i64, i64_min, i64_max in *.
  assert (Hd := Z.mul_div_le x (2 ^ y) Hp).
  assert (Hm := Z.mod_pos_bound x (2 ^ y) Hp).
  assert (He := Z.div_mod x (2 ^ y) ltac:(lia)).
  destruct (Z_le_gt_dec 0 x) as [Hpos|Hneg].
  - assert (0 <= x / 2 ^ y) by (apply Z.div_pos; lia).
    assert (x / 2 ^ y <= x) by nia. lia.
  - assert (x / 2 ^ y < 0) by (apply Z.div_lt_upper_bound; lia).
    assert (x <= x / 2 ^ y) by nia. lia.
Qed.

Theorem shift_left_ok : forall x y, in_i64 x = true -> 0 <= y <= 63 ->
  exists z, apply_binop T_LEFT_SHIFT (DInt x) (DInt y) = Ok (DInt z) /\ in_i64 z = true.
Proof.
  intros x y _ Hy. rewrite shift_left.
  assert (E : (y <? 0) || (63 <? y) = false) by lia. rewrite E.
  eexists; split; [reflexivity|apply wrap_i64_range].
Qed.

Theorem shift_right_ok : forall x y, in_i64 x = true -> 0 <= y <= 63 ->
  apply_binop T_RIGHT_SHIFT (DInt x) (DInt y) = Ok (DInt (Z.shiftr x y)) /\
  in_i64 (Z.shiftr x y) = true.
Proof.
  intros x y Hx Hy. rewrite shift_right.
  assert (E : (y <? 0) || (63 <? y) = false) by lia. rewrite E.
  split; [reflexivity|apply shiftr_range; [assumption|lia]].
Qed.

Theorem shift_count_error : forall op x y, op = T_LEFT_SHIFT \/ op = T_RIGHT_SHIFT ->
  y < 0 \/ 63 < y -> apply_binop op (DInt x) (DInt y) = err (lit "shift count out of range").
Proof.
  intros op x y [-> | ->] Hy; [rewrite shift_left|rewrite shift_right];
    (assert (E : (y <? 0) || (63 <? y) = true) by lia); rewrite E; reflexivity.
Qed.
Print Assumptions shift_left_ok.

(* ---- B4: bit operations stay inside i64 ---- *)

(* a two's-complement characterisation of the i64 range: all bits from 63 up equal the sign *)
Lemma in_i64_bits z : in_i64 z = true <-> (forall m, 63 <= m -> Z.testbit z m = (z <? 0)).
Proof.
  unfold in_i64, i64_min, i64_max. split.
  - intros Hz m Hm. destruct (Z_lt_ge_dec z 0) as [Hneg|Hpos].
    + replace (z <? 0) with true by lia.
      apply Z.bits_above_log2_neg; [assumption|].
      destruct (Z.eq_dec (Z.pred (- z)) 0) as [E0|N0]; [rewrite E0; cbn; lia|].
      assert (Z.log2 (Z.pred (- z)) < 63); [|lia].
      apply Z.log2_lt_pow2; [lia|]. change (2 ^ 63) with 9223372036854775808. lia.
    + replace (z <? 0) with false by lia.
      destruct (Z.eq_dec z 0) as [->|N0]; [apply Z.testbit_0_l|].
      apply Z.bits_above_log2; [lia|].
      assert (Z.log2 z < 63); [|lia].
      apply Z.log2_lt_pow2; [lia|]. change (2 ^ 63) with 9223372036854775808. lia.
  - intros Hb.
    assert (Hnn : forall w, 0 <= w -> (forall m, 63 <= m -> Z.testbit w m = false) -> w < 2 ^ 63).
    { intros w Hw Hbits. destruct (Z.eq_dec w 0) as [->|N0]; [reflexivity|].
      destruct (Z_lt_ge_dec w (2 ^ 63)) as [Hlt|Hge]; [assumption|exfalso].
      assert (Hl : 63 <= Z.log2 w) by (apply Z.log2_le_pow2; lia).
      specialize (Hbits _ Hl). rewrite Z.bit_log2 in Hbits by lia. discriminate. }
    change (2 ^ 63) with 9223372036854775808 in Hnn.
    destruct (Z_lt_ge_dec z 0) as [Hneg|Hpos].
    + assert (Hl : Z.lnot z < 9223372036854775808).
      { apply Hnn; [unfold Z.lnot; lia|]. intros m Hm. rewrite Z.lnot_spec by lia.
        rewrite (Hb m Hm). replace (z <? 0) with true by lia. reflexivity. }
      unfold Z.lnot in Hl. lia.
    + assert (Hl : z < 9223372036854775808).
      { apply Hnn; [lia|]. intros m Hm. rewrite (Hb m Hm). lia. }
      lia.
Qed.

Theorem land_range x y : in_i64 x = true -> in_i64 y = true -> in_i64 (Z.land x y) = true.
Proof.
  rewrite !in_i64_bits. intros Hx Hy m Hm. rewrite Z.land_spec, (Hx m Hm), (Hy m Hm).
  pose proof (Z.land_neg x y). destruct (x <? 0) eqn:Ex, (y <? 0) eqn:Ey; cbn [andb]; lia.
Qed.

Theorem lor_range x y : in_i64 x = true -> in_i64 y = true -> in_i64 (Z.lor x y) = true.
Proof.
  rewrite !in_i64_bits. intros Hx Hy m Hm. rewrite Z.lor_spec, (Hx m Hm), (Hy m Hm).
  pose proof (Z.lor_neg x y). destruct (x <? 0) eqn:Ex, (y <? 0) eqn:Ey; cbn [orb]; lia.
Qed.

Theorem lxor_range x y : in_i64 x = true -> in_i64 y = true -> in_i64 (Z.lxor x y) = true.
Proof.
  rewrite !in_i64_bits. intros Hx Hy m Hm. rewrite Z.lxor_spec, (Hx m Hm), (Hy m Hm).
  pose proof (Z.lxor_nonneg x y). destruct (x <? 0) eqn:Ex, (y <? 0) eqn:Ey; cbn [xorb]; lia.
Qed.

Theorem lnot_range x : in_i64 x = true -> in_i64 (Z.lnot x) = true.
Proof. unfold in_i64, i64_min, i64_max, Z.lnot. lia. Qed.

Lemma rem_range x y : in_i64 x = true -> y <> 0 -> in_i64 (Z.rem x y) = true.
Proof.
  intros Hx Hy.
  assert (Habs : Z.abs (Z.rem x y) <= Z.abs x).
  { rewrite <- Z.rem_abs by exact Hy. rewrite Z.rem_mod_nonneg by lia. apply Z.mod_le; lia. }
  assert (Hsgn : (0 <= x -> 0 <= Z.rem x y) /\ (x <= 0 -> Z.rem x y <= 0)).
  { split; intros H; [apply Z.rem_nonneg|apply Z.rem_nonpos]; assumption. }
  unfold in_i64, i64_min, i64_max in *.
  generalize dependent (Z.rem x y). intros r Habs Hsgn. lia.
Qed.

(* case analysis on an abstract operator token: one case per token constant tested in the goal *)
Ltac split_op op :=
  match goal with
  | |- context [Z.eqb op ?t] =>
      let E := fresh "E" in
      destruct (Z.eqb op t) eqn:E; [apply Z.eqb_eq in E; subst op|]
  end.

Lemma d_bool_range b z : d_bool b = DInt z -> in_i64 z = true.
Proof. unfold d_bool. intros H. inversion H. destruct b; reflexivity. Qed.

(* B4 (closure): an integer produced from in-range integer operands is in range *)
Theorem apply_binop_int_range : forall op x y z,
  in_i64 x = true -> in_i64 y = true ->
  apply_binop op (DInt x) (DInt y) = Ok (DInt z) -> in_i64 z = true.
Proof.
  intros op x y z Hx Hy. unfold apply_binop.
  repeat split_op op; tok_tests;
    cbn [orb andb negb is_string to_flt expr_as_str]; cbv beta iota;
    unfold i64_result, illegal_type, err; intros H;
    repeat match type of H with
           | context [if ?c then _ else _] => let E := fresh "E" in destruct c eqn:E
           | context [match ?c with _ => _ end] => let E := fresh "E" in destruct c eqn:E
           end;
    try discriminate;
    try (injection H as H; subst z);
    try assumption;
    try (match goal with |- in_i64 (if ?b then 1 else 0) = true => destruct b; reflexivity end).
  - (* % *) apply rem_range; [assumption|lia].
  - (* << *) pose proof (wrap_i64_range (Z.shiftl x y)) as W. unfold wrap_i64 in W. cbv zeta in W.
    rewrite E5 in W. exact W.
  - pose proof (wrap_i64_range (Z.shiftl x y)) as W. unfold wrap_i64 in W. cbv zeta in W.
    rewrite E5 in W. exact W.
  - (* >> *) apply shiftr_range; [assumption|lia].
  - apply land_range; assumption.
  - apply lxor_range; assumption.
  - apply lor_range; assumption.
Qed.
Print Assumptions apply_binop_int_range.

(* ---- B5: comparisons ---- *)
Definition cmp_toks : list Z := [T_LESS; T_GREATER; T_LEQ; T_GEQ; T_EQUAL; T_NEQ].

(* the text a number is compared as when the other operand is a string *)
Definition datum_text (d : datum) : str :=
  match d with DInt z => show_Z z | DFlt f => f_display f | DStr s => s end.

Lemma expr_as_str_text d : expr_as_str d = DStr (datum_text d).
Proof. destruct d; reflexivity. Qed.

Ltac in_cases H := cbn [In cmp_toks] in H; repeat (destruct H as [H|H]; [subst|]); try contradiction.

Theorem cmp_int_int : forall op x y, In op cmp_toks ->
  apply_binop op (DInt x) (DInt y) = Ok (d_bool (cmp_op op (x ?= y))).
Proof. intros op x y H. in_cases H; binop_red; reflexivity. Qed.

Theorem cmp_flt_flt : forall op a b, In op cmp_toks ->
  apply_binop op (DFlt a) (DFlt b) = Ok (d_bool (fcmp_op op a b)).
Proof. intros op a b H. in_cases H; binop_red; reflexivity. Qed.

Theorem cmp_int_flt : forall op x b, In op cmp_toks ->
  apply_binop op (DInt x) (DFlt b) = Ok (d_bool (fcmp_op op (f_of_Z x) b)).
Proof. intros op x b H. in_cases H; binop_red; reflexivity. Qed.

Theorem cmp_flt_int : forall op a y, In op cmp_toks ->
  apply_binop op (DFlt a) (DInt y) = Ok (d_bool (fcmp_op op a (f_of_Z y))).
Proof. intros op a y H. in_cases H; binop_red; reflexivity. Qed.

Theorem cmp_str_l : forall op s v, In op cmp_toks ->
  apply_binop op (DStr s) v = Ok (d_bool (cmp_op op (str_cmp s (datum_text v)))).
Proof. intros op s v H. in_cases H; destruct v; binop_red; reflexivity. Qed.

Theorem cmp_str_r : forall op v t, In op cmp_toks ->
  apply_binop op v (DStr t) = Ok (d_bool (cmp_op op (str_cmp (datum_text v) t))).
Proof. intros op v t H. in_cases H; destruct v; binop_red; reflexivity. Qed.

(* what the six comparison tokens mean on integers *)
Theorem cmp_op_int : forall x y,
  cmp_op T_LESS (x ?= y) = (x <? y) /\ cmp_op T_GREATER (x ?= y) = (y <? x) /\
  cmp_op T_LEQ (x ?= y) = (x <=? y) /\ cmp_op T_GEQ (x ?= y) = (y <=? x) /\
  cmp_op T_EQUAL (x ?= y) = (x =? y) /\ cmp_op T_NEQ (x ?= y) = negb (x =? y).
Proof.
  intros x y. unfold cmp_op. tok_tests. cbv beta iota.
  destruct (Z.compare_spec x y) as [H|H|H]; repeat split; lia.
Qed.

(* ... and on floats *)
Theorem fcmp_op_meaning : forall a b,
  fcmp_op T_LESS a b = f_lt a b /\ fcmp_op T_GREATER a b = f_gt a b /\
  fcmp_op T_LEQ a b = f_le a b /\ fcmp_op T_GEQ a b = f_ge a b /\
  fcmp_op T_EQUAL a b = f_eq a b /\ fcmp_op T_NEQ a b = f_ne a b.
Proof. intros a b. unfold fcmp_op. tok_tests. cbv beta iota. repeat split. Qed.

(* eq / ne always compare the texts *)
Theorem string_eq_rule : forall v v2,
  apply_binop T_STRING_EQ v v2 = Ok (d_bool (str_eqb (datum_text v) (datum_text v2))).
Proof. intros v v2. unfold apply_binop. tok_tests. cbn [orb]. rewrite !expr_as_str_text. reflexivity. Qed.

Theorem string_ne_rule : forall v v2,
  apply_binop T_STRING_NE v v2 = Ok (d_bool (negb (str_eqb (datum_text v) (datum_text v2)))).
Proof. intros v v2. unfold apply_binop. tok_tests. cbn [orb]. rewrite !expr_as_str_text. reflexivity. Qed.

(* in / ni test membership of the text of the left operand in the list on the right *)
Theorem in_rule : forall v v2,
  apply_binop T_IN v v2 =
  match get_list (datum_text v2) with
  | Some (inr l) => Ok (d_bool (existsb (fun e => str_eqb e (datum_text v)) l))
  | Some (inl e) => err (list_err_msg e)
  | None => Fuel
  end.
Proof. intros v v2. unfold apply_binop. tok_tests. cbn [orb]. rewrite !expr_as_str_text. reflexivity. Qed.

Theorem ni_rule : forall v v2,
  apply_binop T_NI v v2 =
  match get_list (datum_text v2) with
  | Some (inr l) => Ok (d_bool (negb (existsb (fun e => str_eqb e (datum_text v)) l)))
  | Some (inl e) => err (list_err_msg e)
  | None => Fuel
  end.
Proof. intros v v2. unfold apply_binop. tok_tests. cbn [orb]. rewrite !expr_as_str_text. reflexivity. Qed.
Print Assumptions cmp_int_int.
Print Assumptions in_rule.

(* ---- B6: wrong operand types are errors, never values ---- *)
Definition arith_toks : list Z := [T_MULT; T_DIVIDE; T_PLUS; T_MINUS].
Definition intonly_toks : list Z := [T_MOD; T_LEFT_SHIFT; T_RIGHT_SHIFT; T_BIT_AND; T_BIT_XOR; T_BIT_OR].
Definition is_int (d : datum) : bool := match d with DInt _ => true | _ => false end.

Theorem arith_string_operand : forall op v v2, In op arith_toks ->
  is_string v || is_string v2 = true ->
  apply_binop op v v2 = illegal_type (DStr []) op.
Proof.
  intros op v v2 H Hs. cbn [In arith_toks] in H.
  repeat (destruct H as [H|H]; [subst|]); try contradiction;
    unfold apply_binop; tok_tests; cbn [orb]; rewrite Hs; reflexivity.
Qed.

Theorem intonly_left_operand : forall op v v2, In op intonly_toks -> is_int v = false ->
  apply_binop op v v2 = illegal_type v op.
Proof.
  intros op v v2 H Hv. cbn [In intonly_toks] in H.
  repeat (destruct H as [H|H]; [subst|]); try contradiction;
    destruct v; try discriminate; destruct v2; binop_red; reflexivity.
Qed.

Theorem intonly_right_operand : forall op x v2, In op intonly_toks -> is_int v2 = false ->
  apply_binop op (DInt x) v2 = illegal_type v2 op.
Proof.
  intros op x v2 H Hv. cbn [In intonly_toks] in H.
  repeat (destruct H as [H|H]; [subst|]); try contradiction;
    destruct v2; try discriminate; binop_red; reflexivity.
Qed.

Corollary wrong_type_is_error : forall op v v2,
  (In op arith_toks /\ is_string v || is_string v2 = true) \/
  (In op intonly_toks /\ (is_int v = false \/ is_int v2 = false)) ->
  exists e, apply_binop op v v2 = Err e.
Proof.
  intros op v v2 [[H Hs]|[H Hi]].
  - rewrite (arith_string_operand op v v2 H Hs). unfold illegal_type, err. eexists; reflexivity.
  - destruct (is_int v) eqn:Ev.
    + destruct v; try discriminate. destruct Hi as [Hi|Hi]; [discriminate|].
      rewrite (intonly_right_operand op z v2 H Hi). unfold illegal_type, err. eexists; reflexivity.
    + rewrite (intonly_left_operand op v v2 H Ev). unfold illegal_type, err. eexists; reflexivity.
Qed.
Print Assumptions wrong_type_is_error.

(* ---- B7: the math functions ---- *)
Ltac name_tests :=
  repeat match goal with
         | |- context [str_eqb (lit ?a) (lit ?b)] =>
             let v := eval vm_compute in (str_eqb (lit a) (lit b)) in
             change (str_eqb (lit a) (lit b)) with v
         end.

Theorem func_abs_int : forall z, call_func (lit "abs") (DInt z) =
  if z <? 0 then (if in_i64 (- z) then Ok (DInt (- z)) else err (lit "integer overflow"))
  else Ok (DInt z).
Proof. intros. unfold call_func. name_tests. reflexivity. Qed.

Theorem func_abs_min : call_func (lit "abs") (DInt i64_min) = err (lit "integer overflow").
Proof. rewrite func_abs_int. reflexivity. Qed.

Theorem func_abs_int_ok : forall z, in_i64 z = true -> z <> i64_min ->
  call_func (lit "abs") (DInt z) = Ok (DInt (Z.abs z)).
Proof.
  intros z Hz Hm. rewrite func_abs_int. unfold in_i64, i64_min, i64_max in *.
  destruct (z <? 0) eqn:E.
  - replace ((-9223372036854775808 <=? - z) && (- z <=? 9223372036854775807)) with true by lia.
    f_equal. f_equal. lia.
  - f_equal. f_equal. lia.
Qed.

Theorem func_abs_flt : forall f, call_func (lit "abs") (DFlt f) =
  Ok (DFlt (if f_lt f f_zero then fneg f else f)).
Proof. intros. unfold call_func. name_tests. reflexivity. Qed.

Theorem func_double : forall z f,
  call_func (lit "double") (DInt z) = Ok (DFlt (f_of_Z z)) /\
  call_func (lit "double") (DFlt f) = Ok (DFlt f).
Proof. intros. unfold call_func. name_tests. split; reflexivity. Qed.

Theorem func_int : forall z f,
  call_func (lit "int") (DInt z) = Ok (DInt z) /\
  call_func (lit "int") (DFlt f) = Ok (DInt (f_to_i64 f)).
Proof. intros. unfold call_func. name_tests. split; reflexivity. Qed.

Theorem func_round : forall z f,
  call_func (lit "round") (DInt z) = Ok (DInt z) /\
  call_func (lit "round") (DFlt f) =
    Ok (DInt (f_to_i64 (if f_lt f f_zero then fsub f f_half else fadd f f_half))).
Proof.
  intros. unfold call_func. name_tests. split; [reflexivity|]. destruct (f_lt f f_zero); reflexivity.
Qed.
Print Assumptions func_abs_int_ok.
Print Assumptions func_round.

(* ====================================================================================== *)
(* PART C — structure                                                                      *)
(* ====================================================================================== *)

Ltac info_red := cbn [e_rest e_token e_noeval with_rest with_token with_tok_rest with_noeval].
Ltac tok_red :=
  info_red; tok_tests; cbv beta iota; tok_tests; cbv beta iota; tok_tests; cbn [negb]; cbv beta iota.

Section Structure.
Variable ia ib : char -> bool.
Variable exec : executor.
Variable original : str.

Local Notation GV := (expr_get_value ia ib exec original).
Local Notation LOOP := (expr_loop ia ib exec original).
Local Notation LEX := (expr_lex ia ib exec original).

(* ---- C1: where the operator loop stops ---- *)

(* at END, a close parenthesis or a comma *)
Theorem loop_stops_at_end : forall f st info pr v,
  e_token info = T_END \/ e_token info = T_CLOSE_PAREN \/ e_token info = T_COMMA ->
  LOOP (S f) st info pr v = (st, Ok (v, info)).
Proof.
  intros f st info pr v H. rewrite expr_loop_S. cbv zeta.
  destruct H as [H|[H|H]]; rewrite H; tok_tests; reflexivity.
Qed.

(* at a binary operator that does not bind tighter than the caller's: the value is returned
   unchanged and the operator stays pending *)
Theorem loop_stops_at_lower_prec : forall f st info pr v,
  T_MULT <= e_token info <= T_COLON -> prec (e_token info) <= pr ->
  LOOP (S f) st info pr v = (st, Ok (v, info)).
Proof.
  intros f st info pr v Hop Hpr. rewrite expr_loop_S. cbv zeta.
  unfold T_MULT, T_COLON, T_UNARY_MINUS in *.
  replace ((e_token info <? 8) || (32 <=? e_token info)) with false by lia.
  replace (prec (e_token info) <=? pr) with true by lia. reflexivity.
Qed.

(* any other non-operator token where an operator is expected is a syntax error *)
Theorem loop_rejects_non_operator : forall f st info pr v,
  e_token info < T_MULT \/ T_UNARY_MINUS <= e_token info ->
  e_token info <> T_END -> e_token info <> T_CLOSE_PAREN -> e_token info <> T_COMMA ->
  LOOP (S f) st info pr v = (st, syntax_error original).
Proof.
  intros f st info pr v Hop H1 H2 H3. rewrite expr_loop_S. cbv zeta.
  unfold T_MULT, T_UNARY_MINUS, T_END, T_CLOSE_PAREN, T_COMMA in *.
  replace ((e_token info <? 8) || (32 <=? e_token info)) with true by lia.
  replace ((e_token info =? 4) || (e_token info =? 2) || (e_token info =? 3)) with false by lia.
  reflexivity.
Qed.

(* ---- C2: one turn of the loop at an ordinary binary operator; left associativity ---- *)

(* the operators both of whose operands are always evaluated: T_MULT .. T_BIT_OR *)
Definition ordinary (op : Z) : Prop := T_MULT <= op <= T_BIT_OR.

Theorem loop_step_ordinary : forall f st info pr v,
  ordinary (e_token info) -> pr < prec (e_token info) ->
  LOOP (S f) st info pr v =
  match GV f st info (prec (e_token info)) with
  | (st2, Ok (v2, i2)) =>
      if bad_after_token i2 then (st2, syntax_error original)
      else if noeval i2 then LOOP f st2 i2 pr v
      else match apply_binop (e_token info) v v2 with
           | Ok v' => LOOP f st2 i2 pr v'
           | Err e => (st2, Err e)
           | Panic p => (st2, Panic p)
           | Fuel => (st2, Fuel)
           end
  | (st2, Err e) => (st2, Err e)
  | (st2, Panic p) => (st2, Panic p)
  | (st2, Fuel) => (st2, Fuel)
  end.
Proof.
  intros f st info pr v Hop Hpr. rewrite expr_loop_S. cbv zeta.
  unfold ordinary, T_MULT, T_BIT_OR, T_UNARY_MINUS, T_AND, T_OR, T_QUESTY in *.
  replace ((e_token info <? 8) || (32 <=? e_token info)) with false by lia.
  replace (prec (e_token info) <=? pr) with false by lia.
  replace ((e_token info =? 28) || (e_token info =? 29) || (e_token info =? 30)) with false by lia.
  reflexivity.
Qed.

(* the same, when the right operand parses to a value and evaluation is on: the loop goes on AT
   THE SAME LEVEL with the combined value, so that  a op1 b op2 c  (equal precedences) groups as
   (a op1 b) op2 c *)
Theorem loop_left_assoc : forall f st info pr v st2 v2 i2,
  ordinary (e_token info) -> pr < prec (e_token info) ->
  GV f st info (prec (e_token info)) = (st2, Ok (v2, i2)) ->
  bad_after_token i2 = false -> noeval i2 = false ->
  LOOP (S f) st info pr v =
  match apply_binop (e_token info) v v2 with
  | Ok v' => LOOP f st2 i2 pr v'
  | Err e => (st2, Err e)
  | Panic p => (st2, Panic p)
  | Fuel => (st2, Fuel)
  end.
Proof.
  intros f st info pr v st2 v2 i2 Hop Hpr Hgv Hbad Hne.
  rewrite (loop_step_ordinary f st info pr v Hop Hpr), Hgv, Hbad, Hne. reflexivity.
Qed.

(* two operators of one level: after  v op1 b , the next operator op2 with prec op2 <= prec op1
   ends the operand b of op1 (C1) and is then applied to (v op1 b) by the same loop *)
Corollary two_operators_group_left : forall f st info pr v st2 b i2 st3 c i3 vab,
  ordinary (e_token info) -> pr < prec (e_token info) ->
  GV (S f) st info (prec (e_token info)) = (st2, Ok (b, i2)) ->
  noeval i2 = false ->
  ordinary (e_token i2) -> pr < prec (e_token i2) ->
  GV f st2 i2 (prec (e_token i2)) = (st3, Ok (c, i3)) ->
  bad_after_token i3 = false -> noeval i3 = false ->
  apply_binop (e_token info) v b = Ok vab ->
  LOOP (S (S f)) st info pr v =
  match apply_binop (e_token i2) vab c with
  | Ok v' => LOOP f st3 i3 pr v'
  | Err e => (st3, Err e)
  | Panic p => (st3, Panic p)
  | Fuel => (st3, Fuel)
  end.
Proof.
  intros f st info pr v st2 b i2 st3 c i3 vab Hop1 Hpr1 Hgv1 Hne2 Hop2 Hpr2 Hgv2 Hbad3 Hne3 Hab.
  assert (Hbad2 : bad_after_token i2 = false).
  { unfold bad_after_token, ordinary, T_MULT, T_BIT_OR in *.
    replace (e_token i2 <? 8) with false by lia. reflexivity. }
  rewrite (loop_left_assoc (S f) st info pr v st2 b i2 Hop1 Hpr1 Hgv1 Hbad2 Hne2), Hab.
  apply (loop_left_assoc f st2 i2 pr vab st3 c i3 Hop2 Hpr2 Hgv2 Hbad3 Hne3).
Qed.

End Structure.
Print Assumptions loop_stops_at_end.
Print Assumptions loop_stops_at_lower_prec.
Print Assumptions loop_step_ordinary.
Print Assumptions two_operators_group_left.

(* ---- C3: completeness for trees of ordinary binary operators over integer literals ---- *)

Inductive bop :=
| OMul | ODiv | OMod | OAdd | OSub | OShl | OShr | OLt | OGt | OLe | OGe | OEq | ONe
| OSeq | OSne | OIn | ONi | OAnd | OXor | OOr.

Definition tok_of (o : bop) : Z :=
  match o with
  | OMul => T_MULT | ODiv => T_DIVIDE | OMod => T_MOD | OAdd => T_PLUS | OSub => T_MINUS
  | OShl => T_LEFT_SHIFT | OShr => T_RIGHT_SHIFT | OLt => T_LESS | OGt => T_GREATER
  | OLe => T_LEQ | OGe => T_GEQ | OEq => T_EQUAL | ONe => T_NEQ | OSeq => T_STRING_EQ
  | OSne => T_STRING_NE | OIn => T_IN | ONi => T_NI | OAnd => T_BIT_AND | OXor => T_BIT_XOR
  | OOr => T_BIT_OR
  end.

(* the source text of an operator, from the regenerated table *)
Definition opstr (o : bop) : str := op_string (tok_of o).
Definition oprec (o : bop) : Z := prec (tok_of o).

(* operators written with letters: their lexing depends on the alphabetic predicate *)
Definition alpha_op (o : bop) : bool :=
  match o with OSeq | OSne | OIn | ONi => true | _ => false end.

Lemma tok_of_ordinary o : ordinary (tok_of o).
Proof. destruct o; vm_compute; split; discriminate. Qed.

Lemma oprec_pos o : 0 < oprec o.
Proof. destruct o; vm_compute; reflexivity. Qed.

Inductive tree := Lit (z : Z) | Bin (o : bop) (l r : tree) | Paren (t : tree).

Local Open Scope N_scope.
(* single spaces around operators, no space inside parentheses *)
Fixpoint render (t : tree) : str :=
  match t with
  | Lit z => show_Z z
  | Bin o l r => render l ++ 32 :: opstr o ++ 32 :: render r
  | Paren t => 40 :: render t ++ [41]
  end.
Local Open Scope Z_scope.

(* the value of a tree: structure given by the tree, arithmetic by [apply_binop] *)
Fixpoint ev (t : tree) : res datum :=
  match t with
  | Lit z => Ok (DInt z)
  | Paren t => ev t
  | Bin o l r =>
      match ev l with
      | Ok a => match ev r with
                | Ok b => apply_binop (tok_of o) a b
                | other => other
                end
      | other => other
      end
  end.

Definition top (t : tree) : option Z := match t with Bin o _ _ => Some (oprec o) | _ => None end.
Definition ge_top (t : tree) (n : Z) : Prop := match top t with Some k => n <= k | None => True end.
Definition gt_top (t : tree) (n : Z) : Prop := match top t with Some k => n < k | None => True end.

(* literals are non-negative i64; a left operand binds at least as tightly as its operator, a
   right operand strictly tighter (anything else has to be parenthesised) *)
Fixpoint WF (t : tree) : Prop :=
  match t with
  | Lit z => 0 <= z <= i64_max
  | Bin o l r => WF l /\ WF r /\ ge_top l (oprec o) /\ gt_top r (oprec o)
  | Paren t => WF t
  end.

(* number of tokens; number of operators on the left spine *)
Fixpoint sz (t : tree) : nat :=
  match t with Lit _ => 1 | Bin _ l r => sz l + sz r + 1 | Paren t => sz t + 2 end.
Fixpoint nsp (t : tree) : nat := match t with Bin _ l _ => S (nsp l) | _ => 0 end.

Lemma nsp_lt_sz t : (nsp t < sz t)%nat.
Proof. induction t as [z|o l IHl r IHr|t IH]; cbn [nsp sz]; lia. Qed.

Definition lift_res (st : interp) (r : res datum) (k : datum -> eres) : eres :=
  match r with
  | Ok v => k v
  | Err e => (st, Err e)
  | Panic p => (st, Panic p)
  | Fuel => (st, Fuel)
  end.

(* what may follow a decimal literal without changing how it is read *)
Definition lit_follow (rest : str) : Prop :=
  match rest with
  | [] => True
  | c :: _ => is_digit10 c = false /\ c <> 46%N /\ c <> 101%N /\ c <> 69%N /\ c <> 120%N
  end.

Lemma skip_ws_app sp s :
  forallb is_whitespace sp = true -> skip_while is_whitespace (sp ++ s) = skip_while is_whitespace s.
Proof.
  induction sp as [|c sp IH]; intros H; [reflexivity|].
  cbn [forallb] in H. apply andb_true_iff in H. destruct H as [Hc Hs].
  cbn [app skip_while]. rewrite Hc. apply IH, Hs.
Qed.

Lemma take_while_app_stop (p : char -> bool) ds rest :
  forallb p ds = true -> match rest with [] => True | c :: _ => p c = false end ->
  take_while p (ds ++ rest) = ds.
Proof.
  intros Hd Hr. induction ds as [|d ds IH].
  - destruct rest as [|c r]; [reflexivity|]. cbn [app take_while]. rewrite Hr. reflexivity.
  - cbn [forallb] in Hd. apply andb_true_iff in Hd. destruct Hd as [H1 H2].
    cbn [app take_while]. rewrite H1, (IH H2). reflexivity.
Qed.

Lemma skip_while_app_stop (p : char -> bool) ds rest :
  forallb p ds = true -> match rest with [] => True | c :: _ => p c = false end ->
  skip_while p (ds ++ rest) = rest.
Proof.
  intros Hd Hr. induction ds as [|d ds IH].
  - destruct rest as [|c r]; [reflexivity|]. cbn [app skip_while]. rewrite Hr. reflexivity.
  - cbn [forallb] in Hd. apply andb_true_iff in Hd. destruct Hd as [H1 H2].
    cbn [app skip_while]. rewrite H1. apply IH, H2.
Qed.

Lemma lit_follow_nondigit rest : lit_follow rest ->
  match rest with [] => True | c :: _ => is_digit10 c = false end.
Proof. destruct rest; [auto|]. intros H. apply H. Qed.

(* a block of decimal digits followed by something that cannot extend it reads as itself *)
Lemma looks_like_int_digits ds rest :
  ds <> [] -> forallb is_digit10 ds = true -> lit_follow rest ->
  expr_looks_like_int (ds ++ rest) = true.
Proof.
  intros Hne Hd Hf. destruct ds as [|c r]; [congruence|].
  cbn [forallb] in Hd. apply andb_true_iff in Hd. destruct Hd as [Hc Hr].
  unfold expr_looks_like_int. cbn [app].
  rewrite (skip_while_head_false is_whitespace (c :: r ++ rest)).
  2:{ unfold is_digit10, is_whitespace in *. lia. }
  replace (N.eqb c c_plus || N.eqb c c_minus) with false
    by (unfold is_digit10, c_plus, c_minus in *; lia).
  rewrite Hc. rewrite (skip_while_app_stop is_digit10 r rest Hr (lit_follow_nondigit rest Hf)).
  destruct rest as [|x rest']; [reflexivity|]. cbn [is_c]. cbn [lit_follow] in Hf.
  unfold c_dot. destruct Hf as (_ & H1 & H2 & H3 & _).
  replace (N.eqb x 46) with false by lia. replace (N.eqb x 101) with false by lia.
  replace (N.eqb x 69) with false by lia. reflexivity.
Qed.

Lemma read_int_digits ds rest :
  ds <> [] -> forallb is_digit10 ds = true -> lit_follow rest ->
  read_int (ds ++ rest) = Some (ds, rest).
Proof.
  intros Hne Hd Hf. destruct ds as [|c r]; [congruence|].
  assert (Hnd := lit_follow_nondigit rest Hf).
  cbn [forallb] in Hd. apply andb_true_iff in Hd. destruct Hd as [Hc Hr].
  unfold read_int. cbn [app].
  replace (N.eqb c c_plus || N.eqb c c_minus) with false
    by (unfold is_digit10, c_plus, c_minus in *; lia).
  destruct (N.eqb c 48) eqn:E0.
  - assert (Hx : match r ++ rest with x :: _ => N.eqb x 120 = false | [] => True end).
    { destruct r as [|x r'].
      - destruct rest as [|x rest']; [exact I|]. cbn [app]. cbn [lit_follow] in Hf. lia.
      - cbn [app]. cbn [forallb] in Hr. unfold is_digit10 in Hr. lia. }
    destruct (r ++ rest) as [|x r'] eqn:Er.
    + assert (r = [] /\ rest = []) as [-> ->] by (destruct r; [destruct rest; [auto|discriminate]|discriminate]).
      apply N.eqb_eq in E0. subst c. reflexivity.
    + rewrite Hx. rewrite <- Er.
      rewrite (take_while_app_stop is_digit10 r rest Hr Hnd),
              (skip_while_app_stop is_digit10 r rest Hr Hnd).
      apply N.eqb_eq in E0. subst c. cbn [app]. destruct r; reflexivity.
  - change (c :: r ++ rest) with ((c :: r) ++ rest).
    assert (Hcr : forallb is_digit10 (c :: r) = true) by (cbn [forallb]; rewrite Hc, Hr; reflexivity).
    rewrite (take_while_app_stop is_digit10 (c :: r) rest Hcr Hnd),
            (skip_while_app_stop is_digit10 (c :: r) rest Hcr Hnd).
    reflexivity.
Qed.

Lemma show_Z_digits z : 0 <= z ->
  show_Z z <> [] /\ forallb is_digit10 (show_Z z) = true /\
  Z.of_N (digits_val 10 (show_Z z)) = z.
Proof.
  intros Hz. destruct z as [|p|p]; [| |lia].
  - cbn [show_Z]. split; [discriminate|]. split; reflexivity.
  - cbn [show_Z]. destruct (show_N_spec (Npos p)) as (H1 & H2 & H3).
    split; [exact H1|]. split; [exact H2|]. rewrite H3. reflexivity.
Qed.

(* the alphabetic predicate knows the letters of  eq ne in ni  and that a space is not a letter *)
Definition ib_ok (ib : char -> bool) : Prop :=
  ib 101%N = true /\ ib 113%N = true /\ ib 110%N = true /\ ib 105%N = true /\ ib 32%N = false.

Section Completeness.
Variable ia ib : char -> bool.
Variable exec : executor.
Variable original : str.

Local Notation GV := (expr_get_value ia ib exec original).
Local Notation LOOP := (expr_loop ia ib exec original).
Local Notation LEX := (expr_lex ia ib exec original).

(* [rest] may follow a literal, and lexes to the operator-like token [tk] leaving [rest'] *)
Definition follows (rest : str) (tk : Z) (rest' : str) : Prop :=
  lit_follow rest /\
  forall f st info, e_rest info = rest ->
    LEX (S f) st info = (st, Ok (d_none, with_tok_rest info tk rest')).

(* ---- lexer lemmas ---- *)

Lemma lex_digits f st info sp ds rest :
  forallb is_whitespace sp = true -> ds <> [] -> forallb is_digit10 ds = true -> lit_follow rest ->
  e_rest info = sp ++ ds ++ rest ->
  LEX (S f) st info =
  (st, match get_int ds with
       | Some z => Ok (DInt z, with_tok_rest info T_VALUE rest)
       | None => err (err_expected_int ds)
       end).
Proof.
  intros Hsp Hne Hd Hf He.
  assert (Hli := looks_like_int_digits ds rest Hne Hd Hf).
  assert (Hri := read_int_digits ds rest Hne Hd Hf).
  rewrite expr_lex_S, He, (skip_ws_app sp _ Hsp). cbv zeta.
  destruct ds as [|c r]; [congruence|].
  assert (Hc : is_digit10 c = true).
  { cbn [forallb] in Hd. apply andb_true_iff in Hd. tauto. }
  rewrite (skip_while_head_false is_whitespace ((c :: r) ++ rest)).
  2:{ cbn [app]. unfold is_digit10, is_whitespace in *. lia. }
  cbn [app] in *. unfold lex_number.
  replace (N.eqb c c_plus || N.eqb c c_minus) with false
    by (unfold is_digit10, c_plus, c_minus in *; lia).
  rewrite Hli, Hri. reflexivity.
Qed.

Lemma lex_literal f st info sp z rest :
  forallb is_whitespace sp = true -> 0 <= z <= i64_max -> lit_follow rest ->
  e_rest info = sp ++ show_Z z ++ rest ->
  LEX (S f) st info = (st, Ok (DInt z, with_tok_rest info T_VALUE rest)).
Proof.
  intros Hsp Hz Hf He. destruct (show_Z_digits z ltac:(lia)) as (Hne & Hd & Hv).
  rewrite (lex_digits f st info sp _ rest Hsp Hne Hd Hf He).
  rewrite (get_int_digits _ Hne Hd). cbv zeta. rewrite Hv.
  replace (in_i64 z) with true by (unfold in_i64, i64_min, i64_max in *; lia).
  reflexivity.
Qed.

Lemma lex_open_paren f st info sp s :
  forallb is_whitespace sp = true -> e_rest info = sp ++ 40%N :: s ->
  LEX (S f) st info = (st, Ok (d_none, with_tok_rest info T_OPEN_PAREN s)).
Proof.
  intros Hsp He. rewrite expr_lex_S, He, (skip_ws_app sp _ Hsp). reflexivity.
Qed.

Lemma follows_end : follows [] T_END [].
Proof. split; [exact I|]. intros f st info He. rewrite expr_lex_S, He. reflexivity. Qed.

Lemma follows_close r : follows (41%N :: r) T_CLOSE_PAREN r.
Proof.
  split; [cbn [lit_follow]; unfold is_digit10; lia|].
  intros f st info He. rewrite expr_lex_S, He. reflexivity.
Qed.

Lemma follows_sym_op o r : alpha_op o = false ->
  follows (32%N :: opstr o ++ 32%N :: r) (tok_of o) (32%N :: r).
Proof.
  intros Ha. split; [cbn [lit_follow]; unfold is_digit10; lia|].
  intros f st info He. rewrite expr_lex_S, He.
  destruct o; try discriminate; reflexivity.
Qed.

(* ---- the parsing invariant ---- *)

(* tokens that can follow a complete operand *)
Definition ftok (tk : Z) : Prop :=
  tk = T_CLOSE_PAREN \/ tk = T_COMMA \/ tk = T_END \/ T_MULT <= tk <= T_COLON.

(* the token after [t] does not continue [t]'s top operator level *)
Definition head_ok (t : tree) (tk : Z) : Prop :=
  ftok tk /\ match top t with Some q => T_MULT <= tk -> prec tk <= q | None => True end.

Lemma loop_stop_ftok f st info pr v :
  ftok (e_token info) -> (T_MULT <= e_token info -> prec (e_token info) <= pr) ->
  LOOP (S f) st info pr v = (st, Ok (v, info)).
Proof.
  intros Hf Hp. destruct Hf as [H|[H|[H|H]]].
  - apply loop_stops_at_end. tauto.
  - apply loop_stops_at_end. tauto.
  - apply loop_stops_at_end. tauto.
  - apply loop_stops_at_lower_prec; [exact H|apply Hp, H].
Qed.

Lemma ftok_not_bad info : ftok (e_token info) -> bad_after_token info = false.
Proof.
  unfold ftok, bad_after_token, T_CLOSE_PAREN, T_COMMA, T_END, T_MULT, T_COLON, T_VALUE. lia.
Qed.

(* [parses t]: from text [render t ++ rest], at any level [pr] below the operators of [t]'s left
   spine, expr_get_value computes the value of [t] and hands it to the operator loop of the SAME
   level positioned on the token after [t] *)
Definition parses (t : tree) : Prop :=
  forall pr, gt_top t pr ->
  forall rest tk rest', follows rest tk rest' -> head_ok t tk ->
  forall fuel, (2 * sz t <= fuel)%nat ->
  forall st info sp, forallb is_whitespace sp = true ->
    e_rest info = sp ++ render t ++ rest -> e_noeval info = 0%N ->
    GV fuel st info pr =
    lift_res st (ev t) (fun v => LOOP (fuel - 1 - nsp t) st (with_tok_rest info tk rest') pr v).

Lemma parses_lit z : WF (Lit z) -> parses (Lit z).
Proof.
  intros Hz pr _ rest tk rest' [Hlf Hlex] _ fuel Hfuel st info sp Hsp He Hn.
  cbn [WF] in Hz. cbn [sz] in Hfuel. destruct fuel as [|[|f]]; try lia.
  cbn [render] in He.
  rewrite expr_get_value_S, (lex_literal f st info sp z rest Hsp Hz Hlf He).
  unfold gv_first, unary_tok. tok_red.
  rewrite (Hlex f st (with_tok_rest info T_VALUE rest) eq_refl).
  cbn [ev lift_res nsp]. replace (S (S f) - 1 - 0)%nat with (S f) by lia. reflexivity.
Qed.

Lemma gt_top_m1 t : gt_top t (-1).
Proof. destruct t as [z|o l r|t]; unfold gt_top; cbn [top]; auto. pose proof (oprec_pos o). lia. Qed.

Lemma parses_paren t : parses t -> parses (Paren t).
Proof.
  intros IH pr _ rest tk rest' [Hlf Hlex] _ fuel Hfuel st info sp Hsp He Hn.
  cbn [sz] in Hfuel. destruct fuel as [|[|f]]; try lia.
  assert (He' : e_rest info = sp ++ 40%N :: render t ++ 41%N :: rest).
  { rewrite He. cbn [render app]. rewrite <- app_assoc. reflexivity. }
  rewrite expr_get_value_S, (lex_open_paren f st info sp _ Hsp He').
  unfold gv_first. tok_red.
  assert (Hh : head_ok t T_CLOSE_PAREN).
  { split; [left; reflexivity|]. destruct (top t); [|exact I]. unfold T_MULT, T_CLOSE_PAREN. lia. }
  assert (Hfu : (2 * sz t <= S f)%nat) by lia.
  rewrite (IH (-1) (gt_top_m1 t) (41%N :: rest) T_CLOSE_PAREN rest (follows_close rest) Hh (S f) Hfu
              st (with_tok_rest info T_OPEN_PAREN (render t ++ 41%N :: rest)) [] eq_refl eq_refl Hn).
  cbn [ev]. destruct (ev t) as [v|e|p|]; cbn [lift_res]; try reflexivity.
  pose proof (nsp_lt_sz t) as Hns.
  destruct (S f - 1 - nsp t)%nat as [|k] eqn:Ek; [lia|].
  rewrite loop_stops_at_end by (info_red; tauto).
  tok_red.
  match goal with |- context [LEX (S f) st ?i] => rewrite (Hlex f st i eq_refl) end.
  cbn [nsp]. replace (S (S f) - 1 - 0)%nat with (S f) by lia. reflexivity.
Qed.

Lemma parses_bin o l r :
  (forall r0, follows (32%N :: opstr o ++ 32%N :: r0) (tok_of o) (32%N :: r0)) ->
  ge_top l (oprec o) -> gt_top r (oprec o) ->
  parses l -> parses r -> parses (Bin o l r).
Proof.
  intros Hfo Hge Hgtr IHl IHr pr Hgt rest tk rest' Hfol Hh fuel Hfuel st info sp Hsp He Hn.
  cbn [gt_top top] in Hgt. cbn [sz] in Hfuel.
  pose proof (nsp_lt_sz l) as Hnl. pose proof (nsp_lt_sz r) as Hnr.
  destruct Hh as [Hft Hhp]. cbn [top] in Hhp.
  assert (He' : e_rest info = sp ++ render l ++ 32%N :: opstr o ++ 32%N :: render r ++ rest).
  { rewrite He. cbn [render]. rewrite <- app_assoc. cbn [app]. rewrite <- app_assoc. reflexivity. }
  (* the left operand, at the caller's level *)
  assert (Hgtl : gt_top l pr).
  { unfold gt_top, ge_top in *. destruct (top l); [lia|exact I]. }
  assert (Hhl : head_ok l (tok_of o)).
  { split; [right; right; right; pose proof (tok_of_ordinary o) as Ho;
            unfold ordinary, T_BIT_OR, T_COLON in *; lia|].
    unfold ge_top in Hge. destruct (top l); [|exact I]. intros _. exact Hge. }
  assert (Hfl : (2 * sz l <= fuel)%nat) by lia.
  rewrite (IHl pr Hgtl _ (tok_of o) _ (Hfo (render r ++ rest)) Hhl fuel Hfl st info sp Hsp He' Hn).
  cbn [ev]. destruct (ev l) as [vl|e|p|]; cbn [lift_res]; try reflexivity.
  (* one turn of the loop at [o] *)
  destruct (fuel - 1 - nsp l)%nat as [|f1] eqn:Ef; [lia|].
  set (i_o := with_tok_rest info (tok_of o) (32%N :: render r ++ rest)).
  rewrite (loop_step_ordinary ia ib exec original f1 st i_o pr vl (tok_of_ordinary o) Hgt).
  change (prec (e_token i_o)) with (oprec o). change (e_token i_o) with (tok_of o).
  (* the right operand, at the level of [o] *)
  assert (Hhr : head_ok r tk).
  { split; [exact Hft|]. unfold gt_top in Hgtr. destruct (top r); [|exact I].
    intros H8. specialize (Hhp H8). lia. }
  assert (Hfr : (2 * sz r <= f1)%nat) by lia.
  rewrite (IHr (oprec o) Hgtr rest tk rest' Hfol Hhr f1 Hfr st i_o [32%N] eq_refl eq_refl Hn).
  destruct (ev r) as [v2|e|p|]; cbn [lift_res]; try reflexivity.
  destruct (f1 - 1 - nsp r)%nat as [|f2] eqn:Ef2; [lia|].
  rewrite loop_stop_ftok by (info_red; assumption).
  rewrite ftok_not_bad by (info_red; exact Hft).
  replace (noeval (with_tok_rest i_o tk rest')) with false
    by (unfold noeval, i_o; info_red; rewrite Hn; reflexivity).
  cbn [nsp]. replace (fuel - 1 - S (nsp l))%nat with f1 by lia.
  destruct (apply_binop (tok_of o) vl v2); reflexivity.
Qed.

(* the operators spelled with letters, when the alphabetic predicate knows their letters *)
Ltac closed_bool :=
  repeat match goal with
         | |- context [N.eqb ?a ?b] =>
             let v := eval vm_compute in (N.eqb a b) in
             match v with true => idtac | false => idtac end;
             change (N.eqb a b) with v
         end.

Lemma follows_alpha_op o r : ib_ok ib -> alpha_op o = true ->
  follows (32%N :: opstr o ++ 32%N :: r) (tok_of o) (32%N :: r).
Proof.
  intros (H101 & H113 & H110 & H105 & H32) Ha.
  split; [cbn [lit_follow]; unfold is_digit10; lia|].
  intros f st info He. rewrite expr_lex_S, He.
  destruct o; try discriminate.
  all: cbv zeta;
    match goal with |- context [skip_while is_whitespace ?s] =>
      let v := eval vm_compute in (skip_while is_whitespace s) in
      change (skip_while is_whitespace s) with v end;
    cbv iota;
    match goal with |- context [lex_number ?i ?p ?c] =>
      let v := eval vm_compute in (lex_number i p c) in
      change (lex_number i p c) with v end;
    cbv iota; closed_bool; cbv iota;
    match goal with |- context [lex_operator ?p] =>
      let v := eval vm_compute in (lex_operator p) in
      change (lex_operator p) with v end;
    cbv iota; rewrite ?H101, ?H110; cbv beta iota zeta.
  all: repeat progress (cbn [take_while skip_while orb]; rewrite ?H101, ?H113, ?H110, ?H105, ?H32;
                        change (is_digit10 32%N) with false; cbv beta iota).
  all: repeat match goal with
         | |- context [str_eqb ?a (lit ?b)] =>
             let v := eval vm_compute in (str_eqb a (lit b)) in
             match v with true => idtac | false => idtac end;
             change (str_eqb a (lit b)) with v
         end.
  all: cbn [orb]; cbv iota; reflexivity.
Qed.

Lemma follows_op o r : (alpha_op o = true -> ib_ok ib) ->
  follows (32%N :: opstr o ++ 32%N :: r) (tok_of o) (32%N :: r).
Proof.
  intros H. destruct (alpha_op o) eqn:E.
  - apply follows_alpha_op; auto.
  - apply follows_sym_op; exact E.
Qed.

Fixpoint uses_alpha (t : tree) : bool :=
  match t with
  | Lit _ => false
  | Paren t => uses_alpha t
  | Bin o l r => alpha_op o || uses_alpha l || uses_alpha r
  end.

Theorem parses_all : forall t, WF t -> (uses_alpha t = true -> ib_ok ib) -> parses t.
Proof.
  induction t as [z|o l IHl r IHr|t IH]; intros Hwf Hal.
  - apply parses_lit, Hwf.
  - cbn [WF] in Hwf. destruct Hwf as (Hl & Hr & Hge & Hgt). cbn [uses_alpha] in Hal.
    apply parses_bin; try assumption.
    + intros r0. apply follows_op. intros Ha. apply Hal. rewrite Ha. reflexivity.
    + apply IHl; [exact Hl|]. intros Hu. apply Hal. rewrite Hu. apply orb_true_iff. left. apply orb_true_r.
    + apply IHr; [exact Hr|]. intros Hu. apply Hal. rewrite Hu. apply orb_true_r.
  - apply parses_paren, IH; assumption.
Qed.

End Completeness.

(* ---- from the invariant to expr_eval ---- *)

Definition datum_value (d : datum) : value :=
  match d with DInt z => VInt z | DFlt f => VFlt f | DStr x => VStr x end.

Definition res_value (r : res datum) : res value :=
  match r with Ok v => Ok (datum_value v) | Err e => Err e | Panic p => Panic p | Fuel => Fuel end.

(* every error of a single operator is a plain Tcl error (never break / continue / return) *)
Lemma apply_binop_err_plain op a b e : apply_binop op a b = Err e -> exists m, e = molt_err m.
Proof.
  unfold apply_binop.
  repeat split_op op; tok_tests; destruct a, b;
    cbn [orb andb negb is_string to_flt expr_as_str]; cbv beta iota;
    unfold i64_result, illegal_type, err; intros H;
    repeat match type of H with
           | context [if ?c then _ else _] => destruct c
           | context [match ?c with _ => _ end] => destruct c
           end;
    try discriminate; injection H as <-; eexists; reflexivity.
Qed.

Lemma ev_err_plain t e : ev t = Err e -> exists m, e = molt_err m.
Proof.
  revert e. induction t as [z|o l IHl r IHr|t IH]; intros e H; cbn [ev] in H.
  - discriminate.
  - destruct (ev l) as [a|e1|p1|]; try discriminate.
    + destruct (ev r) as [b|e2|p2|]; try discriminate.
      * eapply apply_binop_err_plain; exact H.
      * apply IHr. exact H.
    + apply IHl. exact H.
  - apply IH, H.
Qed.

Lemma show_Z_nonempty z : show_Z z <> [].
Proof.
  destruct z as [|p|p]; cbn [show_Z]; try discriminate.
  apply (show_N_spec (Npos p)).
Qed.

Lemma sz_le_length t : (sz t <= length (render t))%nat.
Proof.
  induction t as [z|o l IHl r IHr|t IH]; cbn [sz render].
  - pose proof (show_Z_nonempty z). destruct (show_Z z); [congruence|cbn [length]; lia].
  - rewrite app_length. cbn [length]. rewrite app_length. cbn [length]. lia.
  - cbn [length]. rewrite app_length. cbn [length]. lia.
Qed.

(* C3: the text of a well-formed tree evaluates to the value of the tree; the interpreter
   state is untouched *)
Theorem expr_eval_render : forall ia ib exec st t,
  WF t -> (uses_alpha t = true -> ib_ok ib) ->
  expr_eval ia ib exec st (VStr (render t)) = (st, res_value (ev t)).
Proof.
  intros ia ib exec st t Hwf Hal. unfold expr_eval. cbn [as_str].
  set (s := render t).
  pose proof (parses_all ia ib exec s t Hwf Hal) as P.
  assert (Hfu : (2 * sz t <= expr_fuel s)%nat).
  { unfold expr_fuel, s. pose proof (sz_le_length t). lia. }
  assert (Hh : head_ok t T_END).
  { split; [right; right; left; reflexivity|]. destruct (top t); [|exact I]. unfold T_MULT, T_END. lia. }
  rewrite (P (-1) (gt_top_m1 t) [] T_END [] (follows_end ia ib exec s) Hh (expr_fuel s) Hfu st
             {| e_rest := s; e_token := -1; e_noeval := 0 |} []
             eq_refl ltac:(cbn [app e_rest]; rewrite app_nil_r; reflexivity) eq_refl).
  destruct (ev t) as [v|e|p|] eqn:Ev; cbn [lift_res res_value]; try reflexivity.
  - pose proof (nsp_lt_sz t).
    destruct (expr_fuel s - 1 - nsp t)%nat as [|k] eqn:Ek; [lia|].
    rewrite loop_stops_at_end by (info_red; tauto).
    info_red. tok_tests. reflexivity.
  - destruct (ev_err_plain t e Ev) as [m ->]. reflexivity.
Qed.
Print Assumptions expr_eval_render.

(* ---- the value of a tree is the value the reference evaluator [eval_ast] gives ---- *)

Fixpoint to_term (t : tree) : term :=
  match t with
  | Lit z => TList [TStr (lit "int"); TInt z]
  | Paren t => to_term t
  | Bin o l r => TList [TStr (lit "bin"); TStr (opstr o); to_term l; to_term r]
  end.

Lemma tok_of_binop_opstr o :
  tok_of_binop (opstr o) = tok_of o /\
  str_eqb (opstr o) (lit "&&") || str_eqb (opstr o) (lit "||") = false.
Proof. destruct o; vm_compute; split; reflexivity. Qed.

Lemma to_term_list t : exists ls, to_term t = TList ls.
Proof. induction t as [z|o l IHl r IHr|t IH]; cbn [to_term]; eauto. Qed.

Theorem eval_ast_to_term : forall t, eval_ast (to_term t) = ev t.
Proof.
  induction t as [z|o l IHl r IHr|t IH]; cbn [to_term ev].
  - reflexivity.
  - destruct (tok_of_binop_opstr o) as [Ht Hs].
    destruct (to_term_list l) as [ll El]. destruct (to_term_list r) as [lr Er].
    rewrite <- IHl, <- IHr, <- Ht. rewrite El, Er. cbn [eval_ast]. rewrite Hs. reflexivity.
  - exact IH.
Qed.

(* ---- minimal parenthesisation ---- *)

(* a left operand needs parentheses when its operator binds less tightly than the parent's, a
   right operand when it does not bind strictly tighter (left associativity) *)
Definition wrap_l (o : bop) (t : tree) : tree :=
  match top t with Some k => if k <? oprec o then Paren t else t | None => t end.
Definition wrap_r (o : bop) (t : tree) : tree :=
  match top t with Some k => if k <=? oprec o then Paren t else t | None => t end.

Fixpoint norm (t : tree) : tree :=
  match t with
  | Lit z => Lit z
  | Paren t => Paren (norm t)
  | Bin o l r => Bin o (wrap_l o (norm l)) (wrap_r o (norm r))
  end.

Fixpoint lits_ok (t : tree) : Prop :=
  match t with
  | Lit z => 0 <= z <= i64_max
  | Paren t => lits_ok t
  | Bin _ l r => lits_ok l /\ lits_ok r
  end.

Lemma wrap_l_facts o t : WF t ->
  WF (wrap_l o t) /\ ge_top (wrap_l o t) (oprec o) /\ ev (wrap_l o t) = ev t /\
  to_term (wrap_l o t) = to_term t /\ uses_alpha (wrap_l o t) = uses_alpha t.
Proof.
  intros H. unfold wrap_l, ge_top. destruct (top t) as [k|] eqn:E.
  - destruct (k <? oprec o) eqn:Ek.
    + cbn [WF top ev to_term uses_alpha]. auto.
    + rewrite E. repeat split; auto. lia.
  - rewrite E. auto.
Qed.

Lemma wrap_r_facts o t : WF t ->
  WF (wrap_r o t) /\ gt_top (wrap_r o t) (oprec o) /\ ev (wrap_r o t) = ev t /\
  to_term (wrap_r o t) = to_term t /\ uses_alpha (wrap_r o t) = uses_alpha t.
Proof.
  intros H. unfold wrap_r, gt_top. destruct (top t) as [k|] eqn:E.
  - destruct (k <=? oprec o) eqn:Ek.
    + cbn [WF top ev to_term uses_alpha]. auto.
    + rewrite E. repeat split; auto. lia.
  - rewrite E. auto.
Qed.

Lemma norm_facts t : lits_ok t ->
  WF (norm t) /\ ev (norm t) = ev t /\ to_term (norm t) = to_term t /\
  uses_alpha (norm t) = uses_alpha t.
Proof.
  induction t as [z|o l IHl r IHr|t IH]; cbn [lits_ok norm]; intros H.
  - cbn [WF]. auto.
  - destruct H as [Hl Hr].
    destruct (IHl Hl) as (Wl & El & Tl & Ul). destruct (IHr Hr) as (Wr & Er & Tr & Ur).
    destruct (wrap_l_facts o _ Wl) as (A1 & A2 & A3 & A4 & A5).
    destruct (wrap_r_facts o _ Wr) as (B1 & B2 & B3 & B4 & B5).
    cbn [WF ev to_term uses_alpha]. rewrite A3, B3, A4, B4, A5, B5, El, Er, Tl, Tr, Ul, Ur. auto.
  - destruct (IH H) as (W & E & T & U). cbn [WF ev to_term uses_alpha]. auto.
Qed.

(* no parentheses are inserted where C precedence does not require them *)
Lemma norm_id t : WF t -> norm t = t.
Proof.
  induction t as [z|o l IHl r IHr|t IH]; cbn [WF norm]; intros H.
  - reflexivity.
  - destruct H as (Hl & Hr & Hge & Hgt). rewrite (IHl Hl), (IHr Hr).
    unfold wrap_l, wrap_r, ge_top, gt_top in *.
    destruct (top l) as [k|]; [replace (k <? oprec o) with false by lia|];
      (destruct (top r) as [k'|]; [replace (k' <=? oprec o) with false by lia|]); reflexivity.
  - rewrite (IH H). reflexivity.
Qed.

(* the rendering of an arbitrary tree, parenthesised exactly where precedence requires *)
Definition render_c (t : tree) : str := render (norm t).

(* C3, final form: for every tree of ordinary binary operators over non-negative i64 literals,
   the expression text evaluates to what the reference evaluator says about the tree *)
Theorem expr_eval_tree : forall ia ib exec st t,
  lits_ok t -> (uses_alpha t = true -> ib_ok ib) ->
  expr_eval ia ib exec st (VStr (render_c t)) = (st, res_value (eval_ast (to_term t))).
Proof.
  intros ia ib exec st t Hl Hal. destruct (norm_facts t Hl) as (W & E & T & U).
  unfold render_c. rewrite expr_eval_render; [|exact W|rewrite U; exact Hal].
  rewrite E, eval_ast_to_term. reflexivity.
Qed.
Print Assumptions expr_eval_tree.

(* examples: the statement is not vacuous *)
Example render_example :
  render_c (Bin OMul (Bin OAdd (Lit 1) (Lit 2)) (Bin OSub (Lit 7) (Bin OSub (Lit 3) (Lit 1))))
  = lit "(1 + 2) * (7 - (3 - 1))" /\
  render_c (Bin OSub (Bin OSub (Lit 7) (Lit 3)) (Bin OMul (Lit 2) (Lit 5))) = lit "7 - 3 - 2 * 5" /\
  ev (Bin OSub (Bin OSub (Lit 7) (Lit 3)) (Bin OMul (Lit 2) (Lit 5))) = Ok (DInt (-6)).
Proof. vm_compute. repeat split. Qed.

(* the interpreter's own alphabetic predicate satisfies [ib_ok], so for the real interpreter the
   theorem holds for all twenty operators *)
From Molt Require Model.Commands Model.Unicode.
Lemma std_ib_ok : ib_ok (Model.Commands.u_alpha Model.Unicode.std_uni).
Proof. vm_compute. repeat split. Qed.

Corollary expr_eval_tree_std : forall exec st t, lits_ok t ->
  expr_eval (Model.Commands.u_alnum Model.Unicode.std_uni) (Model.Commands.u_alpha Model.Unicode.std_uni)
            exec st (VStr (render_c t)) = (st, res_value (eval_ast (to_term t))).
Proof. intros exec st t Hl. apply expr_eval_tree; [exact Hl|intros _; exact std_ib_ok]. Qed.
Print Assumptions expr_eval_tree_std.

(* ---- assumptions of the remaining main statements ---- *)
Print Assumptions unary_binds_tightest_range.
Print Assumptions binary_prec_pos.
Print Assumptions int_plus.
Print Assumptions int_minus.
Print Assumptions int_mult.
Print Assumptions int_divide.
Print Assumptions int_mod.
Print Assumptions promote_plus_l.
Print Assumptions promote_divide_l.
Print Assumptions promote_divide_r.
Print Assumptions flt_divide.
Print Assumptions shift_left.
Print Assumptions shift_right.
Print Assumptions shift_right_ok.
Print Assumptions shift_count_error.
Print Assumptions land_range.
Print Assumptions lor_range.
Print Assumptions lxor_range.
Print Assumptions cmp_str_l.
Print Assumptions cmp_str_r.
Print Assumptions cmp_int_flt.
Print Assumptions cmp_op_int.
Print Assumptions string_eq_rule.
Print Assumptions ni_rule.
Print Assumptions arith_string_operand.
Print Assumptions intonly_left_operand.
Print Assumptions intonly_right_operand.
Print Assumptions func_abs_min.
Print Assumptions func_double.
Print Assumptions func_int.
Print Assumptions loop_rejects_non_operator.
Print Assumptions loop_left_assoc.
Print Assumptions lex_literal.
Print Assumptions follows_op.
Print Assumptions parses_all.
Print Assumptions eval_ast_to_term.
Print Assumptions norm_facts.
Print Assumptions norm_id.
