From Molt Require Import Model.Base Model.Tokenizer Model.ListSyn Check.C05.
From Molt Require Import Proofs.BaseFacts Proofs.ListSynFacts.

Lemma c05_oracle_holds : forall l : list str,
  c05_known (TStrs l) = false -> c05_spec_ok (TStrs l) (c05_model_obs (TStrs l)) = true.
Proof.
  intros l _. unfold c05_spec_ok, c05_model_obs. rewrite term_strs_TStrs.
  rewrite list_roundtrip. cbn [term_list obs_list_result].
  rewrite term_eqb_refl, str_eqb_refl. reflexivity.
Qed.
