(* ListAsCommandFacts.v — C11: the string form of a non-empty list, read by the SCRIPT parser, is
   exactly one command whose words are the list's elements as literal words.

   Structure (mirrors ListSynFacts.v, whose lemmas about the formatter are reused):
     - one-step unfolding equations of the mutual Fixpoint of Parser.v (all by [reflexivity]);
     - parse_bare on an escaped word (AsIs and Escape modes);
     - parse_braced_body on a brace-safe word (Brace mode), and the "{*}" prefix test;
     - one formatted item read by parse_next_word (lemma next_word_item);
     - induction over the list for parse_words (lemma parse_words_list);
     - skip_to_command / parse_command / parse_script / parse and the fuel bound;
     - evaluation of literal words (eval_literal_words, eval_list_command). *)
From Molt Require Import Model.Base Model.Tokenizer Model.ListSyn Model.Script Model.Parser.
From Molt Require Import Model.Value Model.State Model.Eval.
From Molt Require Import Proofs.BaseFacts Proofs.ListSynFacts.
From Coq Require Import Lia ZifyBool ZifyN.

Arguments N.eqb : simpl never.
Arguments N.leb : simpl never.
Arguments N.ltb : simpl never.

Local Open Scope N_scope.

Ltac unfold_chars2 :=
  unfold plain, is_line_white, is_list_white, is_whitespace, is_escape_special, is_quote_special,
    c_tab, c_nl, c_vt, c_ff, c_cr, c_space, c_dquote, c_hash, c_dollar, c_semi, c_star, c_rparen,
    c_lbracket, c_bslash, c_rbracket, c_lbrace, c_rbrace in *.

(* what may follow a word of a command: a command terminator or line white space *)
Definition word_end (rest : str) : Prop :=
  at_end_of_command false rest || next_is_line_white rest = true.

Lemma word_end_nil : word_end [].
Proof. reflexivity. Qed.

Lemma word_end_space r : word_end (c_space :: r).
Proof. reflexivity. Qed.

(* the first character of a formatted item is an open brace, a backslash or a plain character *)
Definition head_ok (c : char) : Prop := c = c_lbrace \/ c = c_bslash \/ plain c = true.

Lemma head_ok_facts c : head_ok c ->
  is_whitespace c = false /\ is_line_white c = false /\ (c =? c_nl) = false /\ (c =? c_semi) = false.
Proof. unfold head_ok. unfold_chars2. lia. Qed.

(* ---------- the Tokens accumulator on literal characters ---------- *)

Lemma tk_push_chars_some : forall w s,
  fold_left tk_push_char w {| tk_list := []; tk_str := Some s |}
  = {| tk_list := []; tk_str := Some (rev w ++ s) |}.
Proof.
  induction w as [|c r IH]; intros s; [reflexivity|].
  cbn [fold_left]. unfold tk_push_char at 2. cbn [tk_str tk_list].
  rewrite IH. cbn [rev]. rewrite <- app_assoc. reflexivity.
Qed.

Lemma tk_take_chars w : tk_take (fold_left tk_push_char w tk_new) = WValue w.
Proof.
  destruct w as [|c r]; [reflexivity|].
  cbn [fold_left]. change (tk_push_char tk_new c) with {| tk_list := []; tk_str := Some [c] |}.
  rewrite tk_push_chars_some. unfold tk_take. cbn [tk_str tk_list].
  rewrite rev_app_distr, rev_involutive. reflexivity.
Qed.

(* ---------- braced words (does not depend on the Unicode tables) ---------- *)

(* parse_braced_body counts braces like the list reader's pbi, except for backslash-newline,
   which brace_ok excludes *)
Lemma pbb_roundtrip : forall n w d acc rest,
  (length w <= n)%nat -> brace_ok w d = true ->
  parse_braced_body (w ++ c_rbrace :: rest) d acc = POk (rev acc ++ w) rest.
Proof.
  induction n as [|n IH]; intros w d acc rest Hn Hs.
  - destruct w; [|cbn in Hn; lia].
    cbn in Hs. apply Nat.eqb_eq in Hs. subst d. cbn [app parse_braced_body].
    change (c_rbrace =? c_lbrace) with false. change (c_rbrace =? c_rbrace) with true. cbn iota.
    rewrite rev_fast_eq, app_nil_r. reflexivity.
  - destruct w as [|c r].
    + apply (IH [] d acc rest); [cbn; lia|assumption].
    + cbn [brace_ok] in Hs. cbn [app parse_braced_body].
      destruct (c =? c_bslash) eqn:Eb.
      * apply N.eqb_eq in Eb. subst c.
        change (c_bslash =? c_lbrace) with false. change (c_bslash =? c_rbrace) with false. cbn iota.
        destruct r as [|e r']; [discriminate|]. cbn [app].
        destruct (e =? c_nl); [discriminate|].
        rewrite IH; [|cbn in Hn |- *; lia|assumption].
        cbn [rev]. rewrite <- !app_assoc. reflexivity.
      * destruct (c =? c_lbrace) eqn:El.
        -- rewrite IH; [|cbn in Hn |- *; lia|assumption].
           cbn [rev]. rewrite <- app_assoc. reflexivity.
        -- destruct (c =? c_rbrace) eqn:Er.
           ++ destruct d as [|k]; [discriminate|].
              rewrite IH; [|cbn in Hn |- *; lia|assumption].
              cbn [rev]. rewrite <- app_assoc. reflexivity.
           ++ rewrite IH; [|cbn in Hn |- *; lia|assumption].
              cbn [rev]. rewrite <- app_assoc. reflexivity.
Qed.

Lemma parse_braced_word_item w rest :
  brace_ok w O = true -> word_end rest ->
  parse_braced_word false (brace_item w ++ rest) = POk (WValue w) rest.
Proof.
  intros Hb Hr. unfold brace_item, parse_braced_word. cbn [app]. rewrite <- app_assoc. cbn [app].
  rewrite (pbb_roundtrip (length w)); [|lia|assumption].
  cbn [rev app]. unfold word_end in Hr. rewrite Hr. reflexivity.
Qed.

(* a braced item never starts with the three characters of the expansion prefix, except for
   the item "*", which the formatter never braces *)
Lemma brace_item_no_expand w rest :
  brace_ok w O = true -> w <> [c_star] ->
  starts_with [c_lbrace; c_star; c_rbrace] (brace_item w ++ rest) = false.
Proof.
  intros Hb Hn. unfold brace_item.
  destruct w as [|a w']; [reflexivity|].
  cbn [app starts_with]. change (c_lbrace =? c_lbrace) with true. cbn [andb].
  destruct (N.eqb_spec c_star a) as [Ea|Ea]; [|reflexivity]. subst a. cbn [andb].
  destruct w' as [|b w'']; [congruence|]. cbn [app starts_with].
  destruct (N.eqb_spec c_rbrace b) as [Eb|Eb]; [|reflexivity]. subst b.
  change (brace_ok (c_star :: c_rbrace :: w'') 0) with false in Hb. discriminate.
Qed.

Section WithAlnum.
Variable isa : char -> bool.

(* ---------- one-step unfolding equations ---------- *)

Lemma parse_bare_eq f bt ix s t :
  parse_bare isa (S f) bt ix s t =
  if at_end_of_command bt s || next_is_line_white s then POk (tk_take t) s
  else
    match s with
    | [] => POk (tk_take t) s
    | c :: r =>
        if ix && (c =? c_rparen) then POk (tk_take t) s
        else if c =? c_lbracket then
          match parse_brackets isa f r with
          | POk sc rest => parse_bare isa f bt ix rest (tk_push t (WScript sc))
          | PErr m => PErr m
          | PFuel => PFuel
          end
        else if c =? c_dollar then
          match parse_dollar isa f bt r t with
          | POk t' rest => parse_bare isa f bt ix rest t'
          | PErr m => PErr m
          | PFuel => PFuel
          end
        else if c =? c_bslash then
          let '(ch, rest) := bsubst r in parse_bare isa f bt ix rest (tk_push_char t ch)
        else parse_bare isa f bt ix r (tk_push_char t c)
    end.
Proof. reflexivity. Qed.

Lemma parse_next_word_eq f bt s :
  parse_next_word isa (S f) bt s =
  match s with
  | c :: r =>
      if c =? c_lbrace then
        if starts_with [c_lbrace; c_star; c_rbrace] s then
          let r3 := skipn 3 s in
          match r3 with
          | [] => POk (WValue [c_star]) r3
          | d :: _ =>
              if is_whitespace d then POk (WValue [c_star]) r3
              else
                match (if d =? c_lbrace then parse_braced_word bt r3
                       else if d =? c_dquote then parse_quoted isa f bt true (tl r3) tk_new
                       else parse_bare isa f bt false r3 tk_new) with
                | POk w rest => POk (WExpand w) rest
                | PErr m => PErr m
                | PFuel => PFuel
                end
          end
        else parse_braced_word bt s
      else if c =? c_dquote then parse_quoted isa f bt true r tk_new
      else parse_bare isa f bt false s tk_new
  | [] => parse_bare isa f bt false s tk_new
  end.
Proof. reflexivity. Qed.

Lemma parse_words_eq f bt s acc :
  parse_words isa (S f) bt s acc =
  if at_end_of_command bt s then POk (rev acc) s
  else
    match parse_next_word isa f bt s with
    | POk w rest => parse_words isa f bt (skip_while is_line_white rest) (w :: acc)
    | PErr m => PErr m
    | PFuel => PFuel
    end.
Proof. reflexivity. Qed.

Lemma parse_command_eq f bt s :
  parse_command isa (S f) bt s =
  let s1 := skip_to_command (S (length s)) bt s in
  match parse_words isa f bt s1 [] with
  | POk ws rest =>
      match rest with
      | c :: r => if c =? c_semi then POk ws r else POk ws rest
      | [] => POk ws rest
      end
  | PErr m => PErr m
  | PFuel => PFuel
  end.
Proof. reflexivity. Qed.

Lemma parse_script_eq f bt s acc :
  parse_script isa (S f) bt s acc =
  if at_end_of_script bt s then POk (rev acc) s
  else
    match parse_command isa f bt s with
    | POk cmd rest => parse_script isa f bt rest (cmd :: acc)
    | PErr m => PErr m
    | PFuel => PFuel
    end.
Proof. reflexivity. Qed.

(* ---------- bare words: AsIs and Escape modes ---------- *)

Lemma parse_bare_end f rest t :
  word_end rest -> parse_bare isa (S f) false false rest t = POk (tk_take t) rest.
Proof. intros H. rewrite parse_bare_eq. unfold word_end in H. rewrite H. reflexivity. Qed.

Lemma parse_bare_bslash f s t :
  parse_bare isa (S f) false false (c_bslash :: s) t =
  let '(ch, rest) := bsubst s in parse_bare isa f false false rest (tk_push_char t ch).
Proof. reflexivity. Qed.

Lemma parse_bare_plain f c s t :
  plain c = true ->
  parse_bare isa (S f) false false (c :: s) t = parse_bare isa f false false s (tk_push_char t c).
Proof.
  intros P. rewrite parse_bare_eq.
  assert (at_end_of_command false (c :: s) || next_is_line_white (c :: s) = false
          /\ c =? c_lbracket = false /\ c =? c_dollar = false /\ c =? c_bslash = false)
    as (A & B & C & D).
  { revert P. unfold at_end_of_command, next_is_line_white. unfold_chars2. lia. }
  rewrite A, B, C, D. reflexivity.
Qed.

(* every special character of the word is hidden by a backslash, so the word is read back
   literally, up to the first unescaped word end *)
Lemma parse_bare_escaped : forall w fuel t rest,
  (length w < fuel)%nat -> word_end rest ->
  parse_bare isa fuel false false (escape_chars w ++ rest) t
  = POk (tk_take (fold_left tk_push_char w t)) rest.
Proof.
  induction w as [|c r IH]; intros fuel t rest Hf Hr.
  - destruct fuel as [|f]; [cbn in Hf; lia|]. cbn [escape_chars app fold_left].
    apply parse_bare_end. assumption.
  - destruct fuel as [|f]; [cbn in Hf; lia|].
    assert (Hf' : (length r < f)%nat) by (cbn in Hf; lia).
    cbn [escape_chars fold_left].
    destruct (is_whitespace c || is_escape_special c) eqn:E.
    + cbn [app]. rewrite parse_bare_bslash.
      change (c :: escape_chars r ++ rest) with (c :: (escape_chars r ++ rest)).
      rewrite bsubst_self by assumption. apply IH; assumption.
    + assert (P : plain c = true) by (unfold plain; rewrite E; reflexivity).
      cbn [app]. rewrite parse_bare_plain by assumption. apply IH; assumption.
Qed.

Lemma parse_next_word_bare f c s :
  c =? c_lbrace = false -> c =? c_dquote = false ->
  parse_next_word isa (S f) false (c :: s) = parse_bare isa f false false (c :: s) tk_new.
Proof. intros A B. rewrite parse_next_word_eq. rewrite A, B. reflexivity. Qed.

Lemma next_word_escaped f w rest :
  w <> [] -> word_end rest -> (length w < f)%nat ->
  parse_next_word isa (S f) false (escape_chars w ++ rest) = POk (WValue w) rest.
Proof.
  intros Hw Hr Hf.
  assert (Hnw : parse_next_word isa (S f) false (escape_chars w ++ rest)
                = parse_bare isa f false false (escape_chars w ++ rest) tk_new).
  { destruct w as [|c r]; [congruence|]. cbn [escape_chars].
    destruct (is_whitespace c || is_escape_special c) eqn:E; cbn [app].
    - apply parse_next_word_bare; reflexivity.
    - assert (P : plain c = true) by (unfold plain; rewrite E; reflexivity).
      destruct (plain_facts c P) as (_ & _ & C & D).
      apply parse_next_word_bare; assumption. }
  rewrite Hnw. rewrite parse_bare_escaped by assumption. rewrite tk_take_chars. reflexivity.
Qed.

Lemma next_word_hash_escaped f r rest :
  word_end rest -> (length r + 2 < f)%nat ->
  parse_next_word isa (S f) false ((c_bslash :: escape_chars (c_hash :: r)) ++ rest)
  = POk (WValue (c_hash :: r)) rest.
Proof.
  intros Hr Hf. cbn [escape_chars].
  change (is_whitespace c_hash || is_escape_special c_hash) with false. cbn iota. cbn [app].
  rewrite parse_next_word_bare by reflexivity.
  destruct f as [|f]; [lia|]. rewrite parse_bare_bslash.
  change (c_hash :: escape_chars r ++ rest) with (c_hash :: (escape_chars r ++ rest)).
  rewrite bsubst_hash. rewrite parse_bare_escaped; [|lia|assumption].
  change (fold_left tk_push_char r (tk_push_char tk_new c_hash))
    with (fold_left tk_push_char (c_hash :: r) tk_new).
  rewrite tk_take_chars. reflexivity.
Qed.

(* ---------- braced words: Brace mode ---------- *)

Lemma next_word_braced f w rest :
  brace_ok w O = true -> w <> [c_star] -> word_end rest ->
  parse_next_word isa (S f) false (brace_item w ++ rest) = POk (WValue w) rest.
Proof.
  intros Hb Hn Hr.
  pose proof (brace_item_no_expand w rest Hb Hn) as Hx.
  pose proof (parse_braced_word_item w rest Hb Hr) as Hp.
  unfold brace_item in *. cbn [app] in *.
  rewrite parse_next_word_eq. change (c_lbrace =? c_lbrace) with true. cbn iota.
  rewrite Hx. exact Hp.
Qed.

(* ---------- one formatted item ---------- *)

Lemma next_word_item hash w rest fuel :
  hash_ok hash w -> word_end rest -> (length (fmt_item hash w) + 2 <= fuel)%nat ->
  parse_next_word isa fuel false (fmt_item hash w ++ rest) = POk (WValue w) rest.
Proof.
  intros Hh Hr Hf. destruct fuel as [|f]; [lia|]. revert Hf. unfold fmt_item, get_mode.
  destruct w as [|c0 w0].
  { intros _. apply next_word_braced; [reflexivity|discriminate|assumption]. }
  set (w := c0 :: w0) in *.
  destruct (mode_scan w false true O) as [[nq safe] depth] eqn:Hs.
  destruct nq; cbn [negb].
  - (* needs quoting *)
    destruct (safe && Nat.eqb depth 0) eqn:Hsafe.
    + intros _. apply andb_true_iff in Hsafe. destruct Hsafe as [-> Hd].
      apply Nat.eqb_eq in Hd. subst depth.
      apply next_word_braced; [| |assumption].
      * eapply (mode_scan_brace_ok (length w)); [lia|eassumption].
      * intros Hw. rewrite Hw in Hs. vm_compute in Hs. discriminate.
    + (* escaped *)
      unfold escape_item. destruct hash.
      * destruct (Hh eq_refl) as [r Hw]. rewrite Hw. intros Hf.
        apply next_word_hash_escaped; [assumption|].
        pose proof (escape_chars_length (c_hash :: r)) as Hl.
        cbn [length] in Hf, Hl. lia.
      * intros Hf. apply next_word_escaped; [subst w; discriminate|assumption|].
        pose proof (escape_chars_length w). lia.
  - (* as is *)
    pose proof (mode_scan_asis (length w) w O safe depth (le_n _) Hs) as Hp.
    destruct hash.
    + intros _. apply next_word_braced; [| |assumption].
      * rewrite plain_brace_ok by assumption. reflexivity.
      * destruct (Hh eq_refl) as [r Hw]. rewrite Hw. discriminate.
    + intros Hf. rewrite <- (escape_chars_plain w Hp) at 1.
      apply next_word_escaped; [subst w; discriminate|assumption|lia].
Qed.

(* the first character of a formatted item *)
Lemma fmt_item_head_ok hash w : hash_ok hash w ->
  exists c t, fmt_item hash w = c :: t
    /\ (c = c_lbrace \/ c = c_bslash \/ (plain c = true /\ hash = false /\ exists w0, w = c :: w0)).
Proof.
  intros Hh. unfold fmt_item, get_mode.
  destruct w as [|c0 w0]; [exists c_lbrace; eexists; split; [reflexivity|left; reflexivity]|].
  set (w := c0 :: w0) in *.
  destruct (mode_scan w false true O) as [[nq safe] depth] eqn:Hs.
  destruct nq; cbn [negb].
  - destruct (safe && Nat.eqb depth 0);
      [exists c_lbrace; eexists; split; [reflexivity|left; reflexivity]|].
    unfold escape_item.
    destruct hash; [exists c_bslash; eexists; split; [reflexivity|right; left; reflexivity]|].
    subst w. cbn [escape_chars].
    destruct (is_whitespace c0 || is_escape_special c0) eqn:E;
      [exists c_bslash; eexists; split; [reflexivity|right; left; reflexivity]|].
    exists c0; eexists; split; [reflexivity|]. right; right.
    assert (P : plain c0 = true) by (unfold plain; rewrite E; reflexivity).
    split; [assumption|]. split; [reflexivity|]. exists w0. reflexivity.
  - destruct hash; [exists c_lbrace; eexists; split; [reflexivity|left; reflexivity]|].
    pose proof (mode_scan_asis (length w) w O safe depth (le_n _) Hs) as Hp.
    subst w. cbn [forallb] in Hp. apply andb_true_iff in Hp. destruct Hp as [Pc _].
    exists c0, w0. split; [reflexivity|]. right; right.
    split; [assumption|]. split; [reflexivity|]. exists w0. reflexivity.
Qed.

Lemma fmt_item_head2 hash w : hash_ok hash w ->
  exists c t, fmt_item hash w = c :: t /\ head_ok c.
Proof.
  intros Hh. destruct (fmt_item_head_ok hash w Hh) as (c & t & Hx & Hc).
  exists c, t. split; [assumption|]. unfold head_ok.
  destruct Hc as [Hc|[Hc|(Hc & _)]]; [left|right; left|right; right]; assumption.
Qed.

Lemma fmt_item_not_end hash w rest : hash_ok hash w ->
  at_end_of_command false (fmt_item hash w ++ rest) = false.
Proof.
  intros Hh. destruct (fmt_item_head2 hash w Hh) as (c & t & -> & Hc).
  destruct (head_ok_facts c Hc) as (_ & _ & A & B).
  cbn [app at_end_of_command andb]. rewrite A, B. reflexivity.
Qed.

(* ---------- the whole list ---------- *)

Lemma skip_line_white_join : forall l hash, list_hash_ok hash l ->
  skip_while is_line_white (join_str [c_space] (format_items hash l))
  = join_str [c_space] (format_items hash l).
Proof.
  intros l hash Hh. destruct l as [|w r]; [reflexivity|].
  rewrite format_items_cons. cbn [list_hash_ok] in Hh.
  destruct (fmt_item_head2 hash w Hh) as (c & t & -> & Hc).
  destruct (head_ok_facts c Hc) as (_ & A & _).
  destruct (format_items false r); cbn [join_str app skip_while]; rewrite A; reflexivity.
Qed.

Lemma parse_words_list : forall l hash fuel acc,
  list_hash_ok hash l ->
  (length (join_str [c_space] (format_items hash l)) + 3 <= fuel)%nat ->
  parse_words isa fuel false (join_str [c_space] (format_items hash l)) acc
  = POk (rev acc ++ map WValue l) [].
Proof.
  induction l as [|w r IH]; intros hash fuel acc Hh Hf.
  - destruct fuel as [|f]; [lia|]. cbn [format_items join_str map]. rewrite app_nil_r. reflexivity.
  - destruct fuel as [|f]; [lia|].
    revert Hf. rewrite format_items_cons. cbn [list_hash_ok] in Hh.
    destruct r as [|w' r'].
    + cbn [format_items join_str]. intros Hf.
      rewrite <- (app_nil_r (fmt_item hash w)) at 1.
      rewrite parse_words_eq. rewrite fmt_item_not_end by assumption.
      rewrite next_word_item; [|assumption|exact word_end_nil|lia].
      cbn [skip_while]. destruct f as [|f]; [lia|].
      rewrite parse_words_eq. cbn [at_end_of_command rev map]. reflexivity.
    + assert (Hj : join_str [c_space] (fmt_item hash w :: format_items false (w' :: r'))
                   = fmt_item hash w ++ c_space :: join_str [c_space] (format_items false (w' :: r'))).
      { rewrite (format_items_cons false w' r'). reflexivity. }
      rewrite Hj. rewrite app_length. cbn [length]. intros Hf.
      rewrite parse_words_eq. rewrite fmt_item_not_end by assumption.
      rewrite next_word_item; [|assumption|apply word_end_space|lia].
      cbn [skip_while]. change (is_line_white c_space) with true. cbn iota.
      rewrite skip_line_white_join by (intro; discriminate).
      rewrite IH; [|intro; discriminate|lia].
      cbn [rev map]. rewrite <- app_assoc. reflexivity.
Qed.

(* nothing to skip before the command: the string starts neither with white space nor with '#' *)
Lemma skip_to_command_head n s c t :
  s = c :: t -> is_whitespace c = false -> c =? c_hash = false ->
  skip_to_command (S n) false s = s.
Proof.
  intros -> A B. cbn [skip_to_command at_end_of_script andb skip_while]. rewrite A, B. reflexivity.
Qed.

Lemma list_string_head w r :
  exists c t, list_to_string (w :: r) = c :: t /\ is_whitespace c = false /\ c =? c_hash = false.
Proof.
  unfold list_to_string. rewrite format_items_cons.
  pose proof (starts_with_hash_ok (w :: r)) as Hh. cbn [list_hash_ok] in Hh.
  destruct (fmt_item_head_ok _ w Hh) as (c & t & Hx & Hc). rewrite Hx.
  assert (Hj : exists t', join_str [c_space] ((c :: t) :: format_items false r) = c :: t').
  { destruct (format_items false r); cbn [join_str app]; eexists; reflexivity. }
  destruct Hj as (t' & Hj). exists c, t'. split; [exact Hj|].
  destruct Hc as [Hc|[Hc|(Hp & Hhash & w0 & Hw)]].
  - subst c. split; reflexivity.
  - subst c. split; reflexivity.
  - split.
    + revert Hp. unfold_chars2. lia.
    + subst w. cbn [starts_with_hash] in Hhash. exact Hhash.
Qed.

Theorem list_string_one_command : forall l : list str,
  l <> [] ->
  parse isa (list_to_string l) = POk [map WValue l] [].
Proof.
  intros l Hl. destruct l as [|w r]; [congruence|]. clear Hl.
  unfold parse.
  destruct (list_string_head w r) as (c & t & Hs & Hw & Hhash).
  assert (Hfuel : exists f, parse_fuel (list_to_string (w :: r)) = S (S f)
                            /\ (length (list_to_string (w :: r)) + 3 <= f)%nat).
  { exists (8 * length (list_to_string (w :: r)) + 14)%nat. unfold parse_fuel. lia. }
  destruct Hfuel as (f & -> & Hf).
  rewrite parse_script_eq. rewrite Hs at 1. cbn [at_end_of_script andb].
  rewrite parse_command_eq. cbv zeta.
  rewrite (skip_to_command_head _ _ c t Hs Hw Hhash).
  unfold list_to_string in *.
  rewrite parse_words_list; [|apply starts_with_hash_ok|assumption].
  cbn [rev app]. destruct f as [|f]; [lia|].
  rewrite parse_script_eq. reflexivity.
Qed.

End WithAlnum.

(* C11, main statement *)
Theorem list_string_is_one_command : forall (is_alnum : char -> bool) (l : list str),
  l <> [] ->
  parse is_alnum (list_to_string l) = POk [map WValue l] [].
Proof. exact list_string_one_command. Qed.

Print Assumptions list_string_is_one_command.

(* The side condition is necessary: the empty list is formatted as the empty string, which is
   the empty script, not a command without words. *)
Lemma empty_list_no_command : forall is_alnum, parse is_alnum (list_to_string []) = POk [] [].
Proof. reflexivity. Qed.

(* ---------- evaluation of a command of literal words ----------
   The statements below mention eval_word / as_str, whose DEFINITIONS (Model/Float.v, through
   Flocq and the real numbers) already depend on the standard library's classical-reals axioms:
   "Print Assumptions eval_word." lists the same four axioms as the lemmas below.  The proofs
   themselves add none. *)

Lemma eval_literal_words : forall exec st (l : list str) acc,
  eval_words exec st (map WValue l) acc = (st, Ok (rev acc ++ map VStr l)).
Proof.
  intros exec st l. unfold eval_words.
  induction l as [|w r IH]; intros acc.
  - cbn [map eval_words_with]. rewrite app_nil_r. reflexivity.
  - cbn [map eval_words_with eval_word]. rewrite IH.
    cbn [rev]. rewrite <- app_assoc. reflexivity.
Qed.

Print Assumptions eval_literal_words.

(* the script [l] (one command of literal words) looks up the command named by the first
   element and calls the executor exactly once, with the elements of the list as argv *)
Theorem eval_list_command : forall exec st (w : str) (r : list str),
  eval_script exec st [map WValue (w :: r)] =
  match assoc_get w (i_cmds st) with
  | None =>
      (st, Err (add_error_info
                  (add_error_info (molt_err (lit "invalid command name """ ++ w ++ lit """"))
                                  (lit "    while executing"))
                  (lit """" ++ list_to_string (map as_str (map VStr (w :: r))) ++ lit """")))
  | Some cmd =>
      match exec st cmd (map VStr (w :: r)) with
      | (st2, Ok v) => (st2, Ok v)
      | (st2, Err e) => command_outcome st2 cmd w (map VStr (w :: r)) e
      | (st2, Panic p) => (st2, Panic p)
      | (st2, Fuel) => (st2, Fuel)
      end
  end.
Proof.
  intros exec st w r. unfold eval_script, eval_cmds. cbn [eval_cmds_with].
  pose proof (eval_literal_words exec st (w :: r) []) as H. unfold eval_words in H.
  rewrite H. cbn [rev app map as_str].
  destruct (assoc_get w (i_cmds st)) as [cmd|]; [|reflexivity].
  destruct (exec st cmd (VStr w :: map VStr r)) as [st2 [v|e|p|]]; reflexivity.
Qed.

Print Assumptions eval_list_command.

(* parsing and evaluating the string form of a list = invoking its first element on the rest *)
Corollary eval_list_string : forall is_alnum exec st (w : str) (r : list str),
  match parse is_alnum (list_to_string (w :: r)) with
  | POk sc rest =>
      rest = [] /\
      eval_script exec st sc =
      match assoc_get w (i_cmds st) with
      | None =>
      (st, Err (add_error_info
                  (add_error_info (molt_err (lit "invalid command name """ ++ w ++ lit """"))
                                  (lit "    while executing"))
                  (lit """" ++ list_to_string (map as_str (map VStr (w :: r))) ++ lit """")))
      | Some cmd =>
          match exec st cmd (map VStr (w :: r)) with
          | (st2, Ok v) => (st2, Ok v)
          | (st2, Err e) => command_outcome st2 cmd w (map VStr (w :: r)) e
          | (st2, Panic p) => (st2, Panic p)
          | (st2, Fuel) => (st2, Fuel)
          end
      end
  | _ => False
  end.
Proof.
  intros is_alnum exec st w r.
  rewrite list_string_is_one_command by discriminate.
  split; [reflexivity|]. apply eval_list_command.
Qed.

Print Assumptions eval_list_string.
