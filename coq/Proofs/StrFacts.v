(* StrFacts.v — C19: the string and list utilities of the model meet the declarative
   specifications of Spec/SpecStr.v.

   Characters are list elements: every index in this file counts characters.  The byte length of
   a character never enters any of the functions below, so "indices count characters, not
   bytes" holds by construction of the model (see the examples). *)
From Molt Require Import Model.Base Model.Tokenizer Model.ListSyn Model.Value Model.State Model.Commands.
From Molt Require Import Spec.SpecStr.
From Coq Require Import Lia ZifyBool ZifyN.

Arguments N.eqb : simpl never.
Arguments N.leb : simpl never.
Arguments N.ltb : simpl never.

Local Open Scope N_scope.

(* ---------- examples ---------- *)
(* e-acute (2 bytes), euro sign (3 bytes), an emoji (4 bytes), then "ab" *)
Definition ex_multi : str := [233; 8364; 128512; 97; 98].

Eval vm_compute in (length ex_multi).                               (* 5 *)
Eval vm_compute in (find_from (lit "ab") ex_multi 0).               (* Some 3 *)
Eval vm_compute in (string_first (lit "ab") ex_multi 0).            (* 3 *)
Eval vm_compute in (string_first (lit "ab") ex_multi (-7)).         (* 3 *)
Eval vm_compute in (string_first (lit "ab") ex_multi 4).            (* -1 *)
Eval vm_compute in (string_first [] [] 0).                          (* -1 *)
Eval vm_compute in (string_first [] (lit "abc") 1).                 (* 1 *)
Eval vm_compute in (string_last (lit "a") (lit "abcabc") None).     (* 3 *)
Eval vm_compute in (string_last (lit "ab") (lit "abcabc") (Some 3%Z)).  (* 0 *)
Eval vm_compute in (string_last (lit "ab") (lit "abcabc") (Some 4%Z)).  (* 3 *)
Eval vm_compute in (string_last (lit "a") (lit "abcabc") (Some (-1)%Z)). (* -1 *)
Eval vm_compute in (string_range ex_multi 1 2).                     (* [8364; 128512] *)
Eval vm_compute in (string_range ex_multi (-5) 1).                  (* [233; 8364] *)
Eval vm_compute in (string_range ex_multi 3 1000).                  (* "ab" *)
Eval vm_compute in (string_range ex_multi i64_min 1000).            (* everything *)
(* the i64 extremes terminate: [to_nat_capped] never builds a unary number above the length *)
Eval vm_compute in (string_range ex_multi 3 i64_max).               (* "ab" *)
Eval vm_compute in (string_range ex_multi i64_min i64_max).         (* everything *)
Eval vm_compute in (string_range ex_multi i64_max i64_max).         (* [] *)
Eval vm_compute in (string_range ex_multi i64_min i64_min).         (* [] *)
Eval vm_compute in (string_range ex_multi 1 i64_min).               (* [] *)
Eval vm_compute in (string_first (lit "ab") ex_multi i64_min).      (* 3 *)
Eval vm_compute in (string_first (lit "ab") ex_multi i64_max).      (* -1 *)
Eval vm_compute in (string_first [] ex_multi i64_max).              (* -1 *)
Eval vm_compute in (string_last (lit "ab") ex_multi (Some i64_min)). (* -1 *)
Eval vm_compute in (string_last (lit "ab") ex_multi (Some i64_max)). (* 3 *)
Eval vm_compute in (compare_len (lit "abc") (lit "abd") (Some i64_max)). (* -1 *)
Eval vm_compute in (compare_len (lit "abc") (lit "abd") (Some i64_min)). (* -1 *)
Eval vm_compute in (compare_len ex_multi ex_multi (Some i64_max)).  (* 0 *)
Eval vm_compute in (string_range ex_multi 2 1).                     (* [] *)
Eval vm_compute in (compare_len (lit "abc") (lit "abd") None).      (* -1 *)
Eval vm_compute in (compare_len (lit "abc") (lit "abd") (Some 2%Z)). (* 0 *)
Eval vm_compute in (compare_len (lit "abc") (lit "abd") (Some (-1)%Z)). (* -1 *)
Eval vm_compute in (trim (lit "  a b  ")).                          (* "a b" *)
Eval vm_compute in (map_scan 6 [(lit "ab", lit "X"); (lit "a", lit "Y")] (lit "aabca") (lit "aabca") []).
                                                                    (* "YXcY" *)
Eval vm_compute in (v_as_list v_empty).                             (* inr [] *)

(* ---------- list facts missing from the 8.16 library ---------- *)

Lemma skipn_skipn {A} (x y : nat) (l : list A) : skipn x (skipn y l) = skipn (y + x) l.
Proof.
  revert l. induction y as [|y IH]; intros l; [reflexivity|].
  destruct l as [|a l]; [cbn [skipn Nat.add]; apply skipn_nil|]. cbn [skipn Nat.add]. apply IH.
Qed.

(* ---------- to_nat_capped: the executable form of [Z.to_nat] for index arguments ---------- *)

Lemma to_nat_capped_min z cap : to_nat_capped z cap = Nat.min (Z.to_nat z) cap.
Proof. unfold to_nat_capped. destruct (Z.leb_spec (Z.of_nat cap) z); lia. Qed.

Lemma to_nat_capped_0 cap : to_nat_capped 0 cap = O.
Proof. rewrite to_nat_capped_min. reflexivity. Qed.

(* capping at (at least) the length does not change what [firstn] / [skipn] return; no
   hypothesis on the sign of z is needed ([Z.to_nat] of a negative number is 0) *)
Lemma firstn_capped_ge {A} z cap (l : list A) :
  (length l <= cap)%nat -> firstn (to_nat_capped z cap) l = firstn (Z.to_nat z) l.
Proof.
  intros Hcap. rewrite to_nat_capped_min.
  destruct (Nat.le_ge_cases (Z.to_nat z) cap) as [H|H].
  - rewrite Nat.min_l by exact H. reflexivity.
  - rewrite Nat.min_r by exact H. rewrite !firstn_all2 by lia. reflexivity.
Qed.

Lemma firstn_capped {A} z (l : list A) : firstn (to_nat_capped z (length l)) l = firstn (Z.to_nat z) l.
Proof. apply firstn_capped_ge. lia. Qed.

Lemma skipn_capped {A} z (l : list A) : skipn (to_nat_capped z (length l)) l = skipn (Z.to_nat z) l.
Proof.
  rewrite to_nat_capped_min.
  destruct (Nat.le_ge_cases (Z.to_nat z) (length l)) as [H|H].
  - rewrite Nat.min_l by exact H. reflexivity.
  - rewrite Nat.min_r by exact H. rewrite skipn_all, skipn_all2 by lia. reflexivity.
Qed.

(* the specification functions in terms of the uncapped [Z.to_nat] (the form of the Rust code
   and of the theorems below) *)
Lemma string_first_eq needle hay start :
  string_first needle hay start =
    let st := Z.to_nat (clamp0 start) in
    if Nat.leb (length hay) st then (-1)%Z
    else match find_from needle (skipn st hay) st with
         | Some n => Z.of_nat n
         | None => (-1)%Z
         end.
Proof.
  unfold string_first. cbv zeta. rewrite to_nat_capped_min.
  destruct (Nat.leb_spec (length hay) (Z.to_nat (clamp0 start))) as [H|H].
  - rewrite Nat.min_r by exact H. rewrite Nat.leb_refl. reflexivity.
  - rewrite Nat.min_l by lia. destruct (Nat.leb_spec (length hay) (Z.to_nat (clamp0 start))); [lia|].
    reflexivity.
Qed.

Lemma string_range_eq s first last :
  string_range s first last =
    if (last <? 0)%Z then []
    else
      let f := clamp0 first in
      if (last <? f)%Z then []
      else firstn (Z.to_nat (last - f + 1)) (skipn (Z.to_nat f) s).
Proof.
  unfold string_range. cbv zeta. rewrite skipn_capped.
  rewrite firstn_capped_ge by (rewrite skipn_length; lia). reflexivity.
Qed.

Lemma cut_len_eq len s :
  cut_len len s =
    match len with
    | Some l => if (l <? 0)%Z then s else firstn (Z.to_nat l) s
    | None => s
    end.
Proof. destruct len as [l|]; [|reflexivity]. cbn [cut_len]. rewrite firstn_capped. reflexivity. Qed.

(* ---------- starts_with ---------- *)

Lemma starts_with_app p r : starts_with p (p ++ r) = true.
Proof.
  induction p as [|x p IH]; [reflexivity|].
  cbn [starts_with app]. rewrite N.eqb_refl. exact IH.
Qed.

Lemma starts_with_split p s : starts_with p s = true -> s = p ++ skipn (length p) s.
Proof.
  revert s. induction p as [|x p IH]; intros s H; [reflexivity|].
  destruct s as [|y s]; [discriminate|].
  cbn [starts_with] in H. apply andb_true_iff in H. destruct H as [Hxy Hr].
  apply N.eqb_eq in Hxy. subst y. cbn [length skipn app]. f_equal. apply IH. exact Hr.
Qed.

(* starts_with is "is a prefix of" *)
Lemma starts_with_iff p s : starts_with p s = true <-> exists r, s = p ++ r.
Proof.
  split.
  - intros H. eexists. apply starts_with_split. exact H.
  - intros [r ->]. apply starts_with_app.
Qed.

Lemma starts_with_nil_r p : starts_with p [] = true -> p = [].
Proof. destruct p; [reflexivity|discriminate]. Qed.

Lemma starts_with_length p s : starts_with p s = true -> (length p <= length s)%nat.
Proof.
  intros H. apply starts_with_iff in H. destruct H as [r ->]. rewrite app_length. lia.
Qed.

Lemma starts_with_firstn p s k :
  starts_with p (firstn k s) = true <-> starts_with p s = true /\ (length p <= k)%nat.
Proof.
  revert s k. induction p as [|x p IH]; intros s k.
  - cbn [starts_with length]. split; [intros _; split; [reflexivity|lia]|reflexivity].
  - destruct k as [|k].
    + cbn [firstn starts_with length]. split; [discriminate|intros [_ Hl]; lia].
    + destruct s as [|y s].
      * cbn [firstn starts_with]. split; [discriminate|intros [Hf _]; discriminate].
      * cbn [firstn starts_with length]. rewrite !andb_true_iff, IH. split.
        -- intros (Hxy & Hs & Hl). split; [split; assumption|lia].
        -- intros ((Hxy & Hs) & Hl). split; [assumption|split; [assumption|lia]].
Qed.

(* ---------- occurs_at ---------- *)

Theorem occurs_at_decl_iff needle hay i : occurs_at needle hay i <-> occurs_at_decl needle hay i.
Proof.
  unfold occurs_at, occurs_at_decl. split.
  - intros [Hle Hs]. apply starts_with_iff in Hs. destruct Hs as [post Hpost].
    exists (firstn i hay), post. split.
    + rewrite <- Hpost. symmetry. apply firstn_skipn.
    + apply firstn_length_le. exact Hle.
  - intros (pre & post & -> & Hlen). split.
    + rewrite app_length. lia.
    + subst i. rewrite skipn_app, skipn_all, Nat.sub_diag. cbn [skipn app]. apply starts_with_app.
Qed.
Print Assumptions occurs_at_decl_iff.

Lemma occurs_at_0 needle hay : occurs_at needle hay 0 <-> starts_with needle hay = true.
Proof. unfold occurs_at. cbn [skipn]. split; [intros [_ H]; exact H|intros H; split; [lia|exact H]]. Qed.

Lemma occurs_at_S needle c hay i : occurs_at needle (c :: hay) (S i) <-> occurs_at needle hay i.
Proof. unfold occurs_at. cbn [skipn length]. split; intros [H1 H2]; (split; [lia|exact H2]). Qed.

Lemma occurs_at_nil needle i : occurs_at needle [] i -> i = O.
Proof. intros [H _]. cbn [length] in H. lia. Qed.

Lemma occurs_at_skipn needle hay s i :
  (s <= length hay)%nat -> occurs_at needle (skipn s hay) i <-> occurs_at needle hay (s + i).
Proof.
  intros Hs. unfold occurs_at. rewrite skipn_skipn, skipn_length.
  split; intros [H1 H2]; (split; [lia|exact H2]).
Qed.

Lemma occurs_at_firstn needle hay n i :
  occurs_at needle (firstn n hay) i <-> occurs_within needle hay n i.
Proof.
  unfold occurs_within, occurs_at.
  rewrite skipn_firstn_comm, starts_with_firstn, firstn_length. split.
  - intros (H1 & H2 & H3). split; [split; [lia|exact H2]|lia].
  - intros ((H1 & H2) & H3). split; [lia|split; [exact H2|lia]].
Qed.

(* ---------- 1. find_from ---------- *)

Theorem find_from_spec : forall needle hay pos,
  match find_from needle hay pos with
  | Some r => exists i, r = (pos + i)%nat /\ occurs_at needle hay i
                        /\ forall j, (j < i)%nat -> ~ occurs_at needle hay j
  | None => forall i, ~ occurs_at needle hay i
  end.
Proof.
  intros needle hay. induction hay as [|c hay IH]; intros pos.
  - cbn [find_from]. destruct (starts_with needle []) eqn:Hs.
    + exists O. split; [lia|]. split; [apply occurs_at_0; exact Hs|]. intros j Hj. lia.
    + intros i Hi. pose proof (occurs_at_nil _ _ Hi) as ->.
      apply occurs_at_0 in Hi. congruence.
  - cbn [find_from]. destruct (starts_with needle (c :: hay)) eqn:Hs.
    + exists O. split; [lia|]. split; [apply occurs_at_0; exact Hs|]. intros j Hj. lia.
    + specialize (IH (S pos)). destruct (find_from needle hay (S pos)) as [r|].
      * destruct IH as (i & Hr & Hocc & Hmin). exists (S i). split; [lia|]. split.
        -- apply occurs_at_S. exact Hocc.
        -- intros [|j] Hj Hoj.
           ++ apply occurs_at_0 in Hoj. congruence.
           ++ apply occurs_at_S in Hoj. apply (Hmin j); [lia|exact Hoj].
      * intros [|i] Hi.
        -- apply occurs_at_0 in Hi. congruence.
        -- apply occurs_at_S in Hi. exact (IH i Hi).
Qed.
Print Assumptions find_from_spec.

(* the same with [least] *)
Corollary find_from_least needle hay pos :
  match find_from needle hay pos with
  | Some r => exists i, r = (pos + i)%nat /\ least (occurs_at needle hay) i
  | None => forall i, ~ occurs_at needle hay i
  end.
Proof.
  pose proof (find_from_spec needle hay pos) as H. destruct (find_from needle hay pos); [|exact H].
  destruct H as (i & H1 & H2 & H3). exists i. split; [exact H1|]. split; assumption.
Qed.

(* None exactly when there is no occurrence *)
Corollary find_from_None needle hay pos :
  find_from needle hay pos = None <-> forall i, ~ occurs_at needle hay i.
Proof.
  pose proof (find_from_spec needle hay pos) as H. destruct (find_from needle hay pos) as [r|].
  - split; [discriminate|]. intros Hn. destruct H as (i & _ & Hocc & _). destruct (Hn i Hocc).
  - split; [intros _; exact H|reflexivity].
Qed.

(* ---------- 2. rfind_all ---------- *)

Lemma rfind_all_gen : forall needle hay pos best,
  (exists i, rfind_all needle hay pos best = Some (pos + i)%nat /\ greatest (occurs_at needle hay) i)
  \/ (rfind_all needle hay pos best = best /\ forall i, ~ occurs_at needle hay i).
Proof.
  intros needle hay. induction hay as [|c hay IH]; intros pos best.
  - cbn [rfind_all]. destruct (starts_with needle []) eqn:Hs.
    + left. exists O. split; [f_equal; lia|]. split; [apply occurs_at_0; exact Hs|].
      intros j Hj. apply occurs_at_nil in Hj. lia.
    + right. split; [reflexivity|]. intros i Hi. pose proof (occurs_at_nil _ _ Hi) as ->.
      apply occurs_at_0 in Hi. congruence.
  - cbn [rfind_all].
    destruct (IH (S pos) (if starts_with needle (c :: hay) then Some pos else best))
      as [(i & Hr & Hocc & Hmax)|(Hr & Hnone)].
    + left. exists (S i). split; [rewrite Hr; f_equal; lia|]. split.
      * apply occurs_at_S. exact Hocc.
      * intros [|j] Hj; [lia|]. apply occurs_at_S in Hj. apply Hmax in Hj. lia.
    + rewrite Hr. destruct (starts_with needle (c :: hay)) eqn:Hs.
      * left. exists O. split; [f_equal; lia|]. split; [apply occurs_at_0; exact Hs|].
        intros [|j] Hj; [lia|]. apply occurs_at_S in Hj. destruct (Hnone j Hj).
      * right. split; [reflexivity|]. intros [|i] Hi.
        -- apply occurs_at_0 in Hi. congruence.
        -- apply occurs_at_S in Hi. exact (Hnone i Hi).
Qed.

Theorem rfind_all_spec : forall needle hay,
  match rfind_all needle hay O None with
  | Some r => occurs_at needle hay r /\ forall j, occurs_at needle hay j -> (j <= r)%nat
  | None => forall i, ~ occurs_at needle hay i
  end.
Proof.
  intros needle hay.
  destruct (rfind_all_gen needle hay O None) as [(i & Hr & Hocc & Hmax)|(Hr & Hnone)]; rewrite Hr.
  - cbn [Nat.add]. split; assumption.
  - exact Hnone.
Qed.
Print Assumptions rfind_all_spec.

(* ---------- 3. string first / string last ---------- *)

Lemma clamp0_nonneg z : (0 <= clamp0 z)%Z.
Proof. unfold clamp0. destruct (Z.ltb_spec z 0); lia. Qed.

Lemma clamp0_max z : clamp0 z = Z.max 0 z.
Proof. unfold clamp0. destruct (Z.ltb_spec z 0); lia. Qed.

(* [start' = max 0 start].  The result is -1 when start' is not an index of hay (in particular
   for an empty hay, even with an empty needle) or when needle does not occur at or after
   start'; otherwise it is the least index >= start' at which needle occurs. *)
Theorem string_first_spec : forall needle hay start,
  let s := Z.to_nat (clamp0 start) in
  (string_first needle hay start = (-1)%Z
   /\ ((length hay <= s)%nat \/ forall j, (s <= j)%nat -> ~ occurs_at needle hay j))
  \/ (exists r, string_first needle hay start = Z.of_nat r
                /\ (s <= r)%nat /\ (s < length hay)%nat /\ occurs_at needle hay r
                /\ forall j, (s <= j < r)%nat -> ~ occurs_at needle hay j).
Proof.
  intros needle hay start s. rewrite string_first_eq. cbv zeta. fold s.
  destruct (Nat.leb_spec (length hay) s) as [Hle|Hlt].
  - left. split; [reflexivity|left; exact Hle].
  - pose proof (find_from_spec needle (skipn s hay) s) as H.
    destruct (find_from needle (skipn s hay) s) as [r|].
    + right. destruct H as (i & -> & Hocc & Hmin). exists (s + i)%nat.
      split; [reflexivity|]. split; [lia|]. split; [exact Hlt|]. split.
      * apply occurs_at_skipn; [lia|exact Hocc].
      * intros j Hj Hoj. apply (Hmin (j - s)%nat); [lia|].
        apply occurs_at_skipn; [lia|]. replace (s + (j - s))%nat with j by lia. exact Hoj.
    + left. split; [reflexivity|]. right. intros j Hj Hoj. apply (H (j - s)%nat).
      apply occurs_at_skipn; [lia|]. replace (s + (j - s))%nat with j by lia. exact Hoj.
Qed.
Print Assumptions string_first_spec.

(* the form asked for: -1, or an index r >= start' with needle at r and not in [start', r) *)
Corollary string_first_cases needle hay start :
  let s := Z.to_nat (clamp0 start) in
  string_first needle hay start = (-1)%Z
  \/ exists r, string_first needle hay start = Z.of_nat r /\ (s <= r)%nat /\ occurs_at needle hay r
               /\ forall j, (s <= j < r)%nat -> ~ occurs_at needle hay j.
Proof.
  intros s. destruct (string_first_spec needle hay start) as [[H _]|(r & H1 & H2 & _ & H3 & H4)].
  - left. exact H.
  - right. exists r. split; [exact H1|]. split; [exact H2|]. split; [exact H3|exact H4].
Qed.

(* The slice searched by "string last needle hay last" for 0 <= last: its length *)
Lemma last_slice_length hay z :
  (0 <= z)%Z -> length (last_slice hay z) = Nat.min (S (Z.to_nat z)) (length hay).
Proof.
  intros Hz. unfold last_slice. destruct (Z.leb_spec (Z.of_nat (length hay)) z) as [H|H].
  - lia.
  - apply firstn_length.
Qed.

Lemma last_slice_occurs needle hay z i :
  (0 <= z)%Z ->
  occurs_at needle (last_slice hay z) i <-> occurs_within needle hay (S (Z.to_nat z)) i.
Proof.
  intros Hz. unfold last_slice. destruct (Z.leb_spec (Z.of_nat (length hay)) z) as [H|H].
  - unfold occurs_within. split; [|intros [Ho _]; exact Ho].
    intros Ho. split; [exact Ho|]. destruct Ho as [Hi Hs].
    apply starts_with_length in Hs. rewrite skipn_length in Hs. lia.
  - apply occurs_at_firstn.
Qed.

(* without a last index: the greatest index at which needle occurs, else -1.
   with [last < 0]: -1.  with [0 <= last]: the greatest index r such that the occurrence lies
   entirely inside the first [last + 1] characters (r + |needle| <= last + 1), else -1. *)
Theorem string_last_spec : forall needle hay last,
  match last with
  | None =>
      (string_last needle hay None = (-1)%Z /\ forall i, ~ occurs_at needle hay i)
      \/ exists r, string_last needle hay None = Z.of_nat r /\ greatest (occurs_at needle hay) r
  | Some z =>
      if (z <? 0)%Z then string_last needle hay (Some z) = (-1)%Z
      else
        (string_last needle hay (Some z) = (-1)%Z
         /\ forall i, ~ occurs_within needle hay (S (Z.to_nat z)) i)
        \/ exists r, string_last needle hay (Some z) = Z.of_nat r
                     /\ greatest (occurs_within needle hay (S (Z.to_nat z))) r
  end.
Proof.
  intros needle hay [z|].
  - unfold string_last. destruct (Z.ltb_spec z 0) as [Hneg|Hz]; [reflexivity|].
    pose proof (rfind_all_spec needle (last_slice hay z)) as H.
    destruct (rfind_all needle (last_slice hay z) O None) as [r|].
    + right. exists r. split; [reflexivity|]. destruct H as [Hocc Hmax]. split.
      * apply last_slice_occurs; assumption.
      * intros j Hj. apply Hmax. apply last_slice_occurs; assumption.
    + left. split; [reflexivity|]. intros i Hi. apply (H i). apply last_slice_occurs; assumption.
  - unfold string_last. pose proof (rfind_all_spec needle hay) as H.
    destruct (rfind_all needle hay O None) as [r|].
    + right. exists r. split; [reflexivity|]. exact H.
    + left. split; [reflexivity|]. exact H.
Qed.
Print Assumptions string_last_spec.

(* when [last] is at or beyond the last character the whole string is searched *)
Theorem string_last_whole needle hay z :
  (0 <= z)%Z -> (Z.of_nat (length hay) <= z + 1)%Z ->
  string_last needle hay (Some z) = string_last needle hay None.
Proof.
  intros Hz H. unfold string_last. destruct (Z.ltb_spec z 0) as [Hneg|_]; [lia|].
  replace (last_slice hay z) with hay; [reflexivity|].
  unfold last_slice. destruct (Z.leb_spec (Z.of_nat (length hay)) z) as [_|Hlt]; [reflexivity|].
  symmetry. apply firstn_all2. lia.
Qed.
Print Assumptions string_last_whole.

Theorem string_last_negative needle hay z : (z < 0)%Z -> string_last needle hay (Some z) = (-1)%Z.
Proof. intros Hz. unfold string_last. destruct (Z.ltb_spec z 0); [reflexivity|lia]. Qed.
Print Assumptions string_last_negative.

(* ---------- 4. string range ---------- *)

Lemma nth_error_firstn {A} (n i : nat) (l : list A) :
  nth_error (firstn n l) i = if Nat.ltb i n then nth_error l i else None.
Proof.
  revert n l. induction i as [|i IH]; intros n l.
  - destruct n as [|n]; [reflexivity|]. destruct l; reflexivity.
  - destruct n as [|n]; [reflexivity|].
    destruct l as [|a l]; [cbn [firstn nth_error]; destruct (Nat.ltb (S i) (S n)); reflexivity|].
    cbn [firstn nth_error]. rewrite IH. reflexivity.
Qed.

Lemma nth_error_skipn {A} (k i : nat) (l : list A) :
  nth_error (skipn k l) i = nth_error l (i + k).
Proof.
  revert l. induction k as [|k IH]; intros l.
  - rewrite Nat.add_0_r. reflexivity.
  - destruct l as [|a l].
    + cbn [skipn]. rewrite Nat.add_succ_r. destruct i; reflexivity.
    + cbn [skipn]. rewrite IH, Nat.add_succ_r. reflexivity.
Qed.

Theorem string_range_empty s first last :
  (last < 0 \/ last < clamp0 first)%Z -> string_range s first last = [].
Proof.
  intros H. rewrite string_range_eq. cbv zeta. destruct (Z.ltb_spec last 0) as [_|H0]; [reflexivity|].
  destruct (Z.ltb_spec last (clamp0 first)) as [_|H1]; [reflexivity|]. lia.
Qed.
Print Assumptions string_range_empty.

(* character i of the result is character [i + max 0 first] of s, for the i with
   [i + max 0 first <= last]; there are no others *)
Theorem string_range_nth : forall s first last i,
  (0 <= last)%Z ->
  nth_error (string_range s first last) i =
    if (Z.of_nat i + clamp0 first <=? last)%Z
    then nth_error s (i + Z.to_nat (clamp0 first)) else None.
Proof.
  intros s first last i Hlast. rewrite string_range_eq. cbv zeta.
  pose proof (clamp0_nonneg first) as Hf.
  destruct (Z.ltb_spec last 0) as [H0|_]; [lia|].
  destruct (Z.ltb_spec last (clamp0 first)) as [H1|H1].
  - destruct (Z.leb_spec (Z.of_nat i + clamp0 first) last) as [H2|_]; [lia|].
    destruct i; reflexivity.
  - rewrite nth_error_firstn, nth_error_skipn.
    destruct (Nat.ltb_spec i (Z.to_nat (last - clamp0 first + 1))) as [H2|H2];
      destruct (Z.leb_spec (Z.of_nat i + clamp0 first) last) as [H3|H3]; try reflexivity; lia.
Qed.
Print Assumptions string_range_nth.

(* the variant without the hypothesis: a negative [last] gives the empty string *)
Theorem string_range_nth_all : forall s first last i,
  nth_error (string_range s first last) i =
    if (0 <=? last)%Z && (Z.of_nat i + clamp0 first <=? last)%Z
    then nth_error s (i + Z.to_nat (clamp0 first)) else None.
Proof.
  intros s first last i. destruct (Z.leb_spec 0 last) as [H|H].
  - cbn [andb]. apply string_range_nth. exact H.
  - cbn [andb]. rewrite string_range_empty; [destruct i; reflexivity|lia].
Qed.
Print Assumptions string_range_nth_all.

Theorem string_range_length : forall s first last,
  length (string_range s first last) =
    Z.to_nat (Z.min (last + 1) (Z.of_nat (length s)) - clamp0 first).
Proof.
  intros s first last. rewrite string_range_eq. cbv zeta.
  pose proof (clamp0_nonneg first) as Hf.
  destruct (Z.ltb_spec last 0) as [H0|H0]; [cbn [length]; lia|].
  destruct (Z.ltb_spec last (clamp0 first)) as [H1|H1]; [cbn [length]; lia|].
  rewrite firstn_length, skipn_length. lia.
Qed.
Print Assumptions string_range_length.

(* the result is a contiguous piece of s *)
Theorem string_range_substring s first last :
  exists pre post, s = pre ++ string_range s first last ++ post.
Proof.
  rewrite string_range_eq. cbv zeta. destruct (Z.ltb_spec last 0) as [H0|H0]; [exists [], s; reflexivity|].
  destruct (Z.ltb_spec last (clamp0 first)) as [H1|H1]; [exists [], s; reflexivity|].
  exists (firstn (Z.to_nat (clamp0 first)) s),
         (skipn (Z.to_nat (last - clamp0 first + 1)) (skipn (Z.to_nat (clamp0 first)) s)).
  rewrite firstn_skipn, firstn_skipn. reflexivity.
Qed.
Print Assumptions string_range_substring.

(* whole string *)
Corollary string_range_all s first last :
  (first <= 0)%Z -> (Z.of_nat (length s) <= last + 1)%Z -> string_range s first last = s.
Proof.
  intros Hf Hl. rewrite string_range_eq. cbv zeta. unfold clamp0.
  destruct s as [|c s].
  - destruct (last <? 0)%Z; [reflexivity|]. destruct (first <? 0)%Z; destruct (last <? _)%Z;
      try reflexivity; rewrite skipn_nil, firstn_nil; reflexivity.
  - cbn [length] in Hl. destruct (Z.ltb_spec last 0) as [H0|H0]; [lia|].
    destruct (Z.ltb_spec first 0) as [H1|H1].
    + destruct (Z.ltb_spec last 0); [lia|]. cbn [Z.to_nat skipn]. apply firstn_all2. cbn [length]. lia.
    + assert (first = 0%Z) as -> by lia. destruct (Z.ltb_spec last 0); [lia|].
      cbn [Z.to_nat skipn]. apply firstn_all2. cbn [length]. lia.
Qed.

(* ---------- 5. str_cmp, compare_len, string equal ---------- *)

Theorem str_cmp_eq : forall a b, str_cmp a b = Eq <-> a = b.
Proof.
  induction a as [|x a IH]; intros [|y b]; cbn [str_cmp].
  - split; reflexivity.
  - split; discriminate.
  - split; discriminate.
  - destruct (N.compare_spec x y) as [Hxy|Hxy|Hxy].
    + subst y. rewrite IH. split; [intros ->; reflexivity|intros H; injection H; auto].
    + split; [discriminate|intros H; injection H; intros _ Hx; lia].
    + split; [discriminate|intros H; injection H; intros _ Hx; lia].
Qed.
Print Assumptions str_cmp_eq.

Lemma str_cmp_refl a : str_cmp a a = Eq.
Proof. apply str_cmp_eq. reflexivity. Qed.

Theorem str_cmp_antisym : forall a b, str_cmp a b = CompOpp (str_cmp b a).
Proof.
  induction a as [|x a IH]; intros [|y b]; cbn [str_cmp]; try reflexivity.
  rewrite (N.compare_antisym x y). destruct (x ?= y); cbn [CompOpp]; [apply IH|reflexivity|reflexivity].
Qed.
Print Assumptions str_cmp_antisym.

Theorem str_cmp_lt_trans : forall a b c, str_cmp a b = Lt -> str_cmp b c = Lt -> str_cmp a c = Lt.
Proof.
  induction a as [|x a IH]; intros [|y b] [|z c]; cbn [str_cmp]; try discriminate; try reflexivity.
  destruct (N.compare_spec x y) as [Hxy|Hxy|Hxy]; try discriminate.
  - subst y. destruct (x ?= z); try discriminate; [apply IH|reflexivity].
  - intros _. destruct (N.compare_spec y z) as [Hyz|Hyz|Hyz]; try discriminate.
    + subst z. intros _. destruct (N.compare_spec x y); [lia|reflexivity|lia].
    + intros _. destruct (N.compare_spec x z); [lia|reflexivity|lia].
Qed.
Print Assumptions str_cmp_lt_trans.

Corollary str_cmp_gt_lt a b : str_cmp a b = Gt <-> str_cmp b a = Lt.
Proof. rewrite (str_cmp_antisym a b). destruct (str_cmp b a); cbn [CompOpp]; split; congruence. Qed.

Corollary str_cmp_gt_trans a b c : str_cmp a b = Gt -> str_cmp b c = Gt -> str_cmp a c = Gt.
Proof.
  rewrite !str_cmp_gt_lt. intros H1 H2. exact (str_cmp_lt_trans c b a H2 H1).
Qed.

(* lexicographic order, declaratively: a < b iff a is a proper prefix of b, or they agree on a
   common prefix after which a has the smaller character *)
Theorem str_cmp_lt_iff : forall a b,
  str_cmp a b = Lt <->
  (exists y r, b = a ++ y :: r)
  \/ (exists p x y ra rb, a = p ++ x :: ra /\ b = p ++ y :: rb /\ x < y).
Proof.
  induction a as [|x a IH]; intros [|y b]; cbn [str_cmp].
  - split; [discriminate|]. intros [(y & r & H)|(p & x & y & ra & rb & H & _)].
    + discriminate.
    + destruct p; discriminate.
  - split; [|reflexivity]. intros _. left. exists y, b. reflexivity.
  - split; [discriminate|]. intros [(y & r & H)|(p & x' & y & ra & rb & _ & H & _)].
    + discriminate.
    + destruct p; discriminate.
  - destruct (N.compare_spec x y) as [Hxy|Hxy|Hxy].
    + subst y. rewrite IH. split.
      * intros [(y & r & H)|(p & x' & y & ra & rb & Ha & Hb & Hlt)].
        -- left. exists y, r. cbn [app]. congruence.
        -- right. exists (x :: p), x', y, ra, rb. cbn [app]. repeat split; congruence.
      * intros [(y & r & H)|(p & x' & y & ra & rb & Ha & Hb & Hlt)].
        -- left. exists y, r. cbn [app] in H. congruence.
        -- destruct p as [|c p].
           ++ cbn [app] in Ha, Hb. injection Ha as Ha1 Ha2. injection Hb as Hb1 Hb2. lia.
           ++ cbn [app] in Ha, Hb. injection Ha as Ha1 Ha2. injection Hb as Hb1 Hb2.
              right. exists p, x', y, ra, rb. repeat split; assumption.
    + split; [|reflexivity]. intros _. right. exists [], x, y, a, b. repeat split; assumption.
    + split; [discriminate|]. intros [(y' & r & H)|(p & x' & y' & ra & rb & Ha & Hb & Hlt)].
      * cbn [app] in H. injection H as H1 H2. lia.
      * destruct p as [|c p]; cbn [app] in Ha, Hb; injection Ha as Ha1 Ha2; injection Hb as Hb1 Hb2; lia.
Qed.
Print Assumptions str_cmp_lt_iff.

(* compare_len is the comparison of the (possibly truncated) operands *)
Theorem compare_len_spec a b len :
  compare_len a b len = Z_of_comparison (str_cmp (cut_len len a) (cut_len len b)).
Proof. reflexivity. Qed.
Print Assumptions compare_len_spec.

Theorem compare_len_none a b : compare_len a b None = Z_of_comparison (str_cmp a b).
Proof. reflexivity. Qed.
Print Assumptions compare_len_none.

Theorem compare_len_some_nonneg a b l :
  (0 <= l)%Z ->
  compare_len a b (Some l) = Z_of_comparison (str_cmp (firstn (Z.to_nat l) a) (firstn (Z.to_nat l) b)).
Proof.
  intros H. rewrite compare_len_spec, !cut_len_eq. destruct (Z.ltb_spec l 0); [lia|reflexivity].
Qed.
Print Assumptions compare_len_some_nonneg.

Theorem compare_len_some_neg a b l :
  (l < 0)%Z -> compare_len a b (Some l) = Z_of_comparison (str_cmp a b).
Proof.
  intros H. rewrite compare_len_spec, !cut_len_eq. destruct (Z.ltb_spec l 0); [reflexivity|lia].
Qed.
Print Assumptions compare_len_some_neg.

Theorem compare_len_values a b len :
  let c := compare_len a b len in
  (c = (-1)%Z /\ str_cmp (cut_len len a) (cut_len len b) = Lt)
  \/ (c = 0%Z /\ cut_len len a = cut_len len b)
  \/ (c = 1%Z /\ str_cmp (cut_len len b) (cut_len len a) = Lt).
Proof.
  intros c. subst c. rewrite compare_len_spec.
  destruct (str_cmp (cut_len len a) (cut_len len b)) eqn:H; cbn [Z_of_comparison].
  - right. left. split; [reflexivity|]. apply str_cmp_eq. exact H.
  - left. split; reflexivity.
  - right. right. split; [reflexivity|]. apply str_cmp_gt_lt. exact H.
Qed.
Print Assumptions compare_len_values.

(* "string equal": the test [compare_len ... =? 0] is equality of the truncated operands *)
Theorem string_equal_spec a b len :
  Z.eqb (compare_len a b len) 0 = true <-> cut_len len a = cut_len len b.
Proof.
  rewrite compare_len_spec, <- str_cmp_eq.
  destruct (str_cmp (cut_len len a) (cut_len len b)); cbn [Z_of_comparison]; split;
    intros H; try reflexivity; try discriminate.
Qed.
Print Assumptions string_equal_spec.

Corollary string_equal_plain a b : Z.eqb (compare_len a b None) 0 = true <-> a = b.
Proof. apply (string_equal_spec a b None). Qed.

(* ---------- 6. trim ---------- *)

Lemma skip_take_while p s : s = take_while p s ++ skip_while p s.
Proof.
  induction s as [|c s IH]; [reflexivity|]. cbn [take_while skip_while].
  destruct (p c); [cbn [app]; f_equal; exact IH|reflexivity].
Qed.

Lemma take_while_all p s : Forall (fun c => p c = true) (take_while p s).
Proof.
  induction s as [|c s IH]; [constructor|]. cbn [take_while].
  destruct (p c) eqn:Hc; [constructor; assumption|constructor].
Qed.

Lemma skip_while_head p s : match skip_while p s with [] => True | c :: _ => p c = false end.
Proof.
  induction s as [|c s IH]; [exact I|]. cbn [skip_while]. destruct (p c) eqn:Hc; [exact IH|exact Hc].
Qed.

Lemma skip_while_app_all p pre t :
  Forall (fun c => p c = true) pre -> skip_while p (pre ++ t) = skip_while p t.
Proof.
  intros H. induction H as [|c pre Hc _ IH]; [reflexivity|].
  cbn [app skip_while]. rewrite Hc. exact IH.
Qed.

Lemma skip_while_stop p t :
  match t with [] => True | c :: _ => p c = false end -> skip_while p t = t.
Proof. destruct t as [|c t]; [reflexivity|]. intros H. cbn [skip_while]. rewrite H. reflexivity. Qed.

Lemma all_white_rev s : all_white s -> all_white (rev s).
Proof. unfold all_white. intros H. apply Forall_rev. exact H. Qed.

Theorem trim_start_spec s : is_trim_start s (trim_start s).
Proof.
  exists (take_while is_whitespace s). split; [apply skip_take_while|]. split.
  - apply take_while_all.
  - apply (skip_while_head is_whitespace s).
Qed.
Print Assumptions trim_start_spec.

(* the specification determines the result: trim_start s is THE suffix of s that follows a
   white prefix and does not start with white space (the longest suffix that does not start
   with white space) *)
Theorem trim_start_unique s t : is_trim_start s t -> t = trim_start s.
Proof.
  intros (pre & -> & Hpre & Ht). unfold trim_start.
  rewrite skip_while_app_all by exact Hpre. symmetry. apply skip_while_stop. exact Ht.
Qed.
Print Assumptions trim_start_unique.

(* "longest": every suffix of s that starts with a character other than white space is a suffix
   of trim_start s *)
Theorem trim_start_longest s p t :
  s = p ++ t -> t <> [] -> no_white_start t -> exists q, trim_start s = q ++ t.
Proof.
  intros -> Hne Ht. unfold trim_start. induction p as [|x p IH].
  - exists []. cbn [app]. apply skip_while_stop. exact Ht.
  - cbn [app skip_while]. destruct (is_whitespace x); [exact IH|].
    exists (x :: p). reflexivity.
Qed.
Print Assumptions trim_start_longest.

Theorem trim_end_spec s : is_trim_end s (trim_end s).
Proof.
  unfold trim_end.
  exists (rev (take_while is_whitespace (rev s))). split; [|split].
  - rewrite <- rev_app_distr, <- skip_take_while, rev_involutive. reflexivity.
  - apply all_white_rev. apply take_while_all.
  - unfold no_white_end. rewrite rev_involutive. apply (skip_while_head is_whitespace (rev s)).
Qed.
Print Assumptions trim_end_spec.

Theorem trim_end_unique s t : is_trim_end s t -> t = trim_end s.
Proof.
  intros (post & -> & Hpost & Ht). unfold trim_end.
  rewrite rev_app_distr, skip_while_app_all by (apply all_white_rev; exact Hpost).
  rewrite skip_while_stop by exact Ht. symmetry. apply rev_involutive.
Qed.
Print Assumptions trim_end_unique.

(* removing a white suffix from a string that does not start with white space leaves a string
   that does not start with white space *)
Lemma no_white_start_trim_end t : no_white_start t -> no_white_start (trim_end t).
Proof.
  intros Ht. destruct (trim_end_spec t) as (post & Heq & Hpost & _).
  destruct (trim_end t) as [|c u]; [exact I|].
  rewrite Heq in Ht. exact Ht.
Qed.

Theorem trim_spec s : is_trim s (trim s).
Proof.
  unfold trim.
  destruct (trim_start_spec s) as (pre & Hs & Hpre & Hstart).
  destruct (trim_end_spec (trim_start s)) as (post & Ht & Hpost & Hend).
  exists pre, post. split; [rewrite <- Ht; exact Hs|].
  split; [exact Hpre|]. split; [exact Hpost|]. split; [|exact Hend].
  apply no_white_start_trim_end. exact Hstart.
Qed.
Print Assumptions trim_spec.

Theorem trim_unique s t : is_trim s t -> t = trim s.
Proof.
  intros (pre & post & -> & Hpre & Hpost & Hst & Hen). unfold trim.
  destruct t as [|c t].
  - cbn [app]. unfold trim_start. rewrite skip_while_app_all by exact Hpre.
    assert (skip_while is_whitespace post = []) as ->.
    { rewrite <- (app_nil_r post). rewrite skip_while_app_all by exact Hpost. reflexivity. }
    reflexivity.
  - replace (trim_start (pre ++ (c :: t) ++ post)) with ((c :: t) ++ post).
    + apply trim_end_unique. exists post. split; [reflexivity|]. split; assumption.
    + apply trim_start_unique. exists pre. split; [reflexivity|]. split; [exact Hpre|exact Hst].
Qed.
Print Assumptions trim_unique.

(* the first and last characters of a non-empty result are not white space *)
Corollary trim_ends s :
  trim s = [] \/ exists a b, is_whitespace a = false /\ is_whitespace b = false
                             /\ (exists r, trim s = a :: r) /\ (exists r, trim s = r ++ [b]).
Proof.
  destruct (trim_spec s) as (pre & post & _ & _ & _ & Hst & Hen).
  destruct (trim s) as [|a r] eqn:Ht; [left; reflexivity|right].
  unfold no_white_end in Hen. destruct (rev (a :: r)) as [|b r'] eqn:Hr.
  - apply (f_equal (@length char)) in Hr. rewrite rev_length in Hr. discriminate.
  - exists a, b. split; [exact Hst|]. split; [exact Hen|]. split; [exists r; reflexivity|].
    exists (rev r'). apply (f_equal (@rev char)) in Hr. rewrite rev_involutive in Hr.
    rewrite Hr. reflexivity.
Qed.

(* ---------- 7. lindex ---------- *)

Lemma v_as_list_empty : v_as_list v_empty = inr [].
Proof. reflexivity. Qed.

Theorem lindex_into_nil v : lindex_into v [] = Ok v.
Proof. reflexivity. Qed.
Print Assumptions lindex_into_nil.

(* one step: an integer index selects the element, or the empty value when it is negative or
   not less than the length, and the rest of the path is applied to that *)
Theorem lindex_into_cons v l i z r :
  v_as_list v = inr l -> v_as_int i = inr z ->
  lindex_into v (i :: r) = lindex_into (lindex_step l z) r.
Proof.
  intros Hl Hi. cbn [lindex_into]. rewrite Hl, Hi. unfold lindex_step.
  destruct ((z <? 0)%Z || (Z.of_nat (length l) <=? z)%Z); reflexivity.
Qed.
Print Assumptions lindex_into_cons.

Theorem lindex_into_in_range v l i z :
  v_as_list v = inr l -> v_as_int i = inr z -> (0 <= z < Z.of_nat (length l))%Z ->
  lindex_into v [i] = Ok (nth (Z.to_nat z) l v_empty)
  /\ nth_error l (Z.to_nat z) = Some (nth (Z.to_nat z) l v_empty).
Proof.
  intros Hl Hi Hz. rewrite (lindex_into_cons v l i z [] Hl Hi). unfold lindex_step.
  destruct (Z.ltb_spec z 0) as [H0|H0]; [lia|].
  destruct (Z.leb_spec (Z.of_nat (length l)) z) as [H1|H1]; [lia|].
  cbn [orb lindex_into]. split; [reflexivity|]. apply nth_error_nth'. lia.
Qed.
Print Assumptions lindex_into_in_range.

Theorem lindex_into_out_of_range v l i z r :
  v_as_list v = inr l -> v_as_int i = inr z -> (z < 0 \/ Z.of_nat (length l) <= z)%Z ->
  lindex_into v (i :: r) = lindex_into v_empty r.
Proof.
  intros Hl Hi Hz. rewrite (lindex_into_cons v l i z r Hl Hi). unfold lindex_step.
  destruct (Z.ltb_spec z 0) as [H0|H0]; [reflexivity|].
  destruct (Z.leb_spec (Z.of_nat (length l)) z) as [H1|H1]; [reflexivity|lia].
Qed.
Print Assumptions lindex_into_out_of_range.

(* the only error message v_as_int produces *)
Lemma v_as_int_err i m : v_as_int i = inl m -> m = err_expected_int (as_str i).
Proof.
  unfold v_as_int. destruct i as [s|z|f|b|l|d]; try discriminate;
    match goal with |- context [get_int ?x] => destruct (get_int x) end;
    try discriminate; intros H; injection H as <-; reflexivity.
Qed.

Theorem lindex_into_bad_index v l i r :
  v_as_list v = inr l -> (forall z, v_as_int i <> inr z) ->
  lindex_into v (i :: r) = err (err_expected_int (as_str i)).
Proof.
  intros Hl Hi. cbn [lindex_into]. rewrite Hl.
  destruct (v_as_int i) as [m|z] eqn:Hm; [|destruct (Hi z); reflexivity].
  rewrite (v_as_int_err i m Hm). reflexivity.
Qed.
Print Assumptions lindex_into_bad_index.

Theorem lindex_into_bad_list v m i r :
  v_as_list v = inl m -> lindex_into v (i :: r) = err m.
Proof. intros Hl. cbn [lindex_into]. rewrite Hl. reflexivity. Qed.
Print Assumptions lindex_into_bad_list.

(* once the path has left the list, every further integer index yields the empty value again *)
Theorem lindex_into_empty idx : all_int_indices idx -> lindex_into v_empty idx = Ok v_empty.
Proof.
  intros H. induction H as [|i idx [z Hz] _ IH]; [reflexivity|].
  rewrite (lindex_into_cons v_empty [] i z idx v_as_list_empty Hz).
  unfold lindex_step. cbn [length Z.of_nat].
  replace ((z <? 0)%Z || (0 <=? z)%Z) with true by lia. exact IH.
Qed.
Print Assumptions lindex_into_empty.

Corollary lindex_into_out_of_range_path v l i z r :
  v_as_list v = inr l -> v_as_int i = inr z -> (z < 0 \/ Z.of_nat (length l) <= z)%Z ->
  all_int_indices r -> lindex_into v (i :: r) = Ok v_empty.
Proof.
  intros Hl Hi Hz Hr. rewrite (lindex_into_out_of_range v l i z r Hl Hi Hz).
  apply lindex_into_empty. exact Hr.
Qed.

(* ---------- 8. string map ---------- *)

Definition key_pred (s : str) (kv : str * str) : bool := starts_with (fst kv) s.

Lemma find_first_key keys s k v :
  find (fun kv => starts_with (fst kv) s) keys = Some (k, v) <-> first_key keys s k v.
Proof.
  split.
  - induction keys as [|kv keys IH]; [discriminate|]. cbn [find].
    destruct (starts_with (fst kv) s) eqn:Hkv.
    + intros H. injection H as ->. exists [], keys. split; [reflexivity|]. split; [exact Hkv|].
      intros kv' [].
    + intros H. destruct (IH H) as (before & after & -> & Hk & Hb).
      exists (kv :: before), after. split; [reflexivity|]. split; [exact Hk|].
      intros kv' [<-|Hin]; [exact Hkv|apply Hb; exact Hin].
  - intros (before & after & -> & Hk & Hb). induction before as [|kv before IH].
    + cbn [app find fst]. rewrite Hk. reflexivity.
    + cbn [app find]. rewrite (Hb kv (or_introl eq_refl)). apply IH.
      intros kv' Hin. apply Hb. right. exact Hin.
Qed.

Lemma find_no_key keys s :
  find (fun kv => starts_with (fst kv) s) keys = None <-> no_key keys s.
Proof.
  split.
  - intros H kv Hin. exact (find_none _ _ H kv Hin).
  - intros H. induction keys as [|kv keys IH]; [reflexivity|]. cbn [find].
    rewrite (H kv (or_introl eq_refl)). apply IH. intros kv' Hin. apply H. right. exact Hin.
Qed.

Lemma first_key_in keys s k v : first_key keys s k v -> In (k, v) keys.
Proof. intros (before & after & -> & _). apply in_or_app. right. left. reflexivity. Qed.

(* fuel sufficiency: with non-empty keys every step consumes at least one character, so any
   fuel above the length of the input gives the result described by [map_rel] *)
Lemma map_scan_gen keys :
  keys_nonempty keys ->
  forall fuel s acc, (length s < fuel)%nat ->
    exists out, map_rel keys s out
                /\ map_scan fuel keys s s acc = rev acc ++ out
                /\ spec_map fuel keys s = out.
Proof.
  intros Hne. induction fuel as [|fuel IH]; intros s acc Hlen; [lia|].
  destruct s as [|c r].
  - exists []. split; [constructor|]. split; [cbn [map_scan]; rewrite app_nil_r; reflexivity|reflexivity].
  - cbn [map_scan spec_map].
    destruct (find (fun kv => starts_with (fst kv) (c :: r)) keys) as [[k v]|] eqn:Hfind.
    + pose proof (proj1 (find_first_key _ _ _ _) Hfind) as Hfk.
      assert (k <> []) as Hk.
      { pose proof (first_key_in _ _ _ _ Hfk) as Hin.
        unfold keys_nonempty in Hne. rewrite Forall_forall in Hne. exact (Hne _ Hin). }
      destruct Hfk as (before & after & Hkeys & Hsw & Hbefore).
      pose proof (starts_with_split _ _ Hsw) as Hsplit.
      set (rest := skipn (length k) (c :: r)) in *.
      assert (length rest < fuel)%nat as Hrest.
      { apply (f_equal (@length char)) in Hsplit. rewrite app_length in Hsplit. cbn [length] in Hsplit, Hlen.
        destruct k as [|k0 k]; [congruence|]. cbn [length] in Hsplit. lia. }
      destruct (IH rest (rev v ++ acc) Hrest) as (out & Hrel & Hscan & Hspec).
      exists (v ++ out). split; [|split].
      * rewrite Hsplit. apply MR_hit.
        -- rewrite <- Hsplit. discriminate.
        -- rewrite <- Hsplit. exists before, after. split; [exact Hkeys|]. split; assumption.
        -- exact Hrel.
      * rewrite Hscan, rev_app_distr, rev_involutive, app_assoc. reflexivity.
      * rewrite Hspec. reflexivity.
    + cbn [tl]. cbn [length] in Hlen.
      destruct (IH r (c :: acc)) as (out & Hrel & Hscan & Hspec); [lia|].
      exists (c :: out). split; [|split].
      * apply MR_miss; [apply find_no_key; exact Hfind|exact Hrel].
      * rewrite Hscan. cbn [rev]. rewrite <- app_assoc. reflexivity.
      * rewrite Hspec. reflexivity.
Qed.

Theorem map_scan_spec keys s :
  keys_nonempty keys -> map_rel keys s (map_scan (S (length s)) keys s s []).
Proof.
  intros Hne. destruct (map_scan_gen keys Hne (S (length s)) s []) as (out & Hrel & Hscan & _); [lia|].
  rewrite Hscan. exact Hrel.
Qed.
Print Assumptions map_scan_spec.

Theorem map_scan_spec_map keys s :
  keys_nonempty keys -> map_scan (S (length s)) keys s s [] = spec_map (S (length s)) keys s.
Proof.
  intros Hne. destruct (map_scan_gen keys Hne (S (length s)) s []) as (out & _ & Hscan & Hspec); [lia|].
  rewrite Hscan, Hspec. reflexivity.
Qed.
Print Assumptions map_scan_spec_map.

Lemma map_rel_inv keys s out :
  map_rel keys s out ->
  (s = [] /\ out = [])
  \/ (s <> [] /\ exists k v rest out',
        s = k ++ rest /\ first_key keys s k v /\ out = v ++ out' /\ map_rel keys rest out')
  \/ (exists c rest out', s = c :: rest /\ no_key keys s /\ out = c :: out' /\ map_rel keys rest out').
Proof.
  intros H. destruct H as [|k v rest out Hne Hfk Hrel|c rest out Hnk Hrel].
  - left. split; reflexivity.
  - right. left. split; [exact Hne|]. exists k, v, rest, out. repeat split; assumption.
  - right. right. exists c, rest, out. repeat split; assumption.
Qed.

(* the relation determines the output: [map_rel] is a specification, not just a property *)
Theorem map_rel_functional keys s o1 o2 : map_rel keys s o1 -> map_rel keys s o2 -> o1 = o2.
Proof.
  intros H1. revert o2. induction H1 as [|k v rest out Hne Hfk Hrel IH|c rest out Hnk Hrel IH]; intros o2 H2;
    apply map_rel_inv in H2;
    destruct H2 as [[Hs Ho]|[(Hs & k' & v' & rest' & out' & Heq & Hfk' & Ho & Hrel')
                            |(c' & rest' & out' & Heq & Hnk' & Ho & Hrel')]].
  - symmetry. exact Ho.
  - destruct Hs. reflexivity.
  - discriminate.
  - destruct Hne. exact Hs.
  - apply find_first_key in Hfk, Hfk'. rewrite Hfk in Hfk'. injection Hfk' as <- <-.
    apply app_inv_head in Heq. subst rest' o2. f_equal. apply IH. exact Hrel'.
  - apply find_first_key in Hfk. apply find_no_key in Hnk'. congruence.
  - discriminate.
  - apply find_first_key in Hfk'. apply find_no_key in Hnk. congruence.
  - injection Heq as <- <-. subst o2. f_equal. apply IH. exact Hrel'.
Qed.
Print Assumptions map_rel_functional.

(* fuel independence *)
Corollary map_scan_fuel keys s f1 f2 :
  keys_nonempty keys -> (length s < f1)%nat -> (length s < f2)%nat ->
  map_scan f1 keys s s [] = map_scan f2 keys s s [].
Proof.
  intros Hne H1 H2.
  destruct (map_scan_gen keys Hne f1 s [] H1) as (o1 & Hr1 & -> & _).
  destruct (map_scan_gen keys Hne f2 s [] H2) as (o2 & Hr2 & -> & _).
  rewrite (map_rel_functional keys s o1 o2 Hr1 Hr2). reflexivity.
Qed.

(* the caller removes the empty keys *)
Lemma filter_keys_nonempty (d : list (str * str)) :
  keys_nonempty (filter (fun kv => negb (Nat.eqb (length (fst kv)) 0)) d).
Proof.
  unfold keys_nonempty. apply Forall_forall. intros kv Hin. apply filter_In in Hin.
  destruct Hin as [_ Hk]. destruct (fst kv); [discriminate|discriminate].
Qed.

(* the model functions themselves are axiom free (Model/Float.v is built on Coq's
   Floats.SpecFloat), so the theorems about [value] functions are closed as well *)
Print Assumptions lindex_into.

(* ---------- 9. string length, string cat; the branches of cmd_string ---------- *)

(* "string length" is [length] of the character list ([cmd_string_length] below) and
   "string cat" is concatenation ([cmd_string_cat] with the three lemmas on [concat_str]).
   A character is one list element whatever its UTF-8 length: *)
Example multibyte_length : length ex_multi = 5%nat /\ map utf8_len ex_multi = [2; 3; 4; 1; 1].
Proof. split; reflexivity. Qed.

Lemma concat_str_concat l : concat_str l = List.concat l.
Proof. induction l as [|x l IH]; [reflexivity|]. cbn [concat_str List.concat]. rewrite IH. reflexivity. Qed.

Lemma concat_str_app a b : concat_str (a ++ b) = concat_str a ++ concat_str b.
Proof. rewrite !concat_str_concat. apply concat_app. Qed.

Lemma concat_str_length l : length (concat_str l) = list_sum (map (@length char) l).
Proof.
  induction l as [|x l IH]; [reflexivity|]. cbn [concat_str map list_sum]. rewrite app_length, IH. reflexivity.
Qed.

(* The lemmas below connect the functions specified above with the command itself: for every
   well-formed invocation the result of [cmd_string] is the specified function of the string
   forms of the arguments.  [c] is the command word, [sub] the subcommand word. *)

Ltac lit_tests :=
  repeat match goal with
         | |- context [str_eqb (lit ?a) (lit ?b)] =>
             let r := eval vm_compute in (str_eqb (lit a) (lit b)) in
             change (str_eqb (lit a) (lit b)) with r
         end.

Ltac enter_sub Hsub :=
  unfold cmd_string, is_sub, arg; cbn [nth]; rewrite Hsub; lit_tests; cbv beta iota;
  cbn [orb andb].

Ltac args_ok :=
  repeat match goal with
         | |- context [check_subcommand ?l] => change (check_subcommand l) with (@Ok unit tt)
         | |- context [check_args ?n ?l] => change (check_args n l) with (@Ok unit tt)
         end;
  cbn [lift bind ret length Nat.eqb Nat.sub].

Section Commands.
Variable U : uni.

Theorem cmd_string_length st c sub v :
  as_str sub = lit "length" ->
  cmd_string U st [c; sub; v] = (st, Ok (VInt (Z.of_nat (length (as_str v))))).
Proof. intros Hsub. enter_sub Hsub. args_ok. reflexivity. Qed.

Theorem cmd_string_cat st c sub args :
  as_str sub = lit "cat" ->
  cmd_string U st (c :: sub :: args) = (st, Ok (VStr (concat_str (map as_str args)))).
Proof. intros Hsub. enter_sub Hsub. args_ok. reflexivity. Qed.

Theorem cmd_string_first5 st c sub n h s z :
  as_str sub = lit "first" -> v_as_int s = inr z ->
  cmd_string U st [c; sub; n; h; s] = (st, Ok (VInt (string_first (as_str n) (as_str h) z))).
Proof.
  intros Hsub Hz. enter_sub Hsub. args_ok. rewrite Hz. cbn [lift_sum of_sum bind ret].
  unfold string_first. set (ss := to_nat_capped (clamp0 z) (length (as_str h))).
  destruct (Nat.leb (length (as_str h)) ss); [reflexivity|].
  unfold opt_index. destruct (find_from _ _ _); reflexivity.
Qed.

Theorem cmd_string_first4 st c sub n h :
  as_str sub = lit "first" ->
  cmd_string U st [c; sub; n; h] = (st, Ok (VInt (string_first (as_str n) (as_str h) 0))).
Proof.
  intros Hsub. enter_sub Hsub. args_ok.
  unfold string_first. change (clamp0 0) with 0%Z. rewrite to_nat_capped_0.
  destruct (Nat.leb (length (as_str h)) 0); [reflexivity|].
  unfold opt_index. destruct (find_from _ _ _); reflexivity.
Qed.

Theorem cmd_string_last5 st c sub n h s z :
  as_str sub = lit "last" -> v_as_int s = inr z ->
  cmd_string U st [c; sub; n; h; s] = (st, Ok (VInt (string_last (as_str n) (as_str h) (Some z)))).
Proof.
  intros Hsub Hz. enter_sub Hsub. args_ok. rewrite Hz. cbn [lift_sum of_sum bind ret].
  unfold string_last. destruct (z <? 0)%Z; [reflexivity|].
  fold (last_slice (as_str h) z). unfold opt_index. destruct (rfind_all _ _ _ _); reflexivity.
Qed.

Theorem cmd_string_last4 st c sub n h :
  as_str sub = lit "last" ->
  cmd_string U st [c; sub; n; h] = (st, Ok (VInt (string_last (as_str n) (as_str h) None))).
Proof.
  intros Hsub. enter_sub Hsub. args_ok.
  unfold string_last, opt_index. destruct (rfind_all _ _ _ _); reflexivity.
Qed.

Theorem cmd_string_range st c sub s a b first last :
  as_str sub = lit "range" -> v_as_int a = inr first -> v_as_int b = inr last ->
  cmd_string U st [c; sub; s; a; b] = (st, Ok (VStr (string_range (as_str s) first last))).
Proof.
  intros Hsub Ha Hb. enter_sub Hsub. args_ok. rewrite Ha. cbn [lift_sum of_sum bind ret].
  rewrite Hb. cbn [lift_sum of_sum bind ret].
  unfold string_range. destruct (last <? 0)%Z; [reflexivity|].
  destruct (last <? clamp0 first)%Z; reflexivity.
Qed.

Theorem cmd_string_compare4 st c sub a b :
  as_str sub = lit "compare" ->
  cmd_string U st [c; sub; a; b] = (st, Ok (VInt (compare_len (as_str a) (as_str b) None))).
Proof. intros Hsub. enter_sub Hsub. args_ok. reflexivity. Qed.

Theorem cmd_string_compare_length st c sub o l a b z :
  as_str sub = lit "compare" -> as_str o = lit "-length" -> v_as_int l = inr z ->
  cmd_string U st [c; sub; o; l; a; b] = (st, Ok (VInt (compare_len (as_str a) (as_str b) (Some z)))).
Proof.
  intros Hsub Ho Hl. enter_sub Hsub. args_ok.
  unfold string_compare. cbn [length Nat.sub skipn firstn compare_options]. rewrite Ho. lit_tests.
  cbv beta iota. rewrite Hl. reflexivity.
Qed.

Theorem cmd_string_equal4 st c sub a b :
  as_str sub = lit "equal" ->
  cmd_string U st [c; sub; a; b] = (st, Ok (VBool (Z.eqb (compare_len (as_str a) (as_str b) None) 0))).
Proof. intros Hsub. enter_sub Hsub. args_ok. reflexivity. Qed.

Theorem cmd_string_equal_length st c sub o l a b z :
  as_str sub = lit "equal" -> as_str o = lit "-length" -> v_as_int l = inr z ->
  cmd_string U st [c; sub; o; l; a; b]
  = (st, Ok (VBool (Z.eqb (compare_len (as_str a) (as_str b) (Some z)) 0))).
Proof.
  intros Hsub Ho Hl. enter_sub Hsub. args_ok.
  unfold string_compare. cbn [length Nat.sub skipn firstn compare_options]. rewrite Ho. lit_tests.
  cbv beta iota. rewrite Hl. reflexivity.
Qed.

Theorem cmd_string_trim st c sub s :
  as_str sub = lit "trim" -> cmd_string U st [c; sub; s] = (st, Ok (VStr (trim (as_str s)))).
Proof. intros Hsub. enter_sub Hsub. args_ok. reflexivity. Qed.

Theorem cmd_string_trimleft st c sub s :
  as_str sub = lit "trimleft" -> cmd_string U st [c; sub; s] = (st, Ok (VStr (trim_start (as_str s)))).
Proof. intros Hsub. enter_sub Hsub. args_ok. reflexivity. Qed.

Theorem cmd_string_trimright st c sub s :
  as_str sub = lit "trimright" -> cmd_string U st [c; sub; s] = (st, Ok (VStr (trim_end (as_str s)))).
Proof. intros Hsub. enter_sub Hsub. args_ok. reflexivity. Qed.

(* the keys string map uses: string forms of the dictionary, empty keys dropped *)
Definition map_keys (d : list (value * value)) : list (str * str) :=
  filter (fun kv => negb (Nat.eqb (length (fst kv)) 0))
         (map (fun kv => (as_str (fst kv), as_str (snd kv))) d).

Theorem cmd_string_map st c sub dv s d :
  as_str sub = lit "map" -> v_as_dict dv = inr d ->
  exists out, cmd_string U st [c; sub; dv; s] = (st, Ok (VStr out))
              /\ map_rel (map_keys d) (as_str s) out.
Proof.
  intros Hsub Hd. exists (map_scan (S (length (as_str s))) (map_keys d) (as_str s) (as_str s) []).
  split.
  - enter_sub Hsub. args_ok. rewrite Hd. reflexivity.
  - apply map_scan_spec. apply filter_keys_nonempty.
Qed.

End Commands.
Print Assumptions cmd_string_length.
Print Assumptions cmd_string_cat.
Print Assumptions cmd_string_first5.
Print Assumptions cmd_string_first4.
Print Assumptions cmd_string_last5.
Print Assumptions cmd_string_last4.
Print Assumptions cmd_string_range.
Print Assumptions cmd_string_compare4.
Print Assumptions cmd_string_compare_length.
Print Assumptions cmd_string_equal4.
Print Assumptions cmd_string_equal_length.
Print Assumptions cmd_string_trim.
Print Assumptions cmd_string_trimleft.
Print Assumptions cmd_string_trimright.
Print Assumptions cmd_string_map.

(* ---------- lindex, llength, join, lappend, append, incr as commands ---------- *)

(* "lindex list i j ..." with the indices as separate words (none, or two and more) *)
Theorem cmd_lindex_words st c v idx :
  length idx <> 1%nat -> cmd_lindex st (c :: v :: idx) = (st, lindex_into v idx).
Proof.
  intros Hlen. unfold cmd_lindex, arg.
  change (check_args "cmd_lindex" (c :: v :: idx)) with (@Ok unit tt).
  cbn [lift bind length nth skipn].
  destruct idx as [|i [|j idx]]; [reflexivity|destruct Hlen; reflexivity|reflexivity].
Qed.
Print Assumptions cmd_lindex_words.

(* "lindex list indexlist": the single index word is itself read as a list of indices *)
Theorem cmd_lindex_list st c v i idx :
  v_as_list i = inr idx -> cmd_lindex st [c; v; i] = (st, lindex_into v idx).
Proof.
  intros Hi. unfold cmd_lindex, arg.
  change (check_args "cmd_lindex" [c; v; i]) with (@Ok unit tt).
  cbn [lift bind length nth Nat.eqb negb]. rewrite Hi. reflexivity.
Qed.
Print Assumptions cmd_lindex_list.

Theorem cmd_llength_spec st c v l :
  v_as_list v = inr l -> cmd_llength st [c; v] = (st, Ok (VInt (Z.of_nat (length l)))).
Proof.
  intros Hv. unfold cmd_llength, arg.
  change (check_args "cmd_llength" [c; v]) with (@Ok unit tt).
  cbn [lift bind nth]. rewrite Hv. reflexivity.
Qed.
Print Assumptions cmd_llength_spec.

Theorem cmd_join_spec2 st c v l :
  v_as_list v = inr l -> cmd_join st [c; v] = (st, Ok (VStr (join_str [c_space] (map as_str l)))).
Proof.
  intros Hv. unfold cmd_join, arg.
  change (check_args "cmd_join" [c; v]) with (@Ok unit tt).
  cbn [lift bind nth]. rewrite Hv. reflexivity.
Qed.
Print Assumptions cmd_join_spec2.

Theorem cmd_join_spec3 st c v sep l :
  v_as_list v = inr l ->
  cmd_join st [c; v; sep] = (st, Ok (VStr (join_str (as_str sep) (map as_str l)))).
Proof.
  intros Hv. unfold cmd_join, arg.
  change (check_args "cmd_join" [c; v; sep]) with (@Ok unit tt).
  cbn [lift bind nth]. rewrite Hv. reflexivity.
Qed.
Print Assumptions cmd_join_spec3.

(* join_str: the elements in order with the separator between neighbours, nothing at the ends *)
Lemma join_str_cons sep x y r : join_str sep (x :: y :: r) = x ++ sep ++ join_str sep (y :: r).
Proof. reflexivity. Qed.

Lemma join_str_length sep l :
  length (join_str sep l) = (list_sum (map (@length char) l) + length sep * (length l - 1))%nat.
Proof.
  induction l as [|x [|y r] IH].
  - cbn [join_str map list_sum fold_right length]. nia.
  - cbn [join_str map list_sum fold_right length]. nia.
  - rewrite join_str_cons, !app_length, IH. cbn [map list_sum fold_right length]. nia.
Qed.

(* lappend / append: the new value of the variable is the old one (empty when the variable
   cannot be read) followed by the words *)
Theorem cmd_lappend_spec st c name vals :
  cmd_lappend st (c :: name :: vals) =
    match st_var st name with
    | Ok v => match v_as_list v with
              | inr l => st_set_var_return st name (VList (l ++ vals))
              | inl m => (st, err m)
              end
    | _ => st_set_var_return st name (VList vals)
    end.
Proof.
  unfold cmd_lappend, arg.
  change (check_args "cmd_lappend" (c :: name :: vals)) with (@Ok unit tt).
  cbn [lift bind nth skipn].
  destruct (st_var st name) as [v|e|p|]; try reflexivity.
  destruct (v_as_list v) as [m|l]; reflexivity.
Qed.
Print Assumptions cmd_lappend_spec.

Theorem cmd_append_spec st c name vals :
  cmd_append st (c :: name :: vals) =
    st_set_var_return st name
      (VStr (match st_var st name with Ok v => as_str v | _ => [] end ++ concat_str (map as_str vals))).
Proof.
  unfold cmd_append, arg.
  change (check_args "cmd_append" (c :: name :: vals)) with (@Ok unit tt).
  reflexivity.
Qed.
Print Assumptions cmd_append_spec.

(* incr: sum in Z, "integer overflow" outside the i64 range (no wrap-around) *)
Theorem cmd_incr_spec st c name iv i old :
  v_as_int iv = inr i ->
  match st_var st name with Ok v => v_as_int v = inr old | _ => old = 0%Z end ->
  cmd_incr st [c; name; iv] =
    if in_i64 (i + old) then st_set_var_return st name (VInt (i + old))
    else (st, err (lit "integer overflow")).
Proof.
  intros Hi Hold. unfold cmd_incr, arg.
  change (check_args "cmd_incr" [c; name; iv]) with (@Ok unit tt).
  cbn [lift bind nth length Nat.eqb]. rewrite Hi. cbn [lift_sum of_sum bind].
  destruct (st_var st name) as [v|e|p|].
  - rewrite Hold. reflexivity.
  - subst old. reflexivity.
  - subst old. reflexivity.
  - subst old. reflexivity.
Qed.
Print Assumptions cmd_incr_spec.
