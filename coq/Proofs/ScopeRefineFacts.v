(* ScopeRefineFacts.v — C07: the scope stack of the model refines a stack of abstract frames,
   for every sequence of variable operations.

   Abstract state: a global frame and a list of procedure frames (innermost first); a frame is a
   total function  name -> AUnset | AScalar v | AArray m | ALink   (ALink = declared `global`).
   A name resolves in the current frame; through ALink it resolves, in ONE hop, to the same name
   in the global frame.  The abstract operations are written directly on that picture.

   Refinement relation [R ss a]: the model stack [ss] is well formed ([scope_inv] and every link
   points at frame 0), it has as many frames as [a], and frame by frame, name by name, the stored
   entry is the abstract one.  [abs ss] is the canonical abstract state; [R ss a] is the same as
   [winv ss /\ aeq (abs ss) a] where [aeq] is pointwise equality (frames are functions, so Leibniz
   equality would need functional extensionality).

   Every operation of Model/State.v commutes with the abstraction (same result, same error
   message, related new states, invariant kept); this is lifted to operation sequences
   ([run_refines]) and the sentences of property C07 are then derived, mostly on the abstract
   side (section 5).  Section 6 shows that the variable commands of Model/Commands.v (set, unset,
   global, incr, append, lappend, array, info) change the scope stack through these operations
   only, so the refinement covers sequences of those commands.

   The only strengthening of [scope_inv] is [links_global]: every VarUpvar points at frame 0.
   `global` is the only creator of links in the model (cmd_global calls sc_upvar with level 0),
   and [winv] holds of the initial stack and is preserved by everything ([reachable_winv]). *)
From Molt Require Import Model.Base Model.ListSyn Model.Float Model.Value Model.State.
From Molt Require Import Proofs.BaseFacts Proofs.BindFacts Spec.SpecVars Proofs.ScopeFacts.
From Coq Require Import Lia.

Arguments N.eqb : simpl never.
Arguments N.leb : simpl never.
Arguments N.ltb : simpl never.

Local Open Scope N_scope.

(* ====================================================================== *)
(* 1. the abstract state and its operations                               *)
(* ====================================================================== *)

Inductive aval :=
| AUnset
| AScalar (v : value)
| AArray (m : list (str * value))
| ALink.                                   (* declared `global`: stands for the global of that name *)

Definition aframe := str -> aval.
Definition aempty : aframe := fun _ => AUnset.
Definition fupd (f : aframe) (n : str) (x : aval) : aframe :=
  fun n' => if str_eqb n n' then x else f n'.

(* the global frame, and the frames of the active procedure calls, innermost first *)
Record astate := { glob : aframe; locals : list aframe }.

Definition a_init : astate := {| glob := aempty; locals := [] |}.

Definition adepth (a : astate) : nat := length (locals a).
Definition acurf (a : astate) : aframe := match locals a with [] => glob a | f :: _ => f end.

(* where a name lives: in the current frame, or (through a link) in the global frame *)
Inductive place := PCur | PGlob.
Definition a_place (a : astate) (n : str) : place :=
  match acurf a n with ALink => PGlob | _ => PCur end.
Definition a_read (a : astate) (p : place) (n : str) : aval :=
  match p with PCur => acurf a n | PGlob => glob a n end.

Definition a_upd_glob (a : astate) (n : str) (x : aval) : astate :=
  {| glob := fupd (glob a) n x; locals := locals a |}.
Definition a_upd_cur (a : astate) (n : str) (x : aval) : astate :=
  match locals a with
  | [] => a_upd_glob a n x
  | f :: r => {| glob := glob a; locals := fupd f n x :: r |}
  end.
Definition a_write (a : astate) (p : place) (n : str) (x : aval) : astate :=
  match p with PCur => a_upd_cur a n x | PGlob => a_upd_glob a n x end.

Definition shape_of_aval (x : aval) : shape :=
  match x with AScalar v => Scalar v | AArray m => Array m | _ => Unset end.

(* what a name denotes, seen from the current frame *)
Definition a_lookup (a : astate) (n : str) : shape := shape_of_aval (a_read a (a_place a n) n).

(* results: a value, or an error with its message *)
Inductive ares (A : Type) := AOk (x : A) | AErr (msg : str).
Arguments AOk {A}. Arguments AErr {A}.

Definition msg_no_such (n : str) : str := lit "can't read """ ++ n ++ lit """: no such variable".
Definition msg_is_array (n : str) : str := lit "can't read """ ++ n ++ lit """: variable is array".
Definition msg_isnt_array (n i : str) : str :=
  lit "can't read """ ++ n ++ lit "(" ++ i ++ lit ")"": variable isn't array".
Definition msg_no_elem (n i : str) : str :=
  lit "can't read """ ++ n ++ lit "(" ++ i ++ lit ")"": no such element in array".
Definition msg_set_array (n : str) : str := lit "can't set """ ++ n ++ lit """: variable is array".
Definition msg_set_isnt_array (n i : str) : str :=
  lit "can't set """ ++ n ++ lit "(" ++ i ++ lit ")"": variable isn't array".
Definition msg_aset_isnt_array (n : str) : str :=
  lit "can't array set """ ++ n ++ lit """: variable isn't array".

Definition a_get (a : astate) (n : str) : ares value :=
  match a_lookup a n with
  | Scalar v => AOk v
  | Array _ => AErr (msg_is_array n)
  | Unset => AErr (msg_no_such n)
  end.

Definition a_get_elem (a : astate) (n i : str) : ares value :=
  match a_lookup a n with
  | Scalar _ => AErr (msg_isnt_array n i)
  | Array m => match assoc_get i m with Some v => AOk v | None => AErr (msg_no_elem n i) end
  | Unset => AErr (msg_no_such n)
  end.

Definition a_set (a : astate) (n : str) (v : value) : astate * ares unit :=
  let p := a_place a n in
  match a_read a p n with
  | AArray _ => (a, AErr (msg_set_array n))
  | _ => (a_write a p n (AScalar v), AOk tt)
  end.

(* the host-side "set in the global frame" (used for errorInfo / errorCode) *)
Definition a_set_global (a : astate) (n : str) (v : value) : astate * ares unit :=
  match glob a n with
  | AArray _ => (a, AErr (msg_set_array n))
  | _ => (a_upd_glob a n (AScalar v), AOk tt)
  end.

Definition a_set_elem (a : astate) (n i : str) (v : value) : astate * ares unit :=
  let p := a_place a n in
  match a_read a p n with
  | AScalar _ => (a, AErr (msg_set_isnt_array n i))
  | AArray m => (a_write a p n (AArray (assoc_set i v m)), AOk tt)
  | _ => (a_write a p n (AArray [(i, v)]), AOk tt)
  end.

Definition a_array_set (a : astate) (n : str) (kv : list value) : astate * ares unit :=
  let p := a_place a n in
  match a_read a p n with
  | AScalar _ => (a, AErr (msg_aset_isnt_array n))
  | AArray m => (a_write a p n (AArray (insert_kvlist m kv)), AOk tt)
  | _ => (a_write a p n (AArray (insert_kvlist [] kv)), AOk tt)
  end.

(* unset removes the variable and, if the name was a link, the link as well *)
Definition a_unset (a : astate) (n : str) : astate :=
  match acurf a n with
  | ALink => a_upd_cur (a_upd_glob a n AUnset) n AUnset
  | _ => a_upd_cur a n AUnset
  end.

Definition a_unset_elem (a : astate) (n i : str) : astate :=
  let p := a_place a n in
  match a_read a p n with
  | AArray m => a_write a p n (AArray (assoc_remove i m))
  | _ => a
  end.

(* array unset removes an array (a link to it stays) and does nothing otherwise *)
Definition a_array_unset (a : astate) (n : str) : astate :=
  let p := a_place a n in
  match a_read a p n with
  | AArray _ => a_write a p n AUnset
  | _ => a
  end.

Definition a_exists (a : astate) (n : str) : bool :=
  match a_lookup a n with Unset => false | _ => true end.
Definition a_elem_exists (a : astate) (n i : str) : bool :=
  match a_get_elem a n i with AOk _ => true | AErr _ => false end.
Definition a_array_exists (a : astate) (n : str) : bool :=
  match a_lookup a n with Array _ => true | _ => false end.
Definition a_array_get (a : astate) (n : str) : list (str * value) :=
  match a_lookup a n with Array m => m | _ => [] end.
Definition a_array_size (a : astate) (n : str) : nat := length (a_array_get a n).
Definition a_array_names (a : astate) (n : str) : list str := map fst (a_array_get a n).

(* `global n`: nothing at top level; inside a procedure the name becomes a link, whatever it was *)
Definition a_global (a : astate) (n : str) : astate :=
  match locals a with [] => a | _ => a_upd_cur a n ALink end.

Definition a_push (a : astate) : astate := {| glob := glob a; locals := aempty :: locals a |}.
Definition a_pop (a : astate) : astate := {| glob := glob a; locals := tl (locals a) |}.

(* name listings, as sets *)
Definition a_vars (a : astate) : str -> Prop := fun n => acurf a n <> AUnset.
Definition a_locals (a : astate) : str -> Prop :=
  fun n => locals a <> [] /\ acurf a n <> AUnset /\ acurf a n <> ALink.
Definition a_globals (a : astate) : str -> Prop := fun n => glob a n <> AUnset.

(* ====================================================================== *)
(* 2. the abstraction function and the refinement relation                *)
(* ====================================================================== *)

Definition aval_of (o : option var) : aval :=
  match o with
  | Some (VarScalar v) => AScalar v
  | Some (VarArray m) => AArray m
  | Some (VarUpvar _) => ALink
  | _ => AUnset
  end.

Definition abs_frame (sc : scope) : aframe := fun n => aval_of (assoc_get n sc).

Definition abs (ss : scopes) : astate :=
  {| glob := abs_frame (sc_get_scope ss O); locals := rev (map abs_frame (tl ss)) |}.

(* frame number k, counted like the model does: 0 is the global frame, the current one is last *)
Definition alevel (a : astate) (k : nat) : aframe :=
  match k with O => glob a | S j => nth j (rev (locals a)) aempty end.

(* pointwise equality of abstract states *)
Definition aeq (a b : astate) : Prop :=
  adepth a = adepth b /\ forall k n, alevel a k n = alevel b k n.

(* every link goes to the global frame (all that `global` can create) *)
Definition links_global (ss : scopes) : Prop :=
  forall k n l, ent ss k n = Some (VarUpvar l) -> l = O.

Definition winv (ss : scopes) : Prop := scope_inv ss /\ links_global ss.

Definition R (ss : scopes) (a : astate) : Prop :=
  winv ss /\ length ss = S (adepth a) /\ forall k n, alevel a k n = aval_of (ent ss k n).

(* ---------- aeq is an equivalence ---------- *)
Lemma aeq_refl a : aeq a a.
Proof. split; reflexivity. Qed.
Lemma aeq_sym a b : aeq a b -> aeq b a.
Proof. intros [H1 H2]. split; [now symmetry|]. intros k n. now rewrite H2. Qed.
Lemma aeq_trans a b c : aeq a b -> aeq b c -> aeq a c.
Proof. intros [H1 H2] [H3 H4]. split; [congruence|]. intros k n. now rewrite H2. Qed.

(* ---------- frames of abstract states, by level ---------- *)
Lemma alevel_oob a k : (adepth a < k)%nat -> alevel a k = aempty.
Proof.
  intros Hk. destruct k as [|j]; [lia|]. cbn [alevel]. apply nth_overflow.
  rewrite rev_length. unfold adepth in Hk. lia.
Qed.

Lemma alevel_cur a : alevel a (adepth a) = acurf a.
Proof.
  unfold adepth, acurf. destruct (locals a) as [|f r] eqn:E; cbn [length alevel]; [reflexivity|].
  rewrite E. cbn [rev]. rewrite app_nth2 by (rewrite rev_length; lia).
  rewrite rev_length, Nat.sub_diag. reflexivity.
Qed.

Lemma alevel_glob a : alevel a O = glob a.
Proof. reflexivity. Qed.

Definition plevel (a : astate) (p : place) : nat := match p with PCur => adepth a | PGlob => O end.

Lemma a_read_level a p n : a_read a p n = alevel a (plevel a p) n.
Proof. destruct p; cbn [a_read plevel]; [now rewrite alevel_cur|reflexivity]. Qed.

Lemma adepth_upd_glob a n x : adepth (a_upd_glob a n x) = adepth a.
Proof. reflexivity. Qed.
Lemma adepth_upd_cur a n x : adepth (a_upd_cur a n x) = adepth a.
Proof. unfold a_upd_cur, adepth. destruct (locals a) as [|f r] eqn:E; cbn [locals a_upd_glob length]; now rewrite ?E. Qed.
Lemma adepth_write a p n x : adepth (a_write a p n x) = adepth a.
Proof. destruct p; [apply adepth_upd_cur|apply adepth_upd_glob]. Qed.

Lemma alevel_upd_glob a n x k n' :
  alevel (a_upd_glob a n x) k n' = if Nat.eqb k O && str_eqb n n' then x else alevel a k n'.
Proof. destruct k as [|j]; cbn [alevel a_upd_glob glob locals Nat.eqb andb]; [unfold fupd|]; reflexivity. Qed.

Lemma alevel_upd_cur a n x k n' :
  alevel (a_upd_cur a n x) k n' = if Nat.eqb k (adepth a) && str_eqb n n' then x else alevel a k n'.
Proof.
  unfold a_upd_cur, adepth. destruct (locals a) as [|f r] eqn:E.
  - rewrite alevel_upd_glob. reflexivity.
  - cbn [length]. destruct k as [|j]; cbn [alevel glob locals Nat.eqb andb]; [reflexivity|].
    rewrite E. cbn [rev].
    destruct (Nat.lt_total j (length r)) as [Hlt|[Heq|Hgt]].
    + rewrite !app_nth1 by (rewrite rev_length; exact Hlt).
      destruct (Nat.eqb_spec j (length r)); [lia|reflexivity].
    + subst j. rewrite !app_nth2 by (rewrite rev_length; lia).
      rewrite rev_length, Nat.sub_diag, Nat.eqb_refl. cbn [nth andb]. reflexivity.
    + rewrite !nth_overflow by (rewrite app_length, rev_length; cbn [length]; lia).
      destruct (Nat.eqb_spec j (length r)); [lia|reflexivity].
Qed.

Lemma alevel_write a p n x k n' :
  alevel (a_write a p n x) k n' = if Nat.eqb k (plevel a p) && str_eqb n n' then x else alevel a k n'.
Proof. destruct p; cbn [a_write plevel]; [apply alevel_upd_cur|apply alevel_upd_glob]. Qed.

Lemma alevel_push a k n : alevel (a_push a) k n = alevel a k n.
Proof.
  destruct k as [|j]; cbn [alevel a_push glob locals rev]; [reflexivity|].
  destruct (Nat.lt_ge_cases j (length (locals a))) as [Hlt|Hge].
  - rewrite app_nth1 by (rewrite rev_length; exact Hlt). reflexivity.
  - rewrite (nth_overflow (rev (locals a))) by (rewrite rev_length; exact Hge).
    rewrite app_nth2 by (rewrite rev_length; exact Hge).
    destruct (j - length (rev (locals a)))%nat as [|[|i]]; reflexivity.
Qed.

Lemma adepth_push a : adepth (a_push a) = S (adepth a).
Proof. reflexivity. Qed.

Lemma adepth_pop a : adepth (a_pop a) = pred (adepth a).
Proof. unfold adepth, a_pop. cbn [locals]. now destruct (locals a). Qed.

Lemma alevel_pop a k n :
  alevel (a_pop a) k n = if Nat.ltb k (adepth a) || Nat.eqb k O then alevel a k n else AUnset.
Proof.
  destruct k as [|j].
  - cbn [alevel a_pop glob Nat.eqb]. now rewrite orb_true_r.
  - cbn [alevel a_pop glob locals Nat.eqb]. rewrite orb_false_r. unfold adepth.
    destruct (locals a) as [|f r]; cbn [tl length rev].
    + cbn [Nat.ltb Nat.leb]. now destruct j.
    + destruct (Nat.ltb_spec (S j) (S (length r))) as [Hlt|Hge].
      * rewrite app_nth1 by (rewrite rev_length; lia). reflexivity.
      * rewrite nth_overflow by (rewrite rev_length; lia). reflexivity.
Qed.

(* ---------- the canonical abstract state is related ---------- *)
Lemma alevel_abs ss k n : ss <> [] -> alevel (abs ss) k n = aval_of (ent ss k n).
Proof.
  intros Hne. destruct k as [|j]; cbn [alevel abs glob locals]; [reflexivity|].
  rewrite rev_involutive. change aempty with (abs_frame []). rewrite map_nth.
  unfold abs_frame, ent, sc_get_scope. destruct ss as [|g r]; [contradiction|reflexivity].
Qed.

Lemma adepth_abs ss : ss <> [] -> length ss = S (adepth (abs ss)).
Proof.
  intros Hne. unfold adepth, abs. cbn [locals]. rewrite rev_length, map_length.
  destruct ss as [|g r]; [contradiction|reflexivity].
Qed.

Lemma R_abs ss : winv ss -> R ss (abs ss).
Proof.
  intros Hw. assert (ss <> []) as Hne by apply Hw. split; [exact Hw|]. split.
  - now apply adepth_abs.
  - intros k n. now apply alevel_abs.
Qed.

Theorem R_iff_abs ss a : R ss a <-> winv ss /\ aeq (abs ss) a.
Proof.
  split.
  - intros (Hw & Hlen & Hpt). split; [exact Hw|]. assert (ss <> []) as Hne by apply Hw. split.
    + pose proof (adepth_abs ss Hne). lia.
    + intros k n. rewrite alevel_abs by exact Hne. now rewrite Hpt.
  - intros (Hw & Hd & Hpt). assert (ss <> []) as Hne by apply Hw. split; [exact Hw|]. split.
    + pose proof (adepth_abs ss Hne). lia.
    + intros k n. rewrite <- Hpt. now apply alevel_abs.
Qed.

Lemma R_aeq ss a b : R ss a -> aeq a b -> R ss b.
Proof.
  intros (Hw & Hlen & Hpt) [Hd Heq]. split; [exact Hw|]. split; [lia|].
  intros k n. now rewrite <- Heq.
Qed.

Lemma R_current ss a : R ss a -> sc_current ss = adepth a.
Proof. intros (_ & Hlen & _). unfold sc_current. lia. Qed.

Lemma winv_init : winv [[]].
Proof.
  split; [apply scope_inv_init|]. intros k n l H. unfold ent, sc_get_scope in H.
  destruct k as [|[|k]]; discriminate.
Qed.

Lemma R_init : R [[]] a_init.
Proof.
  split; [apply winv_init|]. split; [reflexivity|]. intros k n.
  unfold ent, sc_get_scope. destruct k as [|[|k]]; reflexivity.
Qed.

(* ---------- model side: entries after the primitive updates ---------- *)
Lemma ent_oob ss k n : (length ss <= k)%nat -> ent ss k n = None.
Proof. intros H. unfold ent, sc_get_scope. now rewrite nth_overflow. Qed.

Lemma ent_put ss L n x k n' :
  (L < length ss)%nat ->
  ent (sc_put ss L n x) k n' = if Nat.eqb k L && str_eqb n n' then Some x else ent ss k n'.
Proof.
  intros HL. destruct (Nat.eqb_spec k L) as [->|Hk]; cbn [andb].
  - destruct (str_eqb n n') eqn:E.
    + apply str_eqb_eq in E. subst n'. now apply ent_put_same.
    + apply ent_put_other_name. intros ->. now rewrite str_eqb_refl in E.
  - now apply ent_put_other_level.
Qed.

Lemma ent_del ss L n k n' :
  scope_inv ss ->
  ent (sc_del ss L n) k n' = if Nat.eqb k L && str_eqb n n' then None else ent ss k n'.
Proof.
  intros Hinv. destruct (Nat.eqb_spec k L) as [->|Hk]; cbn [andb].
  - destruct (str_eqb n n') eqn:E.
    + apply str_eqb_eq in E. subst n'. destruct (Nat.lt_ge_cases L (length ss)) as [Hl|Hl].
      * unfold ent, sc_del. rewrite frame_update_same by exact Hl.
        apply assoc_get_remove_same. apply Hinv.
      * unfold sc_del. rewrite update_nth_oob by exact Hl. now apply ent_oob.
    + apply ent_del_other_name. intros ->. now rewrite str_eqb_refl in E.
  - now apply ent_del_other_level.
Qed.

Lemma ent_push ss k n : ent (sc_push ss) k n = ent ss k n.
Proof.
  unfold ent, sc_get_scope, sc_push. destruct (Nat.lt_ge_cases k (length ss)) as [Hk|Hk].
  - now rewrite app_nth1.
  - rewrite app_nth2 by exact Hk. rewrite (nth_overflow ss) by exact Hk.
    destruct (k - length ss)%nat as [|[|j]]; reflexivity.
Qed.

Lemma ent_pop ss k n :
  ent (sc_pop ss) k n = if Nat.ltb k (pred (length ss)) then ent ss k n else None.
Proof.
  unfold ent, sc_get_scope, sc_pop. destruct (Nat.ltb_spec k (pred (length ss))) as [Hk|Hk].
  - now rewrite nth_removelast.
  - rewrite nth_overflow; [reflexivity|]. now rewrite length_removelast.
Qed.

Lemma links_put ss L n x :
  (L < length ss)%nat -> links_global ss -> (forall l, x = VarUpvar l -> l = O) ->
  links_global (sc_put ss L n x).
Proof.
  intros HL Hlg Hx k n' l H. rewrite ent_put in H by exact HL.
  destruct (Nat.eqb k L && str_eqb n n').
  - injection H as H. now apply Hx.
  - exact (Hlg _ _ _ H).
Qed.

Lemma links_del ss L n : scope_inv ss -> links_global ss -> links_global (sc_del ss L n).
Proof.
  intros Hinv Hlg k n' l H. rewrite ent_del in H by exact Hinv.
  destruct (Nat.eqb k L && str_eqb n n'); [discriminate|]. exact (Hlg _ _ _ H).
Qed.

Lemma plevel_lt ss a p : R ss a -> (plevel a p < length ss)%nat.
Proof. intros (_ & Hlen & _). destruct p; cbn [plevel]; lia. Qed.

(* ---------- the primitive updates are related ---------- *)
Lemma R_put ss a p n x :
  R ss a -> is_upvar x = false -> x <> VarNew ->
  R (sc_put ss (plevel a p) n x) (a_write a p n (aval_of (Some x))).
Proof.
  intros HR Hup Hnew. pose proof (plevel_lt ss a p HR) as HL. destruct HR as ((Hinv & Hlg) & Hlen & Hpt).
  split; [split|split].
  - now apply inv_put_plain.
  - apply links_put; [exact HL|exact Hlg|]. intros l ->. discriminate.
  - unfold sc_put. rewrite length_update_nth, adepth_write. exact Hlen.
  - intros k n'. rewrite alevel_write, ent_put by exact HL.
    destruct (Nat.eqb k (plevel a p) && str_eqb n n'); [reflexivity|apply Hpt].
Qed.

Lemma R_del ss a p n : R ss a -> R (sc_del ss (plevel a p) n) (a_write a p n AUnset).
Proof.
  intros ((Hinv & Hlg) & Hlen & Hpt). split; [split|split].
  - now apply inv_del.
  - now apply links_del.
  - unfold sc_del. rewrite length_update_nth, adepth_write. exact Hlen.
  - intros k n'. rewrite alevel_write, ent_del by exact Hinv.
    destruct (Nat.eqb k (plevel a p) && str_eqb n n'); [reflexivity|apply Hpt].
Qed.

Lemma R_upvar ss a n : R ss a -> (0 < adepth a)%nat -> R (sc_upvar ss O n) (a_upd_cur a n ALink).
Proof.
  intros HR Hd. pose proof (R_current ss a HR) as Hc. pose proof (plevel_lt ss a PCur HR) as HL.
  cbn [plevel] in HL. destruct HR as ((Hinv & Hlg) & Hlen & Hpt). split; [split|split].
  - apply sc_upvar_global_inv; [exact Hinv|lia].
  - unfold sc_upvar. rewrite Hc. apply links_put; [exact HL|exact Hlg|]. intros l H. now injection H as <-.
  - unfold sc_upvar, sc_put. rewrite length_update_nth, adepth_upd_cur. exact Hlen.
  - intros k n'. unfold sc_upvar. rewrite Hc. rewrite alevel_upd_cur, ent_put by exact HL.
    destruct (Nat.eqb k (adepth a) && str_eqb n n'); [reflexivity|apply Hpt].
Qed.

Lemma R_push ss a : R ss a -> R (sc_push ss) (a_push a).
Proof.
  intros ((Hinv & Hlg) & Hlen & Hpt). split; [split|split].
  - now apply sc_push_inv.
  - intros k n l H. rewrite ent_push in H. exact (Hlg _ _ _ H).
  - unfold sc_push. rewrite app_length, adepth_push. cbn [length]. lia.
  - intros k n. rewrite alevel_push, ent_push. apply Hpt.
Qed.

Lemma R_pop ss a : R ss a -> (0 < adepth a)%nat -> R (sc_pop ss) (a_pop a).
Proof.
  intros ((Hinv & Hlg) & Hlen & Hpt) Hd. split; [split|split].
  - apply sc_pop_inv; [exact Hinv|lia].
  - intros k n l H. rewrite ent_pop in H. destruct (Nat.ltb k (pred (length ss))); [|discriminate].
    exact (Hlg _ _ _ H).
  - unfold sc_pop. rewrite length_removelast, adepth_pop. lia.
  - intros k n. rewrite alevel_pop, ent_pop. rewrite Hlen. cbn [pred].
    destruct (Nat.ltb_spec k (adepth a)) as [Hk|Hk]; cbn [orb]; [apply Hpt|].
    destruct (Nat.eqb_spec k O) as [->|Hk0]; [lia|reflexivity].
Qed.

(* ---------- resolution: the abstract place is the model's target level ---------- *)
Lemma R_resolve ss a n :
  R ss a ->
  sc_target ss n = plevel a (a_place a n) /\
  a_read a (a_place a n) n = aval_of (ent ss (sc_target ss n) n) /\
  sc_lookup ss n = ent ss (sc_target ss n) n /\
  (forall l, ent ss (sc_target ss n) n <> Some (VarUpvar l)) /\
  ent ss (sc_target ss n) n <> Some VarNew.
Proof.
  intros HR. pose proof (R_current ss a HR) as Hc. destruct HR as ((Hinv & Hlg) & Hlen & Hpt).
  destruct (target_facts ss n Hinv) as (HL & Hlk & Hnl & Hnn & Hcase).
  assert (acurf a n = aval_of (ent ss (sc_current ss) n)) as Hcur.
  { rewrite <- alevel_cur, Hc. apply Hpt. }
  assert (sc_target ss n = plevel a (a_place a n)) as Ht.
  { unfold a_place. rewrite Hcur. destruct Hcase as [[HLc Hun]|[Hlink Hlt]].
    - rewrite <- HLc.
      destruct (ent ss (sc_target ss n) n) as [[w|m|l|]|] eqn:E; cbn [aval_of plevel]; try congruence.
    - rewrite Hlink. cbn [aval_of plevel]. exact (Hlg _ _ _ Hlink). }
  split; [exact Ht|]. split; [|split; [exact Hlk|split; [exact Hnl|exact Hnn]]].
  rewrite a_read_level, <- Ht. apply Hpt.
Qed.

Lemma R_lookup ss a n : R ss a -> a_lookup a n = shape_of ss n.
Proof.
  intros HR. destruct (R_resolve ss a n HR) as (_ & Hrd & Hlk & _ & _).
  unfold a_lookup, shape_of. rewrite Hrd, Hlk.
  now destruct (ent ss (sc_target ss n) n) as [[w|m|l|]|].
Qed.

Lemma R_cur ss a n : R ss a -> acurf a n = aval_of (ent ss (sc_current ss) n).
Proof.
  intros HR. rewrite (R_current ss a HR). rewrite <- alevel_cur. apply HR.
Qed.

Lemma R_glob ss a n : R ss a -> glob a n = aval_of (ent ss O n).
Proof. intros HR. rewrite <- alevel_glob. apply HR. Qed.

(* ====================================================================== *)
(* 3. every operation of the model commutes with the abstraction          *)
(* ====================================================================== *)

Definition res_match {A} (r : res A) (ar : ares A) : Prop :=
  match ar with AOk x => r = Ok x | AErr m => r = err m end.

(* --- reads --- *)
Theorem get_refines ss a n : R ss a -> res_match (sc_get ss n) (a_get a n).
Proof.
  intros HR. rewrite sc_get_by_shape by apply HR. unfold a_get. rewrite (R_lookup ss a n HR).
  destruct (shape_of ss n); reflexivity.
Qed.

Theorem get_elem_refines ss a n i : R ss a -> res_match (sc_get_elem ss n i) (a_get_elem a n i).
Proof.
  intros HR. rewrite sc_get_elem_by_shape by apply HR. unfold a_get_elem. rewrite (R_lookup ss a n HR).
  destruct (shape_of ss n) as [|w|m]; try reflexivity. destruct (assoc_get i m); reflexivity.
Qed.

(* --- writes --- *)
Theorem set_refines ss a n v :
  R ss a ->
  R (fst (sc_set ss n v)) (fst (a_set a n v)) /\ res_match (snd (sc_set ss n v)) (snd (a_set a n v)).
Proof.
  intros HR. destruct (R_resolve ss a n HR) as (Ht & Hrd & _ & Hnl & Hnn).
  unfold sc_set, sc_set_at, a_set. fold (ent ss (sc_target ss n) n). cbv zeta. rewrite Hrd, Ht.
  rewrite Ht in Hnl, Hnn.
  destruct (ent ss (plevel a (a_place a n)) n) as [[w|m|l|]|] eqn:E; cbn [aval_of fst snd res_match].
  - split; [|reflexivity]. exact (R_put ss a _ n (VarScalar v) HR eq_refl ltac:(discriminate)).
  - split; [exact HR|reflexivity].
  - now elim (Hnl l).
  - now elim Hnn.
  - split; [|reflexivity]. exact (R_put ss a _ n (VarScalar v) HR eq_refl ltac:(discriminate)).
Qed.

Theorem set_global_refines ss a n v :
  R ss a ->
  R (fst (sc_set_global ss n v)) (fst (a_set_global a n v)) /\
  res_match (snd (sc_set_global ss n v)) (snd (a_set_global a n v)).
Proof.
  intros HR. pose proof (R_glob ss a n HR) as Hg. assert (scope_inv ss) as Hinv by apply HR.
  unfold sc_set_global, sc_set_at, a_set_global. fold (ent ss O n). rewrite Hg.
  destruct (ent ss O n) as [[w|m|l|]|] eqn:E; cbn [aval_of fst snd res_match].
  - split; [|reflexivity]. exact (R_put ss a PGlob n (VarScalar v) HR eq_refl ltac:(discriminate)).
  - split; [exact HR|reflexivity].
  - destruct (inv_link _ _ _ _ Hinv E) as [Hlt _]. lia.
  - elim (inv_entry _ _ _ _ Hinv E).
  - split; [|reflexivity]. exact (R_put ss a PGlob n (VarScalar v) HR eq_refl ltac:(discriminate)).
Qed.

Theorem set_elem_refines ss a n i v :
  R ss a ->
  R (fst (sc_set_elem ss n i v)) (fst (a_set_elem a n i v)) /\
  res_match (snd (sc_set_elem ss n i v)) (snd (a_set_elem a n i v)).
Proof.
  intros HR. destruct (R_resolve ss a n HR) as (Ht & Hrd & _ & Hnl & Hnn).
  unfold sc_set_elem, a_set_elem. fold (ent ss (sc_target ss n) n). cbv zeta. rewrite Hrd, Ht.
  rewrite Ht in Hnl, Hnn.
  destruct (ent ss (plevel a (a_place a n)) n) as [[w|m|l|]|] eqn:E; cbn [aval_of fst snd res_match].
  - split; [exact HR|reflexivity].
  - split; [|reflexivity]. exact (R_put ss a _ n (VarArray (assoc_set i v m)) HR eq_refl ltac:(discriminate)).
  - now elim (Hnl l).
  - now elim Hnn.
  - split; [|reflexivity]. exact (R_put ss a _ n (VarArray [(i, v)]) HR eq_refl ltac:(discriminate)).
Qed.

Theorem array_set_refines ss a n kv :
  R ss a ->
  R (fst (sc_array_set ss n kv)) (fst (a_array_set a n kv)) /\
  res_match (snd (sc_array_set ss n kv)) (snd (a_array_set a n kv)).
Proof.
  intros HR. destruct (R_resolve ss a n HR) as (Ht & Hrd & _ & Hnl & Hnn).
  unfold sc_array_set, a_array_set. fold (ent ss (sc_target ss n) n). cbv zeta. rewrite Hrd, Ht.
  rewrite Ht in Hnl, Hnn.
  destruct (ent ss (plevel a (a_place a n)) n) as [[w|m|l|]|] eqn:E; cbn [aval_of fst snd res_match].
  - split; [exact HR|reflexivity].
  - split; [|reflexivity]. exact (R_put ss a _ n (VarArray (insert_kvlist m kv)) HR eq_refl ltac:(discriminate)).
  - now elim (Hnl l).
  - now elim Hnn.
  - split; [|reflexivity]. exact (R_put ss a _ n (VarArray (insert_kvlist [] kv)) HR eq_refl ltac:(discriminate)).
Qed.

(* --- removals --- *)
Theorem unset_refines ss a n : R ss a -> R (sc_unset ss n) (a_unset a n).
Proof.
  intros HR. assert (scope_inv ss) as Hinv by apply HR. assert (links_global ss) as Hlg by apply HR.
  pose proof (R_cur ss a n HR) as Hcur. pose proof (R_current ss a HR) as Hc. unfold a_unset.
  destruct (target_facts ss n Hinv) as (_ & _ & _ & _ & [[HL Hun]|[Hlink Hlt]]).
  - rewrite (sc_unset_unlinked ss n Hun). rewrite Hc.
    assert (R (sc_del ss (adepth a) n) (a_upd_cur a n AUnset)) as H by exact (R_del ss a PCur n HR).
    rewrite Hcur. destruct (ent ss (sc_current ss) n) as [[w|m|l|]|] eqn:E; cbn [aval_of]; try exact H.
    now elim (Hun l).
  - rewrite (sc_unset_linked ss n _ Hinv Hlink). rewrite Hcur, Hlink. cbn [aval_of].
    rewrite (Hlg _ _ _ Hlink), Hc.
    pose proof (R_del ss a PGlob n HR) as H1. cbn [plevel a_write] in H1.
    exact (R_del _ _ PCur n H1).
Qed.

Lemma sc_array_unset_target ss n :
  scope_inv ss ->
  sc_array_unset ss n = match ent ss (sc_target ss n) n with
                        | Some (VarArray _) => sc_del ss (sc_target ss n) n
                        | _ => ss
                        end.
Proof.
  intros Hinv. pose proof (sc_target_spec ss n Hinv) as Ht. unfold spec_target in Ht.
  destruct (target_facts ss n Hinv) as (_ & _ & _ & _ & [[HL Hun]|[Hlink Hlt]]).
  - rewrite (sc_array_unset_unlinked ss n Hun). now rewrite HL.
  - rewrite (sc_array_unset_linked ss n _ Hinv Hlink). reflexivity.
Qed.

Theorem array_unset_refines ss a n : R ss a -> R (sc_array_unset ss n) (a_array_unset a n).
Proof.
  intros HR. destruct (R_resolve ss a n HR) as (Ht & Hrd & _ & _ & _).
  rewrite sc_array_unset_target by apply HR. unfold a_array_unset. cbv zeta. rewrite Hrd, Ht.
  destruct (ent ss (plevel a (a_place a n)) n) as [[w|m|l|]|] eqn:E; cbn [aval_of]; try exact HR.
  now apply R_del.
Qed.

Theorem unset_elem_refines ss a n i : R ss a -> R (sc_unset_element ss n i) (a_unset_elem a n i).
Proof.
  intros HR. destruct (R_resolve ss a n HR) as (Ht & Hrd & _ & _ & _).
  unfold sc_unset_element, a_unset_elem. fold (ent ss (sc_target ss n) n). cbv zeta. rewrite Hrd, Ht.
  destruct (ent ss (plevel a (a_place a n)) n) as [[w|m|l|]|] eqn:E; cbn [aval_of]; try exact HR.
  exact (R_put ss a _ n (VarArray (assoc_remove i m)) HR eq_refl ltac:(discriminate)).
Qed.

(* --- introspection --- *)
Theorem exists_refines ss a n : R ss a -> sc_exists ss n = a_exists a n.
Proof.
  intros HR. destruct (R_resolve ss a n HR) as (_ & Hrd & Hlk & Hnl & Hnn).
  unfold sc_exists, a_exists, a_lookup. rewrite Hrd, Hlk.
  destruct (ent ss (sc_target ss n) n) as [[w|m|l|]|]; try reflexivity; [now elim (Hnl l)|now elim Hnn].
Qed.

Theorem elem_exists_refines ss a n i : R ss a -> sc_elem_exists ss n i = a_elem_exists a n i.
Proof.
  intros HR. pose proof (get_elem_refines ss a n i HR) as H. unfold sc_elem_exists, a_elem_exists.
  destruct (a_get_elem a n i); cbn [res_match] in H; rewrite H; reflexivity.
Qed.

Theorem array_exists_refines ss a n : R ss a -> sc_array_exists ss n = a_array_exists a n.
Proof.
  intros HR. unfold sc_array_exists, a_array_exists. rewrite (R_lookup ss a n HR). unfold shape_of.
  now destruct (sc_lookup ss n) as [[w|m|l|]|].
Qed.

Theorem array_map_refines ss a n : R ss a -> sc_array_map ss n = a_array_get a n.
Proof. intros HR. rewrite sc_array_map_shape. unfold a_array_get. now rewrite (R_lookup ss a n HR). Qed.

(* --- global, call and return --- *)
(* one name of a `global` command, with cmd_global's guard *)
Definition m_global (ss : scopes) (n : str) : scopes :=
  if Nat.ltb 0 (sc_current ss) then sc_upvar ss O n else ss.

Theorem global_refines ss a n : R ss a -> R (m_global ss n) (a_global a n).
Proof.
  intros HR. unfold m_global, a_global. rewrite (R_current ss a HR). unfold adepth at 1.
  destruct (locals a) as [|f r] eqn:E; cbn [length Nat.ltb Nat.leb]; [exact HR|].
  apply R_upvar; [exact HR|]. unfold adepth. rewrite E. cbn [length]. lia.
Qed.

Theorem push_refines ss a : R ss a -> R (sc_push ss) (a_push a).
Proof. apply R_push. Qed.

Theorem pop_refines ss a : R ss a -> (0 < adepth a)%nat -> R (sc_pop ss) (a_pop a).
Proof. apply R_pop. Qed.

(* --- name listings --- *)
Lemma in_keys_assoc_get {A} n (m : list (str * A)) :
  In n (map fst m) <-> exists x, assoc_get n m = Some x.
Proof.
  induction m as [|[k x] m IH]; cbn [map fst In assoc_get].
  - split; [intros []|intros [x H]; discriminate].
  - destruct (str_eqb k n) eqn:E.
    + apply str_eqb_eq in E. split; [intros _; now exists x|intros _; now left].
    + rewrite IH. split; [intros [H|H]; [subst k; now rewrite str_eqb_refl in E|exact H]|intros H; now right].
Qed.

Lemma NoDup_keys_filter {A} (p : str * A -> bool) (m : list (str * A)) :
  NoDup (map fst m) -> NoDup (map fst (filter p m)).
Proof.
  induction m as [|kx m IH]; cbn [map filter]; intros Hnd; [constructor|].
  inversion Hnd as [|x l Hnotin Hnd']; subst. destruct (p kx); [|now apply IH].
  cbn [map]. constructor; [|now apply IH]. intros Hin. apply Hnotin.
  apply in_map_iff in Hin. destruct Hin as [q [Hq Hin]]. apply filter_In in Hin.
  apply in_map_iff. exists q. now split.
Qed.

Definition set_match (l : list str) (P : str -> Prop) : Prop := NoDup l /\ forall n, In n l <-> P n.

Lemma keys_level ss a k : R ss a ->
  set_match (map fst (sc_get_scope ss k)) (fun n => alevel a k n <> AUnset).
Proof.
  intros HR. assert (scope_inv ss) as Hinv by apply HR. split; [apply Hinv|]. intros n.
  rewrite in_keys_assoc_get. destruct HR as (_ & _ & Hpt). rewrite Hpt. unfold ent.
  destruct (assoc_get n (sc_get_scope ss k)) as [x|] eqn:E.
  - split; [|intros _; now exists x]. intros _.
    pose proof (inv_entry ss k n x Hinv E) as Hok. destruct x; cbn [aval_of]; try discriminate. elim Hok.
  - split; [intros [x H]; discriminate|intros H; now elim H].
Qed.

Theorem vars_refines ss a : R ss a -> set_match (sc_vars_in_scope ss) (a_vars a).
Proof.
  intros HR. unfold sc_vars_in_scope, a_vars. rewrite <- alevel_cur, <- (R_current ss a HR).
  now apply keys_level.
Qed.

Theorem globals_refines ss a : R ss a -> set_match (sc_vars_in_global ss) (a_globals a).
Proof. intros HR. unfold sc_vars_in_global, a_globals. rewrite <- alevel_glob. now apply keys_level. Qed.

Theorem locals_refines ss a : R ss a -> set_match (sc_vars_in_local ss) (a_locals a).
Proof.
  intros HR. assert (scope_inv ss) as Hinv by apply HR. split.
  - unfold sc_vars_in_local. destruct (sc_current ss); [constructor|].
    apply NoDup_keys_filter. apply Hinv.
  - intros n. rewrite vars_in_local_spec. unfold a_locals. rewrite (R_cur ss a n HR).
    pose proof (R_current ss a HR) as Hc. unfold adepth in Hc.
    assert ((0 < sc_current ss)%nat <-> locals a <> []) as Hd.
    { rewrite Hc. destruct (locals a); cbn [length]; split; try lia; try discriminate. intros H; now elim H. }
    rewrite Hd. unfold ent. split.
    + intros [H0 [x [Hin Hup]]]. split; [exact H0|].
      pose proof (proj2 (proj2 Hinv) _ _ _ Hin) as Hok.
      rewrite (In_assoc_get _ _ _ (proj1 (proj2 Hinv) _) Hin).
      destruct x; cbn [aval_of]; try discriminate; try (split; discriminate). elim Hok.
    + intros [H0 [H1 H2]]. split; [exact H0|].
      destruct (assoc_get n (sc_get_scope ss (sc_current ss))) as [x|] eqn:E; [|now elim H1].
      exists x. split; [now apply assoc_get_In|]. destruct x; try reflexivity. now elim H2.
Qed.

(* ====================================================================== *)
(* 4. sequences of operations                                             *)
(* ====================================================================== *)

Inductive op :=
| OSet (n : str) (v : value)
| OSetElem (n i : str) (v : value)
| OSetGlobal (n : str) (v : value)          (* host side: Interp::set_scalar at level 0 *)
| OArraySet (n : str) (kv : list value)
| OGet (n : str)
| OGetElem (n i : str)
| OUnset (n : str)
| OUnsetElem (n i : str)
| OArrayUnset (n : str)
| OExists (n : str)
| OElemExists (n i : str)
| OArrayExists (n : str)
| OArrayGet (n : str)
| OArraySize (n : str)
| OArrayNames (n : str)
| OGlobal (n : str)                         (* one name of a `global` command *)
| OPush                                     (* procedure entry *)
| OPop                                      (* procedure return *)
| OVars | OLocals | OGlobals.

(* what an operation shows to its caller *)
Inductive mout :=
| MUnit (r : res unit)
| MVal (r : res value)
| MBool (b : bool)
| MNat (k : nat)
| MMap (m : list (str * value))
| MNames (l : list str)
| MNone.

Inductive aout :=
| AUnitR (r : ares unit)
| AValR (r : ares value)
| ABool (b : bool)
| ANat (k : nat)
| AMap (m : list (str * value))
| ANames (l : list str)
| ASet (P : str -> Prop)
| ANone.

Definition out_match (mo : mout) (ao : aout) : Prop :=
  match mo, ao with
  | MUnit r, AUnitR ar => res_match r ar
  | MVal r, AValR ar => res_match r ar
  | MBool b, ABool b' => b = b'
  | MNat k, ANat k' => k = k'
  | MMap m, AMap m' => m = m'
  | MNames l, ANames l' => l = l'
  | MNames l, ASet P => set_match l P
  | MNone, ANone => True
  | _, _ => False
  end.

(* the model: exactly the functions of Model/State.v (array size / names / get computed from
   sc_array_map as cmd_array does; `global` guarded as cmd_global does) *)
Definition m_step (ss : scopes) (o : op) : scopes * mout :=
  match o with
  | OSet n v => let '(ss', r) := sc_set ss n v in (ss', MUnit r)
  | OSetElem n i v => let '(ss', r) := sc_set_elem ss n i v in (ss', MUnit r)
  | OSetGlobal n v => let '(ss', r) := sc_set_global ss n v in (ss', MUnit r)
  | OArraySet n kv => let '(ss', r) := sc_array_set ss n kv in (ss', MUnit r)
  | OGet n => (ss, MVal (sc_get ss n))
  | OGetElem n i => (ss, MVal (sc_get_elem ss n i))
  | OUnset n => (sc_unset ss n, MNone)
  | OUnsetElem n i => (sc_unset_element ss n i, MNone)
  | OArrayUnset n => (sc_array_unset ss n, MNone)
  | OExists n => (ss, MBool (sc_exists ss n))
  | OElemExists n i => (ss, MBool (sc_elem_exists ss n i))
  | OArrayExists n => (ss, MBool (sc_array_exists ss n))
  | OArrayGet n => (ss, MMap (sc_array_map ss n))
  | OArraySize n => (ss, MNat (length (sc_array_map ss n)))
  | OArrayNames n => (ss, MNames (map fst (sc_array_map ss n)))
  | OGlobal n => (m_global ss n, MNone)
  | OPush => (sc_push ss, MNone)
  | OPop => (sc_pop ss, MNone)
  | OVars => (ss, MNames (sc_vars_in_scope ss))
  | OLocals => (ss, MNames (sc_vars_in_local ss))
  | OGlobals => (ss, MNames (sc_vars_in_global ss))
  end.

Definition a_step (a : astate) (o : op) : astate * aout :=
  match o with
  | OSet n v => let '(a', r) := a_set a n v in (a', AUnitR r)
  | OSetElem n i v => let '(a', r) := a_set_elem a n i v in (a', AUnitR r)
  | OSetGlobal n v => let '(a', r) := a_set_global a n v in (a', AUnitR r)
  | OArraySet n kv => let '(a', r) := a_array_set a n kv in (a', AUnitR r)
  | OGet n => (a, AValR (a_get a n))
  | OGetElem n i => (a, AValR (a_get_elem a n i))
  | OUnset n => (a_unset a n, ANone)
  | OUnsetElem n i => (a_unset_elem a n i, ANone)
  | OArrayUnset n => (a_array_unset a n, ANone)
  | OExists n => (a, ABool (a_exists a n))
  | OElemExists n i => (a, ABool (a_elem_exists a n i))
  | OArrayExists n => (a, ABool (a_array_exists a n))
  | OArrayGet n => (a, AMap (a_array_get a n))
  | OArraySize n => (a, ANat (a_array_size a n))
  | OArrayNames n => (a, ANames (a_array_names a n))
  | OGlobal n => (a_global a n, ANone)
  | OPush => (a_push a, ANone)
  | OPop => (a_pop a, ANone)
  | OVars => (a, ASet (a_vars a))
  | OLocals => (a, ASet (a_locals a))
  | OGlobals => (a, ASet (a_globals a))
  end.

(* the only side condition: a return needs a call to return from *)
Definition op_ok (d : nat) (o : op) : Prop := match o with OPop => (0 < d)%nat | _ => True end.

Theorem step_refines ss a o :
  R ss a -> op_ok (adepth a) o ->
  R (fst (m_step ss o)) (fst (a_step a o)) /\ out_match (snd (m_step ss o)) (snd (a_step a o)).
Proof.
  intros HR Hok. destruct o as [n v|n i v|n v|n kv|n|n i|n|n i|n|n|n i|n|n|n|n|n| | | | |];
    cbn [m_step a_step op_ok] in *.
  - pose proof (set_refines ss a n v HR) as H.
    destruct (sc_set ss n v), (a_set a n v). exact H.
  - pose proof (set_elem_refines ss a n i v HR) as H.
    destruct (sc_set_elem ss n i v), (a_set_elem a n i v). exact H.
  - pose proof (set_global_refines ss a n v HR) as H.
    destruct (sc_set_global ss n v), (a_set_global a n v). exact H.
  - pose proof (array_set_refines ss a n kv HR) as H.
    destruct (sc_array_set ss n kv), (a_array_set a n kv). exact H.
  - split; [exact HR|]. now apply get_refines.
  - split; [exact HR|]. now apply get_elem_refines.
  - split; [now apply unset_refines|exact I].
  - split; [now apply unset_elem_refines|exact I].
  - split; [now apply array_unset_refines|exact I].
  - split; [exact HR|]. now apply exists_refines.
  - split; [exact HR|]. now apply elem_exists_refines.
  - split; [exact HR|]. now apply array_exists_refines.
  - split; [exact HR|]. now apply array_map_refines.
  - split; [exact HR|]. cbn [snd out_match]. unfold a_array_size. now rewrite (array_map_refines ss a n HR).
  - split; [exact HR|]. cbn [snd out_match]. unfold a_array_names. now rewrite (array_map_refines ss a n HR).
  - split; [now apply global_refines|exact I].
  - split; [now apply push_refines|exact I].
  - split; [now apply pop_refines|exact I].
  - split; [exact HR|]. now apply vars_refines.
  - split; [exact HR|]. now apply locals_refines.
  - split; [exact HR|]. now apply globals_refines.
Qed.

(* the commuting square in terms of [abs]: for each operation, under the invariant, the result (or
   the error and its message) is the abstract one, [abs] of the new stack is the abstract new
   state, and the invariant is kept *)
Corollary step_refines_abs ss o :
  winv ss -> (o = OPop -> (2 <= length ss)%nat) ->
  winv (fst (m_step ss o)) /\
  aeq (abs (fst (m_step ss o))) (fst (a_step (abs ss) o)) /\
  out_match (snd (m_step ss o)) (snd (a_step (abs ss) o)).
Proof.
  intros Hw Hpop. pose proof (R_abs ss Hw) as HR.
  assert (op_ok (adepth (abs ss)) o) as Hok.
  { destruct o; try exact I. cbn [op_ok]. destruct HR as (_ & Hlen & _). specialize (Hpop eq_refl). lia. }
  destruct (step_refines ss (abs ss) o HR Hok) as [HR' Hout].
  apply R_iff_abs in HR'. destruct HR' as [Hw' Heq]. split; [exact Hw'|split; [exact Heq|exact Hout]].
Qed.
Print Assumptions step_refines_abs.

Fixpoint run_ops (ss : scopes) (ops : list op) : scopes * list mout :=
  match ops with
  | [] => (ss, [])
  | o :: r => let '(ss1, x) := m_step ss o in let '(ss2, xs) := run_ops ss1 r in (ss2, x :: xs)
  end.

Fixpoint a_run_ops (a : astate) (ops : list op) : astate * list aout :=
  match ops with
  | [] => (a, [])
  | o :: r => let '(a1, x) := a_step a o in let '(a2, xs) := a_run_ops a1 r in (a2, x :: xs)
  end.

(* every return has a call to return from, along the abstract run *)
Fixpoint ops_ok (a : astate) (ops : list op) : Prop :=
  match ops with
  | [] => True
  | o :: r => op_ok (adepth a) o /\ ops_ok (fst (a_step a o)) r
  end.

(* the same, by counting: [d] is the number of active calls *)
Fixpoint balanced_from (d : nat) (ops : list op) : Prop :=
  match ops with
  | [] => True
  | OPop :: r => (0 < d)%nat /\ balanced_from (pred d) r
  | OPush :: r => balanced_from (S d) r
  | _ :: r => balanced_from d r
  end.

Lemma adepth_step a o :
  adepth (fst (a_step a o)) = match o with OPush => S (adepth a) | OPop => pred (adepth a) | _ => adepth a end.
Proof.
  destruct o as [n v|n i v|n v|n kv|n|n i|n|n i|n|n|n i|n|n|n|n|n| | | | |]; cbn [a_step fst]; try reflexivity.
  - unfold a_set. cbv zeta. destruct (a_read a (a_place a n) n); cbn [fst]; now rewrite ?adepth_write.
  - unfold a_set_elem. cbv zeta. destruct (a_read a (a_place a n) n); cbn [fst]; now rewrite ?adepth_write.
  - unfold a_set_global. destruct (glob a n); cbn [fst]; reflexivity.
  - unfold a_array_set. cbv zeta. destruct (a_read a (a_place a n) n); cbn [fst]; now rewrite ?adepth_write.
  - unfold a_unset. destruct (acurf a n); now rewrite ?adepth_upd_cur.
  - unfold a_unset_elem. cbv zeta. destruct (a_read a (a_place a n) n); now rewrite ?adepth_write.
  - unfold a_array_unset. cbv zeta. destruct (a_read a (a_place a n) n); now rewrite ?adepth_write.
  - unfold a_global. destruct (locals a) eqn:E; [reflexivity|apply adepth_upd_cur].
  - apply adepth_pop.
Qed.

Lemma balanced_ops_ok ops : forall a, balanced_from (adepth a) ops -> ops_ok a ops.
Proof.
  induction ops as [|o r IH]; intros a Hb; cbn [ops_ok]; [exact I|].
  pose proof (adepth_step a o) as Hd.
  destruct o; cbn [balanced_from op_ok] in *; try (split; [exact I|apply IH; now rewrite Hd]).
  destruct Hb as [H0 Hb]. split; [exact H0|]. apply IH. now rewrite Hd.
Qed.

(* THE REFINEMENT THEOREM: from related states, every sequence of operations produces matching
   outputs, one by one, and ends in related states (so the invariant holds all along) *)
Theorem run_refines : forall ops ss a,
  R ss a -> ops_ok a ops ->
  R (fst (run_ops ss ops)) (fst (a_run_ops a ops)) /\
  Forall2 out_match (snd (run_ops ss ops)) (snd (a_run_ops a ops)).
Proof.
  induction ops as [|o r IH]; intros ss a HR Hok; cbn [run_ops a_run_ops fst snd].
  - split; [exact HR|constructor].
  - cbn [ops_ok] in Hok. destruct Hok as [Ho Hr].
    destruct (step_refines ss a o HR Ho) as [HR1 Hout].
    destruct (m_step ss o) as [ss1 x]. destruct (a_step a o) as [a1 y]. cbn [fst snd] in *.
    destruct (IH ss1 a1 HR1 Hr) as [HR2 Houts].
    destruct (run_ops ss1 r) as [ss2 xs]. destruct (a_run_ops a1 r) as [a2 ys]. cbn [fst snd] in *.
    split; [exact HR2|]. now constructor.
Qed.
Print Assumptions run_refines.

(* in the words of the task: under the invariant, the run from [ss] refines the run from [abs ss] *)
Corollary run_refines_abs ops ss :
  winv ss -> ops_ok (abs ss) ops ->
  winv (fst (run_ops ss ops)) /\
  aeq (abs (fst (run_ops ss ops))) (fst (a_run_ops (abs ss) ops)) /\
  Forall2 out_match (snd (run_ops ss ops)) (snd (a_run_ops (abs ss) ops)).
Proof.
  intros Hw Hok. destruct (run_refines ops ss (abs ss) (R_abs ss Hw) Hok) as [HR Hout].
  apply R_iff_abs in HR. destruct HR as [Hw' Heq]. split; [exact Hw'|split; [exact Heq|exact Hout]].
Qed.
Print Assumptions run_refines_abs.

(* from the initial interpreter state *)
Corollary run_refines_init ops :
  balanced_from O ops ->
  R (fst (run_ops [[]] ops)) (fst (a_run_ops a_init ops)) /\
  Forall2 out_match (snd (run_ops [[]] ops)) (snd (a_run_ops a_init ops)).
Proof.
  intros Hb. apply run_refines; [apply R_init|]. now apply balanced_ops_ok.
Qed.
Print Assumptions run_refines_init.

(* ====================================================================== *)
(* 5. property C07, sentence by sentence                                  *)
(* ====================================================================== *)

(* the states the interpreter can be in: any operation sequence from the initial stack in which
   every return has a call *)
Definition reachable (ss : scopes) : Prop :=
  exists ops, balanced_from O ops /\ ss = fst (run_ops [[]] ops).

Theorem reachable_R ss :
  reachable ss -> exists ops, ss = fst (run_ops [[]] ops) /\ R ss (fst (a_run_ops a_init ops)).
Proof.
  intros [ops [Hb ->]]. exists ops. split; [reflexivity|]. now apply run_refines_init.
Qed.

Theorem reachable_winv ss : reachable ss -> winv ss.
Proof. intros H. destruct (reachable_R ss H) as [ops [_ HR]]. apply HR. Qed.
Print Assumptions reachable_winv.

(* ---------- 5.1 "each variable name in each scope is exactly one of: unset, a scalar, or an
   array" ---------- *)

(* in every frame the stored entry is a scalar, an array, a link to the global frame, or absent;
   the placeholder Var::New never survives an operation *)
Theorem one_entry_kind ss k n :
  winv ss ->
  ent ss k n = None \/ (exists v, ent ss k n = Some (VarScalar v)) \/
  (exists m, ent ss k n = Some (VarArray m)) \/ (ent ss k n = Some (VarUpvar O) /\ (0 < k)%nat).
Proof.
  intros [Hinv Hlg]. destruct (ent ss k n) as [[v|m|l|]|] eqn:E.
  - right. left. now exists v.
  - right. right. left. now exists m.
  - right. right. right. rewrite (Hlg _ _ _ E). split; [reflexivity|].
    destruct (inv_link _ _ _ _ Hinv E) as [Hlt _]. lia.
  - elim (inv_entry _ _ _ _ Hinv E).
  - now left.
Qed.

(* and seen through the operations: the three observable cases exclude each other *)
Theorem one_shape_observed ss n :
  winv ss ->
  (sc_exists ss n = false /\ sc_array_exists ss n = false /\ sc_array_map ss n = [] /\
   sc_get ss n = err (msg_no_such n) /\ forall i, sc_get_elem ss n i = err (msg_no_such n)) \/
  (exists v, sc_exists ss n = true /\ sc_array_exists ss n = false /\ sc_array_map ss n = [] /\
   sc_get ss n = Ok v /\ forall i, sc_get_elem ss n i = err (msg_isnt_array n i)) \/
  (exists m, sc_exists ss n = true /\ sc_array_exists ss n = true /\ sc_array_map ss n = m /\
   sc_get ss n = err (msg_is_array n) /\
   forall i, sc_get_elem ss n i = match assoc_get i m with Some v => Ok v | None => err (msg_no_elem n i) end).
Proof.
  intros Hw. pose proof (R_abs ss Hw) as HR. set (a := abs ss) in *.
  rewrite (exists_refines ss a n HR), (array_exists_refines ss a n HR), (array_map_refines ss a n HR).
  pose proof (get_refines ss a n HR) as Hg.
  assert (forall i, res_match (sc_get_elem ss n i) (a_get_elem a n i)) as Hge
    by (intros i; now apply get_elem_refines).
  unfold a_exists, a_array_exists, a_array_get, a_get, a_get_elem in *.
  destruct (a_lookup a n) as [|v|m]; cbn [res_match] in Hg.
  - left. repeat split; try reflexivity; [exact Hg|]. intros i. exact (Hge i).
  - right. left. exists v. repeat split; try reflexivity; [exact Hg|]. intros i. exact (Hge i).
  - right. right. exists m. repeat split; try reflexivity; [exact Hg|]. intros i. specialize (Hge i).
    destruct (assoc_get i m); exact Hge.
Qed.
Print Assumptions one_shape_observed.

(* ---------- the form of one abstract step ---------- *)
Definition op_name (o : op) : option str :=
  match o with
  | OSet n _ | OSetElem n _ _ | OSetGlobal n _ | OArraySet n _ | OGet n | OGetElem n _ | OUnset n
  | OUnsetElem n _ | OArrayUnset n | OExists n | OElemExists n _ | OArrayExists n | OArrayGet n
  | OArraySize n | OArrayNames n | OGlobal n => Some n
  | _ => None
  end.

Lemma NoDup_insert_kvlist kv : forall m, NoDup (map fst m) -> NoDup (map fst (insert_kvlist m kv)).
Proof.
  assert (forall kv : list value,
            (forall m, NoDup (map fst m) -> NoDup (map fst (insert_kvlist m kv))) /\
            (forall x m, NoDup (map fst m) -> NoDup (map fst (insert_kvlist m (x :: kv))))) as H.
  { intros kv0; induction kv0 as [|y r [IH1 IH2]]; split.
    - intros m Hm. exact Hm.
    - intros x m Hm. exact Hm.
    - exact (IH2 y).
    - intros x m Hm. cbn [insert_kvlist]. apply IH1. now apply NoDup_assoc_set. }
  exact (proj1 (H kv)).
Qed.

Inductive step_shape (a : astate) (o : op) : astate -> Prop :=
| SS_same : step_shape a o a
| SS_write n x :
    op_name o = Some n -> x <> ALink ->
    (forall m, x = AArray m ->
       (forall m0, a_read a (a_place a n) n = AArray m0 -> NoDup (map fst m0)) -> NoDup (map fst m)) ->
    step_shape a o (a_write a (a_place a n) n x)
| SS_set_global n v : o = OSetGlobal n v -> step_shape a o (a_upd_glob a n (AScalar v))
| SS_global n : o = OGlobal n -> locals a <> [] -> step_shape a o (a_upd_cur a n ALink)
| SS_unset_link n :
    op_name o = Some n -> acurf a n = ALink ->
    step_shape a o (a_upd_cur (a_upd_glob a n AUnset) n AUnset)
| SS_push : o = OPush -> step_shape a o (a_push a)
| SS_pop : o = OPop -> step_shape a o (a_pop a).

Ltac arr_side E :=
  let m' := fresh "m'" in let Hx' := fresh "Hx'" in let Hold := fresh "Hold" in
  intros m' Hx' Hold; try discriminate Hx'; injection Hx' as <-;
  first [ apply NoDup_assoc_set; apply (Hold _ E)
        | apply NoDup_assoc_remove; apply (Hold _ E)
        | apply NoDup_insert_kvlist; apply (Hold _ E)
        | apply NoDup_insert_kvlist; constructor
        | cbn [map fst]; constructor; [intros []|constructor] ].

Lemma a_step_shape a o : step_shape a o (fst (a_step a o)).
Proof.
  destruct o as [n v|n i v|n v|n kv|n|n i|n|n i|n|n|n i|n|n|n|n|n| | | | |]; cbn [a_step fst];
    try apply SS_same.
  - unfold a_set. cbv zeta. destruct (a_read a (a_place a n) n) eqn:E; cbn [fst];
      try apply SS_same; (apply SS_write; [reflexivity|discriminate|arr_side E]).
  - unfold a_set_elem. cbv zeta. destruct (a_read a (a_place a n) n) eqn:E; cbn [fst];
      try apply SS_same; (apply SS_write; [reflexivity|discriminate|arr_side E]).
  - unfold a_set_global. destruct (glob a n); cbn [fst]; try apply SS_same; now eapply SS_set_global.
  - unfold a_array_set. cbv zeta. destruct (a_read a (a_place a n) n) eqn:E; cbn [fst];
      try apply SS_same; (apply SS_write; [reflexivity|discriminate|arr_side E]).
  - unfold a_unset. destruct (acurf a n) eqn:E; try (now apply SS_unset_link);
      (replace (a_upd_cur a n AUnset) with (a_write a (a_place a n) n AUnset)
         by (unfold a_place; rewrite E; reflexivity));
      (apply SS_write; [reflexivity|discriminate|intros m' Hx' _; discriminate Hx']).
  - unfold a_unset_elem. cbv zeta. destruct (a_read a (a_place a n) n) eqn:E;
      try apply SS_same; (apply SS_write; [reflexivity|discriminate|arr_side E]).
  - unfold a_array_unset. cbv zeta. destruct (a_read a (a_place a n) n) eqn:E;
      try apply SS_same; (apply SS_write; [reflexivity|discriminate|arr_side E]).
  - unfold a_global. destruct (locals a) eqn:E; [apply SS_same|].
    apply SS_global with (n := n); [reflexivity|]. rewrite E. discriminate.
  - now apply SS_push.
  - now apply SS_pop.
Qed.

Lemma alevel_write_other a p n0 x k n : n0 <> n -> alevel (a_write a p n0 x) k n = alevel a k n.
Proof. intros Hne. rewrite alevel_write. rewrite (str_eqb_neq _ _ Hne). now rewrite andb_false_r. Qed.

Lemma str_dec (n n' : str) : {n = n'} + {n <> n'}.
Proof. apply (list_eq_dec N.eq_dec). Qed.

(* ---------- 5.2 "reads return the last value written" ---------- *)

(* what a name denotes depends on its own entries only *)
Lemma a_lookup_level a n :
  a_lookup a n
  = shape_of_aval (match alevel a (adepth a) n with ALink => alevel a O n | x => x end).
Proof.
  unfold a_lookup, a_place. rewrite alevel_cur. destruct (acurf a n) eqn:E; cbn [a_read alevel]; now rewrite ?E.
Qed.

Definition same_at (n : str) (a a' : astate) : Prop :=
  adepth a' = adepth a /\ forall k, alevel a' k n = alevel a k n.

Lemma same_at_lookup n a a' : same_at n a a' -> a_lookup a' n = a_lookup a n.
Proof. intros [Hd Hl]. rewrite !a_lookup_level. now rewrite Hd, !Hl. Qed.

(* an operation that is about another name, and is neither a call nor a return *)
Definition untouched (n : str) (o : op) : Prop := op_name o <> Some n /\ o <> OPush /\ o <> OPop.

Lemma step_untouched n a o : untouched n o -> same_at n a (fst (a_step a o)).
Proof.
  intros (Hname & Hpush & Hpop). pose proof (adepth_step a o) as Hd.
  assert (adepth (fst (a_step a o)) = adepth a) as Hd'.
  { rewrite Hd. destruct o; try reflexivity; congruence. }
  split; [exact Hd'|]. intros k. clear Hd Hd'.
  destruct (a_step_shape a o) as [|n0 x Hn0 Hx Harr|n0 v Ho|n0 Ho Hl|n0 Hn0 Hc|Ho|Ho]; try congruence.
  - apply alevel_write_other. congruence.
  - subst o. cbn [op_name] in Hname. change (a_upd_glob a n0 (AScalar v)) with (a_write a PGlob n0 (AScalar v)).
    apply alevel_write_other. congruence.
  - subst o. cbn [op_name] in Hname. change (a_upd_cur a n0 ALink) with (a_write a PCur n0 ALink).
    apply alevel_write_other. congruence.
  - change (a_upd_cur (a_upd_glob a n0 AUnset) n0 AUnset)
      with (a_write (a_write a PGlob n0 AUnset) PCur n0 AUnset).
    rewrite !alevel_write_other by congruence. reflexivity.
Qed.

Lemma run_untouched n ops : forall a, Forall (untouched n) ops -> same_at n a (fst (a_run_ops a ops)).
Proof.
  induction ops as [|o r IH]; intros a Hall; cbn [a_run_ops fst]; [split; reflexivity|].
  inversion Hall as [|o' r' Ho Hr]; subst. pose proof (step_untouched n a o Ho) as [Hd1 Hl1].
  destruct (a_step a o) as [a1 y]. cbn [fst] in *. destruct (IH a1 Hr) as [Hd2 Hl2].
  destruct (a_run_ops a1 r) as [a2 ys]. cbn [fst] in *. split; [congruence|].
  intros k. now rewrite Hl2.
Qed.

Lemma untouched_ops_ok n ops : forall a, Forall (untouched n) ops -> ops_ok a ops.
Proof.
  induction ops as [|o r IH]; intros a Hall; cbn [ops_ok]; [exact I|].
  inversion Hall as [|o' r' Ho Hr]; subst. split; [|now apply IH].
  destruct Ho as (_ & _ & Hpop). destruct o; try exact I. congruence.
Qed.

Lemma a_set_lookup a n v a1 : a_set a n v = (a1, AOk tt) -> a_lookup a1 n = Scalar v.
Proof.
  unfold a_set. cbv zeta. intros H.
  assert (a1 = a_write a (a_place a n) n (AScalar v)) as ->.
  { destruct (a_read a (a_place a n) n); now inversion H. }
  rewrite a_lookup_level, adepth_write, !alevel_write, str_eqb_refl, !andb_true_r.
  unfold a_place. destruct (acurf a n) eqn:E; cbn [plevel]; rewrite ?Nat.eqb_refl; try reflexivity.
  destruct (Nat.eqb (adepth a) O); [reflexivity|]. now rewrite alevel_cur, E.
Qed.

Theorem last_write_abs a n v a1 ops :
  a_set a n v = (a1, AOk tt) -> Forall (untouched n) ops -> a_get (fst (a_run_ops a1 ops)) n = AOk v.
Proof.
  intros Hset Hall. unfold a_get. rewrite (same_at_lookup n a1 _ (run_untouched n ops a1 Hall)).
  now rewrite (a_set_lookup a n v a1 Hset).
Qed.

Lemma res_match_ok {A} (x : A) ar : res_match (Ok x) ar -> ar = AOk x.
Proof. destruct ar; cbn [res_match]; intros H; [now injection H as ->|discriminate]. Qed.

(* the model: a successful set, then any operations on other names; the read returns the value *)
Theorem last_write ss n v ss1 ops :
  winv ss -> sc_set ss n v = (ss1, Ok tt) -> Forall (untouched n) ops ->
  sc_get (fst (run_ops ss1 ops)) n = Ok v.
Proof.
  intros Hw Hset Hall. pose proof (set_refines ss (abs ss) n v (R_abs ss Hw)) as [HR1 Hm].
  rewrite Hset in HR1, Hm. cbn [fst snd] in HR1, Hm. apply res_match_ok in Hm.
  destruct (a_set (abs ss) n v) as [a1 r] eqn:Ha. cbn [fst snd] in *. subst r.
  destruct (run_refines ops ss1 a1 HR1 (untouched_ops_ok n ops a1 Hall)) as [HR2 _].
  pose proof (get_refines _ _ n HR2) as Hg.
  now rewrite (last_write_abs _ n v a1 ops Ha Hall) in Hg.
Qed.
Print Assumptions last_write.

(* the same for array elements *)
Lemma a_set_elem_lookup a n i v a1 :
  a_set_elem a n i v = (a1, AOk tt) ->
  a_lookup a1 n = Array (assoc_set i v (match a_lookup a n with Array m => m | _ => [] end)).
Proof.
  unfold a_set_elem. cbv zeta. intros H.
  assert (exists m', a1 = a_write a (a_place a n) n (AArray (assoc_set i v m')) /\
                     m' = match a_lookup a n with Array m => m | _ => [] end) as (m' & -> & Hm').
  { unfold a_lookup. destruct (a_read a (a_place a n) n) as [|w|m|]; inversion H; subst.
    - now exists [].
    - now exists m.
    - now exists []. }
  rewrite <- Hm'. clear Hm' H.
  rewrite a_lookup_level, adepth_write, !alevel_write, str_eqb_refl, !andb_true_r.
  unfold a_place. destruct (acurf a n) eqn:E; cbn [plevel]; rewrite ?Nat.eqb_refl; try reflexivity.
  destruct (Nat.eqb (adepth a) O); [reflexivity|]. now rewrite alevel_cur, E.
Qed.

Theorem last_elem_write_abs a n i v a1 ops :
  a_set_elem a n i v = (a1, AOk tt) -> Forall (untouched n) ops ->
  a_get_elem (fst (a_run_ops a1 ops)) n i = AOk v /\
  forall i', i' <> i -> a_get_elem (fst (a_run_ops a1 ops)) n i' =
                        match a_lookup a n with
                        | Array m => a_get_elem a n i'
                        | _ => AErr (msg_no_elem n i')
                        end.
Proof.
  intros Hset Hall. unfold a_get_elem. rewrite (same_at_lookup n a1 _ (run_untouched n ops a1 Hall)).
  rewrite (a_set_elem_lookup a n i v a1 Hset). split.
  - now rewrite assoc_get_set_same.
  - intros i' Hne. rewrite assoc_get_set_other by congruence.
    destruct (a_lookup a n) as [|w|m]; reflexivity.
Qed.

Theorem last_elem_write ss n i v ss1 ops :
  winv ss -> sc_set_elem ss n i v = (ss1, Ok tt) -> Forall (untouched n) ops ->
  sc_get_elem (fst (run_ops ss1 ops)) n i = Ok v.
Proof.
  intros Hw Hset Hall. pose proof (set_elem_refines ss (abs ss) n i v (R_abs ss Hw)) as [HR1 Hm].
  rewrite Hset in HR1, Hm. cbn [fst snd] in HR1, Hm. apply res_match_ok in Hm.
  destruct (a_set_elem (abs ss) n i v) as [a1 r] eqn:Ha. cbn [fst snd] in *. subst r.
  destruct (run_refines ops ss1 a1 HR1 (untouched_ops_ok n ops a1 Hall)) as [HR2 _].
  pose proof (get_elem_refines _ _ n i HR2) as Hg.
  now rewrite (proj1 (last_elem_write_abs _ n i v a1 ops Ha Hall)) in Hg.
Qed.
Print Assumptions last_elem_write.

(* ---------- 5.3 "procedure locals are invisible outside the call and vanish when it
   returns" ---------- *)

(* number of active calls after the sequence, starting from [d] *)
Fixpoint depth_after (d : nat) (ops : list op) : nat :=
  match ops with
  | [] => d
  | OPush :: r => depth_after (S d) r
  | OPop :: r => depth_after (pred d) r
  | _ :: r => depth_after d r
  end.

Lemma balanced_mono ops : forall d d', (d <= d')%nat -> balanced_from d ops -> balanced_from d' ops.
Proof.
  induction ops as [|o r IH]; intros d d' Hle Hb; [exact I|].
  destruct o; cbn [balanced_from] in *; try (now apply (IH d d')).
  - apply (IH (S d) (S d')); [lia|exact Hb].
  - destruct Hb as [H0 Hb]. split; [lia|]. apply (IH (pred d) (pred d')); [lia|exact Hb].
Qed.

(* a fresh frame sees nothing: neither the caller's variables nor the globals *)
Theorem push_hides a n : a_lookup (a_push a) n = Unset.
Proof. reflexivity. Qed.

Theorem push_hides_model ss n : winv ss -> sc_exists (sc_push ss) n = false.
Proof.
  intros Hw. pose proof (R_push ss _ (R_abs ss Hw)) as HR. now rewrite (exists_refines _ _ n HR).
Qed.

(* one step never touches the frames below the current one *)
Lemma step_keeps_base a o a' l' base :
  step_shape a o a' -> locals a = l' ++ base -> l' <> [] -> (o = OPop -> (2 <= length l')%nat) ->
  exists l'', locals a' = l'' ++ base.
Proof.
  intros Hs Hl Hne Hpop. destruct l' as [|f r]; [contradiction|]. cbn [app] in Hl.
  assert (forall b n x, locals b = (f :: r) ++ base -> exists l'', locals (a_upd_cur b n x) = l'' ++ base) as Hcur.
  { intros b n x Hb. unfold a_upd_cur. rewrite Hb. cbn [app locals]. now exists (fupd f n x :: r). }
  assert (forall b p n x, locals b = (f :: r) ++ base -> exists l'', locals (a_write b p n x) = l'' ++ base) as Hw.
  { intros b [|] n x Hb; cbn [a_write]; [now apply Hcur|]. cbn [a_upd_glob locals]. now exists (f :: r). }
  destruct Hs as [|n0 x Hn0 Hx Harr|n0 v Ho|n0 Ho Hl0|n0 Hn0 Hc|Ho|Ho].
  - now exists (f :: r).
  - now apply Hw.
  - cbn [a_upd_glob locals]. now exists (f :: r).
  - now apply Hcur.
  - apply Hcur. exact Hl.
  - cbn [a_push locals]. rewrite Hl. now exists (aempty :: f :: r).
  - cbn [a_pop locals]. rewrite Hl. cbn [tl]. now exists r.
Qed.

Lemma adepth_step_counted a o d lb :
  adepth a = (S d + lb)%nat -> op_ok d o ->
  adepth (fst (a_step a o)) = (S (match o with OPush => S d | OPop => pred d | _ => d end) + lb)%nat.
Proof.
  intros Hd Hok. rewrite adepth_step. destruct o; cbn [op_ok] in Hok; lia.
Qed.

Theorem caller_frames_kept ops : forall a base d l',
  locals a = l' ++ base -> length l' = S d -> balanced_from d ops ->
  exists l'', locals (fst (a_run_ops a ops)) = l'' ++ base /\ length l'' = S (depth_after d ops).
Proof.
  induction ops as [|o r IH]; intros a base d l' Hl Hlen Hb; cbn [a_run_ops fst depth_after].
  - now exists l'.
  - assert (op_ok d o) as Hok by (destruct o; try exact I; apply Hb).
    assert (adepth a = (S d + length base)%nat) as Hd.
    { unfold adepth. rewrite Hl, app_length. lia. }
    pose proof (adepth_step_counted a o d (length base) Hd Hok) as Hd1.
    destruct (step_keeps_base a o _ l' base (a_step_shape a o) Hl) as [l1 Hl1].
    { destruct l'; [discriminate|discriminate]. }
    { intros ->. cbn [op_ok] in Hok. lia. }
    destruct (a_step a o) as [a1 y]. cbn [fst] in *.
    assert (length l1 = S (match o with OPush => S d | OPop => pred d | _ => d end)) as Hlen1.
    { unfold adepth in Hd1. rewrite Hl1, app_length in Hd1. lia. }
    assert (balanced_from (match o with OPush => S d | OPop => pred d | _ => d end) r) as Hb1.
    { destruct o; try exact Hb. apply Hb. }
    destruct (IH a1 base _ l1 Hl1 Hlen1 Hb1) as [l2 [Hl2 Hlen2]].
    destruct (a_run_ops a1 r) as [a2 ys]. cbn [fst] in *.
    exists l2. split; [exact Hl2|]. rewrite Hlen2. now destruct o.
Qed.

(* globals are touched only through names declared `global` (or by the host) *)
Definition no_decl (n : str) (o : op) : Prop := o <> OGlobal n /\ forall v, o <> OSetGlobal n v.
Definition no_link_above (n : str) (b : nat) (a : astate) : Prop :=
  forall k, (b < k)%nat -> alevel a k n <> ALink.

Lemma step_glob_kept a o a' n b :
  step_shape a o a' -> (b < adepth a)%nat -> no_link_above n b a -> no_decl n o ->
  glob a' n = glob a n /\ no_link_above n b a'.
Proof.
  intros Hs Hd Hno [Hdg Hds].
  assert (acurf a n <> ALink) as Hcur by (rewrite <- alevel_cur; now apply Hno).
  assert (forall a1 p n0 x, n0 <> n -> glob a1 n = glob a n /\ no_link_above n b a1 ->
            glob (a_write a1 p n0 x) n = glob a n /\ no_link_above n b (a_write a1 p n0 x)) as Hother.
  { intros a1 p n0 x Hne [Hg Hn]. split.
    - rewrite <- Hg, <- !alevel_glob. now apply alevel_write_other.
    - intros k Hk. rewrite alevel_write_other by exact Hne. now apply Hn. }
  destruct Hs as [|n0 x Hn0 Hx Harr|n0 v Ho|n0 Ho Hl0|n0 Hn0 Hc|Ho|Ho].
  - now split.
  - destruct (str_dec n0 n) as [->|Hne]; [|now apply Hother].
    assert (a_place a n = PCur) as -> by (unfold a_place; now destruct (acurf a n)).
    split.
    + rewrite <- !alevel_glob, alevel_write. cbn [plevel].
      destruct (Nat.eqb_spec O (adepth a)); [lia|reflexivity].
    + intros k Hk. rewrite alevel_write.
      destruct (Nat.eqb k (plevel a PCur) && str_eqb n n); [exact Hx|now apply Hno].
  - change (a_upd_glob a n0 (AScalar v)) with (a_write a PGlob n0 (AScalar v)).
    apply Hother; [|now split]. intros ->. now elim (Hds v).
  - change (a_upd_cur a n0 ALink) with (a_write a PCur n0 ALink).
    apply Hother; [|now split]. intros ->. now elim Hdg.
  - change (a_upd_cur (a_upd_glob a n0 AUnset) n0 AUnset)
      with (a_write (a_write a PGlob n0 AUnset) PCur n0 AUnset).
    assert (n0 <> n) as Hne by (intros ->; contradiction).
    apply Hother; [exact Hne|]. apply Hother; [exact Hne|now split].
  - split; [reflexivity|]. intros k Hk. rewrite alevel_push. now apply Hno.
  - split; [reflexivity|]. intros k Hk. rewrite alevel_pop.
    destruct (Nat.ltb k (adepth a) || Nat.eqb k O); [now apply Hno|discriminate].
Qed.

Theorem run_glob_kept n ops : forall a b d,
  adepth a = S (b + d) -> no_link_above n b a -> balanced_from d ops -> Forall (no_decl n) ops ->
  glob (fst (a_run_ops a ops)) n = glob a n /\ no_link_above n b (fst (a_run_ops a ops)).
Proof.
  induction ops as [|o r IH]; intros a b d Hd Hno Hb Hall; cbn [a_run_ops fst]; [now split|].
  inversion Hall as [|o' r' Ho Hr]; subst.
  assert (op_ok d o) as Hok by (destruct o; try exact I; apply Hb).
  destruct (step_glob_kept a o _ n b (a_step_shape a o) ltac:(lia) Hno Ho) as [Hg1 Hno1].
  assert (adepth (fst (a_step a o)) = S (b + match o with OPush => S d | OPop => pred d | _ => d end)) as Hd1.
  { rewrite adepth_step. destruct o; cbn [op_ok] in Hok; lia. }
  assert (balanced_from (match o with OPush => S d | OPop => pred d | _ => d end) r) as Hb1.
  { destruct o; try exact Hb. apply Hb. }
  destruct (a_step a o) as [a1 y]. cbn [fst] in *.
  destruct (IH a1 b _ Hd1 Hno1 Hb1 Hr) as [Hg2 Hno2].
  destruct (a_run_ops a1 r) as [a2 ys]. cbn [fst] in *. split; [congruence|exact Hno2].
Qed.

(* a whole call: enter, run any well-bracketed body, return.  The caller's frames are back
   exactly, and every global the body did not declare is what it was *)
Theorem call_returns_abs a ops :
  balanced_from O ops -> depth_after O ops = O ->
  let a' := a_pop (fst (a_run_ops (a_push a) ops)) in
  locals a' = locals a /\ forall n, Forall (no_decl n) ops -> glob a' n = glob a n.
Proof.
  intros Hb Hz a'. subst a'. split.
  - destruct (caller_frames_kept ops (a_push a) (locals a) O [aempty] eq_refl eq_refl Hb) as [l2 [Hl2 Hlen2]].
    cbn [a_pop locals]. rewrite Hl2. rewrite Hz in Hlen2.
    destruct l2 as [|f [|g l2]]; try discriminate. reflexivity.
  - intros n Hall. cbn [a_pop glob].
    destruct (run_glob_kept n ops (a_push a) (adepth a) O) as [Hg _]; try assumption.
    + rewrite adepth_push. lia.
    + intros k Hk. rewrite alevel_push, alevel_oob by exact Hk. discriminate.
Qed.
Print Assumptions call_returns_abs.

(* under the invariant the abstraction loses nothing *)
Lemma aval_of_ent_inj ss ss' k n k' n' :
  winv ss -> winv ss' -> aval_of (ent ss k n) = aval_of (ent ss' k' n') -> ent ss k n = ent ss' k' n'.
Proof.
  intros [Hi Hl] [Hi' Hl'] H.
  destruct (ent ss k n) as [[v|m|l|]|] eqn:E; destruct (ent ss' k' n') as [[v'|m'|l'|]|] eqn:E';
    cbn [aval_of] in H; try discriminate; try reflexivity;
    try (elim (inv_entry _ _ _ _ Hi E)); try (elim (inv_entry _ _ _ _ Hi' E')).
  - now injection H as ->.
  - now injection H as ->.
  - now rewrite (Hl _ _ _ E), (Hl' _ _ _ E').
Qed.

Lemma R_ent_eq ss a ss' a' k n k' n' :
  R ss a -> R ss' a' -> alevel a k n = alevel a' k' n' -> ent ss k n = ent ss' k' n'.
Proof.
  intros HR HR' H. apply aval_of_ent_inj; [apply HR|apply HR'|].
  destruct HR as (_ & _ & Hpt). destruct HR' as (_ & _ & Hpt'). now rewrite <- Hpt, <- Hpt'.
Qed.

Lemma a_lookup_from_frames a a' n :
  locals a' = locals a -> glob a' n = glob a n -> a_lookup a' n = a_lookup a n.
Proof.
  intros Hl Hg. unfold a_lookup, a_place, a_read, acurf. rewrite Hl.
  destruct (locals a) as [|f r]; rewrite ?Hg; [reflexivity|]. now destruct (f n).
Qed.

(* the model: a whole procedure call.  [ops] is the body: any operations, nested calls
   included, as long as every return in it has its call in it and it returns as often as it
   calls.  Afterwards every frame of the caller holds what it held, the globals the body did not
   declare (`global`) hold what they held, and nothing of the callee is left. *)
Theorem call_returns ss ops :
  winv ss -> balanced_from O ops -> depth_after O ops = O ->
  let ss' := sc_pop (fst (run_ops (sc_push ss) ops)) in
  winv ss' /\ length ss' = length ss /\
  (forall k n, (0 < k)%nat -> ent ss' k n = ent ss k n) /\
  (forall n, Forall (no_decl n) ops -> ent ss' O n = ent ss O n) /\
  (forall n, Forall (no_decl n) ops -> shape_of ss' n = shape_of ss n).
Proof.
  intros Hw Hb Hz ss'. pose proof (R_abs ss Hw) as HR. set (a := abs ss) in *.
  pose proof (R_push ss a HR) as HRp.
  assert (ops_ok (a_push a) ops) as Hok.
  { apply balanced_ops_ok. apply (balanced_mono ops O); [lia|exact Hb]. }
  destruct (run_refines ops _ _ HRp Hok) as [HR2 _].
  destruct (caller_frames_kept ops (a_push a) (locals a) O [aempty] eq_refl eq_refl Hb) as [l2 [Hl2 Hlen2]].
  assert (0 < adepth (fst (a_run_ops (a_push a) ops)))%nat as Hpos.
  { unfold adepth. rewrite Hl2, app_length. lia. }
  pose proof (R_pop _ _ HR2 Hpos) as HR3. fold ss' in HR3.
  destruct (call_returns_abs a ops Hb Hz) as [Hloc Hglob].
  set (a' := a_pop (fst (a_run_ops (a_push a) ops))) in *.
  split; [apply HR3|]. split; [|split; [|split]].
  - destruct HR3 as (_ & Hlen3 & _). destruct HR as (_ & Hlen & _). unfold adepth in *. rewrite Hlen3, Hlen.
    now rewrite Hloc.
  - intros k n Hk. apply (R_ent_eq ss' a' ss a); [exact HR3|exact HR|].
    destruct k as [|j]; [lia|]. cbn [alevel]. now rewrite Hloc.
  - intros n Hall. apply (R_ent_eq ss' a' ss a); [exact HR3|exact HR|]. cbn [alevel]. now apply Hglob.
  - intros n Hall. rewrite <- (R_lookup ss' a' n HR3), <- (R_lookup ss a n HR).
    apply a_lookup_from_frames; [exact Hloc|now apply Hglob].
Qed.
Print Assumptions call_returns.

(* ---------- 5.4 "a global is reachable from a procedure only after `global`, and after that,
   reads, writes, unsets and array operations act on the global itself" ---------- *)

(* before: [push_hides].  The declaration: *)
Theorem global_declares a n :
  locals a <> [] ->
  acurf (a_global a n) n = ALink /\ glob (a_global a n) = glob a /\
  tl (locals (a_global a n)) = tl (locals a).
Proof.
  intros Hne. unfold a_global, a_upd_cur, acurf. destruct (locals a) as [|f r]; [contradiction|].
  cbn [locals glob tl]. unfold fupd. now rewrite str_eqb_refl.
Qed.

(* after: every operation on a linked name reads and writes the global frame and leaves the
   procedure frames alone *)
Theorem linked_acts_on_global a n :
  acurf a n = ALink ->
  a_place a n = PGlob /\
  a_lookup a n = shape_of_aval (glob a n) /\
  (forall v, a_set a n v = a_set_global a n v) /\
  (forall i v, locals (fst (a_set_elem a n i v)) = locals a) /\
  (forall kv, locals (fst (a_array_set a n kv)) = locals a) /\
  (forall i, locals (a_unset_elem a n i) = locals a) /\
  locals (a_array_unset a n) = locals a /\
  (glob (a_unset a n) n = AUnset /\ acurf (a_unset a n) n = AUnset).
Proof.
  intros Hc. assert (a_place a n = PGlob) as Hp by (unfold a_place; now rewrite Hc).
  split; [exact Hp|]. split; [|split; [|split; [|split; [|split; [|split]]]]].
  - unfold a_lookup. now rewrite Hp.
  - intros v. unfold a_set, a_set_global. now rewrite Hp.
  - intros i v. unfold a_set_elem. rewrite Hp. cbn [a_read a_write].
    destruct (glob a n); reflexivity.
  - intros kv. unfold a_array_set. rewrite Hp. cbn [a_read a_write].
    destruct (glob a n); reflexivity.
  - intros i. unfold a_unset_elem. rewrite Hp. cbn [a_read a_write].
    destruct (glob a n); reflexivity.
  - unfold a_array_unset. rewrite Hp. cbn [a_read a_write]. destruct (glob a n); reflexivity.
  - unfold a_unset. rewrite Hc.
    change (a_upd_cur (a_upd_glob a n AUnset) n AUnset)
      with (a_write (a_write a PGlob n AUnset) PCur n AUnset).
    rewrite <- alevel_glob, <- alevel_cur. rewrite !adepth_write, !alevel_write.
    cbn [plevel]. rewrite ?adepth_write, str_eqb_refl, !Nat.eqb_refl. cbn [andb].
    split; [|reflexivity]. now destruct (Nat.eqb O (adepth a)).
Qed.

(* the model's outputs are determined by the abstract run (name listings excepted: those are
   determined as sets) *)
Definition conc_res {A} (r : ares A) : res A := match r with AOk x => Ok x | AErr m => err m end.
Definition conc (ao : aout) : mout :=
  match ao with
  | AUnitR r => MUnit (conc_res r)
  | AValR r => MVal (conc_res r)
  | ABool b => MBool b
  | ANat k => MNat k
  | AMap m => MMap m
  | ANames l => MNames l
  | ASet _ => MNone
  | ANone => MNone
  end.
Definition is_set (ao : aout) : Prop := match ao with ASet _ => True | _ => False end.

Lemma out_match_exact mo ao : out_match mo ao -> ~ is_set ao -> mo = conc ao.
Proof.
  destruct mo, ao; cbn [out_match conc is_set]; intros H Hs; try contradiction; try congruence.
  - destruct r0; cbn [res_match conc_res] in *; now subst.
  - destruct r0; cbn [res_match conc_res] in *; now subst.
Qed.

Theorem outputs_exact ops ss a :
  R ss a -> ops_ok a ops -> Forall (fun ao => ~ is_set ao) (snd (a_run_ops a ops)) ->
  snd (run_ops ss ops) = map conc (snd (a_run_ops a ops)).
Proof.
  intros HR Hok Hns. destruct (run_refines ops ss a HR Hok) as [_ H2].
  induction H2 as [|mo ao ms aos Hm _ IH]; [reflexivity|].
  inversion Hns as [|x l Hx Hl]; subst. cbn [map]. rewrite (out_match_exact mo ao Hm Hx). now rewrite IH.
Qed.

(* one complete round trip, in the abstract ... *)
Lemma global_roundtrip_abs a n v :
  (forall m, glob a n <> AArray m) ->
  a_run_ops a [OPush; OExists n; OGlobal n; OSet n v; OGet n; OPop]
  = (a_upd_glob a n (AScalar v), [ANone; ABool false; ANone; AUnitR (AOk tt); AValR (AOk v); ANone]).
Proof.
  intros Hna.
  assert (a_exists (a_push a) n = false) as E1 by (unfold a_exists; now rewrite push_hides).
  set (a2 := a_global (a_push a) n).
  assert (a2 = {| glob := glob a; locals := fupd aempty n ALink :: locals a |}) as Ha2 by reflexivity.
  assert (acurf a2 n = ALink) as Hc2 by (rewrite Ha2; unfold acurf, fupd; cbn [locals]; now rewrite str_eqb_refl).
  destruct (linked_acts_on_global a2 n Hc2) as (Hp & _ & Hset & _).
  assert (glob a2 n = glob a n) as Hg by (now rewrite Ha2).
  set (a3 := a_upd_glob a2 n (AScalar v)).
  assert (a_set a2 n v = (a3, AOk tt)) as E2.
  { rewrite Hset. unfold a_set_global. rewrite Hg. destruct (glob a n) eqn:E; try reflexivity. now elim (Hna m). }
  assert (a_get a3 n = AOk v) as E3.
  { unfold a_get, a_lookup, a_place. subst a3. rewrite Ha2. unfold acurf, a_upd_glob, a_read, fupd. cbn [locals glob].
    now rewrite !str_eqb_refl. }
  assert (a_pop a3 = a_upd_glob a n (AScalar v)) as E4 by (subst a3; rewrite Ha2; reflexivity).
  cbn [a_run_ops a_step]. fold a2. rewrite E1, E2, E3, E4. reflexivity.
Qed.

(* ... and in the model: inside a call the global is invisible; after `global n` a set writes the
   global and a read sees it; after the return the value is in the global frame and nothing
   else has changed *)
Theorem global_roundtrip ss n v :
  winv ss -> (forall m, ent ss O n <> Some (VarArray m)) ->
  let r := run_ops ss [OPush; OExists n; OGlobal n; OSet n v; OGet n; OPop] in
  snd r = [MNone; MBool false; MNone; MUnit (Ok tt); MVal (Ok v); MNone] /\
  winv (fst r) /\ length (fst r) = length ss /\
  ent (fst r) O n = Some (VarScalar v) /\
  (forall k n', (k, n') <> (O, n) -> ent (fst r) k n' = ent ss k n').
Proof.
  intros Hw Hna r. pose proof (R_abs ss Hw) as HR. set (a := abs ss) in *.
  set (ops := [OPush; OExists n; OGlobal n; OSet n v; OGet n; OPop]) in *.
  assert (forall m, glob a n <> AArray m) as Hna'.
  { intros m H. rewrite (R_glob ss a n HR) in H.
    destruct (ent ss O n) as [[w|m'|l|]|] eqn:E; try discriminate. now elim (Hna m'). }
  pose proof (global_roundtrip_abs a n v Hna') as Habs. fold ops in Habs.
  assert (ops_ok a ops) as Hok.
  { apply balanced_ops_ok. apply (balanced_mono ops O); [lia|]. cbn. repeat split; lia. }
  destruct (run_refines ops ss a HR Hok) as [HR' _]. fold r in HR'. rewrite Habs in HR'. cbn [fst] in HR'.
  split; [|split; [apply HR'|split; [|split]]].
  - unfold r. rewrite (outputs_exact ops ss a HR Hok); rewrite Habs; cbn [snd]; [reflexivity|].
    repeat constructor; intros H; exact H.
  - destruct HR' as (_ & Hlen' & _). destruct HR as (_ & Hlen & _). now rewrite Hlen', Hlen.
  - destruct HR' as (Hw' & _ & Hpt'). specialize (Hpt' O n). rewrite alevel_upd_glob in Hpt'.
    rewrite str_eqb_refl in Hpt'. cbn [Nat.eqb andb] in Hpt'.
    destruct (ent (fst r) O n) as [[w|m'|l|]|]; try discriminate. now injection Hpt' as ->.
  - intros k n' Hne. apply (R_ent_eq (fst r) (a_upd_glob a n (AScalar v)) ss a); [exact HR'|exact HR|]. rewrite alevel_upd_glob.
    destruct (Nat.eqb_spec k O) as [->|Hk]; cbn [andb]; [|reflexivity].
    destruct (str_eqb n n') eqn:E; [|reflexivity]. apply str_eqb_eq in E. subst n'. now elim Hne.
Qed.
Print Assumptions global_roundtrip.

(* ---------- 5.5 "removing something that does not exist creates nothing" ---------- *)

Lemma write_unset_level a p n k n' :
  alevel (a_write a p n AUnset) k n' = AUnset \/ alevel (a_write a p n AUnset) k n' = alevel a k n'.
Proof. rewrite alevel_write. destruct (Nat.eqb k (plevel a p) && str_eqb n n'); [now left|now right]. Qed.

(* no removal ever creates anything, anywhere: every name in every frame is afterwards what it
   was, or unset *)
Theorem unset_creates_nothing_abs a n k n' :
  alevel (a_unset a n) k n' = AUnset \/ alevel (a_unset a n) k n' = alevel a k n'.
Proof.
  unfold a_unset.
  assert (alevel (a_upd_cur a n AUnset) k n' = AUnset \/ alevel (a_upd_cur a n AUnset) k n' = alevel a k n') as H1
    by exact (write_unset_level a PCur n k n').
  destruct (acurf a n); try exact H1.
  destruct (write_unset_level (a_upd_glob a n AUnset) PCur n k n') as [H|H]; [now left|].
  cbn [a_write] in H. rewrite H. exact (write_unset_level a PGlob n k n').
Qed.

Theorem array_unset_creates_nothing_abs a n k n' :
  alevel (a_array_unset a n) k n' = AUnset \/ alevel (a_array_unset a n) k n' = alevel a k n'.
Proof.
  unfold a_array_unset. cbv zeta. destruct (a_read a (a_place a n) n); try (now right). apply write_unset_level.
Qed.

Theorem unset_absent_abs a n :
  a_lookup a n = Unset ->
  (forall n', a_lookup (a_unset a n) n' = a_lookup a n') /\
  (acurf a n = AUnset -> aeq (a_unset a n) a).
Proof.
  intros Hun. split.
  - intros n'. destruct (str_dec n n') as [<-|Hne].
    + rewrite Hun. rewrite a_lookup_level.
      assert (adepth (a_unset a n) = adepth a) as Hd by exact (adepth_step a (OUnset n)).
      assert (alevel (a_unset a n) (adepth a) n = AUnset) as Hc.
      { unfold a_unset. destruct (acurf a n);
          rewrite alevel_upd_cur, ?adepth_upd_glob, Nat.eqb_refl, str_eqb_refl; reflexivity. }
      now rewrite Hd, Hc.
    + apply same_at_lookup. apply (step_untouched n' a (OUnset n)).
      split; [|split]; cbn [op_name]; congruence.
  - intros Hc. unfold a_unset. rewrite Hc. split; [apply adepth_upd_cur|]. intros k n'.
    rewrite alevel_upd_cur. destruct (Nat.eqb_spec k (adepth a)) as [->|Hk]; cbn [andb]; [|reflexivity].
    destruct (str_eqb n n') eqn:E; [|reflexivity]. apply str_eqb_eq in E. subst n'.
    now rewrite alevel_cur, Hc.
Qed.

Theorem unset_elem_absent_abs a n i : (forall m, a_lookup a n <> Array m) -> a_unset_elem a n i = a.
Proof.
  unfold a_lookup, a_unset_elem. cbv zeta. intros H.
  destruct (a_read a (a_place a n) n) as [|w|m|]; try reflexivity. now elim (H m).
Qed.

Theorem array_unset_absent_abs a n : (forall m, a_lookup a n <> Array m) -> a_array_unset a n = a.
Proof.
  unfold a_lookup, a_array_unset. cbv zeta. intros H.
  destruct (a_read a (a_place a n) n) as [|w|m|]; try reflexivity. now elim (H m).
Qed.

Theorem unset_elem_missing_abs a n i m :
  a_lookup a n = Array m -> assoc_get i m = None -> aeq (a_unset_elem a n i) a.
Proof.
  unfold a_lookup, a_unset_elem. cbv zeta. intros H Hi.
  destruct (a_read a (a_place a n) n) as [|w|m'|] eqn:E; try discriminate. injection H as ->.
  rewrite (assoc_remove_absent i m Hi). split; [apply adepth_write|]. intros k n'. rewrite alevel_write.
  destruct (Nat.eqb_spec k (plevel a (a_place a n))) as [->|Hk]; cbn [andb]; [|reflexivity].
  destruct (str_eqb n n') eqn:En; [|reflexivity]. apply str_eqb_eq in En. subst n'.
  now rewrite <- a_read_level, E.
Qed.

(* the model *)
Theorem removal_creates_nothing ss n k n' :
  winv ss ->
  (ent (sc_unset ss n) k n' = None \/ ent (sc_unset ss n) k n' = ent ss k n') /\
  (ent (sc_array_unset ss n) k n' = None \/ ent (sc_array_unset ss n) k n' = ent ss k n').
Proof.
  intros Hw. pose proof (R_abs ss Hw) as HR. set (a := abs ss) in *.
  assert (forall ss' a', R ss' a' -> alevel a' k n' = AUnset -> ent ss' k n' = None) as Hnone.
  { intros ss' a' HR' H. destruct HR' as ((Hinv' & _) & _ & Hpt'). rewrite Hpt' in H.
    destruct (ent ss' k n') as [[w|m|l|]|] eqn:E; try discriminate; [|reflexivity].
    elim (inv_entry _ _ _ _ Hinv' E). }
  split.
  - pose proof (unset_refines ss a n HR) as HR'.
    destruct (unset_creates_nothing_abs a n k n') as [H|H].
    + left. exact (Hnone _ _ HR' H).
    + right. now apply (R_ent_eq _ (a_unset a n) ss a).
  - pose proof (array_unset_refines ss a n HR) as HR'.
    destruct (array_unset_creates_nothing_abs a n k n') as [H|H].
    + left. exact (Hnone _ _ HR' H).
    + right. now apply (R_ent_eq _ (a_array_unset a n) ss a).
Qed.
Print Assumptions removal_creates_nothing.

Theorem unset_absent ss n :
  winv ss -> sc_exists ss n = false ->
  (forall n', shape_of (sc_unset ss n) n' = shape_of ss n') /\
  (forall i, sc_unset_element ss n i = ss) /\ sc_array_unset ss n = ss.
Proof.
  intros Hw Hex. pose proof (R_abs ss Hw) as HR. set (a := abs ss) in *.
  assert (shape_of ss n = Unset) as Hsh.
  { rewrite <- (R_lookup ss a n HR). rewrite (exists_refines ss a n HR) in Hex. unfold a_exists in Hex.
    now destruct (a_lookup a n). }
  split; [|split].
  - intros n'. rewrite <- (R_lookup _ _ n' (unset_refines ss a n HR)), <- (R_lookup ss a n' HR).
    apply unset_absent_abs. now rewrite (R_lookup ss a n HR).
  - intros i. apply sc_unset_element_absent; [apply Hw|]. intros m. rewrite Hsh. discriminate.
  - apply sc_array_unset_absent; [apply Hw|]. intros m. rewrite Hsh. discriminate.
Qed.
Print Assumptions unset_absent.

(* ---------- 5.6 "info exists, array exists/size/names/get, info vars/locals/globals and the
   host-side accessors agree with what reads and writes would do" ---------- *)

Theorem exists_agrees_abs a n :
  a_exists a n = true <-> (exists v, a_get a n = AOk v) \/ a_array_exists a n = true.
Proof.
  unfold a_exists, a_get, a_array_exists. destruct (a_lookup a n) as [|v|m]; split; intros H.
  - discriminate H.
  - destruct H as [[v H]|H]; discriminate.
  - left. now exists v.
  - reflexivity.
  - now right.
  - reflexivity.
Qed.

Theorem exists_agrees ss n :
  winv ss -> (sc_exists ss n = true <-> (exists v, sc_get ss n = Ok v) \/ sc_array_exists ss n = true).
Proof.
  intros Hw. destruct (one_shape_observed ss n Hw) as
    [(He & Ha & _ & Hg & _)|[(v & He & Ha & _ & Hg & _)|(m & He & Ha & _ & Hg & _)]]; rewrite He, Ha, Hg.
  - split; [discriminate|]. intros [[v H]|H]; discriminate.
  - split; [|reflexivity]. intros _. left. now exists v.
  - split; [|reflexivity]. intros _. now right.
Qed.

Theorem elem_exists_agrees ss n i : sc_elem_exists ss n i = true <-> exists v, sc_get_elem ss n i = Ok v.
Proof.
  unfold sc_elem_exists. destruct (sc_get_elem ss n i) as [v|e|s|]; split; intros H;
    try discriminate H; try (now destruct H).
  now exists v.
Qed.

(* array names / get / size list exactly the elements that can be read *)
Theorem array_listing_agrees ss n :
  winv ss ->
  (forall i v, sc_get_elem ss n i = Ok v <-> assoc_get i (sc_array_map ss n) = Some v) /\
  (forall i, In i (map fst (sc_array_map ss n)) <-> sc_elem_exists ss n i = true) /\
  (sc_array_exists ss n = false -> sc_array_map ss n = []) /\
  length (map fst (sc_array_map ss n)) = length (sc_array_map ss n).
Proof.
  intros Hw.
  assert (forall i v, sc_get_elem ss n i = Ok v <-> assoc_get i (sc_array_map ss n) = Some v) as H1.
  { intros i v. destruct (one_shape_observed ss n Hw) as
      [(_ & _ & Hm & _ & Hge)|[(w & _ & _ & Hm & _ & Hge)|(m & _ & _ & Hm & _ & Hge)]]; rewrite Hm, Hge.
    - split; discriminate.
    - split; discriminate.
    - destruct (assoc_get i m); split; try discriminate; intros H; now injection H as ->. }
  split; [exact H1|]. split; [|split].
  - intros i. rewrite in_keys_assoc_get, elem_exists_agrees. split; intros [v H]; exists v; now apply H1.
  - intros Ha. destruct (one_shape_observed ss n Hw) as
      [(_ & _ & Hm & _)|[(w & _ & _ & Hm & _)|(m & _ & Ha' & _)]]; try exact Hm. congruence.
  - apply map_length.
Qed.
Print Assumptions array_listing_agrees.

Theorem listings_agree_abs a n :
  (a_locals a n -> a_vars a n) /\
  (a_vars a n -> locals a <> [] -> a_locals a n \/ acurf a n = ALink) /\
  (locals a = [] -> (a_vars a n <-> a_globals a n)) /\
  (a_exists a n = true -> a_vars a n).
Proof.
  unfold a_locals, a_vars, a_globals. split; [|split; [|split]].
  - intros (_ & H & _). exact H.
  - intros H Hne. destruct (acurf a n) eqn:E; try (now right); left; repeat split; try assumption; discriminate.
  - intros Hl. unfold acurf. rewrite Hl. tauto.
  - unfold a_exists, a_lookup, a_place. destruct (acurf a n) eqn:E; cbn [a_read]; rewrite ?E; cbn [shape_of_aval];
      try discriminate; intros _; discriminate.
Qed.

Theorem listings_agree ss n :
  winv ss ->
  (In n (sc_vars_in_local ss) -> In n (sc_vars_in_scope ss)) /\
  (In n (sc_vars_in_scope ss) -> (0 < sc_current ss)%nat ->
     In n (sc_vars_in_local ss) \/ ent ss (sc_current ss) n = Some (VarUpvar O)) /\
  (sc_current ss = O -> sc_vars_in_scope ss = sc_vars_in_global ss /\ sc_vars_in_local ss = []) /\
  (sc_exists ss n = true -> In n (sc_vars_in_scope ss)).
Proof.
  intros Hw. pose proof (R_abs ss Hw) as HR. set (a := abs ss) in *.
  destruct (vars_refines ss a HR) as [_ Hv]. destruct (locals_refines ss a HR) as [_ Hl].
  destruct (listings_agree_abs a n) as (A1 & A2 & _ & A4).
  split; [|split; [|split]].
  - rewrite Hv, Hl. exact A1.
  - rewrite Hv, Hl. intros H Hd.
    assert (locals a <> []) as Hne.
    { rewrite (R_current ss a HR) in Hd. unfold adepth in Hd. destruct (locals a); [cbn in Hd; lia|discriminate]. }
    destruct (A2 H Hne) as [H'|H']; [now left|right].
    rewrite (R_cur ss a n HR) in H'.
    destruct (ent ss (sc_current ss) n) as [[w|m|l|]|] eqn:E; try discriminate.
    destruct Hw as [_ Hlg]. now rewrite (Hlg _ _ _ E).
  - intros Hc. unfold sc_vars_in_scope, sc_vars_in_global, sc_vars_in_local. rewrite Hc. now split.
  - rewrite Hv, (exists_refines ss a n HR). exact A4.
Qed.
Print Assumptions listings_agree.

(* the host-side setter (Interp::set_scalar at level 0, used for errorInfo / errorCode) is the
   script-level set at top level, and is what a declared global sees from inside a procedure *)
Theorem set_global_agrees ss n v :
  winv ss ->
  (sc_current ss = O -> sc_set ss n v = sc_set_global ss n v) /\
  (ent ss (sc_current ss) n = Some (VarUpvar O) -> sc_set ss n v = sc_set_global ss n v).
Proof.
  intros [Hinv Hlg]. unfold sc_set, sc_set_global.
  destruct (target_facts ss n Hinv) as (HL & _ & _ & _ & Hcase). split.
  - intros Hc. destruct Hcase as [[Ht _]|[_ Hlt]]; [now rewrite Ht, Hc|lia].
  - intros Hlink. destruct Hcase as [[_ Hun]|[Hl' _]]; [now elim (Hun O)|].
    rewrite Hlink in Hl'. now injection Hl' as <-.
Qed.

(* ---------- 5.7 two facts that hold of reachable states only, proved on the abstract side:
   the keys of an array are distinct, so an element that was unset is gone ---------- *)

Definition a_wf (a : astate) : Prop :=
  (forall n, glob a n <> ALink) /\
  (forall k n m, alevel a k n = AArray m -> NoDup (map fst m)).

Lemma a_wf_init : a_wf a_init.
Proof.
  split; [discriminate|]. intros k n m H. destruct k as [|[|j]]; discriminate.
Qed.

Lemma a_wf_write a p n x :
  a_wf a -> (p = PGlob \/ adepth a = O -> x <> ALink) -> (forall m, x = AArray m -> NoDup (map fst m)) ->
  a_wf (a_write a p n x).
Proof.
  intros [Hg Ha] Hx Hm. split.
  - intros n'. rewrite <- alevel_glob, alevel_write.
    destruct (Nat.eqb_spec O (plevel a p)) as [H0|H0]; cbn [andb]; [|apply Hg].
    destruct (str_eqb n n'); [|apply Hg]. apply Hx. destruct p; cbn [plevel] in H0; [now right|now left].
  - intros k n' m. rewrite alevel_write. destruct (Nat.eqb k (plevel a p) && str_eqb n n'); [apply Hm|apply Ha].
Qed.

Lemma step_wf a o a' : step_shape a o a' -> a_wf a -> a_wf a'.
Proof.
  intros Hs Hwf. destruct Hs as [|n0 x Hn0 Hx Harr|n0 v Ho|n0 Ho Hl0|n0 Hn0 Hc|Ho|Ho].
  - exact Hwf.
  - apply a_wf_write; [exact Hwf|intros _; exact Hx|]. intros m Hxm. apply (Harr m Hxm).
    intros m0 Hr. rewrite a_read_level in Hr. exact (proj2 Hwf _ _ _ Hr).
  - apply (a_wf_write a PGlob); [exact Hwf|discriminate|discriminate].
  - apply (a_wf_write a PCur); [exact Hwf| |discriminate].
    intros [H|H]; [discriminate|]. unfold adepth in H. destruct (locals a); [contradiction|discriminate].
  - apply (a_wf_write _ PCur); [|discriminate|discriminate].
    apply (a_wf_write a PGlob); [exact Hwf|discriminate|discriminate].
  - destruct Hwf as [Hg Ha]. split; [exact Hg|]. intros k n m. rewrite alevel_push. apply Ha.
  - destruct Hwf as [Hg Ha]. split; [exact Hg|]. intros k n m. rewrite alevel_pop.
    destruct (Nat.ltb k (adepth a) || Nat.eqb k O); [apply Ha|discriminate].
Qed.

Lemma run_wf ops : forall a, a_wf a -> a_wf (fst (a_run_ops a ops)).
Proof.
  induction ops as [|o r IH]; intros a Hwf; cbn [a_run_ops fst]; [exact Hwf|].
  pose proof (step_wf a o _ (a_step_shape a o) Hwf) as H1.
  destruct (a_step a o) as [a1 y]. cbn [fst] in *. specialize (IH a1 H1).
  destruct (a_run_ops a1 r) as [a2 ys]. exact IH.
Qed.

Lemma a_write_lookup a n x :
  x <> ALink -> a_lookup (a_write a (a_place a n) n x) n = shape_of_aval x.
Proof.
  intros Hx. rewrite a_lookup_level, adepth_write, !alevel_write, str_eqb_refl, !andb_true_r.
  unfold a_place. destruct (acurf a n) eqn:E; cbn [plevel]; rewrite ?Nat.eqb_refl;
    try (destruct x; try reflexivity; contradiction).
  destruct (Nat.eqb (adepth a) O).
  - destruct x; try reflexivity; contradiction.
  - now rewrite alevel_cur, E.
Qed.

Theorem unset_elem_gone_abs a n i : a_wf a -> a_elem_exists (a_unset_elem a n i) n i = false.
Proof.
  intros [_ Ha]. unfold a_unset_elem, a_elem_exists, a_get_elem. cbv zeta.
  destruct (a_read a (a_place a n) n) as [|w|m|] eqn:E;
    try (unfold a_lookup; rewrite E; reflexivity).
  rewrite a_write_lookup by discriminate. cbn [shape_of_aval].
  rewrite a_read_level in E. rewrite assoc_get_remove_same; [reflexivity|]. exact (Ha _ _ _ E).
Qed.

Theorem array_keys_distinct_abs a n : a_wf a -> NoDup (a_array_names a n).
Proof.
  intros [_ Ha]. unfold a_array_names, a_array_get, a_lookup.
  destruct (a_read a (a_place a n) n) as [|w|m|] eqn:E; cbn [shape_of_aval map]; try constructor.
  rewrite a_read_level in E. exact (Ha _ _ _ E).
Qed.

Theorem reachable_arrays ss n i :
  reachable ss ->
  sc_elem_exists (sc_unset_element ss n i) n i = false /\
  NoDup (map fst (sc_array_map ss n)).
Proof.
  intros Hr. destruct (reachable_R ss Hr) as [ops [_ HR]].
  assert (a_wf (fst (a_run_ops a_init ops))) as Hwf by (apply run_wf, a_wf_init).
  set (a := fst (a_run_ops a_init ops)) in *. split.
  - rewrite (elem_exists_refines _ _ n i (unset_elem_refines ss a n i HR)). now apply unset_elem_gone_abs.
  - rewrite (array_map_refines ss a n HR). now apply array_keys_distinct_abs.
Qed.
Print Assumptions reachable_arrays.

(* not so for an arbitrary well-formed stack: the invariant says nothing about array contents *)
Example unreachable_stack :
  let a := lit "a" in let i := lit "i" in
  let ss := [[(a, VarArray [(i, VStr (lit "1")); (i, VStr (lit "2"))])]] in
  winv ss /\ sc_elem_exists (sc_unset_element ss a i) a i = true.
Proof.
  intros a i ss. split; [|vm_compute; reflexivity]. split; [split; [discriminate|split]|].
  - intros [|[|k]]; cbn; repeat constructor. intros [].
  - intros [|[|k]] n x Hin; cbn in Hin; try contradiction.
    destruct Hin as [H|[]]. injection H as <- <-. exact I.
  - intros [|[|k]] n l H; unfold ent, sc_get_scope in H; cbn [nth ss assoc_get] in H; try discriminate.
    destruct (str_eqb a n); discriminate.
Qed.

(* ====================================================================== *)
(* 6. the commands layer: the variable commands are these operations      *)
(* ====================================================================== *)
From Molt Require Import Model.Eval Model.Commands.

Lemma run_ops_cons_fst ss o r : fst (run_ops ss (o :: r)) = fst (run_ops (fst (m_step ss o)) r).
Proof. cbn [run_ops]. destruct (m_step ss o) as [ss1 x]. cbn [fst]. now destruct (run_ops ss1 r). Qed.

Lemma run_ops_app_fst l1 : forall ss l2, fst (run_ops ss (l1 ++ l2)) = fst (run_ops (fst (run_ops ss l1)) l2).
Proof.
  induction l1 as [|o r IH]; intros ss l2; [reflexivity|].
  cbn [app]. rewrite !run_ops_cons_fst. apply IH.
Qed.

(* operations other than call and return *)
Definition simple (o : op) : Prop := o <> OPush /\ o <> OPop.

Lemma simple_ops_ok ops : forall a, Forall simple ops -> ops_ok a ops.
Proof.
  induction ops as [|o r IH]; intros a Hall; cbn [ops_ok]; [exact I|].
  inversion Hall as [|o' r' Ho Hr]; subst. split; [|now apply IH].
  destruct Ho as [_ Hpop]. destruct o; try exact I. congruence.
Qed.

(* [ss'] is obtained from [ss] by running scope operations *)
Definition via_ops (ss ss' : scopes) : Prop := exists ops, Forall simple ops /\ ss' = fst (run_ops ss ops).

Lemma via_refl ss : via_ops ss ss.
Proof. exists []. split; [constructor|reflexivity]. Qed.

Lemma via_trans ss1 ss2 ss3 : via_ops ss1 ss2 -> via_ops ss2 ss3 -> via_ops ss1 ss3.
Proof.
  intros [l1 [H1 ->]] [l2 [H2 ->]]. exists (l1 ++ l2). split; [now apply Forall_app|].
  now rewrite run_ops_app_fst.
Qed.

Lemma via_step ss0 ss o : simple o -> via_ops ss0 ss -> via_ops ss0 (fst (m_step ss o)).
Proof.
  intros Ho H. apply (via_trans ss0 ss); [exact H|]. exists [o]. split; [constructor; [exact Ho|constructor]|].
  rewrite run_ops_cons_fst. reflexivity.
Qed.

(* --- the interpreter's variable accessors are single operations --- *)
Definition var_get_op (name : value) : op :=
  match as_var_name name with (n, Some i) => OGetElem n i | (n, None) => OGet n end.
Definition var_set_op (name v : value) : op :=
  match as_var_name name with (n, Some i) => OSetElem n i v | (n, None) => OSet n v end.
Definition var_exists_op (name : value) : op :=
  match as_var_name name with (n, Some i) => OElemExists n i | (n, None) => OExists n end.
Definition var_unset_op (name : value) : op :=
  match as_var_name name with (n, Some i) => OUnsetElem n i | (n, None) => OUnset n end.

Lemma i_scopes_set st ss : i_scopes (set_scopes st ss) = ss.
Proof. reflexivity. Qed.

Theorem st_var_is_op st name :
  m_step (i_scopes st) (var_get_op name) = (i_scopes st, MVal (st_var st name)).
Proof. unfold var_get_op, st_var. now destruct (as_var_name name) as [n [i|]]. Qed.

Theorem st_var_exists_is_op st name :
  m_step (i_scopes st) (var_exists_op name) = (i_scopes st, MBool (st_var_exists st name)).
Proof. unfold var_exists_op, st_var_exists. now destruct (as_var_name name) as [n [i|]]. Qed.

Theorem st_set_var_is_op st name v :
  let r := m_step (i_scopes st) (var_set_op name v) in
  fst (st_set_var st name v) = set_scopes st (fst r) /\ MUnit (snd (st_set_var st name v)) = snd r.
Proof.
  unfold var_set_op, st_set_var. destruct (as_var_name name) as [n [i|]]; cbn [m_step].
  - unfold st_set_element. now destruct (sc_set_elem (i_scopes st) n i v).
  - unfold st_set_scalar. now destruct (sc_set (i_scopes st) n v).
Qed.

Theorem st_unset_var_is_op st name :
  st_unset_var st name = set_scopes st (fst (m_step (i_scopes st) (var_unset_op name))).
Proof. unfold var_unset_op, st_unset_var. now destruct (as_var_name name) as [n [i|]]. Qed.

Lemma var_ops_simple name v :
  simple (var_get_op name) /\ simple (var_set_op name v) /\ simple (var_exists_op name) /\
  simple (var_unset_op name).
Proof.
  unfold var_get_op, var_set_op, var_exists_op, var_unset_op.
  destruct (as_var_name name) as [n [i|]]; repeat split; discriminate.
Qed.

(* --- `global a b c` is the sequence OGlobal a; OGlobal b; OGlobal c --- *)
Lemma sc_current_m_global ss n : sc_current (m_global ss n) = sc_current ss.
Proof. unfold m_global. destruct (Nat.ltb 0 (sc_current ss)); [apply sc_current_upvar|reflexivity]. Qed.

Lemma run_globals (l : list value) : forall ss,
  fst (run_ops ss (map (fun x => OGlobal (as_str x)) l))
  = if Nat.ltb 0 (sc_current ss) then fold_left (fun ss n => sc_upvar ss O (as_str n)) l ss else ss.
Proof.
  induction l as [|x r IH]; intros ss; cbn [map fold_left].
  - cbn [run_ops fst]. now destruct (Nat.ltb 0 (sc_current ss)).
  - rewrite run_ops_cons_fst. cbn [m_step fst]. rewrite IH, sc_current_m_global. unfold m_global.
    now destruct (Nat.ltb 0 (sc_current ss)).
Qed.

Theorem cmd_global_is_ops st argv :
  cmd_global st argv
  = ok_empty (set_scopes st (fst (run_ops (i_scopes st) (map (fun x => OGlobal (as_str x)) (skipn 1 argv))))).
Proof.
  unfold cmd_global. rewrite run_globals. destruct (Nat.ltb 0 (sc_current (i_scopes st))); [reflexivity|].
  now rewrite set_scopes_self.
Qed.

(* --- every variable command changes the scope stack by scope operations only --- *)
Lemma via_bind {A B} ss0 (m : M A) (k : interp -> A -> M B) :
  via_ops ss0 (i_scopes (fst m)) ->
  (forall st1 x, via_ops ss0 (i_scopes st1) -> via_ops ss0 (i_scopes (fst (k st1 x)))) ->
  via_ops ss0 (i_scopes (fst (bind m k))).
Proof. intros Hm Hk. destruct m as [st1 [x|e|p|]]; cbn [bind fst] in *; try exact Hm. now apply Hk. Qed.

Lemma via_set_var ss0 st name v :
  via_ops ss0 (i_scopes st) -> via_ops ss0 (i_scopes (fst (st_set_var st name v))).
Proof.
  intros H. destruct (st_set_var_is_op st name v) as [-> _]. rewrite i_scopes_set.
  apply via_step; [apply (var_ops_simple name v)|exact H].
Qed.

Lemma via_set_var_return ss0 st name v :
  via_ops ss0 (i_scopes st) -> via_ops ss0 (i_scopes (fst (st_set_var_return st name v))).
Proof.
  intros H. unfold st_set_var_return. apply via_bind; [now apply via_set_var|].
  intros st1 x H1. exact H1.
Qed.

Lemma via_unset_var ss0 st name :
  via_ops ss0 (i_scopes st) -> via_ops ss0 (i_scopes (st_unset_var st name)).
Proof.
  intros H. rewrite st_unset_var_is_op, i_scopes_set.
  apply via_step; [apply (var_ops_simple name name)|exact H].
Qed.

Ltac via_tac :=
  repeat (cbv beta;
    match goal with
    | H : via_ops ?s (i_scopes ?st) |- via_ops ?s (i_scopes ?st) => exact H
    | |- via_ops _ (i_scopes (fst (bind _ _))) => apply via_bind; [|intros ? ? ?]
    | |- via_ops _ (i_scopes (fst (lift _ _))) => cbn [lift fst]
    | |- via_ops _ (i_scopes (fst (ret _ _))) => cbn [ret fst]
    | |- via_ops _ (i_scopes (fst (fail _ _))) => cbn [fail fst]
    | |- via_ops _ (i_scopes (fst (lift_sum _ _))) => cbn [lift_sum fst]
    | |- via_ops _ (i_scopes (fst (ok_empty _))) => cbn [ok_empty ret fst]
    | |- via_ops _ (i_scopes (fst (st_set_var _ _ _))) => apply via_set_var
    | |- via_ops _ (i_scopes (fst (st_set_var_return _ _ _))) => apply via_set_var_return
    | |- via_ops _ (i_scopes (set_scopes _ _)) => rewrite i_scopes_set
    | |- via_ops _ (i_scopes (fst (if ?c then _ else _))) => destruct c
    | |- via_ops _ (i_scopes (fst (match ?c with _ => _ end))) => destruct c eqn:?
    end).

Theorem cmd_set_via st argv : via_ops (i_scopes st) (i_scopes (fst (cmd_set st argv))).
Proof. pose proof (via_refl (i_scopes st)). unfold cmd_set. via_tac. Qed.

Theorem cmd_incr_via st argv : via_ops (i_scopes st) (i_scopes (fst (cmd_incr st argv))).
Proof. pose proof (via_refl (i_scopes st)). unfold cmd_incr. via_tac. Qed.

Theorem cmd_append_via st argv : via_ops (i_scopes st) (i_scopes (fst (cmd_append st argv))).
Proof. pose proof (via_refl (i_scopes st)). unfold cmd_append. via_tac. Qed.

Theorem cmd_lappend_via st argv : via_ops (i_scopes st) (i_scopes (fst (cmd_lappend st argv))).
Proof. pose proof (via_refl (i_scopes st)). unfold cmd_lappend. via_tac. Qed.

Theorem cmd_global_via st argv : via_ops (i_scopes st) (i_scopes (fst (cmd_global st argv))).
Proof.
  rewrite cmd_global_is_ops. cbn [ok_empty ret fst]. rewrite i_scopes_set. eexists. split; [|reflexivity].
  apply Forall_forall. intros o Ho. apply in_map_iff in Ho. destruct Ho as [x [<- _]]. split; discriminate.
Qed.

Theorem cmd_unset_via st argv : via_ops (i_scopes st) (i_scopes (fst (cmd_unset st argv))).
Proof.
  pose proof (via_refl (i_scopes st)) as H. unfold cmd_unset. via_tac.
  match goal with
  | |- via_ops ?s (i_scopes (?F ?st1 ?ll true)) =>
      assert (HF : forall l0 st0 b0, via_ops s (i_scopes st0) -> via_ops s (i_scopes (F st0 l0 b0)));
        [|apply HF; assumption]
  end.
  clear. intros l. induction l as [|x l IH]; intros st0 b Hv; [assumption|].
  destruct (b && str_eqb (as_str x) (lit "--")); [apply IH; assumption|].
  destruct (b && str_eqb (as_str x) (lit "-nocomplain")); apply IH; [assumption|].
  now apply via_unset_var.
Qed.

Ltac via_tac2 :=
  repeat (cbv beta zeta;
    match goal with
    | H : via_ops ?s (i_scopes ?st) |- via_ops ?s (i_scopes ?st) => exact H
    | |- via_ops _ (i_scopes (fst (bind _ _))) => apply via_bind; [|intros ? ? ?]
    | |- via_ops _ (i_scopes (fst (lift _ _))) => cbn [lift fst]
    | |- via_ops _ (i_scopes (fst (ret _ _))) => cbn [ret fst]
    | |- via_ops _ (i_scopes (fst (fail _ _))) => cbn [fail fst]
    | |- via_ops _ (i_scopes (fst (lift_sum _ _))) => cbn [lift_sum fst]
    | |- via_ops _ (i_scopes (fst (ok_empty _))) => cbn [ok_empty ret fst]
    | |- via_ops _ (i_scopes (fst (st_set_var _ _ _))) => apply via_set_var
    | |- via_ops _ (i_scopes (fst (st_set_var_return _ _ _))) => apply via_set_var_return
    | |- via_ops _ (i_scopes (set_scopes _ _)) => rewrite i_scopes_set
    | |- via_ops _ (sc_array_unset (i_scopes ?st) ?n) =>
        apply (via_step _ (i_scopes st) (OArrayUnset n)); [split; discriminate|]
    | |- via_ops _ (sc_unset_element (i_scopes ?st) ?n ?i) =>
        apply (via_step _ (i_scopes st) (OUnsetElem n i)); [split; discriminate|]
    | E : sc_array_set (i_scopes ?st) ?n ?l = (?ss, _) |- via_ops _ ?ss =>
        replace ss with (fst (m_step (i_scopes st) (OArraySet n l))) by (cbn [m_step]; rewrite E; reflexivity);
        apply via_step; [split; discriminate|]
    | |- via_ops _ (i_scopes (fst (if ?c then _ else _))) => destruct c
    | |- via_ops _ (i_scopes (fst (match ?c with _ => _ end))) => destruct c eqn:?
    end).

Theorem cmd_array_via st argv : via_ops (i_scopes st) (i_scopes (fst (cmd_array st argv))).
Proof. pose proof (via_refl (i_scopes st)). unfold cmd_array. via_tac2. Qed.

Theorem cmd_info_via U st argv : via_ops (i_scopes st) (i_scopes (fst (cmd_info U st argv))).
Proof. pose proof (via_refl (i_scopes st)). unfold cmd_info. via_tac2. Qed.

(* so the refinement extends to these commands: whatever they do to the scope stack is a run of
   the abstract operations, and the invariant is kept *)
Definition var_command (U : uni) (c : interp -> list value -> M value) : Prop :=
  In c [cmd_set; cmd_unset; cmd_global; cmd_incr; cmd_append; cmd_lappend; cmd_array; cmd_info U].

Theorem var_commands_via U c st argv :
  var_command U c -> via_ops (i_scopes st) (i_scopes (fst (c st argv))).
Proof.
  intros Hc. unfold var_command in Hc. cbn [In] in Hc.
  destruct Hc as [<-|[<-|[<-|[<-|[<-|[<-|[<-|[<-|[]]]]]]]]].
  - apply cmd_set_via.
  - apply cmd_unset_via.
  - apply cmd_global_via.
  - apply cmd_incr_via.
  - apply cmd_append_via.
  - apply cmd_lappend_via.
  - apply cmd_array_via.
  - apply cmd_info_via.
Qed.

Theorem var_commands_refine U c st argv a :
  var_command U c -> R (i_scopes st) a ->
  exists ops, Forall simple ops /\
    i_scopes (fst (c st argv)) = fst (run_ops (i_scopes st) ops) /\
    R (i_scopes (fst (c st argv))) (fst (a_run_ops a ops)).
Proof.
  intros Hc HR. destruct (var_commands_via U c st argv Hc) as [ops [Hs Heq]].
  exists ops. split; [exact Hs|]. split; [exact Heq|]. rewrite Heq.
  apply run_refines; [exact HR|now apply simple_ops_ok].
Qed.
Print Assumptions var_commands_refine.

(* sequences of variable commands, each with its own arguments *)
Fixpoint run_cmds (st : interp) (cs : list ((interp -> list value -> M value) * list value)) : interp :=
  match cs with
  | [] => st
  | (c, argv) :: r => run_cmds (fst (c st argv)) r
  end.

Theorem var_command_sequences_refine U cs : forall st a,
  Forall (fun ca => var_command U (fst ca)) cs -> R (i_scopes st) a ->
  exists ops, Forall simple ops /\
    i_scopes (run_cmds st cs) = fst (run_ops (i_scopes st) ops) /\
    R (i_scopes (run_cmds st cs)) (fst (a_run_ops a ops)).
Proof.
  induction cs as [|[c argv] r IH]; intros st a Hall HR; cbn [run_cmds].
  - exists []. split; [constructor|]. split; [reflexivity|exact HR].
  - inversion Hall as [|x l Hc Hr]; subst. cbn [fst] in Hc.
    destruct (var_commands_refine U c st argv a Hc HR) as [ops1 [Hs1 [Heq1 HR1]]].
    destruct (IH _ _ Hr HR1) as [ops2 [Hs2 [Heq2 HR2]]].
    exists (ops1 ++ ops2). split; [now apply Forall_app|]. split.
    + now rewrite run_ops_app_fst, <- Heq1.
    + assert (forall l1 b l2, fst (a_run_ops b (l1 ++ l2)) = fst (a_run_ops (fst (a_run_ops b l1)) l2)) as Happ.
      { induction l1 as [|o l1 IHl]; intros b l2; [reflexivity|]. cbn [app a_run_ops].
        destruct (a_step b o) as [b1 y]. specialize (IHl b1 l2).
        destruct (a_run_ops b1 (l1 ++ l2)) as [b2 ys]. destruct (a_run_ops b1 l1) as [b3 zs]. exact IHl. }
      now rewrite Happ.
Qed.
Print Assumptions var_command_sequences_refine.

Corollary var_commands_keep_winv U cs st :
  Forall (fun ca => var_command U (fst ca)) cs -> winv (i_scopes st) -> winv (i_scopes (run_cmds st cs)).
Proof.
  intros Hall Hw. destruct (var_command_sequences_refine U cs st _ Hall (R_abs _ Hw)) as [ops [_ [_ HR]]].
  apply HR.
Qed.

(* ---------- assumptions of the remaining theorems ---------- *)
Print Assumptions R_iff_abs.
Print Assumptions get_refines.
Print Assumptions get_elem_refines.
Print Assumptions set_refines.
Print Assumptions set_global_refines.
Print Assumptions set_elem_refines.
Print Assumptions array_set_refines.
Print Assumptions unset_refines.
Print Assumptions array_unset_refines.
Print Assumptions unset_elem_refines.
Print Assumptions exists_refines.
Print Assumptions elem_exists_refines.
Print Assumptions array_exists_refines.
Print Assumptions array_map_refines.
Print Assumptions global_refines.
Print Assumptions push_refines.
Print Assumptions pop_refines.
Print Assumptions vars_refines.
Print Assumptions globals_refines.
Print Assumptions locals_refines.
Print Assumptions step_refines.
Print Assumptions reachable_R.
Print Assumptions one_entry_kind.
Print Assumptions last_write_abs.
Print Assumptions last_elem_write_abs.
Print Assumptions push_hides.
Print Assumptions push_hides_model.
Print Assumptions caller_frames_kept.
Print Assumptions run_glob_kept.
Print Assumptions global_declares.
Print Assumptions linked_acts_on_global.
Print Assumptions outputs_exact.
Print Assumptions unset_creates_nothing_abs.
Print Assumptions array_unset_creates_nothing_abs.
Print Assumptions unset_absent_abs.
Print Assumptions unset_elem_absent_abs.
Print Assumptions array_unset_absent_abs.
Print Assumptions unset_elem_missing_abs.
Print Assumptions exists_agrees_abs.
Print Assumptions exists_agrees.
Print Assumptions elem_exists_agrees.
Print Assumptions listings_agree_abs.
Print Assumptions set_global_agrees.
Print Assumptions unset_elem_gone_abs.
Print Assumptions array_keys_distinct_abs.
Print Assumptions unreachable_stack.
Print Assumptions st_var_is_op.
Print Assumptions st_var_exists_is_op.
Print Assumptions st_set_var_is_op.
Print Assumptions st_unset_var_is_op.
Print Assumptions cmd_global_is_ops.
Print Assumptions cmd_set_via.
Print Assumptions cmd_incr_via.
Print Assumptions cmd_append_via.
Print Assumptions cmd_lappend_via.
Print Assumptions cmd_global_via.
Print Assumptions cmd_unset_via.
Print Assumptions cmd_array_via.
Print Assumptions cmd_info_via.
Print Assumptions var_commands_via.
Print Assumptions var_commands_keep_winv.
