(* NoEvalFacts2.v — C12, second part: what a skipped operand can and cannot do.

   1. [?:] parses, and does not evaluate, the arm that is not selected.
   2. In no-eval mode every error is a syntax (lexical / grammatical) error of the text: an
      explicit finite family of messages; never a run-time error.  No panic site is reachable.
   3. In no-eval mode the command executor is never called: the complete result (state and
      value) is the same for every executor.
   4. The no-eval counter is balanced in EVERY mode, so a skip nested inside a skipped operand
      cannot re-enable evaluation. *)
From Molt Require Import Model.Base Model.Tokenizer Model.ListSyn Model.Float Model.Value
  Model.State Model.Script Model.Parser Model.Eval Model.Expr.
From Molt Require Import Proofs.ListAsCommandFacts Proofs.TotalFacts Proofs.NoEvalFacts.
From Coq Require Import Lia ZifyBool ZifyN.

Arguments N.eqb : simpl never.
Arguments N.leb : simpl never.
Arguments N.ltb : simpl never.
Arguments Z.eqb : simpl never.
Arguments Z.leb : simpl never.
Arguments Z.ltb : simpl never.

(* ====================================================================== *)
(* A. the error messages of the script reader                              *)
(* ====================================================================== *)

Definition parser_messages : list str :=
  [ lit "missing close-brace";
    lit "extra characters after close-brace";
    lit "missing close-brace for variable name";
    lit "missing """;
    lit "extra characters after close-quote";
    lit "missing close-bracket";
    lit "missing )" ].

Definition perr_ok {A : Type} (r : pres A) : Prop :=
  match r with PErr m => In m parser_messages | _ => True end.

Ltac in_msgs := cbn [In parser_messages]; repeat (first [left; reflexivity | right]).

(* destruct an innermost match scrutinee; if it is a reader result, first record that its error
   message is one of the list (from the hypotheses in the context) *)
Ltac pm :=
  match goal with
  | |- context [match ?x with _ => _ end] =>
      lazymatch x with
      | context [match _ with _ => _ end] => fail
      | _ => idtac
      end;
      first [ let H := fresh "Hp" in
              assert (H : perr_ok x) by auto;
              destruct x; cbn [perr_ok] in H; cbv beta iota
            | destruct x; cbv beta iota ]
  end.

Ltac pfin := cbn [perr_ok]; first [ exact I | assumption | solve [in_msgs] | solve [auto] ].

Lemma parse_braced_body_msgs : forall n s count acc,
  (length s <= n)%nat -> perr_ok (parse_braced_body s count acc).
Proof.
  induction n as [|n IH]; intros s count acc Hlen.
  - destruct s as [|c r]; [cbn [parse_braced_body]; pfin|cbn [length] in Hlen; lia].
  - destruct s as [|c r]; [cbn [parse_braced_body]; pfin|].
    cbn [length] in Hlen. cbn [parse_braced_body].
    destruct (N.eqb c c_lbrace); [apply IH; lia|].
    destruct (N.eqb c c_rbrace); [destruct count; [exact I|apply IH; lia]|].
    destruct (N.eqb c c_bslash); [|apply IH; lia].
    destruct r as [|d r']; [pfin|]. cbn [length] in Hlen.
    destruct (N.eqb d c_nl); apply IH; lia.
Qed.

Lemma parse_braced_word_msgs bt s : perr_ok (parse_braced_word bt s).
Proof.
  unfold parse_braced_word. destruct s as [|c r]; [pfin|].
  pose proof (parse_braced_body_msgs _ r 0%nat [] (le_n _)) as Hb.
  destruct (parse_braced_body r 0 []); cbn [perr_ok] in Hb; [|pfin|pfin].
  destruct (_ || _); pfin.
Qed.

Lemma parse_braced_string_msgs s : perr_ok (parse_braced_string s).
Proof.
  unfold parse_braced_string. destruct s as [|c r]; [pfin|].
  pose proof (parse_braced_body_msgs _ r 0%nat [] (le_n _)) as Hb.
  destruct (parse_braced_body r 0 []); cbn [perr_ok] in Hb; pfin.
Qed.

Lemma parse_braced_varname_msgs s : perr_ok (parse_braced_varname s).
Proof.
  unfold parse_braced_varname.
  destruct (skip_while _ s); [pfin|].
  destruct (parse_varname_literal _) as [name [idx|]]; pfin.
Qed.

Section ParserMsgs.
Variable isa : char -> bool.

Definition P_all (fuel : nat) : Prop :=
  (forall bt s acc, perr_ok (parse_script isa fuel bt s acc))
  /\ (forall bt s, perr_ok (parse_command isa fuel bt s))
  /\ (forall bt s acc, perr_ok (parse_words isa fuel bt s acc))
  /\ (forall bt s, perr_ok (parse_next_word isa fuel bt s))
  /\ (forall bt chk s t, perr_ok (parse_quoted isa fuel bt chk s t))
  /\ (forall bt ix s t, perr_ok (parse_bare isa fuel bt ix s t))
  /\ (forall s, perr_ok (parse_brackets isa fuel s))
  /\ (forall bt s t, perr_ok (parse_dollar isa fuel bt s t))
  /\ (forall bt s, perr_ok (parse_varname isa fuel bt s)).

Lemma P_holds : forall fuel, P_all fuel.
Proof.
  induction fuel as [|f IH].
  { unfold P_all. repeat split; intros; exact I. }
  destruct IH as (IHS & IHC & IHW & IHN & IHQ & IHB & IHBR & IHD & IHV).
  pose proof parse_braced_word_msgs as HBW.
  pose proof parse_braced_varname_msgs as HBV.
  unfold P_all. repeat apply conj.
  - intros bt s acc. rewrite parse_script_eq. repeat pm; pfin.
  - intros bt s. rewrite parse_command_eq. cbv zeta. repeat pm; pfin.
  - intros bt s acc. rewrite parse_words_eq. repeat pm; pfin.
  - intros bt s. rewrite parse_next_word_eq. cbv zeta. repeat pm; pfin.
  - intros bt chk s t. rewrite parse_quoted_eq. repeat pm; pfin.
  - intros bt ix s t. rewrite parse_bare_eq. repeat pm; pfin.
  - intros s. rewrite parse_brackets_eq. repeat pm; pfin.
  - intros bt s t. rewrite parse_dollar_eq. repeat pm; pfin.
  - intros bt s. rewrite parse_varname_eq. repeat pm; pfin.
Qed.

Theorem parse_script_msgs fuel bt s acc m :
  parse_script isa fuel bt s acc = PErr m -> In m parser_messages.
Proof. intros H. pose proof (proj1 (P_holds fuel) bt s acc) as Hp. rewrite H in Hp. exact Hp. Qed.

Theorem parse_quoted_msgs fuel bt chk s t m :
  parse_quoted isa fuel bt chk s t = PErr m -> In m parser_messages.
Proof.
  intros H. destruct (P_holds fuel) as (_ & _ & _ & _ & HQ & _).
  pose proof (HQ bt chk s t) as Hp. rewrite H in Hp. exact Hp.
Qed.

Theorem parse_varname_msgs fuel bt s m :
  parse_varname isa fuel bt s = PErr m -> In m parser_messages.
Proof.
  intros H. destruct (P_holds fuel) as (_ & _ & _ & _ & _ & _ & _ & _ & HV).
  pose proof (HV bt s) as Hp. rewrite H in Hp. exact Hp.
Qed.

End ParserMsgs.

Print Assumptions parse_script_msgs.
Print Assumptions parse_quoted_msgs.
Print Assumptions parse_varname_msgs.

(* ====================================================================== *)
(* B. goal 4: the no-eval counter is balanced, in every mode               *)
(* ====================================================================== *)

Local Open Scope Z_scope.

Lemma ctr_trans info info' r :
  e_noeval info' = e_noeval info -> ctr_ok info' r -> ctr_ok info r.
Proof. intros He H. destruct r as [[d i]| | |]; cbn [ctr_ok] in *; congruence. Qed.

(* the scrutinee at the head of a nest of case analyses *)
Ltac head_of t :=
  lazymatch t with
  | match ?x with _ => _ end => head_of x
  | _ => constr:(t)
  end.

Section Counter.
Variable ia ib : char -> bool.
Variable exec : executor.
Variable original : str.

Local Notation GV := (expr_get_value ia ib exec original).
Local Notation LOOP := (expr_loop ia ib exec original).
Local Notation LEX := (expr_lex ia ib exec original).
Local Notation MF := (expr_math_func ia ib exec original).

Definition GV_ctr (f : nat) : Prop := forall st info pr, ctr_ok info (snd (GV f st info pr)).
Definition LOOP_ctr (f : nat) : Prop := forall st info pr v, ctr_ok info (snd (LOOP f st info pr v)).
Definition LEX_ctr (f : nat) : Prop := forall st info, ctr_ok info (snd (LEX f st info)).
Definition MF_ctr (f : nat) : Prop := forall st info name, ctr_ok info (snd (MF f st info name)).

(* one step through the body: case analysis on the scrutinee at the head; if that is a recursive
   call, record what the induction hypothesis says about its counter *)
Ltac cstep IHg IHl :=
  lazymatch goal with
  | |- ctr_ok _ (snd (match ?x with _ => _ end)) =>
      let s := head_of x in
      lazymatch s with
      | expr_get_value _ _ _ _ _ ?st ?i ?pr =>
          let H := fresh "Hc" in
          pose proof (IHg st i pr) as H;
          destruct s as [? [[? ?]| | |]]; cbn [snd ctr_ok] in H
      | expr_lex _ _ _ _ _ ?st ?i =>
          let H := fresh "Hc" in
          pose proof (IHl st i) as H;
          destruct s as [? [[? ?]| | |]]; cbn [snd ctr_ok] in H
      | _ => destruct s
      end; cbv beta iota
  | |- ctr_ok _ (snd (_, match _ with _ => _ end)) => cbn [snd]
  | |- ctr_ok _ (match ?x with _ => _ end) =>
      let s := head_of x in destruct s; cbv beta iota
  end.

Ltac cnum := cbn [e_noeval e_token with_noeval with_token with_tok_rest with_rest] in *; lia.

Ltac cfin IHo IHm :=
  unfold syntax_error, illegal_type, err;
  first [ solve [cbn [snd]; cbn [ctr_ok]; first [exact I | cnum]]
        | solve [eapply ctr_trans; [|apply IHo]; cnum]
        | solve [eapply ctr_trans; [|apply IHm]; cnum] ].

Lemma lex_ctr_step f : MF_ctr f -> LEX_ctr (S f).
Proof.
  intros IHm st info. rewrite expr_lex_S.
  unfold lex_value_of, lex_number, lift_p, err. cbv beta iota zeta.
  repeat cstep IHm IHm; cfin IHm IHm.
Qed.

Lemma mf_ctr_step f : GV_ctr f -> LEX_ctr f -> MF_ctr (S f).
Proof.
  intros IHg IHl st info name. rewrite expr_math_func_S. unfold syntax_error, err. cbv zeta.
  repeat cstep IHg IHl; cfin IHg IHg.
Qed.

Lemma gv_ctr_step f : GV_ctr f -> LOOP_ctr f -> LEX_ctr f -> GV_ctr (S f).
Proof.
  intros IHg IHo IHl st info pr. rewrite expr_get_value_S. unfold gv_first, syntax_error, err. cbv zeta.
  repeat cstep IHg IHl; cfin IHo IHo.
Qed.

Lemma loop_ctr_step f : GV_ctr f -> LOOP_ctr f -> LOOP_ctr (S f).
Proof.
  intros IHg IHo st info pr v. rewrite expr_loop_S.
  unfold loop_skip_right, loop_questy_true, loop_questy_false, loop_plain, loop_after,
    syntax_error, err.
  cbv zeta.
  repeat cstep IHg IHg; cfin IHo IHo.
Qed.

Lemma ctr_inv : forall f, GV_ctr f /\ LOOP_ctr f /\ LEX_ctr f /\ MF_ctr f.
Proof.
  induction f as [|f (IHg & IHo & IHl & IHm)].
  - split; [|split; [|split]]; intros ? **;
      cbn [expr_get_value expr_loop expr_lex expr_math_func snd ctr_ok]; exact I.
  - assert (Hl : LEX_ctr (S f)) by (apply lex_ctr_step; assumption).
    split; [|split; [|split]].
    + apply gv_ctr_step; assumption.
    + apply loop_ctr_step; assumption.
    + exact Hl.
    + apply mf_ctr_step; assumption.
Qed.

(* goal 4 *)
Theorem counter_restored : forall fuel st info pr st' v info',
  GV fuel st info pr = (st', Ok (v, info')) -> e_noeval info' = e_noeval info.
Proof.
  intros fuel st info pr st' v info' H.
  pose proof (proj1 (ctr_inv fuel) st info pr) as Hc. rewrite H in Hc. exact Hc.
Qed.

Theorem counter_restored_loop : forall fuel st info pr v0 st' v info',
  LOOP fuel st info pr v0 = (st', Ok (v, info')) -> e_noeval info' = e_noeval info.
Proof.
  intros fuel st info pr v0 st' v info' H.
  destruct (ctr_inv fuel) as (_ & Ho & _). pose proof (Ho st info pr v0) as Hc.
  rewrite H in Hc. exact Hc.
Qed.

Theorem counter_restored_lex : forall fuel st info st' v info',
  LEX fuel st info = (st', Ok (v, info')) -> e_noeval info' = e_noeval info.
Proof.
  intros fuel st info st' v info' H.
  destruct (ctr_inv fuel) as (_ & _ & Hl & _). pose proof (Hl st info) as Hc.
  rewrite H in Hc. exact Hc.
Qed.

Theorem counter_restored_math_func : forall fuel st info name st' v info',
  MF fuel st info name = (st', Ok (v, info')) -> e_noeval info' = e_noeval info.
Proof.
  intros fuel st info name st' v info' H.
  destruct (ctr_inv fuel) as (_ & _ & _ & Hm). pose proof (Hm st info name) as Hc.
  rewrite H in Hc. exact Hc.
Qed.

(* the mode itself, as the task states it *)
Corollary noeval_mode_restored : forall fuel st info pr st' v info',
  GV fuel st info pr = (st', Ok (v, info')) -> noeval info' = noeval info.
Proof.
  intros fuel st info pr st' v info' H. unfold noeval.
  rewrite (counter_restored _ _ _ _ _ _ _ H). reflexivity.
Qed.

End Counter.

Print Assumptions counter_restored.
Print Assumptions counter_restored_loop.
Print Assumptions counter_restored_lex.
Print Assumptions counter_restored_math_func.
Print Assumptions noeval_mode_restored.

(* ====================================================================== *)
(* C. goal 2: in no-eval mode every error is a syntax error                *)
(* ====================================================================== *)

(* The messages of the errors the expression reader can raise without evaluating anything:
   grammar errors, the errors of the script reader in [..] "..." {..} $name(..) operands, unknown
   function names, and numeric LITERALS that do not denote a number of the implementation
   (an integer literal outside the 64-bit range). *)
Inductive syntax_msg (original : str) : str -> Prop :=
| SM_syntax :
    syntax_msg original (lit "syntax error in expression """ ++ original ++ lit """")
| SM_parens :
    syntax_msg original (lit "unmatched parentheses in expression """ ++ original ++ lit """")
| SM_dollar :
    syntax_msg original (lit "invalid character ""$""")
| SM_reader m :
    In m parser_messages -> syntax_msg original m
| SM_unknown_func name :
    expr_find_func name = false ->
    syntax_msg original (lit "unknown math function """ ++ name ++ lit """")
| SM_too_many :
    syntax_msg original (lit "too many arguments for math function")
| SM_int_literal p tok rest :
    read_int p = Some (tok, rest) -> get_int tok = None ->
    syntax_msg original (err_expected_int tok)
| SM_float_literal p tok rest :
    read_float p = Some (tok, rest) -> get_float tok = None ->
    syntax_msg original (err_expected_float tok).

Definition syn_err (original : str) (e : exn) : Prop :=
  exists m, e = molt_err m /\ syntax_msg original m.

(* what a no-eval run may return: a value with the counter restored, a syntax error, or Fuel;
   never a panic *)
Definition syn_ok (original : str) (info : einfo) (r : res (datum * einfo)) : Prop :=
  match r with
  | Ok (_, i') => e_noeval i' = e_noeval info
  | Err e => syn_err original e
  | Panic _ => False
  | Fuel => True
  end.

Lemma syn_ok_trans original info info' r :
  e_noeval info' = e_noeval info -> syn_ok original info' r -> syn_ok original info r.
Proof. intros He H. destruct r as [[d i]| | |]; cbn [syn_ok] in *; congruence. Qed.

Section SyntaxErrors.
Variable ia ib : char -> bool.
Variable exec : executor.
Variable original : str.

Local Notation GV := (expr_get_value ia ib exec original).
Local Notation LOOP := (expr_loop ia ib exec original).
Local Notation LEX := (expr_lex ia ib exec original).
Local Notation MF := (expr_math_func ia ib exec original).

Definition GV_syn (f : nat) : Prop := forall st info pr, noeval info = true ->
  syn_ok original info (snd (GV f st info pr)).
Definition LOOP_syn (f : nat) : Prop := forall st info pr v, noeval info = true ->
  syn_ok original info (snd (LOOP f st info pr v)).
Definition LEX_syn (f : nat) : Prop := forall st info, noeval info = true ->
  syn_ok original info (snd (LEX f st info)).
Definition MF_syn (f : nat) : Prop := forall st info name, noeval info = true ->
  syn_ok original info (snd (MF f st info name)).

(* case analysis that remembers the equation, except for boolean tests that play no role later *)
Ltac sdestruct s :=
  lazymatch type of s with
  | bool =>
      lazymatch s with
      | context [expr_find_func] => destruct s eqn:?
      | _ => destruct s
      end
  | _ => destruct s eqn:?
  end.

(* the arithmetic of the counter: only the hypotheses that mention it are relevant *)
Ltac snum :=
  unfold noeval in *;
  cbn [e_noeval e_token with_noeval with_token with_tok_rest with_rest] in *;
  repeat match goal with
         | H : ?a = _ |- _ =>
             lazymatch a with context [e_noeval] => fail | _ => clear H end
         end;
  lia.

(* one step through the body *)
Ltac sstep IHg IHl :=
  lazymatch goal with
  | |- syn_ok _ _ (snd (match ?x with _ => _ end)) =>
      let s := head_of x in
      lazymatch s with
      | expr_get_value _ _ _ _ _ ?st ?i ?pr =>
          let H := fresh "Hc" in
          pose proof (IHg st i pr ltac:(snum)) as H;
          destruct s as [? [[? ?]| | |]]; cbn [snd syn_ok] in H
      | expr_lex _ _ _ _ _ ?st ?i =>
          let H := fresh "Hc" in
          pose proof (IHl st i ltac:(snum)) as H;
          destruct s as [? [[? ?]| | |]]; cbn [snd syn_ok] in H
      | context [noeval ?i] =>
          let H := fresh "Hn" in
          assert (H : noeval i = true) by snum; rewrite !H; clear H; cbn [negb andb]
      | _ => sdestruct s
      end; cbv beta iota
  | |- syn_ok _ _ (snd (_, match _ with _ => _ end)) => cbn [snd]
  | |- syn_ok _ _ (match ?x with _ => _ end) =>
      let s := head_of x in sdestruct s; cbv beta iota
  end.

Ltac smsg :=
  first [ apply SM_syntax | apply SM_parens | apply SM_dollar | apply SM_too_many
        | apply SM_unknown_func; apply Bool.negb_true_iff; assumption
        | eapply SM_int_literal; eassumption
        | eapply SM_float_literal; eassumption
        | apply SM_reader;
          first [ solve [in_msgs]
                | eapply parse_script_msgs; eassumption
                | eapply parse_quoted_msgs; eassumption
                | eapply parse_varname_msgs; eassumption
                | match goal with
                  | E : parse_braced_string ?p = PErr _ |- _ =>
                      let Hp := fresh "Hp" in
                      pose proof (parse_braced_string_msgs p) as Hp; rewrite E in Hp; exact Hp
                  end ] ].

Ltac sfin IHo IHm :=
  first [ solve [eapply syn_ok_trans; [|apply IHo; snum]; snum]
        | solve [eapply syn_ok_trans; [|apply IHm; snum]; snum]
        | solve [cbn [snd]; cbn [syn_ok];
                 first [ exact I | assumption | contradiction
                       | eexists; split; [reflexivity|]; smsg
                       | snum
                       | exfalso;
                         match goal with
                         | E : parse_braced_string _ = POk _ _ |- _ =>
                             apply parse_braced_string_value in E; destruct E; discriminate
                         end ]] ].

Lemma lex_syn_step f : MF_syn f -> LEX_syn (S f).
Proof.
  intros IHm st info Hne. rewrite expr_lex_S.
  unfold lex_value_of, lex_number, lift_p, err. cbv beta iota zeta.
  repeat sstep IHm IHm; sfin IHm IHm.
Qed.

Lemma mf_syn_step f : GV_syn f -> LEX_syn f -> MF_syn (S f).
Proof.
  intros IHg IHl st info name Hne. rewrite expr_math_func_S. unfold syntax_error, err. cbv zeta.
  repeat sstep IHg IHl; sfin IHg IHg.
Qed.

Lemma gv_syn_step f : GV_syn f -> LOOP_syn f -> LEX_syn f -> GV_syn (S f).
Proof.
  intros IHg IHo IHl st info pr Hne. rewrite expr_get_value_S.
  unfold gv_first, syntax_error, err. cbv zeta.
  repeat sstep IHg IHl; sfin IHo IHo.
Qed.

Lemma loop_syn_step f : GV_syn f -> LOOP_syn f -> LOOP_syn (S f).
Proof.
  intros IHg IHo st info pr v Hne. rewrite expr_loop_S.
  unfold conv_left, d_bool, loop_skip_right, loop_questy_true, loop_questy_false, loop_plain,
    loop_after, syntax_error, err.
  cbv zeta.
  repeat sstep IHg IHg; sfin IHo IHo.
Qed.

Lemma syn_inv : forall f, GV_syn f /\ LOOP_syn f /\ LEX_syn f /\ MF_syn f.
Proof.
  induction f as [|f (IHg & IHo & IHl & IHm)].
  - split; [|split; [|split]]; intros ? **;
      cbn [expr_get_value expr_loop expr_lex expr_math_func snd syn_ok]; exact I.
  - assert (Hl : LEX_syn (S f)) by (apply lex_syn_step; assumption).
    split; [|split; [|split]].
    + apply gv_syn_step; assumption.
    + apply loop_syn_step; assumption.
    + exact Hl.
    + apply mf_syn_step; assumption.
Qed.

End SyntaxErrors.

(* ---------- goal 2, the theorems ---------- *)

Section SyntaxTheorems.
Variable ia ib : char -> bool.
Variable exec : executor.
Variable original : str.

Local Notation GV := (expr_get_value ia ib exec original).
Local Notation LOOP := (expr_loop ia ib exec original).
Local Notation LEX := (expr_lex ia ib exec original).
Local Notation MF := (expr_math_func ia ib exec original).

Theorem noeval_errors_are_syntax : forall fuel st info pr st' e,
  noeval info = true ->
  GV fuel st info pr = (st', Err e) ->
  exists m, e = molt_err m /\ syntax_msg original m.
Proof.
  intros fuel st info pr st' e Hne H.
  pose proof (proj1 (syn_inv ia ib exec original fuel) st info pr Hne) as Hs.
  rewrite H in Hs. exact Hs.
Qed.

Theorem noeval_errors_are_syntax_loop : forall fuel st info pr v st' e,
  noeval info = true ->
  LOOP fuel st info pr v = (st', Err e) ->
  exists m, e = molt_err m /\ syntax_msg original m.
Proof.
  intros fuel st info pr v st' e Hne H.
  destruct (syn_inv ia ib exec original fuel) as (_ & Ho & _).
  pose proof (Ho st info pr v Hne) as Hs. rewrite H in Hs. exact Hs.
Qed.

Theorem noeval_errors_are_syntax_lex : forall fuel st info st' e,
  noeval info = true ->
  LEX fuel st info = (st', Err e) ->
  exists m, e = molt_err m /\ syntax_msg original m.
Proof.
  intros fuel st info st' e Hne H.
  destruct (syn_inv ia ib exec original fuel) as (_ & _ & Hl & _).
  pose proof (Hl st info Hne) as Hs. rewrite H in Hs. exact Hs.
Qed.

Theorem noeval_errors_are_syntax_math_func : forall fuel st info name st' e,
  noeval info = true ->
  MF fuel st info name = (st', Err e) ->
  exists m, e = molt_err m /\ syntax_msg original m.
Proof.
  intros fuel st info name st' e Hne H.
  destruct (syn_inv ia ib exec original fuel) as (_ & _ & _ & Hm).
  pose proof (Hm st info name Hne) as Hs. rewrite H in Hs. exact Hs.
Qed.

(* no panic site is reachable in no-eval mode, whatever the executor does *)
Theorem noeval_no_panic : forall fuel st info pr st' q,
  noeval info = true -> GV fuel st info pr <> (st', Panic q).
Proof.
  intros fuel st info pr st' q Hne H.
  pose proof (proj1 (syn_inv ia ib exec original fuel) st info pr Hne) as Hs.
  rewrite H in Hs. exact Hs.
Qed.

End SyntaxTheorems.

(* ---------- what the messages are not ---------- *)

(* how the run-time errors of expressions begin: unset variables, unknown commands, operand type
   errors ("can't use non-numeric string / floating-point value as operand of ..."), arithmetic *)
Definition runtime_prefixes : list str :=
  [ lit "can't read";
    lit "invalid command name";
    lit "divide by zero";
    lit "can't use";
    lit "integer overflow";
    lit "shift count out of range";
    lit "argument to math function";
    lit "can't have : operator";
    lit "unknown operator";
    lit "unknown unary op";
    lit "expected boolean";
    lit "expected list" ].

Lemma syntax_msg_not_runtime original m :
  syntax_msg original m -> forall p, In p runtime_prefixes -> starts_with p m = false.
Proof.
  intros H p Hp. cbn [In runtime_prefixes] in Hp.
  destruct H as [ | | | m Hm | name Hname | | q tok rest Hq Hg | q tok rest Hq Hg ].
  4: { cbn [In parser_messages] in Hm.
       repeat (destruct Hm as [<-|Hm]; [repeat (destruct Hp as [<-|Hp]; [reflexivity|]); contradiction|]).
       contradiction. }
  all: repeat (destruct Hp as [<-|Hp]; [reflexivity|]); contradiction.
Qed.

(* "expected integer" CAN be reported for a skipped operand, but only for an integer literal of
   the text that does not fit the implementation's integers *)
Lemma syntax_msg_expected_integer original m :
  syntax_msg original m -> starts_with (lit "expected integer") m = true ->
  exists p tok rest, read_int p = Some (tok, rest) /\ get_int tok = None /\ m = err_expected_int tok.
Proof.
  intros H Hs.
  destruct H as [ | | | m Hm | name Hname | | q tok rest Hq Hg | q tok rest Hq Hg ];
    try (vm_compute in Hs; discriminate Hs).
  - cbn [In parser_messages] in Hm.
    repeat (destruct Hm as [<-|Hm]; [vm_compute in Hs; discriminate Hs|]). contradiction.
  - exists q, tok, rest. repeat split; assumption.
Qed.

Lemma as_str_molt_err m : as_str (x_value (molt_err m)) = m.
Proof. reflexivity. Qed.

Theorem noeval_errors_not_runtime : forall ia ib exec original fuel st info pr st' e,
  noeval info = true ->
  expr_get_value ia ib exec original fuel st info pr = (st', Err e) ->
  x_code e = CError /\
  forall p, In p runtime_prefixes -> starts_with p (as_str (x_value e)) = false.
Proof.
  intros ia ib exec original fuel st info pr st' e Hne H.
  destruct (noeval_errors_are_syntax _ _ _ _ _ _ _ _ _ _ Hne H) as (m & -> & Hm).
  split; [reflexivity|]. intros p Hp. rewrite as_str_molt_err.
  eapply syntax_msg_not_runtime; eassumption.
Qed.

Print Assumptions noeval_errors_are_syntax.
Print Assumptions noeval_errors_are_syntax_loop.
Print Assumptions noeval_errors_are_syntax_lex.
Print Assumptions noeval_errors_are_syntax_math_func.
Print Assumptions noeval_no_panic.
Print Assumptions noeval_errors_not_runtime.
Print Assumptions syntax_msg_expected_integer.

(* ====================================================================== *)
(* D. goal 3: in no-eval mode the executor is never called                 *)
(* ====================================================================== *)

Section ExecIrrelevant.
Variable ia ib : char -> bool.
Variable original : str.

Local Notation GV e := (expr_get_value ia ib e original).
Local Notation LOOP e := (expr_loop ia ib e original).
Local Notation LEX e := (expr_lex ia ib e original).
Local Notation MF e := (expr_math_func ia ib e original).

Lemma agree_same info st (a b : eres) : agree info st st a b -> a = b.
Proof.
  intros (H1 & H2 & H3 & _). destruct a as [sa ra], b as [sb rb]. cbn [fst snd] in *. congruence.
Qed.

(* the COMPLETE outcome (final state and result) is the same for any two executors *)
Theorem noeval_exec_irrelevant : forall exec1 exec2 fuel st info pr,
  noeval info = true ->
  GV exec1 fuel st info pr = GV exec2 fuel st info pr.
Proof.
  intros exec1 exec2 fuel st info pr Hne. apply (agree_same info st).
  apply (noeval_all ia ib original exec1 exec2 fuel st st info Hne).
Qed.

Theorem noeval_exec_irrelevant_loop : forall exec1 exec2 fuel st info pr v,
  noeval info = true ->
  LOOP exec1 fuel st info pr v = LOOP exec2 fuel st info pr v.
Proof.
  intros exec1 exec2 fuel st info pr v Hne. apply (agree_same info st).
  apply (noeval_all ia ib original exec1 exec2 fuel st st info Hne).
Qed.

Theorem noeval_exec_irrelevant_lex : forall exec1 exec2 fuel st info,
  noeval info = true ->
  LEX exec1 fuel st info = LEX exec2 fuel st info.
Proof.
  intros exec1 exec2 fuel st info Hne. apply (agree_same info st).
  apply (noeval_all ia ib original exec1 exec2 fuel st st info Hne).
Qed.

Theorem noeval_exec_irrelevant_math_func : forall exec1 exec2 fuel st info name,
  noeval info = true ->
  MF exec1 fuel st info name = MF exec2 fuel st info name.
Proof.
  intros exec1 exec2 fuel st info name Hne. apply (agree_same info st).
  apply (noeval_all ia ib original exec1 exec2 fuel st st info Hne).
Qed.

(* and it is: the state handed in, paired with a result that is a function of the text alone —
   computed here with an executor that traps when called, in an arbitrary other state *)
Theorem noeval_is_pure : forall exec fuel st st0 info pr,
  noeval info = true ->
  GV exec fuel st info pr = (st, snd (GV trap_exec fuel st0 info pr)).
Proof.
  intros exec fuel st st0 info pr Hne.
  destruct (noeval_all ia ib original exec trap_exec fuel st st0 info Hne) as (Hg & _).
  destruct (Hg pr) as (H1 & _ & H3 & _).
  destruct (GV exec fuel st info pr) as [sa ra]. cbn [fst snd] in *. congruence.
Qed.

End ExecIrrelevant.

Print Assumptions noeval_exec_irrelevant.
Print Assumptions noeval_exec_irrelevant_loop.
Print Assumptions noeval_exec_irrelevant_lex.
Print Assumptions noeval_exec_irrelevant_math_func.
Print Assumptions noeval_is_pure.

(* ====================================================================== *)
(* E. goal 1: [c ? x : y] parses, and does not evaluate, the other arm     *)
(* ====================================================================== *)

Section Questy.
Variable ia ib : char -> bool.
Variable exec : executor.
Variable original : str.

Local Notation GV := (expr_get_value ia ib exec original).
Local Notation LOOP := (expr_loop ia ib exec original).
Local Notation LEX := (expr_lex ia ib exec original).

Lemma apply_binop_questy va vb : apply_binop T_QUESTY va vb = Ok va.
Proof. reflexivity. Qed.

(* the value of [c ? x : y] is the value [va] of the evaluated arm, in every mode *)
Lemma loop_after_questy_any f pr st2 i2 va vb :
  loop_after ia ib exec original f T_QUESTY pr st2 i2 va vb =
  if bad_after_token i2 then (st2, syntax_error original) else LOOP f st2 i2 pr va.
Proof.
  unfold loop_after. rewrite apply_binop_questy.
  destruct (bad_after_token i2); [reflexivity|]. destruct (noeval i2); reflexivity.
Qed.

(* [expr_loop] stands on the [?] of [c ? x : y]; [v] is the value of [c] and [st] the state after
   evaluating it.  [c] true: [x] is evaluated (value [va], state [st2]); then [y] is read with the
   counter incremented — of that reading only the result is used, which by [noeval_is_pure] is a
   function of the text alone; an error in it (by [noeval_errors_are_syntax]: a syntax error) is
   returned in state [st2]; otherwise the rest of the expression is processed from state [st2]
   itself with value [va] and the counter as it was. *)
Theorem questy_true_skips_else2 f st info pr v :
  e_token info = T_QUESTY -> pr < prec T_QUESTY -> datum_truth v = Some true ->
  LOOP (S f) st info pr v =
  match GV f st info pq with
  | (st2, Ok (va, i2)) =>
      if negb (e_token i2 =? T_COLON) then (st2, syntax_error original)
      else
        match snd (GV f st2 (with_noeval i2 (e_noeval info + 1)) pq) with
        | Ok (_, i3) =>
            let i3' := with_noeval i3 (e_noeval info) in
            if bad_after_token i3' then (st2, syntax_error original)
            else LOOP f st2 i3' pr va
        | Err e => (st2, Err e)
        | Panic p => (st2, Panic p)
        | Fuel => (st2, Fuel)
        end
  | (st2, Err e) => (st2, Err e)
  | (st2, Panic p) => (st2, Panic p)
  | (st2, Fuel) => (st2, Fuel)
  end.
Proof.
  intros Hop Hpr Hv. rewrite questy_true_skips_else by assumption.
  destruct (GV f st info pq) as [st2 [[va i2]| | |]] eqn:E; try reflexivity.
  rewrite (counter_restored _ _ _ _ _ _ _ _ _ _ _ E).
  destruct (negb (e_token i2 =? T_COLON)); [reflexivity|].
  destruct (snd (GV f st2 (with_noeval i2 (e_noeval info + 1)) pq)) as [[vb i3]| | |];
    try reflexivity.
  apply loop_after_questy_any.
Qed.

(* [c] false: [x] is only read (from state [st], which is returned untouched), then [y] is
   evaluated from [st] with the counter as it was, and its value [va] is the value of [?:] *)
Theorem questy_false_skips_then2 f st info pr v :
  e_token info = T_QUESTY -> pr < prec T_QUESTY -> datum_truth v = Some false ->
  LOOP (S f) st info pr v =
  match snd (GV f st (with_noeval info (e_noeval info + 1)) pq) with
  | Ok (_, i2) =>
      let i2' := with_noeval i2 (e_noeval info) in
      if negb (e_token i2' =? T_COLON) then (st, syntax_error original)
      else
        match GV f st i2' pq with
        | (st3, Ok (va, i3)) =>
            if bad_after_token i3 then (st3, syntax_error original)
            else LOOP f st3 i3 pr va
        | (st3, Err e) => (st3, Err e)
        | (st3, Panic p) => (st3, Panic p)
        | (st3, Fuel) => (st3, Fuel)
        end
  | Err e => (st, Err e)
  | Panic p => (st, Panic p)
  | Fuel => (st, Fuel)
  end.
Proof.
  intros Hop Hpr Hv. rewrite questy_false_skips_then by assumption.
  destruct (snd (GV f st (with_noeval info (e_noeval info + 1)) pq)) as [[vb i2]| | |];
    try reflexivity.
  cbv zeta.
  destruct (negb (e_token (with_noeval i2 (e_noeval info)) =? T_COLON)); [reflexivity|].
  destruct (GV f st (with_noeval i2 (e_noeval info)) pq) as [st3 [[va i3]| | |]]; try reflexivity.
  apply loop_after_questy_any.
Qed.

(* the same seen from [expr_get_value], when the condition is a single operand (a literal, a
   variable, a bracketed command, a quoted or braced string): lexing it gives the value [c] and
   state [st1], the next token is [?], and from there on the two theorems above apply *)
Theorem questy_get_value f st info pr st1 c i1 st2 d i2 :
  LEX (S f) st info = (st1, Ok (c, i1)) -> e_token i1 = T_VALUE ->
  LEX (S f) st1 i1 = (st2, Ok (d, i2)) ->
  GV (S (S f)) st info pr = LOOP (S f) st2 i2 pr c.
Proof.
  intros H1 Ht H2. rewrite expr_get_value_S, H1.
  assert (Hf : gv_first ia ib exec original (S f) st1 c i1 = (st1, Ok (c, i1, false))).
  { unfold gv_first, unary_tok. rewrite Ht. reflexivity. }
  rewrite Hf, H2. reflexivity.
Qed.

End Questy.

Print Assumptions questy_true_skips_else2.
Print Assumptions questy_false_skips_then2.
Print Assumptions questy_get_value.

(* ====================================================================== *)
(* F. non-vacuity, by computation on the complete interpreter              *)
(* ====================================================================== *)
From Molt Require Import Model.Commands Model.Unicode Model.Interp Check.ScriptObs.

(* [rec] is the harness' recording command: its calls are visible in [i_trace];
   [run_expr] (Proofs/NoEvalFacts.v) runs [expr] on [harness_interp 0] *)
Definition run_msg (s : string) : list (list str) * option str :=
  match run_expr s with
  | (t, Err e) => (t, Some (as_str (x_value e)))
  | (t, _) => (t, None)
  end.

Example or_skips_command : run_expr "1 || [rec boom]" = ([], Ok (VInt 1)).
Proof. vm_compute. reflexivity. Qed.

Example questy_skips_then_arm : run_expr "0 ? [rec a] : 7" = ([], Ok (VInt 7)).
Proof. vm_compute. reflexivity. Qed.

Example questy_skips_else_arm : run_expr "1 ? 7 : [rec a]" = ([], Ok (VInt 7)).
Proof. vm_compute. reflexivity. Qed.

Example questy_runs_selected_arm :
  fst (run_expr "0 ? [rec a] : [rec b]") = [[lit "rec"; lit "b"]] /\
  fst (run_expr "1 ? [rec a] : [rec b]") = [[lit "rec"; lit "a"]].
Proof. vm_compute. split; reflexivity. Qed.

Example skipped_syntax_error_reported :
  run_msg "0 && (1 +" = ([], Some (lit "syntax error in expression ""0 && (1 +""")).
Proof. vm_compute. reflexivity. Qed.

(* run-time errors of a skipped operand are not raised *)
Example skipped_runtime_errors_silent :
  run_expr "1 || $nosuch" = ([], Ok (VInt 1)) /\
  run_expr "0 && [nosuchcmd]" = ([], Ok (VInt 0)) /\
  run_expr "1 || 1 / 0" = ([], Ok (VInt 1)) /\
  run_expr "0 && (""a"" + 1)" = ([], Ok (VInt 0)) /\
  run_expr "1 ? 2 : abs(""x"")" = ([], Ok (VInt 2)) /\
  run_expr "1 || -9223372036854775807 - 5" = ([], Ok (VInt 1)).
Proof. vm_compute. repeat split. Qed.

(* a skip nested in a skipped operand does not re-enable evaluation *)
Example nested_skips :
  run_expr "1 || (0 && [rec a]) || [rec b]" = ([], Ok (VInt 1)) /\
  run_expr "0 ? (1 ? [rec a] : [rec b]) : 5" = ([], Ok (VInt 5)) /\
  run_expr "1 || (1 || [rec a]) + [rec b]" = ([], Ok (VInt 1)).
Proof. vm_compute. repeat split. Qed.

(* math functions in a skipped operand are read, not evaluated; an unknown name is still an error *)
Example skipped_math_func :
  run_expr "1 || int([rec a])" = ([], Ok (VInt 1)) /\
  run_msg "1 || nosuchfn(1)" = ([], Some (lit "unknown math function ""nosuchfn""")) /\
  run_msg "1 || int(1, 2)" = ([], Some (lit "too many arguments for math function")).
Proof. vm_compute. repeat split. Qed.

(* COUNTEREXAMPLE to "never 'expected integer' in a skipped operand": an integer literal that does
   not fit 64 bits is rejected by the lexer even in no-eval mode.  This is the [SM_int_literal]
   case of [syntax_msg]; see [syntax_msg_expected_integer]. *)
Example skipped_literal_out_of_range :
  run_msg "1 || 99999999999999999999"
  = ([], Some (lit "expected integer but got ""99999999999999999999""")).
Proof. vm_compute. reflexivity. Qed.

(* goal 3 on a concrete skipped operand: reading it with the trapping executor gives a result,
   not the trap *)
Example trap_not_sprung :
  let s := lit "[rec a] + $x * int([rec b])" in
  match snd (expr_get_value is_alphanumeric is_alphabetic trap_exec s 100 (harness_interp 0)
               {| e_rest := s; e_token := -1; e_noeval := 1 |} (-1)) with
  | Ok (_, i) => e_token i = T_END /\ e_noeval i = 1%N
  | _ => False
  end.
Proof. vm_compute. split; reflexivity. Qed.
