(* TotalFacts.v — C01: evaluation is total.  In the model a Rust panic site is the explicit outcome
   [Panic site] and non-termination shows up as running out of fuel ([Fuel] / [PFuel] / [None]).
   This file proves that these outcomes are unreachable for the pure entry points, for ALL inputs:
     - backslash substitution (size and scalar-value facts);
     - the list reader [get_list] and the list / dict views of values;
     - the number lexers [read_int] / [read_float] and [expr_parse_string];
     - the script reader: [parse_script] & co. never return [PFuel] when given
       [6 * length s + c] units of fuel, hence [parse] is total;
     - the expression evaluator: [expr_get_value] & co. never return [Fuel] when given
       [2 * length s + c] units of fuel (provided the command executor does not), hence
       [expr_eval] with [expr_fuel s = 4 * length s + 16] is total; and its own panic sites
       are unreachable. *)
From Molt Require Import Model.Base Model.Tokenizer Model.ListSyn Model.Float Model.Script Model.Parser.
From Molt Require Import Model.Value Model.State Model.Eval Model.Expr.
From Molt Require Import Proofs.BaseFacts Proofs.ListSynFacts Proofs.ListAsCommandFacts.
From Coq Require Import Lia ZifyBool ZifyN.

Arguments N.eqb : simpl never.
Arguments N.leb : simpl never.
Arguments N.ltb : simpl never.

Local Open Scope N_scope.

(* ====================================================================== *)
(* 1. generic size facts                                                   *)
(* ====================================================================== *)

Lemma skip_while_len (p : char -> bool) : forall s, (length (skip_while p s) <= length s)%nat.
Proof.
  induction s as [|c r IH]; [cbn; lia|]. cbn [skip_while]. destruct (p c); cbn [length] in *; lia.
Qed.

Lemma skip_while_strict (p : char -> bool) c r :
  p c = true -> (length (skip_while p (c :: r)) < length (c :: r))%nat.
Proof.
  intros H. cbn [skip_while]. rewrite H. pose proof (skip_while_len p r). cbn [length]. lia.
Qed.

(* the result of skip_while does not start with a skipped character *)
Lemma skip_while_head (p : char -> bool) : forall s c r, skip_while p s = c :: r -> p c = false.
Proof.
  induction s as [|x s IH]; intros c r H; [discriminate|].
  cbn [skip_while] in H. destruct (p x) eqn:E; [eapply IH; eassumption|].
  inversion H. subst. assumption.
Qed.

Lemma take_skip_while (p : char -> bool) : forall s, take_while p s ++ skip_while p s = s.
Proof.
  induction s as [|c r IH]; [reflexivity|]. cbn [take_while skip_while].
  destruct (p c); [cbn [app]; rewrite IH|]; reflexivity.
Qed.

Lemma take_upto_spec (p : char -> bool) : forall n s d r,
  take_upto n p s = (d, r) -> d ++ r = s /\ (length d <= n)%nat /\ forallb p d = true.
Proof.
  induction n as [|n IH]; intros s d r H.
  - cbn in H. inversion H. subst. cbn. repeat split; lia.
  - destruct s as [|c s']; [cbn in H; inversion H; subst; cbn; repeat split; lia|].
    cbn [take_upto] in H. destruct (p c) eqn:E.
    + destruct (take_upto n p s') as [d' r'] eqn:E'. inversion H. subst.
      destruct (IH _ _ _ E') as (A & B & C). cbn [app length forallb]. rewrite A, E, C.
      repeat split; lia.
    + inversion H. subst. cbn. repeat split; lia.
Qed.

(* ====================================================================== *)
(* 2. backslash substitution                                               *)
(* ====================================================================== *)

(* [bsubst] is a plain (non-fuelled) function, so it is total by construction.  It returns a
   suffix of its input. *)
Lemma bsubst_suffix r : exists p, r = p ++ snd (bsubst r).
Proof.
  unfold bsubst. destruct r as [|c r]; [exists []; reflexivity|].
  repeat match goal with
         | |- context [if ?a =? ?b then _ else _] => destruct (a =? b); [exists [c]; reflexivity|]
         end.
  destruct (is_digit8 c).
  { destruct (take_upto 2 is_digit8 r) as [ds r'] eqn:E.
    destruct (take_upto_spec _ _ _ _ _ E) as (A & _ & _). exists (c :: ds). cbn [snd app]. congruence. }
  destruct ((c =? 120) || (c =? 117) || (c =? 85)); [|exists [c]; reflexivity].
  destruct (take_upto _ is_digit16 r) as [ds r'] eqn:E.
  destruct (take_upto_spec _ _ _ _ _ E) as (A & _ & _).
  destruct ds as [|d ds]; [exists [c]; reflexivity|].
  destruct (is_scalar _); [|exists [c]; reflexivity].
  exists (c :: d :: ds). cbn [snd]. rewrite <- A. reflexivity.
Qed.

Lemma bsubst_len r : (length (snd (bsubst r)) <= length r)%nat.
Proof.
  destruct (bsubst_suffix r) as (p & H). rewrite H at 2. rewrite app_length. lia.
Qed.

Lemma bsubst_len' r ch rest : bsubst r = (ch, rest) -> (length rest <= length r)%nat.
Proof. intros H. pose proof (bsubst_len r) as L. rewrite H in L. exact L. Qed.

(* an octal escape has at most three digits: its value is at most 0o777 = 511 *)
Lemma digit8_val c : is_digit8 c = true -> digit_val c <= 7.
Proof.
  intros H. unfold digit_val.
  assert (E : is_digit10 c = true) by (revert H; unfold is_digit10, is_digit8; lia).
  rewrite E. revert H. unfold is_digit8. lia.
Qed.

Lemma octal_value_bound c ds :
  is_digit8 c = true -> (length ds <= 2)%nat -> forallb is_digit8 ds = true ->
  digits_val 8 (c :: ds) <= 511.
Proof.
  intros Hc Hl Hd. unfold digits_val. pose proof (digit8_val c Hc) as Vc.
  destruct ds as [|a [|b [|x ds]]]; cbn [length] in Hl; try lia; cbn [forallb] in Hd; cbn [fold_left].
  - lia.
  - assert (Ha : is_digit8 a = true) by lia. pose proof (digit8_val a Ha). lia.
  - assert (Ha : is_digit8 a = true) by lia. assert (Hb : is_digit8 b = true) by lia.
    pose proof (digit8_val a Ha). pose proof (digit8_val b Hb). lia.
Qed.

(* the substituted character is a scalar value whenever the input consists of scalar values *)
Theorem bsubst_scalar r :
  forallb is_scalar r = true -> is_scalar (fst (bsubst r)) = true.
Proof.
  intros Hs. unfold bsubst. destruct r as [|c r]; [reflexivity|].
  cbn [forallb] in Hs. apply andb_prop in Hs. destruct Hs as [Hc Hr].
  repeat match goal with
         | |- context [if ?a =? ?b then _ else _] => destruct (a =? b); [reflexivity|]
         end.
  destruct (is_digit8 c) eqn:E8.
  { destruct (take_upto 2 is_digit8 r) as [ds r'] eqn:E.
    destruct (take_upto_spec _ _ _ _ _ E) as (_ & B & C). cbn [fst].
    pose proof (octal_value_bound c ds E8 B C) as Hb. unfold is_scalar. lia. }
  destruct ((c =? 120) || (c =? 117) || (c =? 85)); [|exact Hc].
  destruct (take_upto _ is_digit16 r) as [ds r'] eqn:E.
  destruct ds as [|d ds]; [exact Hc|].
  destruct (is_scalar (digits_val 16 (d :: ds))) eqn:Ev; [exact Ev|exact Hc].
Qed.

Print Assumptions bsubst_scalar.
Print Assumptions bsubst_len.

(* ====================================================================== *)
(* 3. the list reader                                                      *)
(* ====================================================================== *)

(* braced item: the remaining input is a proper suffix *)
Lemma pbi_len : forall n s count acc w rest,
  (length s <= n)%nat -> pbi s count acc = inr (w, rest) -> (length rest < length s)%nat.
Proof.
  induction n as [|n IH]; intros s count acc w rest Hn H.
  - destruct s; [discriminate|cbn in Hn; lia].
  - destruct s as [|c r]; [discriminate|]. cbn [pbi] in H. cbn [length] in *.
    destruct (c =? c_bslash).
    { destruct r as [|d r']; [discriminate|]. cbn [length] in *.
      apply IH in H; [lia|lia]. }
    destruct (c =? c_lbrace); [apply IH in H; lia|].
    destruct (c =? c_rbrace); [|apply IH in H; lia].
    destruct count as [|k]; [|apply IH in H; lia].
    destruct r as [|x r']; [inversion H; cbn; lia|].
    destruct (is_list_white x); [|discriminate]. inversion H. subst. lia.
Qed.

(* quoted item *)
Lemma pqi_len : forall fuel s acc w rest,
  pqi fuel s acc = inr (w, rest) -> (length rest < length s)%nat.
Proof.
  induction fuel as [|f IH]; intros s acc w rest H; [discriminate|].
  cbn [pqi] in H. destruct s as [|c r]; [discriminate|]. cbn [length].
  destruct (c =? c_dquote); [inversion H; subst; lia|].
  destruct (c =? c_bslash).
  - destruct (bsubst r) as [ch r'] eqn:E. apply bsubst_len' in E. apply IH in H. lia.
  - apply IH in H. lia.
Qed.

(* the private fuel [S (length r)] of a quoted item is never the reason for "unmatched quote":
   any two sufficient amounts of fuel give the same result *)
Lemma pqi_fuel_indep : forall f1 f2 s acc,
  (length s <= f1)%nat -> (length s <= f2)%nat -> pqi f1 s acc = pqi f2 s acc.
Proof.
  induction f1 as [|f1 IH]; intros f2 s acc H1 H2.
  - destruct s; [|cbn in H1; lia]. destruct f2; reflexivity.
  - destruct f2 as [|f2]; [destruct s; [reflexivity|cbn in H2; lia]|].
    cbn [pqi]. destruct s as [|c r]; [reflexivity|]. cbn [length] in *.
    destruct (c =? c_dquote); [reflexivity|].
    destruct (c =? c_bslash).
    + destruct (bsubst r) as [ch r'] eqn:E. apply bsubst_len' in E. apply IH; lia.
    + apply IH; lia.
Qed.

(* bare item *)
Lemma pbare_len : forall fuel s acc, (length (snd (pbare fuel s acc)) <= length s)%nat.
Proof.
  induction fuel as [|f IH]; intros s acc; [cbn; lia|].
  cbn [pbare]. destruct s as [|c r]; [cbn; lia|].
  destruct (is_list_white c); [cbn; lia|].
  destruct (c =? c_bslash).
  - destruct (bsubst r) as [ch r'] eqn:E. apply bsubst_len' in E.
    pose proof (IH r' (ch :: acc)). cbn [length]. lia.
  - pose proof (IH r (c :: acc)). cbn [length]. lia.
Qed.

Lemma pbare_strict f c r acc :
  is_list_white c = false ->
  (length (snd (pbare (S f) (c :: r) acc)) < length (c :: r))%nat.
Proof.
  intros W. cbn [pbare]. rewrite W. destruct (c =? c_bslash).
  - destruct (bsubst r) as [ch r'] eqn:E. apply bsubst_len' in E.
    pose proof (pbare_len f r' (ch :: acc)). cbn [length]. lia.
  - pose proof (pbare_len f r (c :: acc)). cbn [length]. lia.
Qed.

Lemma pbare_fuel_indep : forall f1 f2 s acc,
  (length s < f1)%nat -> (length s < f2)%nat -> pbare f1 s acc = pbare f2 s acc.
Proof.
  induction f1 as [|f1 IH]; intros f2 s acc H1 H2; [lia|].
  destruct f2 as [|f2]; [lia|].
  cbn [pbare]. destruct s as [|c r]; [reflexivity|]. cbn [length] in *.
  destruct (is_list_white c); [reflexivity|].
  destruct (c =? c_bslash).
  - destruct (bsubst r) as [ch r'] eqn:E. apply bsubst_len' in E. apply IH; lia.
  - apply IH; lia.
Qed.

(* one item: progress *)
Lemma parse_item_len c r item rest :
  is_list_white c = false -> parse_item (c :: r) = inr (item, rest) ->
  (length rest < length (c :: r))%nat.
Proof.
  intros W H. unfold parse_item in H.
  destruct (c =? c_lbrace).
  { apply (pbi_len (length r)) in H; [cbn [length]; lia|lia]. }
  destruct (c =? c_dquote).
  { apply pqi_len in H. cbn [length]. lia. }
  pose proof (pbare_strict (length (c :: r)) c r [] W) as L.
  destruct (pbare (S (length (c :: r))) (c :: r) []) as [i' r'].
  assert (E : (i', r') = (item, rest)) by congruence.
  inversion E. subst. exact L.
Qed.

Lemma parse_list_total : forall fuel s acc,
  (length s < fuel)%nat -> parse_list fuel s acc <> None.
Proof.
  induction fuel as [|f IH]; intros s acc Hf; [lia|].
  cbn [parse_list].
  destruct (skip_while is_list_white s) as [|c r] eqn:E; [discriminate|].
  pose proof (skip_while_head _ _ _ _ E) as W.
  pose proof (skip_while_len is_list_white s) as L. rewrite E in L.
  destruct (parse_item (c :: r)) as [e|[item rest]] eqn:Ei; [discriminate|].
  apply parse_item_len in Ei; [|exact W]. apply IH. lia.
Qed.

(* C01: the list reader never runs out of fuel *)
Theorem get_list_total : forall s, get_list s <> None.
Proof. intros s. unfold get_list. apply parse_list_total. lia. Qed.

Print Assumptions get_list_total.

(* more fuel does not change the result *)
Lemma parse_list_fuel_indep : forall f1 f2 s acc,
  (length s < f1)%nat -> (length s < f2)%nat -> parse_list f1 s acc = parse_list f2 s acc.
Proof.
  induction f1 as [|f1 IH]; intros f2 s acc H1 H2; [lia|].
  destruct f2 as [|f2]; [lia|]. cbn [parse_list].
  destruct (skip_while is_list_white s) as [|c r] eqn:E; [reflexivity|].
  pose proof (skip_while_head _ _ _ _ E) as W.
  pose proof (skip_while_len is_list_white s) as L. rewrite E in L.
  destruct (parse_item (c :: r)) as [e|[item rest]] eqn:Ei; [reflexivity|].
  apply parse_item_len in Ei; [|exact W]. apply IH; lia.
Qed.

Lemma list_err_msg_not_fuel e : list_err_msg e <> lit "OUT OF FUEL".
Proof. destruct e; discriminate. Qed.

Theorem str_as_list_total : forall s,
  (exists l, str_as_list s = inr l) \/ (exists e, str_as_list s = inl (list_err_msg e)).
Proof.
  intros s. unfold str_as_list. pose proof (get_list_total s) as T.
  destruct (get_list s) as [[e|l]|]; [right; exists e; reflexivity|left; eexists; reflexivity|congruence].
Qed.

Theorem v_as_list_total : forall v,
  (exists l, v_as_list v = inr l) \/ (exists e, v_as_list v = inl (list_err_msg e)).
Proof.
  intros v. destruct v; try apply str_as_list_total. left. eexists. reflexivity.
Qed.

Corollary v_as_list_never_fuel : forall v, v_as_list v <> inl (lit "OUT OF FUEL").
Proof.
  intros v H. destruct (v_as_list_total v) as [(l & E)|(e & E)]; rewrite E in H; [discriminate|].
  inversion H as [H']. exact (list_err_msg_not_fuel e H').
Qed.

Theorem v_as_dict_total : forall v,
  (exists d, v_as_dict v = inr d)
  \/ (exists e, v_as_dict v = inl (list_err_msg e))
  \/ v_as_dict v = inl (lit "missing value to go with key").
Proof.
  assert (G : forall s,
    (exists d, match str_as_list s with
               | inl e => inl e
               | inr l => if Nat.even (length l) then inr (list_to_dict l)
                          else inl (lit "missing value to go with key")
               end = inr d)
    \/ (exists e, match str_as_list s with
               | inl e => inl e
               | inr l => if Nat.even (length l) then inr (list_to_dict l)
                          else inl (lit "missing value to go with key")
               end = inl (list_err_msg e))
    \/ match str_as_list s with
               | inl e => inl e
               | inr l => if Nat.even (length l) then inr (list_to_dict l)
                          else inl (lit "missing value to go with key")
               end = inl (lit "missing value to go with key")).
  { intros s. destruct (str_as_list_total s) as [(l & E)|(e & E)]; rewrite E.
    - destruct (Nat.even (length l)); [left; eexists; reflexivity|right; right; reflexivity].
    - right; left. exists e. reflexivity. }
  intros v. destruct v; try apply G. left. eexists. reflexivity.
Qed.

Corollary v_as_dict_never_fuel : forall v, v_as_dict v <> inl (lit "OUT OF FUEL").
Proof.
  intros v H. destruct (v_as_dict_total v) as [(l & E)|[(e & E)|E]]; rewrite E in H; try discriminate.
  inversion H as [H']. exact (list_err_msg_not_fuel e H').
Qed.

Print Assumptions v_as_list_total.
Print Assumptions v_as_dict_total.

(* ====================================================================== *)
(* 4. the number lexers and the typed views                                *)
(* ====================================================================== *)

Lemma tw_sw_eq (p : char -> bool) s r : skip_while p s = r -> take_while p s ++ r = s.
Proof. intros <-. apply take_skip_while. Qed.

Ltac fin H :=
  match type of H with
  | match ?t with [] => _ | _ :: _ => _ end = _ => let Et := fresh "Et" in destruct t eqn:Et; [discriminate|];
    match type of H with (if ?m then _ else _) = _ => destruct m; [discriminate|] end;
    inversion H; subst; split; [rewrite <- Et; cbn [app]; rewrite <- ?app_assoc; cbn [app]; rewrite ?take_skip_while; try reflexivity | discriminate]
  end.

Theorem read_int_consumes : forall s tok rest,
  read_int s = Some (tok, rest) -> tok ++ rest = s /\ tok <> [].
Proof.
  intros s tok rest H. unfold read_int in H.
  destruct s as [|c r]; [discriminate|].
  destruct (N.eqb c c_plus || N.eqb c c_minus); cbv beta iota zeta in H.
  - destruct r as [|c' r']; [discriminate|].
    destruct (N.eqb c' 48); cbv beta iota zeta in H.
    + destruct r' as [|x r'']; cbv beta iota zeta in H; [fin H|].
      destruct (N.eqb x 120); cbv beta iota zeta in H; fin H.
    + fin H.
  - destruct (N.eqb c 48); cbv beta iota zeta in H.
    + destruct r as [|x r'']; cbv beta iota zeta in H; [fin H|].
      destruct (N.eqb x 120); cbv beta iota zeta in H; fin H.
    + fin H.
Qed.

Theorem read_float_consumes : forall s tok rest,
  read_float s = Some (tok, rest) -> tok ++ rest = s /\ tok <> [].
Proof.
  intros s tok rest H. unfold read_float in H.
  set (sg := match s with
             | c :: r => if N.eqb c c_plus || N.eqb c c_minus then ([c], r) else ([], s)
             | [] => ([], s)
             end) in H.
  assert (Hsg : fst sg ++ snd sg = s).
  { subst sg. destruct s as [|c r]; [reflexivity|]. destruct (N.eqb c c_plus || N.eqb c c_minus); reflexivity. }
  destruct sg as [sign s1]. cbn [fst snd] in Hsg. cbv beta iota zeta in H.
  destruct (is_c 73 s1 || is_c 105 s1).
  { destruct s1 as [|i [|n [|f rest']]]; try discriminate.
    destruct ((N.eqb n 78 || N.eqb n 110) && (N.eqb f 70 || N.eqb f 102)); [|discriminate].
    inversion H. subst. split; [rewrite <- app_assoc; reflexivity|].
    destruct sign; discriminate. }
  pose proof (take_skip_while is_digit10 s1) as E1.
  set (ip := take_while is_digit10 s1) in *. set (r1 := skip_while is_digit10 s1) in *.
  set (fr := match r1 with
             | c :: r => if N.eqb c c_dot
                         then (c :: take_while is_digit10 r, skip_while is_digit10 r)
                         else ([], r1)
             | [] => ([], r1)
             end) in H.
  assert (Hfr : fst fr ++ snd fr = r1).
  { subst fr. destruct r1 as [|c r]; [reflexivity|]. destruct (N.eqb c c_dot); [|reflexivity].
    cbn [fst snd app]. rewrite take_skip_while. reflexivity. }
  destruct fr as [fp r2]. cbn [fst snd] in Hfr. cbv beta iota zeta in H.
  set (ex := match r2 with
      | c :: r =>
          if N.eqb c 101%N || N.eqb c 69%N then
            let '(es, r') := match r with
                             | x :: y => if N.eqb x c_plus || N.eqb x c_minus then ([x], y) else ([], r)
                             | [] => ([], r)
                             end in
            let ed := take_while is_digit10 r' in
            (c :: es ++ ed, skip_while is_digit10 r', negb (Nat.eqb (length ed) 0))
          else ([], r2, true)
      | [] => ([], r2, true)
      end) in H.
  assert (Hex : fst (fst ex) ++ snd (fst ex) = r2).
  { subst ex. destruct r2 as [|c r]; [reflexivity|].
    destruct (N.eqb c 101 || N.eqb c 69); [|reflexivity].
    destruct r as [|x y]; [reflexivity|].
    destruct (N.eqb x c_plus || N.eqb x c_minus); cbn [fst snd app].
    - rewrite take_skip_while. reflexivity.
    - rewrite <- (take_skip_while is_digit10 (x :: y)) at 3. reflexivity. }
  destruct ex as [[ep r3] exp_ok]. cbn [fst snd] in Hex. cbv beta iota zeta in H.
  destruct (sign ++ ip ++ fp ++ ep) as [|t0 tk] eqn:Et; [discriminate|].
  destruct (_ && exp_ok); [|discriminate].
  inversion H. subst tok rest. split; [|discriminate].
  rewrite <- Et. rewrite <- !app_assoc. rewrite Hex, Hfr, E1. exact Hsg.
Qed.

Print Assumptions read_int_consumes.
Print Assumptions read_float_consumes.

(* expr_parse_string never panics and uses no fuel *)
Theorem expr_parse_string_no_panic : forall s,
  match expr_parse_string s with Panic _ | Fuel => False | _ => True end.
Proof.
  intros s. unfold expr_parse_string. destruct s as [|c r]; [exact I|].
  destruct (expr_looks_like_int (c :: r)).
  - destruct (read_int _) as [[tok rest]|]; [|exact I].
    destruct (skip_while is_whitespace rest); [|exact I].
    destruct (get_int tok); exact I.
  - destruct (read_float _) as [[tok rest]|]; [|exact I].
    destruct (skip_while is_whitespace rest); [|exact I].
    destruct (get_float tok); exact I.
Qed.

Corollary expr_parse_value_no_panic : forall v,
  match expr_parse_value v with Panic _ | Fuel => False | _ => True end.
Proof.
  intros v. unfold expr_parse_value. destruct (already_number v) as [[z|f]|]; try exact I.
  apply expr_parse_string_no_panic.
Qed.

Print Assumptions expr_parse_string_no_panic.

(* The typed views are plain functions into a sum type: they cannot panic or diverge.  Their only
   outcomes are a value or the documented error message. *)
Theorem v_as_int_total : forall v,
  (exists z, v_as_int v = inr z) \/ v_as_int v = inl (err_expected_int (as_str v)).
Proof.
  intros v. destruct v; cbn [v_as_int]; try (left; eexists; reflexivity);
    match goal with |- context [get_int ?s] => destruct (get_int s) end;
    first [left; eexists; reflexivity | right; reflexivity].
Qed.

Theorem v_as_bool_total : forall v,
  (exists b, v_as_bool v = inr b) \/ v_as_bool v = inl (err_expected_bool (as_str v)).
Proof.
  intros v. destruct v; cbn [v_as_bool]; try (left; eexists; reflexivity);
    match goal with |- context [get_bool ?s] => destruct (get_bool s) end;
    first [left; eexists; reflexivity | right; reflexivity].
Qed.

Theorem v_as_float_total : forall v,
  (exists f, v_as_float v = inr f) \/ v_as_float v = inl (err_expected_float (as_str v)).
Proof.
  intros v. destruct v; cbn [v_as_float]; try (left; eexists; reflexivity);
    match goal with |- context [get_float ?s] => destruct (get_float s) end;
    first [left; eexists; reflexivity | right; reflexivity].
Qed.

(* variable names: [parse_varname_literal] is a plain function; without an index the name is the
   whole text *)
Theorem parse_varname_literal_total : forall s,
  exists name idx, parse_varname_literal s = (name, idx) /\ (idx = None -> name = s).
Proof.
  intros s. unfold parse_varname_literal.
  destruct (skip_while _ s) as [|x after]; [exists s, None; split; [reflexivity|trivial]|].
  destruct (last_and_init after) as [[idx l]|]; [|exists s, None; split; [reflexivity|trivial]].
  destruct (l =? c_rparen); eexists; eexists; (split; [reflexivity|]); [discriminate|trivial].
Qed.

Print Assumptions v_as_int_total.
Print Assumptions v_as_bool_total.
Print Assumptions v_as_float_total.
Print Assumptions parse_varname_literal_total.

(* ====================================================================== *)
(* 5. the script reader                                                    *)
(* ====================================================================== *)

Ltac unfold_chars3 :=
  unfold at_end_of_command, at_end_of_script, next_is_line_white, next_is_block_white,
    is_line_white, is_whitespace, c_tab, c_nl, c_vt, c_ff, c_cr, c_space, c_dquote, c_hash,
    c_dollar, c_semi, c_star, c_rparen, c_lparen, c_lbracket, c_bslash, c_rbracket, c_lbrace,
    c_rbrace in *.

(* ---------- fuel-free pieces ---------- *)

Lemma pbb_len : forall n s count acc text rest,
  (length s <= n)%nat -> parse_braced_body s count acc = POk text rest ->
  (length rest < length s)%nat.
Proof.
  induction n as [|n IH]; intros s count acc text rest Hn H.
  - destruct s; [discriminate|cbn in Hn; lia].
  - destruct s as [|c r]; [discriminate|]. cbn [parse_braced_body] in H. cbn [length] in *.
    destruct (c =? c_lbrace); [apply IH in H; lia|].
    destruct (c =? c_rbrace).
    { destruct count as [|k]; [inversion H; subst; lia|apply IH in H; lia]. }
    destruct (c =? c_bslash); [|apply IH in H; lia].
    destruct r as [|d r']; [discriminate|]. cbn [length] in *.
    destruct (d =? c_nl); apply IH in H; lia.
Qed.

Lemma pbb_no_fuel : forall n s count acc,
  (length s <= n)%nat -> parse_braced_body s count acc <> PFuel.
Proof.
  induction n as [|n IH]; intros s count acc Hn.
  - destruct s; [discriminate|cbn in Hn; lia].
  - destruct s as [|c r]; [discriminate|]. cbn [parse_braced_body]. cbn [length] in *.
    destruct (c =? c_lbrace); [apply IH; lia|].
    destruct (c =? c_rbrace).
    { destruct count as [|k]; [discriminate|apply IH; lia]. }
    destruct (c =? c_bslash); [|apply IH; lia].
    destruct r as [|d r']; [discriminate|]. cbn [length] in *.
    destruct (d =? c_nl); apply IH; lia.
Qed.

Lemma parse_braced_word_len bt s w rest :
  parse_braced_word bt s = POk w rest -> (length rest < length s)%nat.
Proof.
  unfold parse_braced_word. destruct s as [|c r]; [discriminate|].
  destruct (parse_braced_body r 0 []) as [text rest'| |] eqn:E; try discriminate.
  apply (pbb_len (length r)) in E; [|lia].
  destruct (_ || _); [|discriminate]. intros H. inversion H. subst. cbn [length]. lia.
Qed.

Lemma parse_braced_word_no_fuel bt s : parse_braced_word bt s <> PFuel.
Proof.
  unfold parse_braced_word. destruct s as [|c r]; [discriminate|].
  pose proof (pbb_no_fuel (length r) r 0%nat [] (le_n _)) as N.
  destruct (parse_braced_body r 0 []) as [text rest'| |]; [|discriminate|congruence].
  destruct (_ || _); discriminate.
Qed.

Lemma parse_braced_string_len s w rest :
  parse_braced_string s = POk w rest -> (length rest < length s)%nat.
Proof.
  unfold parse_braced_string. destruct s as [|c r]; [discriminate|].
  destruct (parse_braced_body r 0 []) as [text rest'| |] eqn:E; try discriminate.
  apply (pbb_len (length r)) in E; [|lia].
  intros H. inversion H. subst. cbn [length]. lia.
Qed.

Lemma parse_braced_string_no_fuel s : parse_braced_string s <> PFuel.
Proof.
  unfold parse_braced_string. destruct s as [|c r]; [discriminate|].
  pose proof (pbb_no_fuel (length r) r 0%nat [] (le_n _)) as N.
  destruct (parse_braced_body r 0 []) as [text rest'| |]; [discriminate|discriminate|congruence].
Qed.

Lemma parse_braced_varname_len s w rest :
  parse_braced_varname s = POk w rest -> (length rest < length s)%nat.
Proof.
  unfold parse_braced_varname.
  pose proof (skip_while_len (fun c => negb (c =? c_rbrace)) s) as L.
  destruct (skip_while _ s) as [|x rest']; [discriminate|].
  destruct (parse_varname_literal _) as [name [idx|]]; intros H; inversion H; subst;
    cbn [length] in L; lia.
Qed.

Lemma parse_braced_varname_no_fuel s : parse_braced_varname s <> PFuel.
Proof.
  unfold parse_braced_varname.
  destruct (skip_while _ s) as [|x rest']; [discriminate|].
  destruct (parse_varname_literal _) as [name [idx|]]; discriminate.
Qed.

(* ---------- white space and comments before a command ---------- *)

Lemma skip_comment_body_len : forall n s,
  (length s <= n)%nat -> (length (skip_comment_body s) <= length s - 1)%nat.
Proof.
  induction n as [|n IH]; intros s Hn.
  - destruct s; [cbn; lia|cbn in Hn; lia].
  - destruct s as [|c r]; [cbn; lia|]. cbn [skip_comment_body]. cbn [length] in *.
    destruct (c =? c_nl); [lia|].
    destruct (c =? c_bslash).
    + destruct r as [|d r']; [cbn; lia|]. cbn [length] in *.
      pose proof (IH r' ltac:(lia)). lia.
    + pose proof (IH r ltac:(lia)). lia.
Qed.

Lemma skip_to_command_len : forall fuel bt s,
  (length (skip_to_command fuel bt s) <= length s)%nat.
Proof.
  induction fuel as [|f IH]; intros bt s; [cbn; lia|].
  cbn [skip_to_command]. destruct (at_end_of_script bt s); [lia|].
  pose proof (skip_while_len is_whitespace s) as L.
  destruct (skip_while is_whitespace s) as [|c r] eqn:E; [cbn; lia|].
  destruct (c =? c_hash); [|lia].
  pose proof (IH bt (skip_comment_body (c :: r))).
  pose proof (skip_comment_body_len _ (c :: r) (le_n _)). lia.
Qed.

(* on a text that is not at the end of the script, skipping either consumes something or
   leaves the text alone, and then the text starts with a non-white character *)
Lemma skip_to_command_strict f bt c r :
  at_end_of_script bt (c :: r) = false ->
  (length (skip_to_command (S f) bt (c :: r)) < length (c :: r))%nat
  \/ (skip_to_command (S f) bt (c :: r) = c :: r /\ is_whitespace c = false).
Proof.
  intros He. cbn [skip_to_command]. rewrite He.
  destruct (is_whitespace c) eqn:W.
  - left. pose proof (skip_while_strict is_whitespace c r W) as L.
    destruct (skip_while is_whitespace (c :: r)) as [|x y] eqn:E; [cbn [length] in *; lia|].
    destruct (x =? c_hash); [|exact L].
    pose proof (skip_to_command_len f bt (skip_comment_body (x :: y))).
    pose proof (skip_comment_body_len _ (x :: y) (le_n _)). lia.
  - cbn [skip_while]. rewrite W.
    destruct (c =? c_hash); [left|right; split; reflexivity].
    pose proof (skip_to_command_len f bt (skip_comment_body (c :: r))).
    pose proof (skip_comment_body_len _ (c :: r) (le_n _)). cbn [length] in *. lia.
Qed.

Section ParserTotal.
Variable isa : char -> bool.

(* ---------- the remaining one-step unfolding equations ---------- *)

Lemma parse_quoted_eq f bt chk s t :
  parse_quoted isa (S f) bt chk s t =
  match s with
  | [] => PErr (lit "missing """)
  | c :: r =>
      if c =? c_lbracket then
        match parse_brackets isa f r with
        | POk sc rest => parse_quoted isa f bt chk rest (tk_push t (WScript sc))
        | PErr m => PErr m
        | PFuel => PFuel
        end
      else if c =? c_dollar then
        match parse_dollar isa f bt r t with
        | POk t' rest => parse_quoted isa f bt chk rest t'
        | PErr m => PErr m
        | PFuel => PFuel
        end
      else if c =? c_bslash then
        let '(ch, rest) := bsubst r in parse_quoted isa f bt chk rest (tk_push_char t ch)
      else if c =? c_dquote then
        if negb chk || at_end_of_command bt r || next_is_line_white r then POk (tk_take t) r
        else PErr (lit "extra characters after close-quote")
      else parse_quoted isa f bt chk r (tk_push_char t c)
  end.
Proof. reflexivity. Qed.

Lemma parse_brackets_eq f s :
  parse_brackets isa (S f) s =
  match parse_script isa f true s [] with
  | POk sc rest =>
      match rest with
      | c :: r => if c =? c_rbracket then POk sc r else PErr (lit "missing close-bracket")
      | [] => PErr (lit "missing close-bracket")
      end
  | PErr m => PErr m
  | PFuel => PFuel
  end.
Proof. reflexivity. Qed.

Lemma parse_dollar_eq f bt s t :
  parse_dollar isa (S f) bt s t =
  match s with
  | c :: _ =>
      if is_varname_char isa c || (c =? c_lbrace) then
        match parse_varname isa f bt s with
        | POk w rest => POk (tk_push t w) rest
        | PErr m => PErr m
        | PFuel => PFuel
        end
      else POk (tk_push_char t c_dollar) s
  | [] => POk (tk_push_char t c_dollar) s
  end.
Proof. reflexivity. Qed.

Lemma parse_varname_eq f bt s :
  parse_varname isa (S f) bt s =
  match s with
  | c :: r =>
      if c =? c_lbrace then parse_braced_varname r
      else
        match skip_while (is_varname_char isa) s with
        | d :: r' =>
            if d =? c_lparen then
              match parse_bare isa f bt true r' tk_new with
              | POk idx rest' =>
                  match rest' with
                  | e :: r'' => if e =? c_rparen
                                then POk (WArrayRef (take_while (is_varname_char isa) s) idx) r''
                                else PErr (lit "missing )")
                  | [] => PErr (lit "missing )")
                  end
              | PErr m => PErr m
              | PFuel => PFuel
              end
            else POk (WVarRef (take_while (is_varname_char isa) s)) (skip_while (is_varname_char isa) s)
        | [] => POk (WVarRef (take_while (is_varname_char isa) s)) (skip_while (is_varname_char isa) s)
        end
  | [] => POk (WVarRef []) s
  end.
Proof. reflexivity. Qed.

(* ---------- A. every reader returns a suffix no longer than its input ---------- *)

(* a word reader makes progress unless it stands on line white space *)
Definition progress (bt : bool) (s rest : str) : Prop :=
  at_end_of_command bt s = false ->
  (length rest < length s)%nat \/ (rest = s /\ next_is_line_white s = true).

Definition A_all (fuel : nat) : Prop :=
  (forall bt s acc a rest, parse_script isa fuel bt s acc = POk a rest ->
     (length rest <= length s)%nat)
  /\ (forall bt s a rest, parse_command isa fuel bt s = POk a rest ->
     (length rest <= length s)%nat
     /\ (at_end_of_script bt s = false -> (length rest < length s)%nat))
  /\ (forall bt s acc a rest, parse_words isa fuel bt s acc = POk a rest ->
     (length rest <= length s)%nat
     /\ (at_end_of_command bt s = false -> next_is_line_white s = false ->
         (length rest < length s)%nat))
  /\ (forall bt s a rest, parse_next_word isa fuel bt s = POk a rest ->
     (length rest <= length s)%nat /\ progress bt s rest)
  /\ (forall bt chk s t a rest, parse_quoted isa fuel bt chk s t = POk a rest ->
     (length rest <= length s)%nat)
  /\ (forall bt ix s t a rest, parse_bare isa fuel bt ix s t = POk a rest ->
     (length rest <= length s)%nat /\ (ix = false -> progress bt s rest))
  /\ (forall s a rest, parse_brackets isa fuel s = POk a rest ->
     (length rest <= length s)%nat)
  /\ (forall bt s t a rest, parse_dollar isa fuel bt s t = POk a rest ->
     (length rest <= length s)%nat)
  /\ (forall bt s a rest, parse_varname isa fuel bt s = POk a rest ->
     (length rest <= length s)%nat).

Lemma A_holds : forall fuel, A_all fuel.
Proof.
  induction fuel as [|f IH].
  { unfold A_all. repeat split; intros; discriminate. }
  destruct IH as (IHS & IHC & IHW & IHN & IHQ & IHB & IHBR & IHD & IHV).
  unfold A_all. repeat apply conj.
  - (* parse_script *)
    intros bt s acc a rest H. rewrite parse_script_eq in H.
    destruct (at_end_of_script bt s); [inversion H; subst; lia|].
    destruct (parse_command isa f bt s) as [cmd rest0| |] eqn:Ec; try discriminate.
    destruct (IHC _ _ _ _ Ec) as [Lc _]. apply IHS in H. lia.
  - (* parse_command *)
    intros bt s a rest H. rewrite parse_command_eq in H. cbv zeta in H.
    pose proof (skip_to_command_len (S (length s)) bt s) as L1.
    destruct (parse_words isa f bt (skip_to_command (S (length s)) bt s) []) as [ws rest0| |] eqn:Ew;
      try discriminate.
    destruct (IHW _ _ _ _ _ Ew) as [Lw Sw].
    assert (Lr : (length rest <= length rest0)%nat).
    { destruct rest0 as [|c r]; [inversion H; subst; lia|].
      destruct (c =? c_semi); inversion H; subst; cbn [length]; lia. }
    split; [lia|]. intros He.
    destruct s as [|c r]; [discriminate|].
    destruct (skip_to_command_strict (length (c :: r)) bt c r He) as [Hlt|[Heq Hw]]; [lia|].
    rewrite Heq in *.
    destruct (at_end_of_command bt (c :: r)) eqn:Ee.
    + destruct f as [|f']; [discriminate|]. rewrite parse_words_eq, Ee in Ew.
      inversion Ew. subst rest0.
      assert (Hc : c =? c_semi = true).
      { revert Ee He Hw. unfold_chars3. lia. }
      rewrite Hc in H. inversion H. subst. cbn [length]. lia.
    + assert (Hl : next_is_line_white (c :: r) = false).
      { cbn [next_is_line_white]. rewrite Hw. reflexivity. }
      specialize (Sw eq_refl Hl). lia.
  - (* parse_words *)
    intros bt s acc a rest H. rewrite parse_words_eq in H.
    destruct (at_end_of_command bt s) eqn:Ee.
    { inversion H. subst. split; [lia|]. intros; discriminate. }
    destruct (parse_next_word isa f bt s) as [w rest0| |] eqn:En; try discriminate.
    destruct (IHN _ _ _ _ En) as [Ln Pn].
    destruct (IHW _ _ _ _ _ H) as [Lw _].
    pose proof (skip_while_len is_line_white rest0) as Lk.
    split; [lia|]. intros _ Hlw.
    destruct (Pn Ee) as [Hlt|[Heq Hlw']]; [lia|congruence].
  - (* parse_next_word *)
    intros bt s a rest H. rewrite parse_next_word_eq in H.
    destruct s as [|c r].
    { destruct (IHB _ _ _ _ _ _ H) as [L P]. split; [exact L|exact (P eq_refl)]. }
    destruct (c =? c_lbrace).
    + destruct (starts_with [c_lbrace; c_star; c_rbrace] (c :: r)) eqn:Esw.
      * destruct r as [|x [|y r3]]; try (cbn [starts_with] in Esw; lia).
        cbn [skipn] in H.
        assert (G : (length rest <= length r3)%nat).
        { destruct r3 as [|d r4]; [inversion H; subst; lia|].
          destruct (is_whitespace d); [inversion H; subst; lia|].
          destruct (if d =? c_lbrace then parse_braced_word bt (d :: r4)
                    else if d =? c_dquote then parse_quoted isa f bt true (tl (d :: r4)) tk_new
                    else parse_bare isa f bt false (d :: r4) tk_new) as [w rest0| |] eqn:Ex;
            try discriminate.
          inversion H. subst.
          destruct (d =? c_lbrace); [apply parse_braced_word_len in Ex; lia|].
          destruct (d =? c_dquote).
          - cbn [tl] in Ex. apply IHQ in Ex. cbn [length]. lia.
          - destruct (IHB _ _ _ _ _ _ Ex) as [L _]. exact L. }
        cbn [length]. split; [lia|]. intros _. left. cbn [length]. lia.
      * apply parse_braced_word_len in H. split; [lia|]. intros _. left. exact H.
    + destruct (c =? c_dquote).
      * apply IHQ in H. cbn [length]. split; [lia|]. intros _. left. cbn [length]. lia.
      * destruct (IHB _ _ _ _ _ _ H) as [L P]. split; [exact L|exact (P eq_refl)].
  - (* parse_quoted *)
    intros bt chk s t a rest H. rewrite parse_quoted_eq in H.
    destruct s as [|c r]; [discriminate|]. cbn [length].
    destruct (c =? c_lbracket).
    { destruct (parse_brackets isa f r) as [sc rest0| |] eqn:Eb; try discriminate.
      apply IHBR in Eb. apply IHQ in H. lia. }
    destruct (c =? c_dollar).
    { destruct (parse_dollar isa f bt r t) as [t' rest0| |] eqn:Ed; try discriminate.
      apply IHD in Ed. apply IHQ in H. lia. }
    destruct (c =? c_bslash).
    { destruct (bsubst r) as [ch rest0] eqn:Eb. apply bsubst_len' in Eb. apply IHQ in H. lia. }
    destruct (c =? c_dquote).
    { destruct (_ || _); [inversion H; subst; lia|discriminate]. }
    apply IHQ in H. lia.
  - (* parse_bare *)
    intros bt ix s t a rest H. rewrite parse_bare_eq in H.
    destruct (at_end_of_command bt s || next_is_line_white s) eqn:Ee.
    { inversion H. subst. split; [lia|]. intros _ Hend. right. split; [reflexivity|].
      rewrite Hend in Ee. exact Ee. }
    destruct s as [|c r].
    { inversion H. subst. split; [lia|]. intros _ Hend. cbn in Hend. discriminate. }
    destruct (ix && (c =? c_rparen)) eqn:Ei.
    { inversion H. subst. split; [lia|]. intros Hix. subst ix. cbn in Ei. discriminate. }
    assert (G : (length rest <= length r)%nat).
    { destruct (c =? c_lbracket).
      { destruct (parse_brackets isa f r) as [sc rest0| |] eqn:Eb; try discriminate.
        apply IHBR in Eb. destruct (IHB _ _ _ _ _ _ H) as [L _]. lia. }
      destruct (c =? c_dollar).
      { destruct (parse_dollar isa f bt r t) as [t' rest0| |] eqn:Ed; try discriminate.
        apply IHD in Ed. destruct (IHB _ _ _ _ _ _ H) as [L _]. lia. }
      destruct (c =? c_bslash).
      { destruct (bsubst r) as [ch rest0] eqn:Eb. apply bsubst_len' in Eb.
        destruct (IHB _ _ _ _ _ _ H) as [L _]. lia. }
      destruct (IHB _ _ _ _ _ _ H) as [L _]. exact L. }
    cbn [length]. split; [lia|]. intros _ _. left. cbn [length]. lia.
  - (* parse_brackets *)
    intros s a rest H. rewrite parse_brackets_eq in H.
    destruct (parse_script isa f true s []) as [sc rest0| |] eqn:Es; try discriminate.
    apply IHS in Es. destruct rest0 as [|c r]; [discriminate|].
    destruct (c =? c_rbracket); [|discriminate]. inversion H. subst. cbn [length] in Es. lia.
  - (* parse_dollar *)
    intros bt s t a rest H. rewrite parse_dollar_eq in H.
    destruct s as [|c r]; [inversion H; subst; lia|].
    destruct (is_varname_char isa c || (c =? c_lbrace)); [|inversion H; subst; lia].
    destruct (parse_varname isa f bt (c :: r)) as [w rest0| |] eqn:Ev; try discriminate.
    apply IHV in Ev. inversion H. subst. exact Ev.
  - (* parse_varname *)
    intros bt s a rest H. rewrite parse_varname_eq in H.
    destruct s as [|c r]; [inversion H; subst; lia|].
    destruct (c =? c_lbrace).
    { apply parse_braced_varname_len in H. cbn [length]. lia. }
    pose proof (skip_while_len (is_varname_char isa) (c :: r)) as L.
    destruct (skip_while (is_varname_char isa) (c :: r)) as [|d r'] eqn:E.
    { inversion H. subst. cbn [length]. lia. }
    destruct (d =? c_lparen); [|inversion H; subst; exact L].
    destruct (parse_bare isa f bt true r' tk_new) as [idx rest'| |] eqn:Eb; try discriminate.
    destruct (IHB _ _ _ _ _ _ Eb) as [Lb _].
    destruct rest' as [|e r'']; [discriminate|].
    destruct (e =? c_rparen); [|discriminate]. inversion H. subst. cbn [length] in *. lia.
Qed.

(* ---------- B. enough fuel: 6 units per character plus a constant per reader ---------- *)

(* Each reader passes [fuel - 1] to its callees, so what matters is the depth of the call chain.
   The deepest chain per consumed character is the one through an open bracket:
     parse_script -> parse_command -> parse_words -> parse_next_word -> parse_bare
       -> parse_brackets -> parse_script
   six levels for one character.  Hence the potential [6 * length s + c_reader]. *)
Definition B_all (fuel : nat) : Prop :=
  (forall bt s acc, (6 * length s + 5 <= fuel)%nat -> parse_script isa fuel bt s acc <> PFuel)
  /\ (forall bt s, (6 * length s + 4 <= fuel)%nat -> parse_command isa fuel bt s <> PFuel)
  /\ (forall bt s acc, (6 * length s + 3 <= fuel)%nat -> parse_words isa fuel bt s acc <> PFuel)
  /\ (forall bt s, (6 * length s + 2 <= fuel)%nat -> parse_next_word isa fuel bt s <> PFuel)
  /\ (forall bt chk s t, (6 * length s + 1 <= fuel)%nat -> parse_quoted isa fuel bt chk s t <> PFuel)
  /\ (forall bt ix s t, (6 * length s + 1 <= fuel)%nat -> parse_bare isa fuel bt ix s t <> PFuel)
  /\ (forall s, (6 * length s + 6 <= fuel)%nat -> parse_brackets isa fuel s <> PFuel)
  /\ (forall bt s t, (6 * length s + 2 <= fuel)%nat -> parse_dollar isa fuel bt s t <> PFuel)
  /\ (forall bt s, (6 * length s + 1 <= fuel)%nat -> parse_varname isa fuel bt s <> PFuel).

Lemma B_holds : forall fuel, B_all fuel.
Proof.
  induction fuel as [|f IH].
  { unfold B_all. repeat split; intros; lia. }
  destruct IH as (IHS & IHC & IHW & IHN & IHQ & IHB & IHBR & IHD & IHV).
  destruct (A_holds f) as (AS & AC & AW & AN & AQ & AB & ABR & AD & AV).
  unfold B_all. repeat apply conj.
  - (* parse_script *)
    intros bt s acc Hf. rewrite parse_script_eq.
    destruct (at_end_of_script bt s) eqn:Ee; [discriminate|].
    destruct (parse_command isa f bt s) as [cmd rest0| |] eqn:Ec.
    + destruct (AC _ _ _ _ Ec) as [_ Sc]. specialize (Sc Ee). apply IHS. lia.
    + discriminate.
    + exfalso. apply (IHC bt s); [lia|exact Ec].
  - (* parse_command *)
    intros bt s Hf. rewrite parse_command_eq. cbv zeta.
    pose proof (skip_to_command_len (S (length s)) bt s) as L1.
    destruct (parse_words isa f bt (skip_to_command (S (length s)) bt s) []) as [ws rest0| |] eqn:Ew.
    + destruct rest0 as [|c r]; [discriminate|]. destruct (c =? c_semi); discriminate.
    + discriminate.
    + exfalso. apply (IHW bt (skip_to_command (S (length s)) bt s) []); [lia|exact Ew].
  - (* parse_words *)
    intros bt s acc Hf. rewrite parse_words_eq.
    destruct (at_end_of_command bt s) eqn:Ee; [discriminate|].
    destruct (parse_next_word isa f bt s) as [w rest0| |] eqn:En.
    + destruct (AN _ _ _ _ En) as [Ln Pn].
      pose proof (skip_while_len is_line_white rest0) as Lk.
      apply IHW. destruct (Pn Ee) as [Hlt|[Heq Hlw]]; [lia|]. subst rest0.
      destruct s as [|c r]; [cbn in Hlw; discriminate|].
      assert (Hc : is_line_white c = true) by exact Hlw.
      pose proof (skip_while_strict is_line_white c r Hc). lia.
    + discriminate.
    + exfalso. apply (IHN bt s); [lia|exact En].
  - (* parse_next_word *)
    intros bt s Hf. rewrite parse_next_word_eq.
    destruct s as [|c r]; [apply IHB; cbn [length] in *; lia|].
    cbn [length] in Hf.
    destruct (c =? c_lbrace).
    + destruct (starts_with [c_lbrace; c_star; c_rbrace] (c :: r)) eqn:Esw;
        [|apply parse_braced_word_no_fuel].
      destruct r as [|x [|y r3]]; try (cbn [starts_with] in Esw; lia).
      cbn [skipn]. cbn [length] in Hf.
      destruct r3 as [|d r4]; [discriminate|].
      destruct (is_whitespace d); [discriminate|].
      assert (G : (if d =? c_lbrace then parse_braced_word bt (d :: r4)
                   else if d =? c_dquote then parse_quoted isa f bt true (tl (d :: r4)) tk_new
                   else parse_bare isa f bt false (d :: r4) tk_new) <> PFuel).
      { destruct (d =? c_lbrace); [apply parse_braced_word_no_fuel|].
        destruct (d =? c_dquote); [apply IHQ|apply IHB]; cbn [tl length] in *; lia. }
      destruct (if d =? c_lbrace then parse_braced_word bt (d :: r4)
                else if d =? c_dquote then parse_quoted isa f bt true (tl (d :: r4)) tk_new
                else parse_bare isa f bt false (d :: r4) tk_new); [discriminate|discriminate|congruence].
    + destruct (c =? c_dquote); [apply IHQ; lia|apply IHB; cbn [length]; lia].
  - (* parse_quoted *)
    intros bt chk s t Hf. rewrite parse_quoted_eq.
    destruct s as [|c r]; [discriminate|]. cbn [length] in Hf.
    destruct (c =? c_lbracket).
    { destruct (parse_brackets isa f r) as [sc rest0| |] eqn:Eb.
      - apply ABR in Eb. apply IHQ. lia.
      - discriminate.
      - exfalso. apply (IHBR r); [lia|exact Eb]. }
    destruct (c =? c_dollar).
    { destruct (parse_dollar isa f bt r t) as [t' rest0| |] eqn:Ed.
      - apply AD in Ed. apply IHQ. lia.
      - discriminate.
      - exfalso. apply (IHD bt r t); [lia|exact Ed]. }
    destruct (c =? c_bslash).
    { destruct (bsubst r) as [ch rest0] eqn:Eb. apply bsubst_len' in Eb. apply IHQ. lia. }
    destruct (c =? c_dquote); [destruct (_ || _); discriminate|].
    apply IHQ. lia.
  - (* parse_bare *)
    intros bt ix s t Hf. rewrite parse_bare_eq.
    destruct (at_end_of_command bt s || next_is_line_white s); [discriminate|].
    destruct s as [|c r]; [discriminate|]. cbn [length] in Hf.
    destruct (ix && (c =? c_rparen)); [discriminate|].
    destruct (c =? c_lbracket).
    { destruct (parse_brackets isa f r) as [sc rest0| |] eqn:Eb.
      - apply ABR in Eb. apply IHB. lia.
      - discriminate.
      - exfalso. apply (IHBR r); [lia|exact Eb]. }
    destruct (c =? c_dollar).
    { destruct (parse_dollar isa f bt r t) as [t' rest0| |] eqn:Ed.
      - apply AD in Ed. apply IHB. lia.
      - discriminate.
      - exfalso. apply (IHD bt r t); [lia|exact Ed]. }
    destruct (c =? c_bslash).
    { destruct (bsubst r) as [ch rest0] eqn:Eb. apply bsubst_len' in Eb. apply IHB. lia. }
    apply IHB. lia.
  - (* parse_brackets *)
    intros s Hf. rewrite parse_brackets_eq.
    destruct (parse_script isa f true s []) as [sc rest0| |] eqn:Es.
    + destruct rest0 as [|c r]; [discriminate|]. destruct (c =? c_rbracket); discriminate.
    + discriminate.
    + exfalso. apply (IHS true s []); [lia|exact Es].
  - (* parse_dollar *)
    intros bt s t Hf. rewrite parse_dollar_eq.
    destruct s as [|c r]; [discriminate|].
    destruct (is_varname_char isa c || (c =? c_lbrace)); [|discriminate].
    destruct (parse_varname isa f bt (c :: r)) as [w rest0| |] eqn:Ev; [discriminate|discriminate|].
    exfalso. apply (IHV bt (c :: r)); [lia|exact Ev].
  - (* parse_varname *)
    intros bt s Hf. rewrite parse_varname_eq.
    destruct s as [|c r]; [discriminate|]. cbn [length] in Hf.
    destruct (c =? c_lbrace); [apply parse_braced_varname_no_fuel|].
    pose proof (skip_while_len (is_varname_char isa) (c :: r)) as L.
    destruct (skip_while (is_varname_char isa) (c :: r)) as [|d r'] eqn:E; [discriminate|].
    destruct (d =? c_lparen); [|discriminate].
    destruct (parse_bare isa f bt true r' tk_new) as [idx rest'| |] eqn:Eb.
    + destruct rest' as [|e r'']; [discriminate|]. destruct (e =? c_rparen); discriminate.
    + discriminate.
    + exfalso. apply (IHB bt true r' tk_new); [cbn [length] in L; lia|exact Eb].
Qed.

(* C01: the script reader never runs out of fuel when it gets 6 units per character (+5) *)
Theorem parse_script_no_fuel : forall fuel bt s acc,
  (6 * length s + 5 <= fuel)%nat -> parse_script isa fuel bt s acc <> PFuel.
Proof. intros fuel. exact (proj1 (B_holds fuel)). Qed.

Theorem parse_quoted_no_fuel : forall fuel bt chk s t,
  (6 * length s + 1 <= fuel)%nat -> parse_quoted isa fuel bt chk s t <> PFuel.
Proof. intros fuel. destruct (B_holds fuel) as (_ & _ & _ & _ & H & _). exact H. Qed.

Theorem parse_varname_no_fuel : forall fuel bt s,
  (6 * length s + 1 <= fuel)%nat -> parse_varname isa fuel bt s <> PFuel.
Proof. intros fuel. destruct (B_holds fuel) as (_ & _ & _ & _ & _ & _ & _ & _ & H). exact H. Qed.

Theorem parse_total : forall s, parse isa s <> PFuel.
Proof. intros s. unfold parse, parse_fuel. apply parse_script_no_fuel. lia. Qed.

(* the three uses of the script reader inside the expression lexer (Model/Expr.v, expr_lex) *)
Corollary expr_lex_script_total : forall r, parse_script isa (parse_fuel r) true r [] <> PFuel.
Proof. intros r. apply parse_script_no_fuel. unfold parse_fuel. lia. Qed.
Corollary expr_lex_quoted_total : forall r bt chk,
  parse_quoted isa (parse_fuel r) bt chk r tk_new <> PFuel.
Proof. intros r bt chk. apply parse_quoted_no_fuel. unfold parse_fuel. lia. Qed.
Corollary expr_lex_varname_total : forall r bt, parse_varname isa (parse_fuel r) bt r <> PFuel.
Proof. intros r bt. apply parse_varname_no_fuel. unfold parse_fuel. lia. Qed.

End ParserTotal.

(* C01, the script reader: main statements *)
Theorem parse_script_total : forall (is_alnum : char -> bool) fuel bt s acc,
  (6 * length s + 5 <= fuel)%nat -> parse_script is_alnum fuel bt s acc <> PFuel.
Proof. exact parse_script_no_fuel. Qed.

Theorem parse_is_total : forall (is_alnum : char -> bool) s, parse is_alnum s <> PFuel.
Proof. exact parse_total. Qed.

Print Assumptions parse_script_total.
Print Assumptions parse_total.
Print Assumptions parse_is_total.
Print Assumptions expr_lex_script_total.
Print Assumptions expr_lex_quoted_total.
Print Assumptions expr_lex_varname_total.

(* The slope 6 is necessary: [n] unmatched open brackets need [6 * n + 1] units of fuel, so no
   bound [a * length s + c] with [a < 6] works for all inputs.  In particular the former constant
   [parse_fuel s = 4 * length s + 16] was too small from 8 open brackets on (48 = 4 * 8 + 16). *)
Fixpoint rep_char (n : nat) (c : char) : str := match n with O => [] | S k => c :: rep_char k c end.

Example open_brackets_need_6n :
  parse_script (fun _ => true) (6 * 8) false (rep_char 8 c_lbracket) [] = PFuel
  /\ parse_script (fun _ => true) (6 * 8 + 1) false (rep_char 8 c_lbracket) []
     = PErr (lit "missing close-bracket")
  /\ parse_script (fun _ => true) (6 * 40) false (rep_char 40 c_lbracket) [] = PFuel
  /\ parse_script (fun _ => true) (6 * 40 + 1) false (rep_char 40 c_lbracket) []
     = PErr (lit "missing close-bracket").
Proof. repeat split; vm_compute; reflexivity. Qed.

(* ====================================================================== *)
(* 6. the expression evaluator                                             *)
(* ====================================================================== *)

Local Open Scope Z_scope.

(* ---------- automation: walk through the nested case analyses of a body ---------- *)

Ltac head_scrut t :=
  lazymatch t with
  | match ?x with _ => _ end => head_scrut x
  | _ => constr:(t)
  end.

Lemma some_inj {A : Type} (x y : A) : Some x = Some y -> x = y.
Proof. congruence. Qed.

(* one step: destruct the innermost scrutinee at the head of the left-hand side of [H] *)
Ltac stepH H :=
  cbv beta iota zeta in H;
  lazymatch type of H with
  | ?lhs = _ =>
      lazymatch lhs with
      | match ?x with _ => _ end =>
          let s := head_scrut x in
          let E := fresh "E" in
          destruct s eqn:E
      | Some (match _ with _ => _ end) => apply some_inj in H
      end
  end.

Ltac crunchH H := repeat (stepH H; try discriminate H).

Ltac split_ifs :=
  repeat match goal with
  | H : context [if ?b then _ else _] |- _ =>
      lazymatch b with true => fail | false => fail | _ => idtac end;
      destruct b eqn:?; cbv iota in *
  end.

Ltac unfold_tok :=
  unfold T_VALUE, T_OPEN_PAREN, T_CLOSE_PAREN, T_COMMA, T_END, T_UNKNOWN, T_MULT, T_DIVIDE, T_MOD,
    T_PLUS, T_MINUS, T_LEFT_SHIFT, T_RIGHT_SHIFT, T_LESS, T_GREATER, T_LEQ, T_GEQ, T_EQUAL, T_NEQ,
    T_STRING_EQ, T_STRING_NE, T_IN, T_NI, T_BIT_AND, T_BIT_XOR, T_BIT_OR, T_AND, T_OR, T_QUESTY,
    T_COLON, T_UNARY_MINUS, T_UNARY_PLUS, T_NOT, T_BIT_NOT in *.

Ltac info_simpl :=
  cbn [e_rest e_token e_noeval with_rest with_token with_tok_rest with_noeval] in *.

(* boolean facts are irrelevant for the final size arithmetic and slow lia down *)
Ltac clear_bools := repeat match goal with E : @eq bool _ _ |- _ => clear E end.

Ltac inv_pair H :=
  try (lazymatch type of H with (_, _) = (_, _) => inversion H; subst end).

Ltac use_rest :=
  repeat match goal with Hx : e_rest ?i = ?r |- _ => rewrite Hx in *; clear Hx end.

(* turn the successful recursive calls in the context into size facts *)
Ltac useA IHX IHG IHL IHM :=
  repeat match goal with
  | E : Expr.expr_lex _ _ _ _ _ _ _ = (_, Ok (_, _)) |- _ => apply IHX in E
  | E : Expr.expr_get_value _ _ _ _ _ _ _ _ = (_, Ok (_, _)) |- _ => apply IHG in E
  | E : Expr.expr_loop _ _ _ _ _ _ _ _ _ = (_, Ok (_, _)) |- _ => apply IHL in E
  | E : Expr.expr_math_func _ _ _ _ _ _ _ _ = (_, Ok (_, _)) |- _ => apply IHM in E
  end.

(* ---------- size facts about the lexer's helpers ---------- *)

Lemma lex_operator_len p tok rest :
  lex_operator p = Some (tok, rest) -> (length rest < length p)%nat.
Proof.
  intros H. unfold lex_operator in H. destruct p as [|c r]; [discriminate|].
  crunchH H; inversion H; subst; cbn [length]; lia.
Qed.

Lemma read_int_len s tok rest : read_int s = Some (tok, rest) -> (length rest < length s)%nat.
Proof.
  intros H. apply read_int_consumes in H. destruct H as [E N]. subst s. rewrite app_length.
  destruct tok; [congruence|cbn [length]; lia].
Qed.

Lemma read_float_len s tok rest : read_float s = Some (tok, rest) -> (length rest < length s)%nat.
Proof.
  intros H. apply read_float_consumes in H. destruct H as [E N]. subst s. rewrite app_length.
  destruct tok; [congruence|cbn [length]; lia].
Qed.

Lemma parse_script_len isa fuel bt s acc a rest :
  parse_script isa fuel bt s acc = POk a rest -> (length rest <= length s)%nat.
Proof. destruct (A_holds isa fuel) as (A & _). apply A. Qed.

Lemma parse_quoted_len isa fuel bt chk s t a rest :
  parse_quoted isa fuel bt chk s t = POk a rest -> (length rest <= length s)%nat.
Proof. destruct (A_holds isa fuel) as (_ & _ & _ & _ & A & _). apply A. Qed.

Lemma parse_varname_len isa fuel bt s a rest :
  parse_varname isa fuel bt s = POk a rest -> (length rest <= length s)%nat.
Proof. destruct (A_holds isa fuel) as (_ & _ & _ & _ & _ & _ & _ & _ & A). apply A. Qed.

Ltac facts :=
  repeat match goal with
  | E : read_int _ = Some (_, _) |- _ => apply read_int_len in E
  | E : read_float _ = Some (_, _) |- _ => apply read_float_len in E
  | E : parse_varname _ _ _ _ = POk _ _ |- _ => apply parse_varname_len in E
  | E : parse_script _ _ _ _ _ = POk _ _ |- _ => apply parse_script_len in E
  | E : parse_quoted _ _ _ _ _ _ = POk _ _ |- _ => apply parse_quoted_len in E
  | E : parse_braced_string _ = POk _ _ |- _ => apply parse_braced_string_len in E
  | E : lex_operator _ = Some (_, _) |- _ => apply lex_operator_len in E
  end.

(* the two local definitions of expr_lex, named so that they can be reasoned about separately *)
Definition lex_number (info : einfo) (c : char) (p : str) : option (res (datum * einfo)) :=
            if N.eqb c c_plus || N.eqb c c_minus then None
            else
              match (if expr_looks_like_int p then read_int p else None) with
              | Some (tok, rest) =>
                  Some (match get_int tok with
                        | Some z => Ok (DInt z, with_tok_rest info T_VALUE rest)
                        | None => err (err_expected_int tok)
                        end)
              | None =>
                  match read_float p with
                  | Some (tok, rest) =>
                      Some (match get_float tok with
                            | Some x => Ok (DFlt x, with_tok_rest info T_VALUE rest)
                            | None => err (err_expected_float tok)
                            end)
                  | None => None
                  end
              end.

Definition lex_value_of (info : einfo) (st1 : interp) (rv : res value) (rest : str) (from_string : bool)
  : eres :=
                match rv with
                | Ok v =>
                    let i1 := with_tok_rest info T_VALUE rest in
                    if noeval info then (st1, Ok (d_none, i1))
                    else
                      match (if from_string then expr_parse_string (as_str v) else expr_parse_value v) with
                      | Ok d => (st1, Ok (d, i1))
                      | Err e => (st1, Err e)
                      | Panic q => (st1, Panic q)
                      | Fuel => (st1, Fuel)
                      end
                | Err e => (st1, Err e)
                | Panic q => (st1, Panic q)
                | Fuel => (st1, Fuel)
                end.

Lemma lex_number_len info c p d i1 :
  lex_number info c p = Some (Ok (d, i1)) -> (length (e_rest i1) < length p)%nat.
Proof.
  intros H. unfold lex_number in H.
  crunchH H; facts; inversion H; subst; info_simpl; lia.
Qed.

Lemma lex_value_of_rest info st1 rv rest fs st' d i1 :
  lex_value_of info st1 rv rest fs = (st', Ok (d, i1)) -> e_rest i1 = rest.
Proof.
  intros H. unfold lex_value_of in H.
  crunchH H; inversion H; subst; reflexivity.
Qed.

Ltac facts2 :=
  repeat match goal with
  | E : lex_number _ _ _ = Some (Ok (_, _)) |- _ => apply lex_number_len in E
  | E : lex_value_of _ _ _ _ _ = (_, Ok (_, _)) |- _ => apply lex_value_of_rest in E
  end.

Lemma lex_number_no_fuel info c p : lex_number info c p <> Some Fuel.
Proof.
  intros H. unfold lex_number in H. unfold err in H.
  crunchH H; discriminate.
Qed.

Lemma lex_value_of_fuel info st1 rv rest fs st' :
  lex_value_of info st1 rv rest fs = (st', Fuel) -> rv = Fuel.
Proof.
  intros H. unfold lex_value_of in H.
  crunchH H; try reflexivity.
  all: match goal with
       | E : expr_parse_string ?s = Fuel |- _ =>
           pose proof (expr_parse_string_no_panic s) as N; rewrite E in N; contradiction
       | E : expr_parse_value ?v = Fuel |- _ =>
           pose proof (expr_parse_value_no_panic v) as N; rewrite E in N; contradiction
       end.
Qed.

Lemma apply_binop_no_fuel op v v2 : apply_binop op v v2 <> Fuel.
Proof.
  intros H. unfold apply_binop in H. unfold illegal_type, i64_result, err in H.
  crunchH H; try discriminate.
  all: match goal with E : get_list ?y = None |- _ => exact (get_list_total y E) end.
Qed.

Lemma call_func_no_fuel name arg : call_func name arg <> Fuel.
Proof.
  intros H. unfold call_func in H. unfold err in H.
  crunchH H; discriminate.
Qed.

Section ExprTotal.
Variable is_alphanumeric : char -> bool.
Variable is_alphabetic : char -> bool.
Variable exec : executor.
Variable original : str.

Local Notation expr_get_value := (Expr.expr_get_value is_alphanumeric is_alphabetic exec original).
Local Notation expr_loop := (Expr.expr_loop is_alphanumeric is_alphabetic exec original).
Local Notation expr_lex := (Expr.expr_lex is_alphanumeric is_alphabetic exec original).
Local Notation expr_math_func := (Expr.expr_math_func is_alphanumeric is_alphabetic exec original).
Local Notation syntax_error := (Expr.syntax_error original).

(* ---------- one-step unfolding equations (the bodies are those of Model/Expr.v) ---------- *)

Lemma expr_get_value_eq f st info pr :
  expr_get_value (S f) st info pr =
      match expr_lex f st info with
      | (st1, Ok (v0, i1)) =>
          (* first operand *)
          let first : interp * res (datum * einfo * bool) :=
            if e_token i1 =? T_OPEN_PAREN then
              match expr_get_value f st1 i1 (-1) with
              | (st2, Ok (v, i2)) =>
                  if e_token i2 =? T_CLOSE_PAREN then (st2, Ok (v, i2, false))
                  else (st2, err (lit "unmatched parentheses in expression """ ++ original ++ lit """"))
              | (st2, Err e) => (st2, Err e)
              | (st2, Panic p) => (st2, Panic p)
              | (st2, Fuel) => (st2, Fuel)
              end
            else
              let tok := if e_token i1 =? T_MINUS then T_UNARY_MINUS
                         else if e_token i1 =? T_PLUS then T_UNARY_PLUS else e_token i1 in
              if T_UNARY_MINUS <=? tok then
                match expr_get_value f st1 (with_token i1 tok) (prec tok) with
                | (st2, Ok (v, i2)) =>
                    if noeval i2 then (st2, Ok (v, i2, true))
                    else
                      let r : res datum :=
                        if tok =? T_UNARY_MINUS then
                          match v with
                          | DInt z => if in_i64 (- z) then Ok (DInt (- z)) else err (lit "integer overflow")
                          | DFlt x => Ok (DFlt (fneg x))
                          | DStr _ => illegal_type v tok
                          end
                        else if tok =? T_UNARY_PLUS then
                          match v with DStr _ => illegal_type v tok | _ => Ok v end
                        else if tok =? T_NOT then
                          match v with
                          | DInt z => Ok (d_bool (z =? 0))
                          | DFlt x => Ok (d_bool (f_is_zero x))
                          | DStr _ => illegal_type v tok
                          end
                        else if tok =? T_BIT_NOT then
                          match v with
                          | DInt z => Ok (DInt (Z.lnot z))
                          | _ => illegal_type v tok
                          end
                        else err (lit "unknown unary op")
                      in
                      match r with
                      | Ok v' => (st2, Ok (v', i2, true))
                      | Err e => (st2, Err e)
                      | Panic p => (st2, Panic p)
                      | Fuel => (st2, Fuel)
                      end
                | (st2, Err e) => (st2, Err e)
                | (st2, Panic p) => (st2, Panic p)
                | (st2, Fuel) => (st2, Fuel)
                end
              else if negb (tok =? T_VALUE) then (st1, syntax_error)
              else (st1, Ok (v0, i1, false))
          in
          match first with
          | (st2, Ok (v, i2, got_op)) =>
              if got_op then expr_loop f st2 i2 pr v
              else
                match expr_lex f st2 i2 with
                | (st3, Ok (_, i3)) => expr_loop f st3 i3 pr v
                | (st3, Err e) => (st3, Err e)
                | (st3, Panic p) => (st3, Panic p)
                | (st3, Fuel) => (st3, Fuel)
                end
          | (st2, Err e) => (st2, Err e)
          | (st2, Panic p) => (st2, Panic p)
          | (st2, Fuel) => (st2, Fuel)
          end
      | (st1, Err e) => (st1, Err e)
      | (st1, Panic p) => (st1, Panic p)
      | (st1, Fuel) => (st1, Fuel)
      end.
Proof. reflexivity. Qed.

Lemma expr_loop_eq f st info pr v :
  expr_loop (S f) st info pr v =
      let op := e_token info in
      if (op <? T_MULT) || (T_UNARY_MINUS <=? op) then
        if (op =? T_END) || (op =? T_CLOSE_PAREN) || (op =? T_COMMA) then (st, Ok (v, info))
        else (st, syntax_error)
      else if prec op <=? pr then (st, Ok (v, info))
      else
        (* operand(s) *)
        let after (st2 : interp) (i2 : einfo) (v1 v2 : datum) : eres :=
          if (e_token i2 <? T_MULT) && negb (e_token i2 =? T_VALUE) && negb (e_token i2 =? T_END)
             && negb (e_token i2 =? T_COMMA) && negb (e_token i2 =? T_CLOSE_PAREN)
          then (st2, syntax_error)
          else if noeval i2 then expr_loop f st2 i2 pr v1
          else
            match apply_binop op v1 v2 with
            | Ok v' => expr_loop f st2 i2 pr v'
            | Err e => (st2, Err e)
            | Panic p => (st2, Panic p)
            | Fuel => (st2, Fuel)
            end in
        if (op =? T_AND) || (op =? T_OR) || (op =? T_QUESTY) then
          let conv : res datum :=
            match v with
            | DFlt x => Ok (d_bool (negb (f_is_zero x)))
            | DStr _ => if noeval info then Ok (DInt 0) else illegal_type v op
            | DInt _ => Ok v
            end in
          match conv with
          | Ok (DInt x) =>
              let vi := DInt x in
              if ((op =? T_AND) && (x =? 0)) || ((op =? T_OR) && negb (x =? 0)) then
                (* short circuit: parse the operand without evaluating it *)
                match expr_get_value f st (with_noeval info (e_noeval info + 1)) (prec op) with
                | (st2, Ok (_, i2)) =>
                    let i2' := with_noeval i2 (e_noeval i2 - 1) in
                    expr_loop f st2 i2' pr (if op =? T_OR then DInt 1 else vi)
                | (st2, Err e) => (st2, Err e)
                | (st2, Panic p) => (st2, Panic p)
                | (st2, Fuel) => (st2, Fuel)
                end
              else if op =? T_QUESTY then
                let pq := prec T_QUESTY - 1 in
                if negb (x =? 0) then
                  match expr_get_value f st info pq with
                  | (st2, Ok (va, i2)) =>
                      if negb (e_token i2 =? T_COLON) then (st2, syntax_error)
                      else
                        match expr_get_value f st2 (with_noeval i2 (e_noeval i2 + 1)) pq with
                        | (st3, Ok (vb, i3)) => after st3 (with_noeval i3 (e_noeval i3 - 1)) va vb
                        | (st3, Err e) => (st3, Err e)
                        | (st3, Panic p) => (st3, Panic p)
                        | (st3, Fuel) => (st3, Fuel)
                        end
                  | (st2, Err e) => (st2, Err e)
                  | (st2, Panic p) => (st2, Panic p)
                  | (st2, Fuel) => (st2, Fuel)
                  end
                else
                  match expr_get_value f st (with_noeval info (e_noeval info + 1)) pq with
                  | (st2, Ok (vb, i2)) =>
                      let i2' := with_noeval i2 (e_noeval i2 - 1) in
                      if negb (e_token i2' =? T_COLON) then (st2, syntax_error)
                      else
                        match expr_get_value f st2 i2' pq with
                        | (st3, Ok (va, i3)) => after st3 i3 va vb
                        | (st3, Err e) => (st3, Err e)
                        | (st3, Panic p) => (st3, Panic p)
                        | (st3, Fuel) => (st3, Fuel)
                        end
                  | (st2, Err e) => (st2, Err e)
                  | (st2, Panic p) => (st2, Panic p)
                  | (st2, Fuel) => (st2, Fuel)
                  end
              else
                match expr_get_value f st info (prec op) with
                | (st2, Ok (v2, i2)) => after st2 i2 vi v2
                | (st2, Err e) => (st2, Err e)
                | (st2, Panic p) => (st2, Panic p)
                | (st2, Fuel) => (st2, Fuel)
                end
          | Ok _ => (st, Panic (lit "expr_loop: conversion"))
          | Err e => (st, Err e)
          | Panic p => (st, Panic p)
          | Fuel => (st, Fuel)
          end
        else
          match expr_get_value f st info (prec op) with
          | (st2, Ok (v2, i2)) => after st2 i2 v v2
          | (st2, Err e) => (st2, Err e)
          | (st2, Panic p) => (st2, Panic p)
          | (st2, Fuel) => (st2, Fuel)
          end.
Proof. reflexivity. Qed.

Lemma expr_math_func_eq f st info name :
  expr_math_func (S f) st info name =
      if negb (expr_find_func name) then (st, err (lit "unknown math function """ ++ name ++ lit """"))
      else
        match expr_lex f st info with
        | (st1, Ok (_, i1)) =>
            if negb (e_token i1 =? T_OPEN_PAREN) then (st1, syntax_error)
            else
              (* every built-in function takes exactly one argument *)
              match expr_get_value f st1 i1 (-1) with
              | (st2, Ok (arg, i2)) =>
                  if negb (noeval i2) && is_string arg then
                    (st2, err (lit "argument to math function didn't have numeric value"))
                  else if e_token i2 =? T_CLOSE_PAREN then
                    let i3 := with_token i2 T_VALUE in
                    if noeval i2 then (st2, Ok (d_none, i3))
                    else
                      match call_func name arg with
                      | Ok d => (st2, Ok (d, i3))
                      | Err e => (st2, Err e)
                      | Panic q => (st2, Panic q)
                      | Fuel => (st2, Fuel)
                      end
                  else if e_token i2 =? T_COMMA then (st2, err (lit "too many arguments for math function"))
                  else (st2, syntax_error)
              | (st2, Err e) => (st2, Err e)
              | (st2, Panic p) => (st2, Panic p)
              | (st2, Fuel) => (st2, Fuel)
              end
        | (st1, Err e) => (st1, Err e)
        | (st1, Panic p) => (st1, Panic p)
        | (st1, Fuel) => (st1, Fuel)
        end.
Proof. reflexivity. Qed.

Lemma expr_lex_eq f st info :
  expr_lex (S f) st info =
      let p := skip_while is_whitespace (e_rest info) in
      match p with
      | [] => (st, Ok (d_none, with_tok_rest info T_END p))
      | c :: r =>
          match lex_number info c p with
          | Some r0 => (st, r0)
          | None =>
              if N.eqb c c_dollar then
                (* parse_and_eval_variable *)
                match r with
                | d :: _ =>
                    if is_varname_char is_alphanumeric d || N.eqb d c_lbrace then
                      lift_p st (parse_varname is_alphanumeric (parse_fuel r) parse_bt r)
                        (fun w rest =>
                           if noeval info then lex_value_of info st (Ok v_empty) rest false
                           else let '(st1, rv) := eval_word exec st w in lex_value_of info st1 rv rest false)
                    else (st, err (lit "invalid character ""$"""))
                | [] => (st, err (lit "invalid character ""$"""))
                end
              else if N.eqb c c_lbracket then
                (* parse_and_eval_script *)
                lift_p st (parse_script is_alphanumeric (parse_fuel r) true r [])
                  (fun sc rest =>
                     let '(st1, rv) := if noeval info then (st, Ok v_empty) else eval_script exec st sc in
                     match rv with
                     | Ok v =>
                         match rest with
                         | x :: rest' => if N.eqb x c_rbracket then lex_value_of info st1 (Ok v) rest' false
                                         else (st1, err (lit "missing close-bracket"))
                         | [] => (st1, err (lit "missing close-bracket"))
                         end
                     | other => lex_value_of info st1 other rest false
                     end)
              else if N.eqb c c_dquote then
                lift_p st (parse_quoted is_alphanumeric (parse_fuel r) parse_bt false r tk_new)
                  (fun w rest =>
                     if noeval info then lex_value_of info st (Ok v_empty) rest true
                     else let '(st1, rv) := eval_word exec st w in lex_value_of info st1 rv rest true)
              else if N.eqb c c_lbrace then
                lift_p st (parse_braced_string p)
                  (fun w rest =>
                     match w with
                     | WValue s => lex_value_of info st (Ok (VStr s)) rest true
                     | _ => (st, Panic (lit "parse_and_eval_braced_word: unreachable"))
                     end)
              else
                match lex_operator p with
                | Some (tok, rest) => (st, Ok (d_none, with_tok_rest info tok rest))
                | None =>
                    if is_alphabetic c then
                      let isw := fun x => is_alphabetic x || is_digit10 x in
                      let name := take_while isw p in
                      let rest := skip_while isw p in
                      let i1 := with_rest info rest in
                      if str_eqb name (lit "true") || str_eqb name (lit "yes") || str_eqb name (lit "on")
                      then (st, Ok (DInt 1, with_token i1 T_VALUE))
                      else if str_eqb name (lit "false") || str_eqb name (lit "no") || str_eqb name (lit "off")
                      then (st, Ok (DInt 0, with_token i1 T_VALUE))
                      else if str_eqb name (lit "eq") then (st, Ok (d_none, with_token i1 T_STRING_EQ))
                      else if str_eqb name (lit "ne") then (st, Ok (d_none, with_token i1 T_STRING_NE))
                      else if str_eqb name (lit "in") then (st, Ok (d_none, with_token i1 T_IN))
                      else if str_eqb name (lit "ni") then (st, Ok (d_none, with_token i1 T_NI))
                      else expr_math_func f st i1 name
                    else (st, Ok (d_none, with_tok_rest info T_UNKNOWN r))
                end
          end
      end.
Proof. reflexivity. Qed.

(* ---------- A. the lexer consumes input; the readers return shorter remainders ---------- *)

Definition XA (f : nat) : Prop := forall st info st' d i1,
  expr_lex f st info = (st', Ok (d, i1)) ->
  (length (e_rest i1) <= length (e_rest info))%nat
  /\ (e_token i1 <> T_END -> (length (e_rest i1) < length (e_rest info))%nat).
Definition GA (f : nat) : Prop := forall st info pr st' v i2,
  expr_get_value f st info pr = (st', Ok (v, i2)) ->
  (length (e_rest i2) < length (e_rest info))%nat.
Definition LA (f : nat) : Prop := forall st info pr v st' v' i',
  expr_loop f st info pr v = (st', Ok (v', i')) ->
  (length (e_rest i') <= length (e_rest info))%nat.
Definition MA (f : nat) : Prop := forall st info name st' d i3,
  expr_math_func f st info name = (st', Ok (d, i3)) ->
  (length (e_rest i3) < length (e_rest info))%nat.

Lemma GA_step f : XA f -> GA f -> LA f -> MA f -> GA (S f).
Proof.
  intros IHX IHG IHL IHM st info pr st' v i2 H.
  rewrite expr_get_value_eq in H.
  crunchH H; useA IHX IHG IHL IHM; info_simpl; unfold_tok; try lia.
  all: try (inversion H; subst; info_simpl; lia).
  all: split_ifs; lia.
Qed.

Lemma LA_step f : XA f -> GA f -> LA f -> MA f -> LA (S f).
Proof.
  intros IHX IHG IHL IHM st info pr v st' v' i' H.
  rewrite expr_loop_eq in H.
  crunchH H; useA IHX IHG IHL IHM; info_simpl; unfold_tok; try lia.
  all: try (inversion H; subst; info_simpl; lia).
Qed.

Lemma MA_step f : XA f -> GA f -> LA f -> MA f -> MA (S f).
Proof.
  intros IHX IHG IHL IHM st info name st' d i3 H.
  rewrite expr_math_func_eq in H.
  crunchH H; useA IHX IHG IHL IHM; info_simpl; unfold_tok; try lia.
  all: try (inversion H; subst; info_simpl; lia).
  all: split_ifs; lia.
Qed.

Lemma XA_step f : XA f -> GA f -> LA f -> MA f -> XA (S f).
Proof.
  intros IHX IHG IHL IHM st info st' d i1 H.
  rewrite expr_lex_eq in H. unfold lift_p in H.
  pose proof (skip_while_len is_whitespace (e_rest info)) as Lp.
  destruct (skip_while is_whitespace (e_rest info)) as [|c r] eqn:Ep.
  { cbv beta iota zeta in H. inversion H. subst. info_simpl. cbn [length]. split; [lia|].
    intros N. exfalso. apply N. reflexivity. }
  cbv beta iota zeta in H. set (p := c :: r) in *.
  assert (Hlen : length p = S (length r)) by reflexivity.
  assert (Hname : is_alphabetic c = true ->
            (length (skip_while (fun x => is_alphabetic x || is_digit10 x) p) < length p)%nat).
  { intros Ha. apply skip_while_strict. rewrite Ha. reflexivity. }
  clearbody p.
  assert (G : (length (e_rest i1) < length p)%nat).
  { crunchH H; inv_pair H; useA IHX IHG IHL IHM; facts; facts2; info_simpl; use_rest;
      cbn [length] in *;
      try match goal with Ea : is_alphabetic c = true |- _ => specialize (Hname Ea) end;
      clear_bools; lia. }
  split; [lia|]. intros _. lia.
Qed.

Lemma expr_A : forall f, XA f /\ GA f /\ LA f /\ MA f.
Proof.
  induction f as [|f (IHX & IHG & IHL & IHM)].
  - unfold XA, GA, LA, MA. repeat split; intros;
      match goal with H : _ = (_, Ok _) |- _ => cbn in H; discriminate H end.
  - repeat apply conj;
      [apply XA_step|apply GA_step|apply LA_step|apply MA_step]; assumption.
Qed.

End ExprTotal.

(* ---------- B. enough fuel: two units per character plus a constant per function ---------- *)

Section ExprFuel.
Variable is_alphanumeric : char -> bool.
Variable is_alphabetic : char -> bool.
Variable exec : executor.
Variable original : str.

Local Notation expr_get_value := (Expr.expr_get_value is_alphanumeric is_alphabetic exec original).
Local Notation expr_loop := (Expr.expr_loop is_alphanumeric is_alphabetic exec original).
Local Notation expr_lex := (Expr.expr_lex is_alphanumeric is_alphabetic exec original).
Local Notation expr_math_func := (Expr.expr_math_func is_alphanumeric is_alphabetic exec original).

(* The evaluator of embedded scripts, variables and quoted strings is a parameter; its own fuel
   (Model/Interp.v, run_exec) is a separate matter. *)
Hypothesis exec_word : forall st w st', eval_word exec st w <> (st', Fuel).
Hypothesis exec_script : forall st sc st', eval_script exec st sc <> (st', Fuel).

(* Depth of the call chain per consumed character: an operator and its operand cost
   expr_loop -> expr_get_value (two levels for at least one character of operand); a parenthesis or
   a unary operator costs one level for one character; a function call costs expr_lex ->
   expr_math_func -> expr_get_value for the name and the parenthesis. *)
Definition XB (f : nat) : Prop := forall st info st',
  (2 * length (e_rest info) + 1 <= f)%nat -> expr_lex f st info <> (st', Fuel).
Definition GB (f : nat) : Prop := forall st info pr st',
  (2 * length (e_rest info) + 2 <= f)%nat -> expr_get_value f st info pr <> (st', Fuel).
Definition LB (f : nat) : Prop := forall st info pr v st',
  (2 * length (e_rest info) + 3 <= f)%nat -> expr_loop f st info pr v <> (st', Fuel).
Definition MB (f : nat) : Prop := forall st info name st',
  (2 * length (e_rest info) + 2 <= f)%nat -> expr_math_func f st info name <> (st', Fuel).

Ltac useA' f :=
  let A := fresh "A" in
  pose proof (expr_A is_alphanumeric is_alphabetic exec original f) as A;
  let IHX := fresh "AX" in let IHG := fresh "AG" in let IHL := fresh "AL" in let IHM := fresh "AM" in
  destruct A as (IHX & IHG & IHL & IHM);
  useA IHX IHG IHL IHM.

(* a recursive call that ran out of fuel contradicts the induction hypothesis *)
Ltac closeB IHX IHG IHL IHM :=
  exfalso;
  match goal with
  | E : Expr.expr_lex _ _ _ _ _ _ _ = (_, Fuel) |- _ => eapply IHX; [|exact E]
  | E : Expr.expr_get_value _ _ _ _ _ _ _ _ = (_, Fuel) |- _ => eapply IHG; [|exact E]
  | E : Expr.expr_loop _ _ _ _ _ _ _ _ _ = (_, Fuel) |- _ => eapply IHL; [|exact E]
  | E : Expr.expr_math_func _ _ _ _ _ _ _ _ = (_, Fuel) |- _ => eapply IHM; [|exact E]
  | E : apply_binop _ _ _ = Fuel |- _ => exact (apply_binop_no_fuel _ _ _ E)
  | E : call_func _ _ = Fuel |- _ => exact (call_func_no_fuel _ _ E)
  end.

Lemma GB_step f : XB f -> GB f -> LB f -> MB f -> GB (S f).
Proof.
  intros IHX IHG IHL IHM st info pr st' Hf H.
  rewrite expr_get_value_eq in H. unfold Expr.syntax_error, illegal_type, err in H.
  crunchH H; useA' f; closeB IHX IHG IHL IHM; info_simpl; unfold_tok; try lia.
  all: split_ifs; lia.
Qed.

Lemma LB_step f : XB f -> GB f -> LB f -> MB f -> LB (S f).
Proof.
  intros IHX IHG IHL IHM st info pr v st' Hf H.
  rewrite expr_loop_eq in H. unfold Expr.syntax_error, illegal_type, err in H.
  crunchH H; useA' f; closeB IHX IHG IHL IHM; info_simpl; unfold_tok; try lia.
Qed.

Lemma MB_step f : XB f -> GB f -> LB f -> MB f -> MB (S f).
Proof.
  intros IHX IHG IHL IHM st info name st' Hf H.
  rewrite expr_math_func_eq in H. unfold Expr.syntax_error, illegal_type, err in H.
  crunchH H; useA' f; closeB IHX IHG IHL IHM; info_simpl; unfold_tok; try lia.
  all: split_ifs; lia.
Qed.

Ltac closeX IHM :=
  repeat match goal with
         | Hx : lex_value_of _ _ _ _ _ = (_, Fuel) |- _ => apply lex_value_of_fuel in Hx
         end;
  subst; try discriminate;
  exfalso;
  match goal with
  | E : lex_number _ _ _ = Some Fuel |- _ => exact (lex_number_no_fuel _ _ _ E)
  | E : parse_varname _ (parse_fuel _) _ _ = PFuel |- _ => exact (expr_lex_varname_total _ _ _ E)
  | E : parse_script _ (parse_fuel _) true _ [] = PFuel |- _ => exact (expr_lex_script_total _ _ E)
  | E : parse_quoted _ (parse_fuel _) _ _ _ tk_new = PFuel |- _ =>
      exact (expr_lex_quoted_total _ _ _ _ E)
  | E : parse_braced_string _ = PFuel |- _ => exact (parse_braced_string_no_fuel _ E)
  | E : eval_word exec _ _ = (_, Fuel) |- _ => exact (exec_word _ _ _ E)
  | E : eval_script exec _ _ = (_, Fuel) |- _ => exact (exec_script _ _ _ E)
  | E : Expr.expr_math_func _ _ _ _ _ _ _ _ = (_, Fuel) |- _ => eapply IHM; [|exact E]
  end.

Lemma XB_step f : XB f -> GB f -> LB f -> MB f -> XB (S f).
Proof.
  intros IHX IHG IHL IHM st info st' Hf H.
  rewrite expr_lex_eq in H. unfold lift_p, err in H.
  pose proof (skip_while_len is_whitespace (e_rest info)) as Lp.
  destruct (skip_while is_whitespace (e_rest info)) as [|c r] eqn:Ep.
  { cbv beta iota zeta in H. discriminate H. }
  cbv beta iota zeta in H. set (p := c :: r) in *.
  assert (Hlen : length p = S (length r)) by reflexivity.
  assert (Hname : is_alphabetic c = true ->
            (length (skip_while (fun x => is_alphabetic x || is_digit10 x) p) < length p)%nat).
  { intros Ha. apply skip_while_strict. rewrite Ha. reflexivity. }
  clearbody p.
  crunchH H; inv_pair H; closeX IHM; info_simpl;
    try match goal with Ea : is_alphabetic c = true |- _ => specialize (Hname Ea) end;
    clear_bools; lia.
Qed.

Lemma expr_B : forall f, XB f /\ GB f /\ LB f /\ MB f.
Proof.
  induction f as [|f (IHX & IHG & IHL & IHM)].
  - unfold XB, GB, LB, MB. repeat split; intros; lia.
  - repeat apply conj;
      [apply XB_step|apply GB_step|apply LB_step|apply MB_step]; assumption.
Qed.

(* C01: the expression evaluator never runs out of its own fuel *)
Theorem expr_get_value_no_fuel : forall fuel st info pr st',
  (2 * length (e_rest info) + 2 <= fuel)%nat ->
  expr_get_value fuel st info pr <> (st', Fuel).
Proof. intros fuel. destruct (expr_B fuel) as (_ & G & _). exact G. Qed.

End ExprFuel.

Theorem expr_eval_no_fuel : forall (is_alphanumeric is_alphabetic : char -> bool) (exec : executor),
  (forall st w st', eval_word exec st w <> (st', Fuel)) ->
  (forall st sc st', eval_script exec st sc <> (st', Fuel)) ->
  forall st e st', expr_eval is_alphanumeric is_alphabetic exec st e <> (st', Fuel).
Proof.
  intros isan isal exec Hw Hs st e st' H. unfold expr_eval in H.
  pose proof (expr_get_value_no_fuel isan isal exec (as_str e) Hw Hs (expr_fuel (as_str e)) st
                {| e_rest := as_str e; e_token := -1; e_noeval := 0 |} (-1)) as N.
  destruct (Expr.expr_get_value isan isal exec (as_str e) (expr_fuel (as_str e)) st
              {| e_rest := as_str e; e_token := -1; e_noeval := 0 |} (-1)) as [st1 r].
  destruct r as [[v i1]|ex| |].
  - destruct (negb (e_token i1 =? T_END)); discriminate H.
  - unfold err in H. destruct (x_code ex); discriminate H.
  - discriminate H.
  - apply (N st1); [|reflexivity]. cbn [e_rest]. unfold expr_fuel. lia.
Qed.

Print Assumptions expr_get_value_no_fuel.
Print Assumptions expr_eval_no_fuel.

(* ---------- the two hypotheses follow from: the command executor never returns Fuel ---------- *)

Fixpoint word_size (w : word) : nat :=
  match w with
  | WArrayRef _ i => S (word_size i)
  | WScript cmds => S (list_sum (map (fun ws => S (list_sum (map word_size ws))) cmds))
  | WTokens ws => S (list_sum (map word_size ws))
  | WExpand w => S (word_size w)
  | _ => 1%nat
  end.

Lemma in_list_sum {A : Type} (f : A -> nat) (x : A) (l : list A) :
  In x l -> (f x <= list_sum (map f l))%nat.
Proof.
  induction l as [|y l IH]; intros H; [contradiction|].
  change (list_sum (map f (y :: l))) with (f y + list_sum (map f l))%nat.
  destruct H as [->|H]; [lia|]. specialize (IH H). lia.
Qed.

Lemma sc_get_no_fuel ss name : sc_get ss name <> Fuel.
Proof. unfold sc_get, err. intros H. crunchH H; discriminate. Qed.

Lemma sc_get_elem_no_fuel ss name idx : sc_get_elem ss name idx <> Fuel.
Proof.
  unfold sc_get_elem, err. intros H. crunchH H; discriminate.
Qed.

Section EvalNoFuel.
Variable exec : executor.
Hypothesis exec_nf : forall st cmd argv st', exec st cmd argv <> (st', Fuel).

(* a word of a command is evaluated as it is, except that "{*}w" evaluates w *)
Definition unexpand (w : word) : word := match w with WExpand w' => w' | _ => w end.

Lemma unexpand_size w : (word_size (unexpand w) <= word_size w)%nat.
Proof. destruct w; cbn [unexpand word_size]; lia. Qed.

Lemma eval_words_with_nf (ew : interp -> word -> interp * res value) : forall ws,
  (forall w, In w ws -> forall st st', ew st (unexpand w) <> (st', Fuel)) ->
  forall st acc st', eval_words_with ew st ws acc <> (st', Fuel).
Proof.
  induction ws as [|w r IH]; intros Hw st acc st' H; [discriminate H|].
  assert (Hr : forall w0, In w0 r -> forall st st', ew st (unexpand w0) <> (st', Fuel)).
  { intros w0 Hin. apply Hw. right. exact Hin. }
  specialize (IH Hr).
  pose proof (Hw w (or_introl eq_refl)) as Hhead.
  cbn [eval_words_with] in H. unfold err in H.
  destruct w; crunchH H;
    try (eapply IH; exact H);
    match goal with
    | E : ew ?s ?x = (_, Fuel) |- _ => exact (Hhead _ _ E)
    end.
Qed.

Lemma eval_cmds_with_nf (ew : interp -> word -> interp * res value) : forall cmds,
  (forall ws, In ws cmds -> forall w, In w ws -> forall st st', ew st (unexpand w) <> (st', Fuel)) ->
  forall st result st', eval_cmds_with exec ew st cmds result <> (st', Fuel).
Proof.
  induction cmds as [|ws rest IH]; intros Hw st result st' H; [discriminate H|].
  assert (Hr : forall ws0, In ws0 rest -> forall w, In w ws0 -> forall st st', ew st (unexpand w) <> (st', Fuel)).
  { intros ws0 Hin. apply Hw. right. exact Hin. }
  specialize (IH Hr).
  cbn [eval_cmds_with] in H. unfold command_outcome in H.
  crunchH H; try (eapply IH; exact H);
    match goal with
    | E : eval_words_with ew _ _ _ = (_, Fuel) |- _ =>
        eapply (eval_words_with_nf ew ws); [|exact E]; apply Hw; left; reflexivity
    | E : exec _ _ _ = (_, Fuel) |- _ => eapply exec_nf; exact E
    end.
Qed.

Lemma eval_word_nf_size : forall n w, (word_size w <= n)%nat ->
  forall st st', eval_word exec st w <> (st', Fuel).
Proof.
  induction n as [|n IH]; intros w Hn st st' H.
  { destruct w; cbn [word_size] in Hn; lia. }
  destruct w; cbn [eval_word] in H; cbn [word_size] in Hn.
  - discriminate H.
  - unfold st_scalar in H. inversion H as [[H1 H2]]. exact (sc_get_no_fuel _ _ H2).
  - destruct (eval_word exec st w) as [st1 r] eqn:E. destruct r; try discriminate H.
    + unfold st_element in H. inversion H as [[H1 H2]]. exact (sc_get_elem_no_fuel _ _ _ H2).
    + eapply (IH w); [lia|exact E].
  - eapply (eval_cmds_with_nf (eval_word exec) cmds); [|exact H].
    intros ws Hin w Hw. apply IH. pose proof (unexpand_size w) as L0.
    pose proof (in_list_sum (fun ws => S (list_sum (map word_size ws))) ws cmds Hin) as L1.
    pose proof (in_list_sum word_size w ws Hw) as L2. cbv beta in L1. lia.
  - destruct (eval_words_with (eval_word exec) st ws []) as [st1 r] eqn:E.
    destruct r; try discriminate H.
    eapply (eval_words_with_nf (eval_word exec) ws); [|exact E].
    intros w Hw. apply IH. pose proof (unexpand_size w) as L0.
    pose proof (in_list_sum word_size w ws Hw). lia.
  - discriminate H.
  - discriminate H.
Qed.

Lemma eval_word_nf : forall st w st', eval_word exec st w <> (st', Fuel).
Proof. intros st w st'. exact (eval_word_nf_size (word_size w) w (le_n _) st st'). Qed.

Lemma eval_script_nf : forall st sc st', eval_script exec st sc <> (st', Fuel).
Proof.
  intros st sc st'. unfold eval_script, eval_cmds. apply eval_cmds_with_nf.
  intros ws _ w _. intros st0 st0'. apply eval_word_nf.
Qed.

End EvalNoFuel.

(* C01, expressions: if the command executor does not run out of fuel, neither does [expr] *)
Theorem expr_eval_total : forall (is_alphanumeric is_alphabetic : char -> bool) (exec : executor),
  (forall st cmd argv st', exec st cmd argv <> (st', Fuel)) ->
  forall st e st', expr_eval is_alphanumeric is_alphabetic exec st e <> (st', Fuel).
Proof.
  intros isan isal exec Hx. apply expr_eval_no_fuel.
  - apply eval_word_nf. exact Hx.
  - apply eval_script_nf. exact Hx.
Qed.

Print Assumptions expr_eval_total.

(* ---------- the evaluator's own panic sites are unreachable ---------- *)

(* apply_binop's "mixed operands" sites are dead code; its last site needs the caller's
   conversion of the first operand of && and || *)
Lemma apply_binop_panic op v v2 q :
  apply_binop op v v2 = Panic q ->
  ((op =? T_AND) || (op =? T_OR) = true) /\ exists x, v = DFlt x.
Proof.
  intros H. unfold apply_binop in H. unfold illegal_type, i64_result, d_bool, expr_as_str, to_flt, err in H.
  destruct v, v2; crunchH H; try discriminate.
  all: split; [unfold_tok; lia|eexists; reflexivity].
Qed.

Lemma call_func_no_panic name arg q : call_func name arg <> Panic q.
Proof.
  intros H. unfold call_func in H. unfold err in H.
  crunchH H; discriminate.
Qed.

Lemma lex_number_no_panic info c p q : lex_number info c p <> Some (Panic q).
Proof.
  intros H. unfold lex_number in H. unfold err in H.
  crunchH H; discriminate.
Qed.

Lemma lex_value_of_panic info st1 rv rest fs st' q :
  lex_value_of info st1 rv rest fs = (st', Panic q) -> rv = Panic q.
Proof.
  intros H. unfold lex_value_of in H.
  crunchH H; try (inversion H; subst; reflexivity).
  all: match goal with
       | E : expr_parse_string ?s = Panic _ |- _ =>
           pose proof (expr_parse_string_no_panic s) as N; rewrite E in N; contradiction
       | E : expr_parse_value ?v = Panic _ |- _ =>
           pose proof (expr_parse_value_no_panic v) as N; rewrite E in N; contradiction
       end.
Qed.

Lemma parse_braced_string_value p w rest :
  parse_braced_string p = POk w rest -> exists s, w = WValue s.
Proof.
  unfold parse_braced_string. destruct p as [|c r]; [discriminate|].
  destruct (parse_braced_body r 0 []); try discriminate.
  intros H. inversion H. eexists. reflexivity.
Qed.

Section ExprNoPanic.
Variable is_alphanumeric : char -> bool.
Variable is_alphabetic : char -> bool.
Variable exec : executor.
Variable original : str.

Local Notation expr_get_value := (Expr.expr_get_value is_alphanumeric is_alphabetic exec original).
Local Notation expr_loop := (Expr.expr_loop is_alphanumeric is_alphabetic exec original).
Local Notation expr_lex := (Expr.expr_lex is_alphanumeric is_alphabetic exec original).
Local Notation expr_math_func := (Expr.expr_math_func is_alphanumeric is_alphabetic exec original).

Hypothesis exec_word_np : forall st w st' q, eval_word exec st w <> (st', Panic q).
Hypothesis exec_script_np : forall st sc st' q, eval_script exec st sc <> (st', Panic q).

Definition XP (f : nat) : Prop := forall st info st' q, expr_lex f st info <> (st', Panic q).
Definition GP (f : nat) : Prop := forall st info pr st' q, expr_get_value f st info pr <> (st', Panic q).
Definition LP (f : nat) : Prop := forall st info pr v st' q, expr_loop f st info pr v <> (st', Panic q).
Definition MP (f : nat) : Prop := forall st info name st' q, expr_math_func f st info name <> (st', Panic q).

Ltac closeP IHX IHG IHL IHM :=
  exfalso;
  match goal with
  | E : Expr.expr_lex _ _ _ _ _ _ _ = (_, Panic _) |- _ => exact (IHX _ _ _ _ E)
  | E : Expr.expr_get_value _ _ _ _ _ _ _ _ = (_, Panic _) |- _ => exact (IHG _ _ _ _ _ E)
  | E : Expr.expr_loop _ _ _ _ _ _ _ _ _ = (_, Panic _) |- _ => exact (IHL _ _ _ _ _ _ E)
  | E : Expr.expr_math_func _ _ _ _ _ _ _ _ = (_, Panic _) |- _ => exact (IHM _ _ _ _ _ E)
  | E : call_func _ _ = Panic _ |- _ => exact (call_func_no_panic _ _ _ E)
  | E : apply_binop _ _ _ = Panic _ |- _ =>
      let Ha := fresh "Ha" in let Hb := fresh "Hb" in let x := fresh "x" in
      apply apply_binop_panic in E; destruct E as [Ha [x Hb]];
      first [discriminate Hb | unfold_tok; lia]
  end.

Lemma GP_step f : XP f -> GP f -> LP f -> MP f -> GP (S f).
Proof.
  intros IHX IHG IHL IHM st info pr st' q H.
  rewrite expr_get_value_eq in H. unfold Expr.syntax_error, illegal_type, d_bool, err in H.
  crunchH H; closeP IHX IHG IHL IHM.
Qed.

Lemma LP_step f : XP f -> GP f -> LP f -> MP f -> LP (S f).
Proof.
  intros IHX IHG IHL IHM st info pr v st' q H.
  rewrite expr_loop_eq in H. unfold Expr.syntax_error, illegal_type, d_bool, err in H.
  crunchH H; closeP IHX IHG IHL IHM.
Qed.

Lemma MP_step f : XP f -> GP f -> LP f -> MP f -> MP (S f).
Proof.
  intros IHX IHG IHL IHM st info name st' q H.
  rewrite expr_math_func_eq in H. unfold Expr.syntax_error, illegal_type, d_bool, err in H.
  crunchH H; closeP IHX IHG IHL IHM.
Qed.

Ltac closeXP IHM :=
  repeat match goal with
         | Hx : lex_value_of _ _ _ _ _ = (_, Panic _) |- _ => apply lex_value_of_panic in Hx
         end;
  subst; try discriminate;
  exfalso;
  match goal with
  | E : lex_number _ _ _ = Some (Panic _) |- _ => exact (lex_number_no_panic _ _ _ _ E)
  | E : eval_word exec _ _ = (_, Panic _) |- _ => exact (exec_word_np _ _ _ _ E)
  | E : eval_script exec _ _ = (_, Panic _) |- _ => exact (exec_script_np _ _ _ _ E)
  | E : Expr.expr_math_func _ _ _ _ _ _ _ _ = (_, Panic _) |- _ => exact (IHM _ _ _ _ _ E)
  | E : parse_braced_string _ = POk _ _ |- _ =>
      let s := fresh "s" in let Hs := fresh "Hs" in
      apply parse_braced_string_value in E; destruct E as [s Hs]; discriminate Hs
  end.

Lemma XP_step f : XP f -> GP f -> LP f -> MP f -> XP (S f).
Proof.
  intros IHX IHG IHL IHM st info st' q H.
  rewrite expr_lex_eq in H. unfold lift_p, err in H.
  destruct (skip_while is_whitespace (e_rest info)) as [|c r] eqn:Ep.
  { cbv beta iota zeta in H. discriminate H. }
  cbv beta iota zeta in H. set (p := c :: r) in *. clearbody p.
  crunchH H; inv_pair H; closeXP IHM.
Qed.

Lemma expr_P : forall f, XP f /\ GP f /\ LP f /\ MP f.
Proof.
  induction f as [|f (IHX & IHG & IHL & IHM)].
  - unfold XP, GP, LP, MP. repeat split; intros; intros H; cbn in H; discriminate H.
  - repeat apply conj;
      [apply XP_step|apply GP_step|apply LP_step|apply MP_step]; assumption.
Qed.

Theorem expr_get_value_no_panic : forall fuel st info pr st' q,
  expr_get_value fuel st info pr <> (st', Panic q).
Proof. intros fuel. destruct (expr_P fuel) as (_ & G & _). exact G. Qed.

End ExprNoPanic.

(* C01, expressions: the evaluator adds no panic of its own: it panics only if evaluating an
   embedded variable reference, quoted string or script does *)
Theorem expr_eval_no_panic : forall (is_alphanumeric is_alphabetic : char -> bool) (exec : executor),
  (forall st w st' q, eval_word exec st w <> (st', Panic q)) ->
  (forall st sc st' q, eval_script exec st sc <> (st', Panic q)) ->
  forall st e st' q, expr_eval is_alphanumeric is_alphabetic exec st e <> (st', Panic q).
Proof.
  intros isan isal exec Hw Hs st e st' q H. unfold expr_eval in H.
  pose proof (expr_get_value_no_panic isan isal exec (as_str e) Hw Hs (expr_fuel (as_str e)) st
                {| e_rest := as_str e; e_token := -1; e_noeval := 0 |} (-1)) as N.
  destruct (Expr.expr_get_value isan isal exec (as_str e) (expr_fuel (as_str e)) st
              {| e_rest := as_str e; e_token := -1; e_noeval := 0 |} (-1)) as [st1 r].
  destruct r as [[v i1]|ex|site|].
  - destruct (negb (e_token i1 =? T_END)); discriminate H.
  - unfold err in H. destruct (x_code ex); discriminate H.
  - exact (N st1 site eq_refl).
  - discriminate H.
Qed.

Print Assumptions expr_get_value_no_panic.
Print Assumptions expr_eval_no_panic.
