(* RepFacts.v — C13: cached representations are unobservable ("everything is a string").

   In the model a [value] is the immutable tree it was BUILT FROM; [as_str] computes its string.
   [strip v := VStr (as_str v)] forgets the representation and keeps the string.  This file
   proves, at the value interface, that the operations of the model that inspect a value give
   the same answer on [v] and on [strip v] — more generally on any two values [v], [w] with the
   same string ([same v w]) — provided the typed data are well formed:

     ints_ok   every VInt carried as typed data is an i64,
     dicts_ok  every VDict carried as typed data has pairwise distinct key strings,
     float_free no VFlt occurs (needed only where a value is read as a NUMBER or a BOOLEAN:
               expr_parse_value and v_as_bool; everything else goes through the string of a
               float and needs no such hypothesis).

   and it REFUTES the property for floats: [float_rep_observable] (5.0 prints as "5", which
   re-reads as the integer 5).

   Stronger than asked: most statements are proved for ANY two well-formed values with the
   same string ([same v w], argument vectors related by [Forall2 same]); the [strip] forms
   (section 8, [C13_*]) are instances.

   Print Assumptions: every theorem below prints "Closed under the global context". *)
From Molt Require Import Model.Base Model.Tokenizer Model.ListSyn Model.Float Model.Value
  Model.State Model.Script Model.Parser Model.Eval Model.Expr Model.Commands Model.Interp.
From Molt Require Import Spec.SpecDict.
From Molt Require Import Proofs.BaseFacts Proofs.ListSynFacts Proofs.ValueFacts Proofs.DictFacts.
From Coq Require Import Lia ZifyBool ZifyN.

Arguments N.eqb : simpl never.
Arguments N.leb : simpl never.
Arguments N.ltb : simpl never.

Local Open Scope N_scope.

(* ====================================================================================== *)
(* 0. Definitions                                                                          *)
(* ====================================================================================== *)

Definition strip (v : value) : value := VStr (as_str v).

(* no VFlt occurs anywhere inside the value *)
Fixpoint float_free (v : value) : bool :=
  match v with
  | VFlt _ => false
  | VList l => forallb float_free l
  | VDict d => forallb (fun kv => match kv with (k, x) => float_free k && float_free x end) d
  | _ => true
  end.

(* every VInt carried as typed data is an i64 *)
Fixpoint ints_ok (v : value) : bool :=
  match v with
  | VInt z => in_i64 z
  | VList l => forallb ints_ok l
  | VDict d => forallb (fun kv => match kv with (k, x) => ints_ok k && ints_ok x end) d
  | _ => true
  end.

Fixpoint distinct_strs (l : list str) : bool :=
  match l with
  | [] => true
  | x :: r => negb (existsb (str_eqb x) r) && distinct_strs r
  end.

(* every VDict carried as typed data has pairwise distinct key strings *)
Fixpoint dicts_ok (v : value) : bool :=
  match v with
  | VList l => forallb dicts_ok l
  | VDict d => distinct_strs (map (fun kv => as_str (fst kv)) d)
               && forallb (fun kv => match kv with (k, x) => dicts_ok k && dicts_ok x end) d
  | _ => true
  end.

(* what is needed by everything except the numeric/boolean reading of a value *)
Definition typed_ok (v : value) : Prop := ints_ok v = true /\ dicts_ok v = true.
Definition good (v : value) : Prop := float_free v = true /\ ints_ok v = true /\ dicts_ok v = true.

Lemma good_typed_ok v : good v -> typed_ok v.
Proof. intros [_ H]. exact H. Qed.

(* two values with the same string, both well formed *)
Definition same (v w : value) : Prop := as_str v = as_str w /\ typed_ok v /\ typed_ok w.
Definition same_pair (p q : value * value) : Prop := same (fst p) (fst q) /\ same (snd p) (snd q).
Definition strip_pair (kv : value * value) : value * value := (strip (fst kv), strip (snd kv)).

Definition sum_map {A B} (f : A -> B) (r : str + A) : str + B :=
  match r with inl m => inl m | inr a => inr (f a) end.

Definition sum_rel {A} (R : A -> A -> Prop) (r r' : str + A) : Prop :=
  match r, r' with
  | inl m, inl m' => m = m'
  | inr a, inr a' => R a a'
  | _, _ => False
  end.

Definition opt_rel {A} (R : A -> A -> Prop) (r r' : option A) : Prop :=
  match r, r' with
  | Some a, Some a' => R a a'
  | None, None => True
  | _, _ => False
  end.

Definition res_rel {A} (R : A -> A -> Prop) (r r' : res A) : Prop :=
  match r, r' with
  | Ok a, Ok a' => R a a'
  | Err e, Err e' => e = e'
  | Panic p, Panic p' => p = p'
  | Fuel, Fuel => True
  | _, _ => False
  end.

(* what a script can see of the outcome of a command: the result string, or the error string *)
Definition out_str (m : M value) : option (str + str) :=
  match snd m with
  | Ok v => Some (inr (as_str v))
  | Err e => Some (inl (as_str (x_value e)))
  | _ => None
  end.

Definition str_same (a b : value) : Prop := as_str a = as_str b.

(* ---------- basic facts about the predicates ---------- *)

Lemma distinct_strs_NoDup l : distinct_strs l = true <-> NoDup l.
Proof.
  induction l as [|x r IH]; cbn [distinct_strs].
  - split; [constructor|reflexivity].
  - rewrite andb_true_iff, negb_true_iff, IH. split.
    + intros [H1 H2]. constructor; [|exact H2]. intros Hin.
      assert (E : existsb (str_eqb x) r = true).
      { apply existsb_exists. exists x. split; [exact Hin|apply str_eqb_refl]. }
      congruence.
    + intros H. inversion H as [|y l Hn Hd]; subst. split; [|exact Hd].
      destruct (existsb (str_eqb x) r) eqn:E; [|reflexivity].
      apply existsb_exists in E. destruct E as (y & Hy & He). apply str_eqb_eq in He. subst y.
      contradiction.
Qed.

Lemma typed_ok_str s : typed_ok (VStr s).
Proof. split; reflexivity. Qed.

Lemma typed_ok_strip v : typed_ok (strip v).
Proof. apply typed_ok_str. Qed.

Lemma good_strip v : good (strip v).
Proof. repeat split. Qed.

Lemma typed_ok_empty : typed_ok v_empty.
Proof. apply typed_ok_str. Qed.

Lemma typed_ok_list l : typed_ok (VList l) <-> Forall typed_ok l.
Proof.
  unfold typed_ok. cbn [ints_ok dicts_ok]. rewrite !forallb_forall, Forall_forall. split.
  - intros [H1 H2] x Hx. split; [apply H1|apply H2]; exact Hx.
  - intros H. split; intros x Hx; apply (H x Hx).
Qed.

Lemma typed_ok_dict d :
  typed_ok (VDict d) <->
  NoDup (map (fun kv => as_str (fst kv)) d) /\
  Forall (fun kv => typed_ok (fst kv) /\ typed_ok (snd kv)) d.
Proof.
  unfold typed_ok. cbn [ints_ok dicts_ok].
  rewrite andb_true_iff, distinct_strs_NoDup, !forallb_forall, Forall_forall. split.
  - intros [H1 [H2 H3]]. split; [exact H2|]. intros [k x] Hx.
    specialize (H1 _ Hx). specialize (H3 _ Hx). cbn beta iota in H1, H3.
    apply andb_true_iff in H1, H3. cbn [fst snd]. tauto.
  - intros [H2 H]. split; [|split; [exact H2|]]; intros [k x] Hx; specialize (H _ Hx);
      cbn [fst snd] in H; apply andb_true_iff; tauto.
Qed.

Lemma same_refl v : typed_ok v -> same v v.
Proof. intros H. split; [reflexivity|split; exact H]. Qed.

Lemma same_sym v w : same v w -> same w v.
Proof. intros (H1 & H2 & H3). split; [symmetry; exact H1|split; assumption]. Qed.

Lemma same_strip v : typed_ok v -> same v (strip v).
Proof. intros H. split; [reflexivity|split; [exact H|apply typed_ok_strip]]. Qed.

Lemma same_strip_eq v w : same v w -> strip v = strip w.
Proof. intros (H & _). unfold strip. rewrite H. reflexivity. Qed.

Lemma Forall2_same_strip l : Forall typed_ok l -> Forall2 same l (map strip l).
Proof.
  induction 1 as [|x r Hx Hr IH]; cbn [map]; constructor; [apply same_strip; exact Hx|exact IH].
Qed.

(* ====================================================================================== *)
(* 1. The string and equality                                                              *)
(* ====================================================================================== *)

Theorem as_str_strip v : as_str (strip v) = as_str v.
Proof. reflexivity. Qed.

Theorem strip_idem v : strip (strip v) = strip v.
Proof. reflexivity. Qed.

Theorem v_eqb_strip_l v w : v_eqb (strip v) w = v_eqb v w.
Proof. reflexivity. Qed.

Theorem v_eqb_strip_r v w : v_eqb v (strip w) = v_eqb v w.
Proof. reflexivity. Qed.

Theorem v_eqb_same a a' b b' : same a a' -> same b b' -> v_eqb a b = v_eqb a' b'.
Proof. intros (Ha & _) (Hb & _). unfold v_eqb. rewrite Ha, Hb. reflexivity. Qed.

Print Assumptions v_eqb_strip_l.
Print Assumptions v_eqb_same.

(* ====================================================================================== *)
(* 2. The integer, list and dictionary views                                               *)
(* ====================================================================================== *)

(* integers: only the range of a typed integer matters (a float is read through its string) *)
Theorem v_as_int_strip v : ints_ok v = true -> v_as_int (strip v) = v_as_int v.
Proof.
  intros H. destruct v as [s|z|f|b|l|d]; try reflexivity.
  cbn [ints_ok] in H. apply int_value_roundtrip. exact H.
Qed.
Print Assumptions v_as_int_strip.

Theorem v_as_int_same v w : same v w -> v_as_int v = v_as_int w.
Proof.
  intros H. pose proof (same_strip_eq _ _ H) as E. destruct H as (_ & [Hv _] & [Hw _]).
  rewrite <- (v_as_int_strip v Hv), <- (v_as_int_strip w Hw), E. reflexivity.
Qed.

(* the float view of a non-float is a function of the string, by definition *)
Theorem v_as_float_strip v : (forall f, v <> VFlt f) -> v_as_float (strip v) = v_as_float v.
Proof. intros H. destruct v as [s|z|f|b|l|d]; try reflexivity. exfalso. apply (H f). reflexivity. Qed.

(* lists: NO hypothesis.  The elements of the list read from the string are the strips of the
   elements of the typed list *)
Lemma map_strip_VStr l : map strip (map VStr l) = map VStr l.
Proof. rewrite map_map. reflexivity. Qed.

Lemma str_as_list_strip s : str_as_list s = sum_map (map strip) (str_as_list s).
Proof.
  unfold str_as_list. destruct (get_list s) as [[e|l]|]; cbn [sum_map]; try reflexivity.
  rewrite map_strip_VStr. reflexivity.
Qed.

Theorem v_as_list_strip v : v_as_list (strip v) = sum_map (map strip) (v_as_list v).
Proof.
  destruct v as [s|z|f|b|l|d];
    try (change (v_as_list (strip ?x)) with (str_as_list (as_str x));
         change (v_as_list ?x) with (str_as_list (as_str x)); apply str_as_list_strip).
  apply list_value_roundtrip.
Qed.
Print Assumptions v_as_list_strip.

Corollary v_as_list_strip_list l : v_as_list (strip (VList l)) = inr (map strip l).
Proof. apply v_as_list_strip. Qed.

(* the element STRINGS agree *)
Corollary v_as_list_strip_strs v :
  map_as_str_sum (v_as_list (strip v)) = map_as_str_sum (v_as_list v).
Proof.
  rewrite v_as_list_strip. destruct (v_as_list v) as [m|l]; cbn [sum_map map_as_str_sum]; [reflexivity|].
  rewrite map_map. reflexivity.
Qed.

Lemma v_as_list_typed_ok v l : typed_ok v -> v_as_list v = inr l -> Forall typed_ok l.
Proof.
  intros Hv H. destruct v as [s|z|f|b|l0|d];
    try (change (v_as_list ?x) with (str_as_list (as_str x)) in H; unfold str_as_list in H;
         destruct (get_list _) as [[e|l1]|]; inversion H; subst;
         apply Forall_forall; intros x Hx; apply in_map_iff in Hx; destruct Hx as (y & <- & _);
         apply typed_ok_str).
  cbn [v_as_list] in H. inversion H; subst. apply typed_ok_list. exact Hv.
Qed.

Lemma map_strip_same l : forall l', map strip l = map strip l' ->
  Forall typed_ok l -> Forall typed_ok l' -> Forall2 same l l'.
Proof.
  induction l as [|x r IH]; intros [|y r'] E Hl Hl'; cbn [map] in E; try discriminate; [constructor|].
  inversion E as [[E1 E2]]. inversion Hl; subst. inversion Hl'; subst.
  constructor; [|apply IH; assumption]. split; [exact E1|split; assumption].
Qed.

Theorem v_as_list_same v w : same v w -> sum_rel (Forall2 same) (v_as_list v) (v_as_list w).
Proof.
  intros H. pose proof (same_strip_eq _ _ H) as E. destruct H as (_ & Hv & Hw).
  pose proof (v_as_list_strip v) as Ev. pose proof (v_as_list_strip w) as Ew. rewrite E in Ev.
  rewrite Ev in Ew. pose proof (v_as_list_typed_ok v) as Tv. pose proof (v_as_list_typed_ok w) as Tw.
  destruct (v_as_list v) as [m|l], (v_as_list w) as [m'|l']; cbn [sum_map sum_rel] in *;
    try discriminate.
  - congruence.
  - inversion Ew as [Em]. apply map_strip_same; [exact Em|apply Tv|apply Tw]; auto.
Qed.
Print Assumptions v_as_list_same.

(* dictionaries *)
Definition is_vstr (v : value) : Prop := match v with VStr _ => True | _ => False end.
Definition vstr_pair (kv : value * value) : Prop := is_vstr (fst kv) /\ is_vstr (snd kv).

Lemma strip_vstr v : is_vstr v -> strip v = v.
Proof. destruct v; cbn [is_vstr]; intros H; try contradiction. reflexivity. Qed.

Lemma dict_insert_vstr d k v :
  Forall vstr_pair d -> is_vstr k -> is_vstr v -> Forall vstr_pair (dict_insert d k v).
Proof.
  intros Hd Hk Hv. induction Hd as [|[k' v'] r Hx Hr IH]; cbn [dict_insert].
  - constructor; [split; assumption|constructor].
  - destruct (v_eqb k' k).
    + constructor; [|exact Hr]. destruct Hx as [Hx1 Hx2]. split; assumption.
    + constructor; [exact Hx|exact IH].
Qed.

Lemma list_to_dict_acc_vstr l : forall acc,
  Forall is_vstr l -> Forall vstr_pair acc -> Forall vstr_pair (list_to_dict_acc l acc).
Proof.
  induction l as [|x|k v r IH] using pair_ind; intros acc Hl Hacc; cbn [list_to_dict_acc]; try exact Hacc.
  inversion Hl as [|? ? Hk Hl1]; subst. inversion Hl1 as [|? ? Hv Hl2]; subst.
  apply IH; [exact Hl2|]. apply dict_insert_vstr; assumption.
Qed.

Lemma map_strip_pair_vstr d : Forall vstr_pair d -> map strip_pair d = d.
Proof.
  induction 1 as [|[k v] r [Hk Hv] Hr IH]; [reflexivity|].
  cbn [map]. rewrite IH. unfold strip_pair. cbn [fst snd] in *.
  rewrite (strip_vstr k Hk), (strip_vstr v Hv). reflexivity.
Qed.

Lemma Forall_is_vstr_map l : Forall is_vstr (map VStr l).
Proof. apply Forall_forall. intros x Hx. apply in_map_iff in Hx. destruct Hx as (y & <- & _). exact I. Qed.

(* the dictionary read from a string consists of string values only *)
Lemma str_dict_vstr s d :
  match str_as_list s with
  | inl e => inl e
  | inr l => if Nat.even (length l) then inr (list_to_dict l)
             else inl (lit "missing value to go with key")
  end = inr d -> Forall vstr_pair d.
Proof.
  unfold str_as_list. destruct (get_list s) as [[e|l]|]; try discriminate.
  destruct (Nat.even (length (map VStr l))); [|discriminate].
  intros H. inversion H; subst. apply list_to_dict_acc_vstr; [apply Forall_is_vstr_map|constructor].
Qed.

Theorem v_as_dict_strip v :
  dicts_ok v = true -> v_as_dict (strip v) = sum_map (map strip_pair) (v_as_dict v).
Proof.
  intros Hv.
  destruct v as [s|z|f|b|l|d].
  6:{ cbn [dicts_ok] in Hv. apply andb_true_iff in Hv. destruct Hv as [Hv _].
      apply distinct_strs_NoDup in Hv. apply (dict_value_roundtrip d Hv). }
  all: change (v_as_dict (strip ?x)) with (v_as_dict x);
    match goal with |- v_as_dict ?x = _ =>
      pose proof (str_dict_vstr (as_str x)) as Hs;
      change (v_as_dict x) with
        (match str_as_list (as_str x) with
         | inl e => inl e
         | inr l => if Nat.even (length l) then inr (list_to_dict l)
                    else inl (lit "missing value to go with key")
         end) end;
    match goal with |- ?t = _ => destruct t as [m|d0] end; cbn [sum_map]; [reflexivity|];
    rewrite (map_strip_pair_vstr d0 (Hs d0 eq_refl)); reflexivity.
Qed.
Print Assumptions v_as_dict_strip.

Corollary v_as_dict_strip_dict d :
  NoDup (map (fun kv => as_str (fst kv)) d) ->
  v_as_dict (strip (VDict d)) = inr (map (fun kv => (strip (fst kv), strip (snd kv))) d).
Proof. apply dict_value_roundtrip. Qed.

Lemma vstr_pair_typed_ok d :
  Forall vstr_pair d -> Forall (fun kv => typed_ok (fst kv) /\ typed_ok (snd kv)) d.
Proof.
  intros H. eapply Forall_impl; [|exact H]. intros [k v] [Hk Hv]. cbn [fst snd] in *.
  destruct k, v; cbn [is_vstr] in *; try contradiction. split; apply typed_ok_str.
Qed.

Lemma v_as_dict_typed_ok v d :
  typed_ok v -> v_as_dict v = inr d -> Forall (fun kv => typed_ok (fst kv) /\ typed_ok (snd kv)) d.
Proof.
  intros Hv H. destruct v as [s|z|f|b|l|d0].
  6:{ cbn [v_as_dict] in H. inversion H; subst. apply typed_ok_dict in Hv. tauto. }
  all: apply vstr_pair_typed_ok; match type of H with v_as_dict ?x = _ =>
         apply (str_dict_vstr (as_str x)) end; exact H.
Qed.

Lemma map_strip_pair_same d : forall d', map strip_pair d = map strip_pair d' ->
  Forall (fun kv => typed_ok (fst kv) /\ typed_ok (snd kv)) d ->
  Forall (fun kv => typed_ok (fst kv) /\ typed_ok (snd kv)) d' -> Forall2 same_pair d d'.
Proof.
  induction d as [|[k x] r IH]; intros [|[k' x'] r'] E Hd Hd'; cbn [map] in E; try discriminate;
    [constructor|].
  unfold strip_pair at 1 3 in E. cbn [fst snd] in E. inversion E as [[E1 E2 E3]].
  inversion Hd as [|? ? [A1 A2] A3]; subst. inversion Hd' as [|? ? [B1 B2] B3]; subst.
  cbn [fst snd] in *.
  constructor; [|apply IH; assumption].
  split; cbn [fst snd]; (split; [assumption|split; assumption]).
Qed.

Theorem v_as_dict_same v w : same v w -> sum_rel (Forall2 same_pair) (v_as_dict v) (v_as_dict w).
Proof.
  intros H. pose proof (same_strip_eq _ _ H) as E. destruct H as (_ & Hv & Hw).
  pose proof (v_as_dict_strip v (proj2 Hv)) as Ev. pose proof (v_as_dict_strip w (proj2 Hw)) as Ew.
  rewrite E in Ev. rewrite Ev in Ew.
  pose proof (v_as_dict_typed_ok v) as Tv. pose proof (v_as_dict_typed_ok w) as Tw.
  destruct (v_as_dict v) as [m|d], (v_as_dict w) as [m'|d']; cbn [sum_map sum_rel] in *;
    try discriminate.
  - congruence.
  - inversion Ew as [Em]. apply map_strip_pair_same; [exact Em|apply Tv|apply Tw]; auto.
Qed.
Print Assumptions v_as_dict_same.

(* lookups in related dictionaries with related keys *)
Lemma dict_get_same d d' k k' :
  Forall2 same_pair d d' -> same k k' -> opt_rel same (dict_get d k) (dict_get d' k').
Proof.
  intros Hd Hk. induction Hd as [|[a x] [a' x'] r r' [Ha Hx] Hr IH]; cbn [dict_get]; [exact I|].
  cbn [fst snd] in Ha, Hx. rewrite (v_eqb_same _ _ _ _ Ha Hk).
  destruct (v_eqb a' k'); [exact Hx|exact IH].
Qed.

Lemma same_pair_lengths d d' : Forall2 same_pair d d' -> length d = length d'.
Proof. induction 1; cbn [length]; congruence. Qed.

Lemma same_pair_keys d d' : Forall2 same_pair d d' -> map as_str (map fst d) = map as_str (map fst d').
Proof. induction 1 as [|p q r r' [[H _] _] Hr IH]; cbn [map]; [reflexivity|]. rewrite H, IH. reflexivity. Qed.

Lemma same_pair_vals d d' : Forall2 same_pair d d' -> map as_str (map snd d) = map as_str (map snd d').
Proof. induction 1 as [|p q r r' [_ [H _]] Hr IH]; cbn [map]; [reflexivity|]. rewrite H, IH. reflexivity. Qed.

Lemma same_strs l l' : Forall2 same l l' -> map as_str l = map as_str l'.
Proof. induction 1 as [|p q r r' [H _] Hr IH]; cbn [map]; [reflexivity|]. rewrite H, IH. reflexivity. Qed.

Lemma same_length l l' : Forall2 same l l' -> length l = length l'.
Proof. induction 1; cbn [length]; congruence. Qed.

(* ====================================================================================== *)
(* 3. The shape of a printed integer                                                       *)
(* ====================================================================================== *)

Definition digit_str (ds : str) : Prop := ds <> [] /\ forallb is_digit10 ds = true.

Lemma show_Z_shape z :
  (exists ds, show_Z z = ds /\ digit_str ds) \/ (exists ds, show_Z z = c_minus :: ds /\ digit_str ds).
Proof.
  destruct z as [|p|p]; cbn [show_Z].
  - left. exists [48]. split; [reflexivity|]. split; [discriminate|reflexivity].
  - left. exists (show_N (Npos p)). destruct (show_N_spec (Npos p)) as (H1 & H2 & _).
    split; [reflexivity|split; assumption].
  - right. exists (show_N (Npos p)). destruct (show_N_spec (Npos p)) as (H1 & H2 & _).
    split; [reflexivity|split; assumption].
Qed.

Lemma take_while_all p s : forallb p s = true -> take_while p s = s.
Proof.
  induction s as [|c r IH]; [reflexivity|]. cbn [forallb take_while]. intros H.
  apply andb_true_iff in H. destruct H as [H1 H2]. rewrite H1, (IH H2). reflexivity.
Qed.

Lemma skip_while_all p s : forallb p s = true -> skip_while p s = [].
Proof.
  induction s as [|c r IH]; [reflexivity|]. cbn [forallb skip_while]. intros H.
  apply andb_true_iff in H. destruct H as [H1 H2]. rewrite H1. exact (IH H2).
Qed.

Lemma digit_str_cons ds : digit_str ds ->
  exists c r, ds = c :: r /\ is_digit10 c = true /\ forallb is_digit10 r = true.
Proof.
  intros [Hne Hd]. destruct ds as [|c r]; [congruence|]. exists c, r.
  cbn [forallb] in Hd. apply andb_true_iff in Hd. tauto.
Qed.

Lemma digit_not_ws c : is_digit10 c = true -> is_whitespace c = false.
Proof. unfold is_digit10, is_whitespace. lia. Qed.

Lemma skip_ws_digit_str ds : digit_str ds -> skip_while is_whitespace ds = ds.
Proof.
  intros H. destruct (digit_str_cons ds H) as (c & r & -> & Hc & _).
  cbn [skip_while]. rewrite (digit_not_ws c Hc). reflexivity.
Qed.

Lemma skip_ws_minus ds : skip_while is_whitespace (c_minus :: ds) = c_minus :: ds.
Proof. reflexivity. Qed.

Lemma looks_like_int_digits ds : digit_str ds -> expr_looks_like_int ds = true.
Proof.
  intros H. unfold expr_looks_like_int. rewrite (skip_ws_digit_str ds H).
  destruct (digit_str_cons ds H) as (c & r & -> & Hc & Hr).
  assert (H1 : (c =? c_plus) = false) by (unfold is_digit10, c_plus in *; lia).
  assert (H2 : (c =? c_minus) = false) by (unfold is_digit10, c_minus in *; lia).
  rewrite H1, H2. cbn [orb]. rewrite Hc. rewrite (skip_while_all _ _ Hr). reflexivity.
Qed.

Lemma looks_like_int_minus ds : digit_str ds -> expr_looks_like_int (c_minus :: ds) = true.
Proof.
  intros H. unfold expr_looks_like_int. rewrite skip_ws_minus.
  change (c_minus =? c_plus) with false. change (c_minus =? c_minus) with true. cbn [orb].
  destruct (digit_str_cons ds H) as (c & r & -> & Hc & Hr).
  rewrite Hc. rewrite (skip_while_all _ _ Hr). reflexivity.
Qed.

(* the part of read_int after the sign *)
Definition read_int_body (sign s1 : str) : option (str * str) :=
  let '(pre, s2, radix16, missing0) :=
    match s1 with
    | c :: r =>
        if N.eqb c 48%N then
          match r with
          | x :: r' => if N.eqb x 120%N then ([c; x], r', true, true) else ([c], r, false, false)
          | [] => ([c], r, false, false)
          end
        else ([], s1, false, true)
    | [] => ([], s1, false, true)
    end in
  let isd := if radix16 then is_digit16 else is_digit10 in
  let ds := take_while isd s2 in
  let rest := skip_while isd s2 in
  let missing := match ds with [] => missing0 | _ => false end in
  let tok := sign ++ pre ++ ds in
  match tok with
  | [] => None
  | _ => if missing then None else Some (tok, rest)
  end.

Lemma read_int_body_digits sign ds : digit_str ds -> read_int_body sign ds = Some (sign ++ ds, []).
Proof.
  intros H. destruct (digit_str_cons ds H) as (c & r & -> & Hc & Hr). unfold read_int_body.
  destruct (c =? 48) eqn:E0.
  - apply N.eqb_eq in E0. subst c. destruct r as [|x r'].
    + cbn [take_while skip_while app]. destruct sign; reflexivity.
    + assert (Hx : (x =? 120) = false).
      { cbn [forallb] in Hr. apply andb_true_iff in Hr. destruct Hr as [Hx _].
        unfold is_digit10 in Hx. lia. }
      rewrite Hx. rewrite (take_while_all _ _ Hr), (skip_while_all _ _ Hr).
      cbn [app]. destruct sign; reflexivity.
  - assert (Hall : forallb is_digit10 (c :: r) = true) by (cbn [forallb]; rewrite Hc, Hr; reflexivity).
    rewrite (take_while_all _ _ Hall), (skip_while_all _ _ Hall). cbn [app].
    destruct sign; reflexivity.
Qed.

Lemma read_int_digits ds : digit_str ds -> read_int ds = Some (ds, []).
Proof.
  intros H. transitivity (read_int_body [] ds); [|apply (read_int_body_digits [] ds H)].
  destruct (digit_str_cons ds H) as (c & r & -> & Hc & Hr). unfold read_int.
  assert (H1 : (c =? c_plus) = false) by (unfold is_digit10, c_plus in *; lia).
  assert (H2 : (c =? c_minus) = false) by (unfold is_digit10, c_minus in *; lia).
  rewrite H1, H2. reflexivity.
Qed.

Lemma read_int_minus ds : digit_str ds -> read_int (c_minus :: ds) = Some (c_minus :: ds, []).
Proof.
  intros H. transitivity (read_int_body [c_minus] ds); [reflexivity|].
  apply (read_int_body_digits [c_minus] ds H).
Qed.

(* ====================================================================================== *)
(* 4. Expressions: the numeric reading of a value                                          *)
(* ====================================================================================== *)

Lemma expr_parse_string_int s z :
  s <> [] -> expr_looks_like_int s = true -> skip_while is_whitespace s = s ->
  read_int s = Some (s, []) -> get_int s = Some z -> expr_parse_string s = Ok (DInt z).
Proof.
  intros Hne H1 H2 H3 H4. unfold expr_parse_string. destruct s as [|c r]; [congruence|].
  rewrite H1, H2, H3. cbn [skip_while]. rewrite H4. reflexivity.
Qed.

(* THE cache-consistency fact: the string of an i64 re-reads as that integer, including
   negative numbers and i64::MIN *)
Theorem expr_parse_string_show_Z z : in_i64 z = true -> expr_parse_string (show_Z z) = Ok (DInt z).
Proof.
  intros Hz. pose proof (int_roundtrip z Hz) as Hg.
  destruct (show_Z_shape z) as [(ds & E & Hd)|(ds & E & Hd)]; rewrite E in *.
  - apply expr_parse_string_int; auto.
    + destruct Hd; assumption.
    + apply looks_like_int_digits; exact Hd.
    + apply skip_ws_digit_str; exact Hd.
    + apply read_int_digits; exact Hd.
  - apply expr_parse_string_int; auto.
    + discriminate.
    + apply looks_like_int_minus; exact Hd.
    + apply read_int_minus; exact Hd.
Qed.
Print Assumptions expr_parse_string_show_Z.

Theorem expr_parse_value_int z :
  in_i64 z = true -> expr_parse_value (strip (VInt z)) = expr_parse_value (VInt z).
Proof. intros Hz. apply (expr_parse_string_show_Z z Hz). Qed.

Theorem expr_parse_value_bool b : expr_parse_value (strip (VBool b)) = expr_parse_value (VBool b).
Proof. reflexivity. Qed.

(* out of range the typed integer is accepted and its string is not *)
Example expr_parse_value_int_range :
  expr_parse_value (VInt (i64_max + 1)) = Ok (DInt (i64_max + 1)) /\
  expr_parse_value (strip (VInt (i64_max + 1))) = err (err_expected_int (show_Z (i64_max + 1))).
Proof. split; vm_compute; reflexivity. Qed.

(* only the TOP of the value is inspected by expr_parse_value, so float-freedom and the range
   condition are used at the top only *)
Theorem expr_parse_value_strip v :
  float_free v = true -> ints_ok v = true -> expr_parse_value (strip v) = expr_parse_value v.
Proof.
  intros Hf Hi. destruct v as [s|z|f|b|l|d]; try reflexivity.
  - apply expr_parse_value_int. exact Hi.
  - discriminate.
Qed.
Print Assumptions expr_parse_value_strip.

Corollary expr_parse_value_good v : good v -> expr_parse_value (strip v) = expr_parse_value v.
Proof. intros (Hf & Hi & _). apply expr_parse_value_strip; assumption. Qed.

(* two float-free well-formed values with the same string read as the same number *)
Corollary expr_parse_value_same v w :
  float_free v = true -> float_free w = true -> same v w -> expr_parse_value v = expr_parse_value w.
Proof.
  intros Fv Fw H. pose proof (same_strip_eq _ _ H) as E. destruct H as (_ & [Hv _] & [Hw _]).
  rewrite <- (expr_parse_value_strip v Fv Hv), <- (expr_parse_value_strip w Fw Hw), E. reflexivity.
Qed.

(* ====================================================================================== *)
(* 5. Floats: the representation IS observable                                             *)
(* ====================================================================================== *)

Definition f_five : fl := 4617315517961601024%Z.          (* 5.0 *)
Definition f_two_and_half : fl := 4612811918334230528%Z.  (* 2.5 *)

Example fmt_float_five : fmt_float f_five = lit "5".
Proof. vm_compute. reflexivity. Qed.

(* the typed value is the float 5.0; its string "5" re-reads as the INTEGER 5
   (Molt: "does not yet do precise float-to-string-to-float conversions") *)
Example float_five_typed : expr_parse_value (VFlt f_five) = Ok (DFlt f_five).
Proof. reflexivity. Qed.
Example float_five_string : expr_parse_value (strip (VFlt f_five)) = Ok (DInt 5).
Proof. vm_compute. reflexivity. Qed.

Theorem float_rep_observable :
  exists f, expr_parse_value (VFlt f) <> expr_parse_value (strip (VFlt f)).
Proof. exists f_five. rewrite float_five_string. cbn [expr_parse_value already_number]. discriminate. Qed.
Print Assumptions float_rep_observable.

(* hence the general statement without float-freedom is false *)
Corollary expr_parse_value_strip_needs_float_free :
  ~ (forall v, ints_ok v = true -> dicts_ok v = true -> expr_parse_value (strip v) = expr_parse_value v).
Proof.
  intros H. specialize (H (VFlt f_five) eq_refl eq_refl). rewrite float_five_string in H.
  cbn [expr_parse_value already_number] in H. discriminate.
Qed.

(* and it is visible in results: 5.0/2 is 2.5 on the typed value, 5/2 is 2 on its string *)
Definition halve (r : res datum) : res datum :=
  match r with Ok d => apply_binop T_DIVIDE d (DInt 2) | other => other end.
Example float_rep_observable_division :
  halve (expr_parse_value (VFlt f_five)) = Ok (DFlt f_two_and_half) /\
  halve (expr_parse_value (strip (VFlt f_five))) = Ok (DInt 2).
Proof. split; vm_compute; reflexivity. Qed.

(* a harmless float: 2.5 prints with a '.', and the string re-reads as the same float *)
Example float_two_and_half_ok :
  fmt_float f_two_and_half = lit "2.5" /\
  expr_parse_value (strip (VFlt f_two_and_half)) = expr_parse_value (VFlt f_two_and_half).
Proof. split; vm_compute; reflexivity. Qed.

(* the boolean reading of a float is representation dependent as well *)
Example float_bool_observable :
  v_as_bool (VFlt f_five) = inr true /\
  v_as_bool (strip (VFlt f_five)) = inl (err_expected_bool (lit "5")).
Proof. split; vm_compute; reflexivity. Qed.

(* ====================================================================================== *)
(* 6. The boolean view                                                                     *)
(* ====================================================================================== *)

Theorem v_as_bool_strip v :
  (forall z, v <> VInt z) -> (forall f, v <> VFlt f) -> v_as_bool (strip v) = v_as_bool v.
Proof. intros Hi Hf. symmetry. apply bool_view_of_string; assumption. Qed.

(* the documented shortcut: a typed integer used as a boolean is [<> 0] ... *)
Theorem v_as_bool_int z : v_as_bool (VInt z) = inr (negb (z =? 0)%Z).
Proof. reflexivity. Qed.

(* ... whereas its string is a boolean only when it is "0" or "1" *)
Lemma ascii_lower_digits s :
  forallb (fun c => is_digit10 c || (c =? c_minus)) s = true -> map ascii_lower s = s.
Proof.
  induction s as [|c r IH]; [reflexivity|]. cbn [forallb map]. intros H.
  apply andb_true_iff in H. destruct H as [H1 H2]. rewrite (IH H2).
  assert (E : ascii_lower c = c).
  { unfold ascii_lower. unfold is_digit10, c_minus in H1.
    destruct ((65 <=? c) && (c <=? 90)) eqn:E; [lia|reflexivity]. }
  rewrite E. reflexivity.
Qed.

Lemma show_Z_chars z :
  forallb (fun c => is_digit10 c || (c =? c_minus)) (show_Z z) = true /\
  forallb not_white (show_Z z) = true /\
  exists c r, show_Z z = c :: r /\ (is_digit10 c = true \/ c = c_minus).
Proof.
  assert (A : forall ds, forallb is_digit10 ds = true ->
              forallb (fun c => is_digit10 c || (c =? c_minus)) ds = true).
  { intros ds H. rewrite forallb_forall in *. intros x Hx. rewrite (H x Hx). reflexivity. }
  destruct (show_Z_shape z) as [(ds & E & Hd)|(ds & E & Hd)]; rewrite E;
    destruct (digit_str_cons ds Hd) as (c & r & Eds & Hc & Hr); destruct Hd as [_ Hd].
  - split; [apply A; exact Hd|]. split; [apply digits_not_white; exact Hd|].
    exists c, r. split; [exact Eds|left; exact Hc].
  - split; [cbn [forallb]; rewrite (A ds Hd); reflexivity|].
    split; [cbn [forallb]; rewrite (digits_not_white ds Hd); reflexivity|].
    exists c_minus, ds. split; [reflexivity|right; reflexivity].
Qed.

Lemma show_Z_is_1 z : str_eqb (show_Z z) [49] = (z =? 1)%Z.
Proof.
  destruct (str_eqb_spec (show_Z z) [49]) as [E|E].
  - destruct z as [|p|p]; cbn [show_Z] in E.
    + discriminate.
    + destruct (show_N_spec (Npos p)) as (_ & _ & H). rewrite E in H. vm_compute in H.
      inversion H. reflexivity.
    + discriminate.
  - destruct (Z.eqb_spec z 1) as [->|]; [|reflexivity]. exfalso. apply E. reflexivity.
Qed.

Lemma show_Z_is_0 z : str_eqb (show_Z z) [48] = (z =? 0)%Z.
Proof.
  destruct (str_eqb_spec (show_Z z) [48]) as [E|E].
  - destruct z as [|p|p]; cbn [show_Z] in E.
    + reflexivity.
    + destruct (show_N_spec (Npos p)) as (_ & _ & H). rewrite E in H. vm_compute in H. discriminate.
    + discriminate.
  - destruct (Z.eqb_spec z 0) as [->|]; [|reflexivity]. exfalso. apply E. reflexivity.
Qed.

Lemma str_eqb_head_ne c r d w : (c =? d) = false -> str_eqb (c :: r) (d :: w) = false.
Proof. intros H. cbn [str_eqb]. rewrite H. reflexivity. Qed.

Lemma get_bool_show_Z z :
  get_bool (show_Z z) = if (z =? 1)%Z then Some true else if (z =? 0)%Z then Some false else None.
Proof.
  destruct (show_Z_chars z) as (H1 & H2 & c & r & E & Hc).
  unfold get_bool. rewrite (trim_no_white _ H2), (ascii_lower_digits _ H1).
  change (lit "1") with [49]. change (lit "0") with [48].
  rewrite show_Z_is_1, show_Z_is_0. rewrite E.
  change (lit "true") with [116; 114; 117; 101]. change (lit "yes") with [121; 101; 115].
  change (lit "on") with [111; 110]. change (lit "false") with [102; 97; 108; 115; 101].
  change (lit "no") with [110; 111]. change (lit "off") with [111; 102; 102].
  rewrite !str_eqb_head_ne by (unfold is_digit10, c_minus in Hc; lia).
  rewrite !orb_false_r. reflexivity.
Qed.

Theorem v_as_bool_strip_int z b :
  v_as_bool (strip (VInt z)) = inr b -> (z = 0 \/ z = 1)%Z /\ b = negb (z =? 0)%Z.
Proof.
  unfold strip. cbn [v_as_bool as_str]. rewrite get_bool_show_Z.
  destruct (Z.eqb_spec z 1) as [->|H1].
  - intros H. inversion H. split; [right; reflexivity|reflexivity].
  - destruct (Z.eqb_spec z 0) as [->|H0]; intros H; inversion H.
    split; [left; reflexivity|reflexivity].
Qed.
Print Assumptions v_as_bool_strip_int.

(* whenever both views succeed they agree, and the typed one succeeds at least as often *)
Corollary v_as_bool_int_agree z b :
  v_as_bool (strip (VInt z)) = inr b -> v_as_bool (VInt z) = inr b.
Proof. intros H. apply v_as_bool_strip_int in H. destruct H as [_ ->]. reflexivity. Qed.

Example v_as_bool_int_more :
  v_as_bool (VInt 2) = inr true /\ v_as_bool (strip (VInt 2)) = inl (err_expected_bool (lit "2")).
Proof. split; vm_compute; reflexivity. Qed.

(* for 0 and 1 (the only integers whose string is a boolean) the two views coincide *)
Corollary v_as_bool_strip_01 z : (z = 0 \/ z = 1)%Z -> v_as_bool (strip (VInt z)) = v_as_bool (VInt z).
Proof. intros [->| ->]; reflexivity. Qed.

(* In the interpreter the shortcut is reached only through [expr_bool], i.e. on the freshly
   computed result of an expression (Commands.expr_bool: r_expr, then v_as_bool): the value
   inspected there is never a value a script has stored or passed around. *)

(* ====================================================================================== *)
(* 7. Commands                                                                             *)
(* ====================================================================================== *)

(* Two argument vectors are related when they have the same strings element by element (and
   are well formed); [map strip argv] is the instance asked for by C13. *)

Definition m_rel (R : value -> value -> Prop) (m m' : M value) : Prop :=
  fst m = fst m' /\ res_rel R (snd m) (snd m').

Lemma res_rel_weaken {A} (R R' : A -> A -> Prop) r r' :
  (forall a b, R a b -> R' a b) -> res_rel R r r' -> res_rel R' r r'.
Proof. intros H. destruct r, r'; cbn [res_rel]; auto. Qed.

Lemma same_str_same a b : same a b -> str_same a b.
Proof. intros [H _]. exact H. Qed.

Lemma m_rel_out_str m m' : m_rel str_same m m' -> out_str m = out_str m'.
Proof.
  intros [_ H]. unfold out_str. destruct (snd m), (snd m'); cbn [res_rel] in H; try contradiction;
    try reflexivity.
  - unfold str_same in H. rewrite H. reflexivity.
  - subst. reflexivity.
Qed.

Lemma m_rel_same_out_str m m' : m_rel same m m' -> out_str m = out_str m'.
Proof.
  intros [H1 H2]. apply m_rel_out_str. split; [exact H1|].
  eapply res_rel_weaken; [|exact H2]. exact same_str_same.
Qed.

Lemma m_rel_eq (R : value -> value -> Prop) (m : M value) :
  (forall v, snd m = Ok v -> R v v) -> m_rel R m m.
Proof.
  intros H. split; [reflexivity|]. destruct (snd m) eqn:E; cbn [res_rel]; auto.
Qed.

Lemma eq_out_str (m m' : M value) : m = m' -> out_str m = out_str m'.
Proof. intros ->. reflexivity. Qed.

Section ArgVectors.
Variables argv argv' : list value.
Hypothesis Hargs : Forall2 same argv argv'.

Lemma arg_same n : same (arg argv n) (arg argv' n).
Proof.
  unfold arg. revert n. induction Hargs as [|x y r r' Hx Hr IH]; intros n.
  - destruct n; apply same_refl, typed_ok_empty.
  - destruct n as [|n]; cbn [nth]; [exact Hx|apply IH; exact Hr].
Qed.

Lemma arg_str n : as_str (arg argv' n) = as_str (arg argv n).
Proof. symmetry. apply (arg_same n). Qed.

Lemma arg_int n : v_as_int (arg argv' n) = v_as_int (arg argv n).
Proof. symmetry. apply v_as_int_same, arg_same. Qed.

Lemma argv_length : length argv' = length argv.
Proof. symmetry. apply same_length. exact Hargs. Qed.

Lemma argv_strs : map as_str argv' = map as_str argv.
Proof. symmetry. apply same_strs. exact Hargs. Qed.

Lemma argv_skipn n : Forall2 same (skipn n argv) (skipn n argv').
Proof.
  revert n. induction Hargs as [|x y r r' Hx Hr IH]; intros n.
  - destruct n; constructor.
  - destruct n as [|n]; cbn [skipn]; [constructor; assumption|apply IH; exact Hr].
Qed.

Lemma argv_firstn n : Forall2 same (firstn n argv) (firstn n argv').
Proof.
  revert n. induction Hargs as [|x y r r' Hx Hr IH]; intros n.
  - destruct n; constructor.
  - destruct n as [|n]; cbn [firstn]; constructor; [assumption|apply IH; exact Hr].
Qed.

Lemma check_args_raw_same namec minv maxv sig :
  check_args_raw namec minv maxv sig argv' = check_args_raw namec minv maxv sig argv.
Proof.
  unfold check_args_raw, wrong_args_msg. rewrite argv_length.
  rewrite (same_strs _ _ (argv_firstn namec)). reflexivity.
Qed.

Lemma check_args_same name : check_args name argv' = check_args name argv.
Proof.
  unfold check_args. destruct (args_spec name) as [[[[a b] c] sig]|]; [|reflexivity].
  apply check_args_raw_same.
Qed.

Lemma check_subcommand_same : check_subcommand argv' = check_subcommand argv.
Proof. apply check_args_raw_same. Qed.

Lemma is_sub_same name : is_sub argv' name = is_sub argv name.
Proof. unfold is_sub. rewrite arg_str. reflexivity. Qed.

Lemma last_same : same (last argv v_empty) (last argv' v_empty).
Proof.
  induction Hargs as [|x y r r' Hx Hr IH]; [apply same_refl, typed_ok_empty|].
  cbn [last]. destruct Hr as [|x2 y2 r2 r2' Hx2 Hr2]; [exact Hx|]. apply IH. constructor; assumption.
Qed.

End ArgVectors.

Lemma nth_same l l' n : Forall2 same l l' -> same (nth n l v_empty) (nth n l' v_empty).
Proof. intros H. apply (arg_same l l' H n). Qed.

(* variables are addressed by the STRING of the name *)
Lemma st_var_same st a a' : same a a' -> st_var st a' = st_var st a.
Proof. intros [H _]. unfold st_var, as_var_name. rewrite H. reflexivity. Qed.

Lemma st_set_var_same st a a' v : same a a' -> st_set_var st a' v = st_set_var st a v.
Proof. intros [H _]. unfold st_set_var, as_var_name. rewrite H. reflexivity. Qed.

Lemma st_set_var_return_same st a a' v :
  same a a' -> st_set_var_return st a' v = st_set_var_return st a v.
Proof. intros H. unfold st_set_var_return. rewrite (st_set_var_same st a a' v H). reflexivity. Qed.

(* ---------- llength ---------- *)
Theorem cmd_llength_same st argv argv' :
  Forall2 same argv argv' -> cmd_llength st argv' = cmd_llength st argv.
Proof.
  intros H. unfold cmd_llength. rewrite (check_args_same _ _ H).
  destruct (check_args "cmd_llength" argv) as [[]|e|p|]; cbn [lift bind]; try reflexivity.
  pose proof (v_as_list_same _ _ (arg_same _ _ H 1)) as L.
  destruct (v_as_list (arg argv 1)) as [m|l], (v_as_list (arg argv' 1)) as [m'|l'];
    cbn [sum_rel] in L; try contradiction.
  - subst. reflexivity.
  - cbn [lift_sum of_sum bind ret]. rewrite (same_length _ _ L). reflexivity.
Qed.
Print Assumptions cmd_llength_same.

(* ---------- join ---------- *)
Theorem cmd_join_same st argv argv' :
  Forall2 same argv argv' -> cmd_join st argv' = cmd_join st argv.
Proof.
  intros H. unfold cmd_join. rewrite (check_args_same _ _ H).
  destruct (check_args "cmd_join" argv) as [[]|e|p|]; cbn [lift bind]; try reflexivity.
  pose proof (v_as_list_same _ _ (arg_same _ _ H 1)) as L.
  destruct (v_as_list (arg argv 1)) as [m|l], (v_as_list (arg argv' 1)) as [m'|l'];
    cbn [sum_rel] in L; try contradiction.
  - subst. reflexivity.
  - cbn [lift_sum of_sum bind ret]. rewrite (same_strs _ _ L), (argv_length _ _ H), (arg_str _ _ H).
    reflexivity.
Qed.
Print Assumptions cmd_join_same.

(* ---------- lindex ---------- *)
Theorem lindex_into_same idx idx' : Forall2 same idx idx' -> forall v w, same v w ->
  res_rel same (lindex_into v idx) (lindex_into w idx').
Proof.
  induction 1 as [|i i' r r' Hi Hr IH]; intros v w Hv; cbn [lindex_into]; [exact Hv|].
  pose proof (v_as_list_same _ _ Hv) as L.
  destruct (v_as_list v) as [m|l], (v_as_list w) as [m'|l']; cbn [sum_rel] in L; try contradiction.
  - subst. reflexivity.
  - rewrite <- (v_as_int_same _ _ Hi). destruct (v_as_int i) as [m|z]; [reflexivity|].
    rewrite <- (same_length _ _ L).
    destruct ((z <? 0)%Z || (Z.of_nat (length l) <=? z)%Z).
    + apply IH. apply same_refl, typed_ok_empty.
    + apply IH. apply nth_same. exact L.
Qed.

Theorem cmd_lindex_same st argv argv' :
  Forall2 same argv argv' -> m_rel same (cmd_lindex st argv) (cmd_lindex st argv').
Proof.
  intros H. unfold cmd_lindex. rewrite (check_args_same _ _ H).
  destruct (check_args "cmd_lindex" argv) as [[]|e|p|]; cbn [lift bind];
    try (split; reflexivity).
  rewrite (argv_length _ _ H). destruct (negb (Nat.eqb (length argv) 3)).
  - split; [reflexivity|]. cbn [lift snd].
    apply lindex_into_same; [apply argv_skipn; exact H|apply arg_same; exact H].
  - pose proof (v_as_list_same _ _ (arg_same _ _ H 2)) as L.
    destruct (v_as_list (arg argv 2)) as [m|l], (v_as_list (arg argv' 2)) as [m'|l'];
      cbn [sum_rel] in L; try contradiction.
    + subst. split; reflexivity.
    + cbn [lift_sum of_sum bind lift]. split; [reflexivity|]. cbn [snd].
      apply lindex_into_same; [exact L|apply arg_same; exact H].
Qed.
Print Assumptions cmd_lindex_same.

(* ---------- incr: operands, the variable name, the stored result, the state ---------- *)
Theorem cmd_incr_same st argv argv' :
  Forall2 same argv argv' -> cmd_incr st argv' = cmd_incr st argv.
Proof.
  intros H. unfold cmd_incr. rewrite (check_args_same _ _ H), (argv_length _ _ H), (arg_int _ _ H).
  destruct (check_args "cmd_incr" argv) as [[]|e|p|]; cbn [lift bind]; try reflexivity.
  destruct (if Nat.eqb (length argv) 3 then lift_sum st (v_as_int (arg argv 2)) else ret st 1%Z)
    as [st1 [incr|e|p|]]; cbn [bind]; try reflexivity.
  rewrite (st_var_same st1 _ _ (arg_same _ _ H 1)).
  destruct (match st_var st1 (arg argv 1) with Ok v => lift_sum st1 (v_as_int v) | _ => ret st1 0%Z end)
    as [st2 [old|e|p|]]; cbn [bind]; try reflexivity.
  rewrite (st_set_var_return_same st2 _ _ _ (arg_same _ _ H 1)). reflexivity.
Qed.
Print Assumptions cmd_incr_same.

(* ---------- string: every subcommand ---------- *)
Lemma compare_options_same sub : forall n l l', (length l <= n)%nat -> Forall2 same l l' ->
  forall o, compare_options sub l' o = compare_options sub l o.
Proof.
  induction n as [|n IH]; intros l l' Hn H o.
  - destruct H; [reflexivity|cbn [length] in Hn; lia].
  - destruct H as [|k k' r r' Hk Hr]; [reflexivity|]. cbn [length] in Hn.
    cbn [compare_options]. destruct Hk as [<- _].
    destruct (str_eqb (as_str k) (lit "-nocase")); [apply IH; [lia|exact Hr]|].
    destruct (str_eqb (as_str k) (lit "-length")); [|reflexivity].
    destruct Hr as [|v v' r2 r2' Hv Hr2]; [reflexivity|].
    rewrite <- (v_as_int_same _ _ Hv). destruct (v_as_int v) as [m|z]; [reflexivity|].
    apply IH; [cbn [length] in Hn; lia|exact Hr2].
Qed.

Lemma same_pair_map_strs (f : str -> str) d d' : Forall2 same_pair d d' ->
  map (fun kv => (f (as_str (fst kv)), as_str (snd kv))) d' =
  map (fun kv => (f (as_str (fst kv)), as_str (snd kv))) d.
Proof.
  induction 1 as [|p q r r' [[H1 _] [H2 _]] Hr IH]; cbn [map]; [reflexivity|].
  rewrite H1, H2, IH. reflexivity.
Qed.

Section StringCmd.
Variable U : uni.

Lemma string_compare_same sub st argv argv' :
  Forall2 same argv argv' -> string_compare U sub st argv' = string_compare U sub st argv.
Proof.
  intros H. unfold string_compare. rewrite (argv_length _ _ H), !(arg_str _ _ H).
  rewrite (compare_options_same sub _ _ _ (le_n _)
             (argv_firstn _ _ (argv_skipn _ _ H 2) (length argv - 4))).
  reflexivity.
Qed.

Theorem cmd_string_same st argv argv' :
  Forall2 same argv argv' -> cmd_string U st argv' = cmd_string U st argv.
Proof.
  intros H. unfold cmd_string, string_compare.
  rewrite (check_subcommand_same _ _ H), !(is_sub_same _ _ H), !(check_args_same _ _ H),
    !(argv_length _ _ H), !(arg_str _ _ H), !(arg_int _ _ H),
    (same_strs _ _ (argv_skipn _ _ H 2)).
  rewrite !(fun sub => compare_options_same sub _ _ _ (le_n _)
             (argv_firstn _ _ (argv_skipn _ _ H 2) (length argv - 4))).
  destruct (check_subcommand argv) as [[]|e|p|]; cbn [lift bind]; try reflexivity.
  repeat match goal with
         | |- (if ?b then _ else _) = _ => destruct b; [try reflexivity|]
         end; try reflexivity.
  (* string map: the dictionary argument *)
  destruct (check_args "cmd_string_map" argv) as [[]|e|p|]; cbn [lift bind]; try reflexivity.
  match goal with
  | |- bind ?m _ = _ => destruct m as [st1 [nocase|e|p|]]; cbn [bind]; try reflexivity
  end.
  pose proof (v_as_dict_same _ _ (arg_same _ _ H (length argv - 2))) as D.
  destruct (v_as_dict (arg argv (length argv - 2))) as [m|d],
           (v_as_dict (arg argv' (length argv - 2))) as [m'|d']; cbn [sum_rel] in D; try contradiction.
  - subst. reflexivity.
  - cbn [lift_sum of_sum bind ret]. destruct nocase.
    + rewrite (same_pair_map_strs (u_lower U) d d' D). reflexivity.
    + pose proof (same_pair_map_strs (fun x => x) d d' D) as E. cbn beta in E. rewrite E. reflexivity.
Qed.

End StringCmd.
Print Assumptions cmd_string_same.

(* ---------- dict: the subcommands that only read their arguments ---------- *)
Lemma dict_path_exists_same ks ks' : Forall2 same ks ks' -> forall v w, same v w ->
  dict_path_exists w ks' = dict_path_exists v ks.
Proof.
  induction 1 as [|k k' r r' Hk Hr IH]; intros v w Hv; cbn [dict_path_exists]; [reflexivity|].
  pose proof (v_as_dict_same _ _ Hv) as D.
  destruct (v_as_dict v) as [m|d], (v_as_dict w) as [m'|d']; cbn [sum_rel] in D; try contradiction;
    [reflexivity|].
  pose proof (dict_get_same d d' k k' D Hk) as G.
  destruct (dict_get d k) as [x|], (dict_get d' k') as [x'|]; cbn [opt_rel] in G; try contradiction;
    [|reflexivity].
  apply IH. exact G.
Qed.

Lemma dict_path_get_same ks ks' : Forall2 same ks ks' -> forall v w, same v w ->
  res_rel same (dict_path_get v ks) (dict_path_get w ks').
Proof.
  induction 1 as [|k k' r r' Hk Hr IH]; intros v w Hv; cbn [dict_path_get]; [exact Hv|].
  pose proof (v_as_dict_same _ _ Hv) as D.
  destruct (v_as_dict v) as [m|d], (v_as_dict w) as [m'|d']; cbn [sum_rel] in D; try contradiction.
  - subst. reflexivity.
  - pose proof (dict_get_same d d' k k' D Hk) as G.
    destruct (dict_get d k) as [x|], (dict_get d' k') as [x'|]; cbn [opt_rel] in G; try contradiction.
    + apply IH. exact G.
    + unfold key_not_known. destruct Hk as [-> _]. reflexivity.
Qed.

Definition dict_readonly (s : str) : Prop :=
  s = lit "exists" \/ s = lit "get" \/ s = lit "keys" \/ s = lit "size" \/ s = lit "values".

Ltac eval_str_eqb :=
  repeat match goal with
         | |- context [str_eqb (lit ?a) (lit ?b)] =>
             let r := eval vm_compute in (str_eqb (lit a) (lit b)) in
             change (str_eqb (lit a) (lit b)) with r
         end.

Theorem cmd_dict_same st argv argv' :
  Forall2 same argv argv' -> dict_readonly (as_str (arg argv 1)) ->
  m_rel str_same (cmd_dict st argv) (cmd_dict st argv').
Proof.
  intros H Hsub. unfold cmd_dict.
  rewrite (check_subcommand_same _ _ H), !(is_sub_same _ _ H), !(check_args_same _ _ H).
  destruct (check_subcommand argv) as [[]|e|p|]; cbn [lift bind]; try (split; reflexivity).
  unfold is_sub.
  pose proof (v_as_dict_same _ _ (arg_same _ _ H 2)) as D.
  destruct Hsub as [E|[E|[E|[E|E]]]]; rewrite E; eval_str_eqb; cbv beta iota;
    match goal with
    | |- context [check_args ?n argv] =>
        destruct (check_args n argv) as [[]|e|p|]; cbn [lift bind]; try (split; reflexivity)
    end.
  - (* exists *)
    change (m_rel str_same (st, Ok (VBool (dict_path_exists (arg argv 2) (skipn 3 argv))))
                           (st, Ok (VBool (dict_path_exists (arg argv' 2) (skipn 3 argv'))))).
    rewrite (dict_path_exists_same _ _ (argv_skipn _ _ H 3) _ _ (arg_same _ _ H 2)).
    split; reflexivity.
  - (* get *)
    change (m_rel str_same (st, dict_path_get (arg argv 2) (skipn 3 argv))
                           (st, dict_path_get (arg argv' 2) (skipn 3 argv'))).
    split; [reflexivity|]. cbn [snd]. eapply res_rel_weaken; [exact same_str_same|].
    apply dict_path_get_same; [apply argv_skipn; exact H|apply arg_same; exact H].
  - (* keys *)
    destruct (v_as_dict (arg argv 2)) as [m|d], (v_as_dict (arg argv' 2)) as [m'|d'];
      cbn [sum_rel] in D; try contradiction.
    + subst. split; reflexivity.
    + split; [reflexivity|].
      change (list_to_string (map as_str (map fst d)) = list_to_string (map as_str (map fst d'))).
      rewrite (same_pair_keys _ _ D). reflexivity.
  - (* size *)
    destruct (v_as_dict (arg argv 2)) as [m|d], (v_as_dict (arg argv' 2)) as [m'|d'];
      cbn [sum_rel] in D; try contradiction.
    + subst. split; reflexivity.
    + cbn [lift_sum of_sum bind ret]. rewrite (same_pair_lengths _ _ D). split; reflexivity.
  - (* values *)
    destruct (v_as_dict (arg argv 2)) as [m|d], (v_as_dict (arg argv' 2)) as [m'|d'];
      cbn [sum_rel] in D; try contradiction.
    + subst. split; reflexivity.
    + split; [reflexivity|].
      change (list_to_string (map as_str (map snd d)) = list_to_string (map as_str (map snd d'))).
      rewrite (same_pair_vals _ _ D). reflexivity.
Qed.
Print Assumptions cmd_dict_same.

(* ---------- two more one-liners: assert_eq (equality) and list (construction) ---------- *)
Theorem cmd_assert_eq_same st argv argv' :
  Forall2 same argv argv' -> cmd_assert_eq st argv' = cmd_assert_eq st argv.
Proof.
  intros H. unfold cmd_assert_eq.
  rewrite (check_args_same _ _ H), !(arg_str _ _ H),
    (v_eqb_same _ _ _ _ (arg_same _ _ H 1) (arg_same _ _ H 2)).
  reflexivity.
Qed.

Theorem cmd_list_same st argv argv' :
  Forall2 same argv argv' -> m_rel str_same (cmd_list st argv) (cmd_list st argv').
Proof.
  intros H. split; [reflexivity|].
  change (list_to_string (map as_str (skipn 1 argv)) = list_to_string (map as_str (skipn 1 argv'))).
  rewrite (same_strs _ _ (argv_skipn _ _ H 1)). reflexivity.
Qed.

(* ====================================================================================== *)
(* 8. C13 in the form asked for: replacing every argument by its stripped copy            *)
(* ====================================================================================== *)

Lemma good_args argv : Forall good argv -> Forall2 same argv (map strip argv).
Proof.
  intros H. apply Forall2_same_strip. eapply Forall_impl; [|exact H]. exact good_typed_ok.
Qed.

Section C13.
Variable U : uni.
Variable st : interp.
Variable argv : list value.
Hypothesis Hgood : Forall good argv.

Theorem C13_llength : out_str (cmd_llength st argv) = out_str (cmd_llength st (map strip argv)).
Proof. apply eq_out_str. symmetry. apply cmd_llength_same, good_args, Hgood. Qed.

Theorem C13_lindex : out_str (cmd_lindex st argv) = out_str (cmd_lindex st (map strip argv)).
Proof. apply m_rel_same_out_str, cmd_lindex_same, good_args, Hgood. Qed.

Theorem C13_join : out_str (cmd_join st argv) = out_str (cmd_join st (map strip argv)).
Proof. apply eq_out_str. symmetry. apply cmd_join_same, good_args, Hgood. Qed.

(* incr: also the interpreter state afterwards is the same *)
Theorem C13_incr : cmd_incr st (map strip argv) = cmd_incr st argv.
Proof. apply cmd_incr_same, good_args, Hgood. Qed.

(* string, all subcommands: the result VALUE and the state are identical *)
Theorem C13_string : cmd_string U st (map strip argv) = cmd_string U st argv.
Proof. apply cmd_string_same, good_args, Hgood. Qed.

Theorem C13_dict : dict_readonly (as_str (arg argv 1)) ->
  out_str (cmd_dict st argv) = out_str (cmd_dict st (map strip argv)).
Proof. intros Hs. apply m_rel_out_str, cmd_dict_same; [apply good_args, Hgood|exact Hs]. Qed.

Theorem C13_assert_eq : cmd_assert_eq st (map strip argv) = cmd_assert_eq st argv.
Proof. apply cmd_assert_eq_same, good_args, Hgood. Qed.

Theorem C13_list : out_str (cmd_list st argv) = out_str (cmd_list st (map strip argv)).
Proof. apply m_rel_out_str, cmd_list_same, good_args, Hgood. Qed.

End C13.
Print Assumptions C13_llength.
Print Assumptions C13_lindex.
Print Assumptions C13_join.
Print Assumptions C13_incr.
Print Assumptions C13_string.
Print Assumptions C13_dict.
Print Assumptions C13_assert_eq.
Print Assumptions C13_list.

(* the value interface in one statement *)
Theorem C13_value_interface v : good v ->
  as_str (strip v) = as_str v /\
  (forall w, v_eqb (strip v) w = v_eqb v w /\ v_eqb w (strip v) = v_eqb w v) /\
  v_as_int (strip v) = v_as_int v /\
  v_as_float (strip v) = v_as_float v /\
  v_as_list (strip v) = sum_map (map strip) (v_as_list v) /\
  v_as_dict (strip v) = sum_map (map strip_pair) (v_as_dict v) /\
  expr_parse_value (strip v) = expr_parse_value v /\
  ((forall z, v <> VInt z) -> v_as_bool (strip v) = v_as_bool v) /\
  (forall z b, v = VInt z -> v_as_bool (strip v) = inr b -> v_as_bool v = inr b).
Proof.
  intros (Hf & Hi & Hd).
  assert (Hnf : forall f, v <> VFlt f) by (intros f ->; discriminate).
  split; [reflexivity|]. split; [intros w; split; reflexivity|].
  split; [apply v_as_int_strip; exact Hi|].
  split; [apply v_as_float_strip; exact Hnf|].
  split; [apply v_as_list_strip|].
  split; [apply v_as_dict_strip; exact Hd|].
  split; [apply expr_parse_value_strip; assumption|].
  split; [intros Hz; apply v_as_bool_strip; assumption|].
  intros z b -> H. apply v_as_bool_int_agree. exact H.
Qed.
Print Assumptions C13_value_interface.

(* the hypotheses on typed data are needed: *)
Example ints_ok_needed :
  v_as_int (VInt (i64_max + 1)) = inr (i64_max + 1)%Z /\
  v_as_int (strip (VInt (i64_max + 1))) = inl (err_expected_int (show_Z (i64_max + 1))).
Proof. split; vm_compute; reflexivity. Qed.

Example dicts_ok_needed :
  let d := VDict [(VStr (lit "a"), VStr (lit "1")); (VStr (lit "a"), VStr (lit "2"))] in
  v_as_dict d = inr [(VStr (lit "a"), VStr (lit "1")); (VStr (lit "a"), VStr (lit "2"))] /\
  v_as_dict (strip d) = inr [(VStr (lit "a"), VStr (lit "2"))].
Proof. split; vm_compute; reflexivity. Qed.

(* ====================================================================================== *)
(* 9. Script and expression values                                                         *)
(* ====================================================================================== *)

(* [eval_value_with] parses [as_str v] each time it is called and [expr_eval] lexes
   [as_str e]: in the model a value used as a script or as an expression is used through its
   string ONLY, so the parse cache of value.rs (Value::as_script, the cached Script inside
   the value) is unobservable in the model BY CONSTRUCTION.  These statements are therefore
   immediate; that the real cache behaves like this model is what the correspondence runs
   check (they execute the same scripts through the real value.rs with its caches). *)
Theorem eval_value_with_strip U exec st v :
  eval_value_with U exec st (strip v) = eval_value_with U exec st v.
Proof. reflexivity. Qed.
Print Assumptions eval_value_with_strip.

Theorem eval_value_with_same U exec st v w :
  as_str v = as_str w -> eval_value_with U exec st v = eval_value_with U exec st w.
Proof. intros H. unfold eval_value_with. rewrite H. reflexivity. Qed.

Theorem expr_eval_strip an al exec st e :
  expr_eval an al exec st (strip e) = expr_eval an al exec st e.
Proof. reflexivity. Qed.

Theorem expr_with_strip U exec st e : expr_with U exec st (strip e) = expr_with U exec st e.
Proof. reflexivity. Qed.
Print Assumptions expr_with_strip.
