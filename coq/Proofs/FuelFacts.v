(* FuelFacts.v — the fuel of the model is only a termination device.

   Every function of the model that is not structurally recursive takes [fuel : nat] and answers
   [PFuel] / [None] / [Fuel] when it runs out.  Proofs/TotalFacts.v shows that the readers never run
   out of the fuel they are given.  This file proves MONOTONICITY: once a run has finished with
   some amount of fuel (its outcome is not the out-of-fuel marker), every larger amount of fuel
   gives exactly the same outcome (and the same final interpreter state).

     1. the script reader (the nine mutually recursive functions of Model/Parser.v);
     2. the list reader (Model/ListSyn.v);
     3. the expression evaluator (the four mutually recursive functions of Model/Expr.v), also
        monotone in the command executor;
     4. the interpreter knot (Model/Interp.v): [run_exec], [eval_value], [expr], [eval];
     5. corollaries for the checker. *)
From Molt Require Import Model.Base Model.Tokenizer Model.ListSyn Model.Float Model.Value
  Model.State Model.Script Model.Parser Model.Eval Model.Expr Model.Commands Model.Harness Model.Unicode
  Model.Interp.
From Molt Require Import Proofs.TotalFacts Proofs.NoEvalFacts.
From Molt Require Proofs.CtlFacts.
From Molt Require Check.ScriptObs.
From Coq Require Import Lia ZifyBool ZifyN.

Arguments N.eqb : simpl never.
Arguments N.leb : simpl never.
Arguments N.ltb : simpl never.
Arguments Z.eqb : simpl never.
Arguments Z.leb : simpl never.
Arguments Z.ltb : simpl never.

Local Open Scope N_scope.

(* ====================================================================== *)
(* 1. the script reader                                                    *)
(* ====================================================================== *)

Section Reader.
Variable isa : char -> bool.

Local Notation PS := (parse_script isa).
Local Notation PC := (parse_command isa).
Local Notation PW := (parse_words isa).
Local Notation PN := (parse_next_word isa).
Local Notation PQ := (parse_quoted isa).
Local Notation PB := (parse_bare isa).
Local Notation PK := (parse_brackets isa).
Local Notation PD := (parse_dollar isa).
Local Notation PV := (parse_varname isa).

(* [ple a b]: if the run [a] finished, the run [b] is identical *)
Definition ple {A} (a b : pres A) : Prop := a <> PFuel -> b = a.

Lemma ple_refl {A} (a : pres A) : ple a a.
Proof. intros _. reflexivity. Qed.

Lemma ple_match {A B} (a a' : pres A) (k k' : A -> str -> pres B) :
  ple a a' -> (forall x r, ple (k x r) (k' x r)) ->
  ple (match a with POk x r => k x r | PErr m => PErr m | PFuel => PFuel end)
      (match a' with POk x r => k' x r | PErr m => PErr m | PFuel => PFuel end).
Proof.
  intros Ha Hk Hne. destruct a as [x r|m|].
  - rewrite (Ha ltac:(discriminate)). apply Hk. exact Hne.
  - rewrite (Ha ltac:(discriminate)). reflexivity.
  - exfalso. apply Hne. reflexivity.
Qed.

Definition parse_mono_at (f f' : nat) : Prop :=
  (forall bt s acc, ple (PS f bt s acc) (PS f' bt s acc)) /\
  (forall bt s, ple (PC f bt s) (PC f' bt s)) /\
  (forall bt s acc, ple (PW f bt s acc) (PW f' bt s acc)) /\
  (forall bt s, ple (PN f bt s) (PN f' bt s)) /\
  (forall bt chk s t, ple (PQ f bt chk s t) (PQ f' bt chk s t)) /\
  (forall bt ix s t, ple (PB f bt ix s t) (PB f' bt ix s t)) /\
  (forall s, ple (PK f s) (PK f' s)) /\
  (forall bt s t, ple (PD f bt s t) (PD f' bt s t)) /\
  (forall bt s, ple (PV f bt s) (PV f' bt s)).

(* decompose a goal [ple L R] where L and R are the same code over the two amounts of fuel *)
Ltac ple_tac :=
  repeat first
    [ apply ple_refl
    | assumption
    | match goal with H : forall _, _ |- _ => apply H end
    | apply ple_match; [|intros ? ?]
    | match goal with
      | |- ple (if ?b then _ else _) _ => destruct b
      | |- ple (match ?x with _ => _ end) _ => destruct x
      end ].

Lemma parse_mono_all : forall f f', (f <= f')%nat -> parse_mono_at f f'.
Proof.
  induction f as [|f IH]; intros f' Hle.
  - repeat split; intros; intros Hne; exfalso; apply Hne; reflexivity.
  - destruct f' as [|f'']; [lia|].
    destruct (IH f'' ltac:(lia)) as (IHs & IHc & IHw & IHn & IHq & IHb & IHk & IHd & IHv).
    clear IH.
    repeat split.
    + intros bt s acc. cbn [parse_script]. ple_tac.
    + intros bt s. cbn [parse_command]. cbv zeta. ple_tac.
    + intros bt s acc. cbn [parse_words]. ple_tac.
    + intros bt s. cbn [parse_next_word]. cbv zeta. ple_tac.
    + intros bt chk s t. cbn [parse_quoted]. ple_tac.
    + intros bt ix s t. cbn [parse_bare]. ple_tac.
    + intros s. cbn [parse_brackets]. ple_tac.
    + intros bt s t. cbn [parse_dollar]. ple_tac.
    + intros bt s. cbn [parse_varname]. cbv zeta. ple_tac.
Qed.

End Reader.

(* ---- main statements for the script reader ---- *)

Theorem parse_script_fuel_mono : forall isa f f' bt s acc r,
  parse_script isa f bt s acc = r -> r <> PFuel -> (f <= f')%nat -> parse_script isa f' bt s acc = r.
Proof. intros isa f f' bt s acc r E Hr Hle. subst r. apply (parse_mono_all isa f f' Hle). exact Hr. Qed.

Theorem parse_command_fuel_mono : forall isa f f' bt s r,
  parse_command isa f bt s = r -> r <> PFuel -> (f <= f')%nat -> parse_command isa f' bt s = r.
Proof. intros isa f f' bt s r E Hr Hle. subst r. apply (parse_mono_all isa f f' Hle). exact Hr. Qed.

Theorem parse_words_fuel_mono : forall isa f f' bt s acc r,
  parse_words isa f bt s acc = r -> r <> PFuel -> (f <= f')%nat -> parse_words isa f' bt s acc = r.
Proof. intros isa f f' bt s acc r E Hr Hle. subst r. apply (parse_mono_all isa f f' Hle). exact Hr. Qed.

Theorem parse_next_word_fuel_mono : forall isa f f' bt s r,
  parse_next_word isa f bt s = r -> r <> PFuel -> (f <= f')%nat -> parse_next_word isa f' bt s = r.
Proof. intros isa f f' bt s r E Hr Hle. subst r. apply (parse_mono_all isa f f' Hle). exact Hr. Qed.

Theorem parse_quoted_fuel_mono : forall isa f f' bt chk s t r,
  parse_quoted isa f bt chk s t = r -> r <> PFuel -> (f <= f')%nat -> parse_quoted isa f' bt chk s t = r.
Proof. intros isa f f' bt chk s t r E Hr Hle. subst r. apply (parse_mono_all isa f f' Hle). exact Hr. Qed.

Theorem parse_bare_fuel_mono : forall isa f f' bt ix s t r,
  parse_bare isa f bt ix s t = r -> r <> PFuel -> (f <= f')%nat -> parse_bare isa f' bt ix s t = r.
Proof. intros isa f f' bt ix s t r E Hr Hle. subst r. apply (parse_mono_all isa f f' Hle). exact Hr. Qed.

Theorem parse_brackets_fuel_mono : forall isa f f' s r,
  parse_brackets isa f s = r -> r <> PFuel -> (f <= f')%nat -> parse_brackets isa f' s = r.
Proof. intros isa f f' s r E Hr Hle. subst r. apply (parse_mono_all isa f f' Hle). exact Hr. Qed.

Theorem parse_dollar_fuel_mono : forall isa f f' bt s t r,
  parse_dollar isa f bt s t = r -> r <> PFuel -> (f <= f')%nat -> parse_dollar isa f' bt s t = r.
Proof. intros isa f f' bt s t r E Hr Hle. subst r. apply (parse_mono_all isa f f' Hle). exact Hr. Qed.

Theorem parse_varname_fuel_mono : forall isa f f' bt s r,
  parse_varname isa f bt s = r -> r <> PFuel -> (f <= f')%nat -> parse_varname isa f' bt s = r.
Proof. intros isa f f' bt s r E Hr Hle. subst r. apply (parse_mono_all isa f f' Hle). exact Hr. Qed.

(* with totality (Proofs/TotalFacts.v): every sufficient amount of fuel reads the same script *)
Theorem parse_fuel_irrelevant : forall isa s f,
  (parse_fuel s <= f)%nat -> parse_script isa f false s [] = parse isa s.
Proof.
  intros isa s f Hle. unfold parse.
  apply (parse_script_fuel_mono isa (parse_fuel s) f false s [] _ eq_refl); [|exact Hle].
  apply (parse_is_total isa s).
Qed.

(* in fact the bound of TotalFacts is enough: any two amounts above [6 * length s + 5] agree *)
Theorem parse_script_fuel_indep : forall isa f1 f2 bt s acc,
  (6 * length s + 5 <= f1)%nat -> (6 * length s + 5 <= f2)%nat ->
  parse_script isa f1 bt s acc = parse_script isa f2 bt s acc.
Proof.
  intros isa f1 f2 bt s acc H1 H2.
  destruct (Nat.le_ge_cases f1 f2) as [Hle|Hle].
  - symmetry. apply (parse_script_fuel_mono isa f1 f2 bt s acc _ eq_refl); [|exact Hle].
    apply parse_script_total. exact H1.
  - apply (parse_script_fuel_mono isa f2 f1 bt s acc _ eq_refl); [|exact Hle].
    apply parse_script_total. exact H2.
Qed.

Print Assumptions parse_script_fuel_mono.
Print Assumptions parse_command_fuel_mono.
Print Assumptions parse_words_fuel_mono.
Print Assumptions parse_next_word_fuel_mono.
Print Assumptions parse_quoted_fuel_mono.
Print Assumptions parse_bare_fuel_mono.
Print Assumptions parse_brackets_fuel_mono.
Print Assumptions parse_dollar_fuel_mono.
Print Assumptions parse_varname_fuel_mono.
Print Assumptions parse_fuel_irrelevant.
Print Assumptions parse_script_fuel_indep.

(* ====================================================================== *)
(* 2. the list reader                                                      *)
(* ====================================================================== *)

(* [parse_list] answers [None] when it runs out of fuel; [parse_item] and [pbi] take no fuel
   ([parse_item] gives [pqi] and [pbare] their own, sufficient, budget).  [pqi] and [pbare] have
   no out-of-fuel marker of their own: [pqi 0] answers "unmatched quote" and [pbare 0] stops
   where it is.  So for these two the statement is: a SUCCESSFUL [pqi] run is reproduced by every
   larger budget, a [pbare] run that stopped at the end of the item (end of input or white space)
   is reproduced by every larger budget, and any two sufficient budgets agree (TotalFacts). *)

Theorem parse_list_fuel_mono : forall f f' s acc r,
  parse_list f s acc = Some r -> (f <= f')%nat -> parse_list f' s acc = Some r.
Proof.
  induction f as [|f IH]; intros f' s acc r E Hle; [discriminate|].
  destruct f' as [|f'']; [lia|].
  cbn [parse_list] in *.
  destruct (skip_while is_list_white s) as [|c s']; [exact E|].
  destruct (parse_item (c :: s')) as [e|[item rest]]; [exact E|].
  apply IH; [exact E|lia].
Qed.

Corollary get_list_fuel_irrelevant : forall s f,
  (S (length s) <= f)%nat -> parse_list f s [] = get_list s.
Proof.
  intros s f Hle. unfold get_list.
  destruct (parse_list (S (length s)) s []) as [r|] eqn:E.
  - apply (parse_list_fuel_mono _ _ _ _ _ E Hle).
  - exfalso. apply (get_list_total s). exact E.
Qed.

Theorem pqi_fuel_mono : forall f f' s acc w rest,
  pqi f s acc = inr (w, rest) -> (f <= f')%nat -> pqi f' s acc = inr (w, rest).
Proof.
  induction f as [|f IH]; intros f' s acc w rest E Hle; [discriminate|].
  destruct f' as [|f'']; [lia|].
  cbn [pqi] in *.
  destruct s as [|c r]; [discriminate|].
  destruct (c =? c_dquote); [exact E|].
  destruct (c =? c_bslash).
  - destruct (bsubst r) as [ch r']. apply IH; [exact E|lia].
  - apply IH; [exact E|lia].
Qed.

(* an item that ended for a reason other than the budget *)
Definition item_ended (rest : str) : Prop :=
  match rest with [] => True | c :: _ => is_list_white c = true end.

Theorem pbare_fuel_mono : forall f f' s acc w rest,
  pbare f s acc = (w, rest) -> item_ended rest -> (f <= f')%nat -> pbare f' s acc = (w, rest).
Proof.
  induction f as [|f IH]; intros f' s acc w rest E Hend Hle.
  - cbn [pbare] in E. inversion E; subst. clear E.
    destruct f' as [|f'']; [reflexivity|]. cbn [pbare].
    destruct rest as [|c r]; [reflexivity|]. cbn [item_ended] in Hend. rewrite Hend. reflexivity.
  - destruct f' as [|f'']; [lia|].
    cbn [pbare] in *.
    destruct s as [|c r]; [exact E|].
    destruct (is_list_white c); [exact E|].
    destruct (c =? c_bslash).
    + destruct (bsubst r) as [ch r']. apply IH; [exact E|exact Hend|lia].
    + apply IH; [exact E|exact Hend|lia].
Qed.

(* without that side condition the statement is false: [pbare] has no out-of-fuel marker *)
Example pbare_budget_is_visible :
  pbare 0 [97] [] = ([], [97]) /\ pbare 1 [97] [] = ([97], []).
Proof. split; reflexivity. Qed.
Example pqi_budget_is_visible :
  pqi 0 [34] [] = inl UnmatchedQuote /\ pqi 1 [34] [] = inr ([], []).
Proof. split; reflexivity. Qed.

(* the budgets [parse_item] supplies are sufficient, so these never matter (TotalFacts):
   any budget at least as large gives the result [parse_item] computes *)
Theorem parse_item_budget_irrelevant : forall c r fq fb,
  (S (length r) <= fq)%nat -> (S (length (c :: r)) <= fb)%nat ->
  parse_item (c :: r) =
  (if c =? c_lbrace then pbi r 0 []
   else if c =? c_dquote then pqi fq r []
   else inr (pbare fb (c :: r) [])).
Proof.
  intros c r fq fb Hq Hb. unfold parse_item.
  destruct (c =? c_lbrace); [reflexivity|].
  destruct (c =? c_dquote).
  - apply pqi_fuel_indep; lia.
  - f_equal. apply pbare_fuel_indep; cbn [length] in *; lia.
Qed.

Print Assumptions parse_list_fuel_mono.
Print Assumptions get_list_fuel_irrelevant.
Print Assumptions pqi_fuel_mono.
Print Assumptions pbare_fuel_mono.
Print Assumptions parse_item_budget_irrelevant.

(* ====================================================================== *)
(* 3. the order "finished runs are reproduced" on monadic computations     *)
(* ====================================================================== *)

(* [mle a b]: if the run [a] did not run out of fuel, the run [b] is identical (state and
   outcome) *)
Definition mle {A} (a b : interp * res A) : Prop := snd a <> Fuel -> b = a.

(* the order on executors, as in the statement of the task *)
Definition exec_le (e1 e2 : executor) : Prop :=
  forall st cmd argv st' r, e1 st cmd argv = (st', r) -> r <> Fuel -> e2 st cmd argv = (st', r).

(* the same order on evaluators of values (Interp::eval_value, Interp::expr) *)
Definition fn_le (g1 g2 : interp -> value -> interp * res value) : Prop :=
  forall st v st' r, g1 st v = (st', r) -> r <> Fuel -> g2 st v = (st', r).

Lemma mle_intro {A} (a b : interp * res A) :
  (forall st' r, a = (st', r) -> r <> Fuel -> b = (st', r)) -> mle a b.
Proof. intros H Hne. destruct a as [st' r]. rewrite (H st' r eq_refl Hne). reflexivity. Qed.

Lemma mle_elim {A} (a b : interp * res A) st' r :
  mle a b -> a = (st', r) -> r <> Fuel -> b = (st', r).
Proof. intros H E Hne. subst a. apply H. exact Hne. Qed.

Lemma exec_le_mle e1 e2 : exec_le e1 e2 <-> forall st cmd argv, mle (e1 st cmd argv) (e2 st cmd argv).
Proof.
  split.
  - intros H st cmd argv. apply mle_intro. apply H.
  - intros H st cmd argv st' r. apply mle_elim. apply H.
Qed.

Lemma fn_le_mle g1 g2 : fn_le g1 g2 <-> forall st v, mle (g1 st v) (g2 st v).
Proof.
  split.
  - intros H st v. apply mle_intro. apply H.
  - intros H st v st' r. apply mle_elim. apply H.
Qed.

Lemma mle_refl {A} (a : interp * res A) : mle a a.
Proof. intros _. reflexivity. Qed.

Lemma exec_le_refl e : exec_le e e.
Proof. intros st cmd argv st' r E _. exact E. Qed.

(* the general composition rule: [F] continues the computation, and passes Fuel on *)
Lemma mle_let {A B} (a a' : interp * res A) (F F' : interp -> res A -> interp * res B) :
  mle a a' ->
  (forall st, snd (F st Fuel) = Fuel) ->
  (forall st r, mle (F st r) (F' st r)) ->
  mle (let '(st, r) := a in F st r) (let '(st, r) := a' in F' st r).
Proof.
  intros Ha HF Hk Hne. destruct a as [st r].
  assert (Hr : r <> Fuel).
  { intros ->. apply Hne. apply HF. }
  rewrite (Ha Hr). apply Hk. exact Hne.
Qed.

Lemma mle_bind {A B} (m m' : M A) (k k' : interp -> A -> M B) :
  mle m m' -> (forall st x, mle (k st x) (k' st x)) -> mle (bind m k) (bind m' k').
Proof.
  intros Hm Hk. unfold bind. apply mle_let; [exact Hm|reflexivity|].
  intros st r. destruct r; [apply Hk|apply mle_refl..].
Qed.

(* decompose a goal [mle L R] where L and R are the same code over two executors / budgets *)
Ltac mle_hyp :=
  match goal with
  | H : context [mle] |- mle _ _ => apply H
  end.

Ltac mle_tac :=
  repeat first
    [ apply mle_refl
    | solve [mle_hyp]
    | progress cbv beta
    | apply mle_let; [ | solve [intros; reflexivity] | intros ? ? ]
    | match goal with
      | |- mle (if ?b then _ else _) _ => destruct b
      | |- mle (match ?x with _ => _ end) _ => destruct x
      end ].

(* ---------- Eval.v is monotone in the executor ---------- *)

Section EvalMono.
Variable exec1 exec2 : executor.
Hypothesis Hexec : forall st cmd argv, mle (exec1 st cmd argv) (exec2 st cmd argv).

Definition ew_le (ew1 ew2 : interp -> word -> interp * res value) (w : word) : Prop :=
  forall st, mle (ew1 st w) (ew2 st w).

(* what eval_words_with needs of each word: the word itself, and the inside of an expansion *)
Definition ew_le2 (ew1 ew2 : interp -> word -> interp * res value) (w : word) : Prop :=
  ew_le ew1 ew2 w /\ (forall w', w = WExpand w' -> ew_le ew1 ew2 w').

Lemma eval_words_with_mono ew1 ew2 ws :
  Forall (ew_le2 ew1 ew2) ws ->
  forall st acc, mle (eval_words_with ew1 st ws acc) (eval_words_with ew2 st ws acc).
Proof.
  induction 1 as [|w r [Hw Hw'] Hr IH]; intros st acc; cbn [eval_words_with]; [apply mle_refl|].
  assert (IH' : forall st acc, mle (eval_words_with ew1 st r acc) (eval_words_with ew2 st r acc))
    by exact IH.
  clear IH.
  destruct w as [s|n|n i|cmds|ws|w1|s];
    try solve [assert (P0 := Hw); unfold ew_le in P0; mle_tac].
  assert (P0 := Hw' w1 eq_refl). unfold ew_le in P0. mle_tac.
Qed.

Lemma eval_cmds_with_mono ew1 ew2 cmds :
  Forall (Forall (ew_le2 ew1 ew2)) cmds ->
  forall st result, mle (eval_cmds_with exec1 ew1 st cmds result) (eval_cmds_with exec2 ew2 st cmds result).
Proof.
  induction 1 as [|ws r Hws Hr IH]; intros st result; cbn [eval_cmds_with]; [apply mle_refl|].
  assert (IH' : forall st result,
             mle (eval_cmds_with exec1 ew1 st r result) (eval_cmds_with exec2 ew2 st r result))
    by exact IH.
  clear IH.
  assert (Hw := eval_words_with_mono ew1 ew2 ws Hws).
  mle_tac.
Qed.

Lemma eval_word_le2 w : ew_le2 (eval_word exec1) (eval_word exec2) w.
Proof.
  induction w as [s|n|n i IHi|cmds IHc|ws IHw|w IHw|s] using CtlFacts.word_ind2;
    (split; [|intros w' Hw'; try discriminate Hw']).
  - intros st. cbn [eval_word]. apply mle_refl.
  - intros st. cbn [eval_word]. apply mle_refl.
  - intros st. cbn [eval_word]. destruct IHi as [IHi _]. unfold ew_le in IHi. mle_tac.
  - intros st. cbn [eval_word]. apply eval_cmds_with_mono; assumption.
  - intros st. cbn [eval_word]. assert (Hw := eval_words_with_mono _ _ ws IHw). mle_tac.
  - intros st. cbn [eval_word]. apply mle_refl.
  - inversion Hw'; subst. destruct IHw as [IHw _]. exact IHw.
  - intros st. cbn [eval_word]. apply mle_refl.
Qed.

Lemma eval_word_mono : forall st w, mle (eval_word exec1 st w) (eval_word exec2 st w).
Proof. intros st w. apply eval_word_le2. Qed.

Lemma eval_script_mono : forall st sc, mle (eval_script exec1 st sc) (eval_script exec2 st sc).
Proof.
  intros st sc. unfold eval_script, eval_cmds. apply eval_cmds_with_mono.
  apply Forall_forall. intros ws _. apply Forall_forall. intros w _. apply eval_word_le2.
Qed.

End EvalMono.

(* ====================================================================== *)
(* 4. the expression evaluator: monotone in the fuel and in the executor   *)
(* ====================================================================== *)

Section ExprMono.
Variable ia ib : char -> bool.
Variable original : str.
Variable exec1 exec2 : executor.
Hypothesis Hexec : forall st cmd argv, mle (exec1 st cmd argv) (exec2 st cmd argv).

Local Notation GV e := (expr_get_value ia ib e original).
Local Notation LOOP e := (expr_loop ia ib e original).
Local Notation LEX e := (expr_lex ia ib e original).
Local Notation MF e := (expr_math_func ia ib e original).

Definition expr_mono_at (f f' : nat) : Prop :=
  (forall st info pr, mle (GV exec1 f st info pr) (GV exec2 f' st info pr)) /\
  (forall st info pr v, mle (LOOP exec1 f st info pr v) (LOOP exec2 f' st info pr v)) /\
  (forall st info, mle (LEX exec1 f st info) (LEX exec2 f' st info)) /\
  (forall st info name, mle (MF exec1 f st info name) (MF exec2 f' st info name)).

Lemma expr_mono_all : forall f f', (f <= f')%nat -> expr_mono_at f f'.
Proof.
  induction f as [|f IH]; intros f' Hle.
  - repeat split; intros; intros Hne; exfalso; apply Hne; reflexivity.
  - destruct f' as [|f'']; [lia|].
    destruct (IH f'' ltac:(lia)) as (IHg & IHo & IHl & IHm).
    clear IH.
    assert (Hw := eval_word_mono exec1 exec2 Hexec).
    assert (Hs := eval_script_mono exec1 exec2 Hexec).
    repeat split.
    + intros st info pr. rewrite !expr_get_value_S. unfold gv_first. mle_tac.
    + intros st info pr v. rewrite !expr_loop_S. cbv zeta.
      unfold loop_skip_right, loop_questy_true, loop_questy_false, loop_plain, loop_after.
      cbv zeta. mle_tac.
    + intros st info. rewrite !expr_lex_S. cbv zeta. unfold lift_p. mle_tac.
    + intros st info name. rewrite !expr_math_func_S. mle_tac.
Qed.

End ExprMono.

(* ---- main statements for the expression evaluator ---- *)

(* the general form: more fuel AND a larger executor *)
Theorem expr_get_value_mono : forall ia ib orig exec1 exec2 f f' st info pr st' r,
  exec_le exec1 exec2 -> (f <= f')%nat ->
  expr_get_value ia ib exec1 orig f st info pr = (st', r) -> r <> Fuel ->
  expr_get_value ia ib exec2 orig f' st info pr = (st', r).
Proof.
  intros ia ib orig exec1 exec2 f f' st info pr st' r He Hle. apply mle_elim.
  apply (expr_mono_all ia ib orig exec1 exec2 (proj1 (exec_le_mle _ _) He) f f' Hle).
Qed.

Theorem expr_loop_mono : forall ia ib orig exec1 exec2 f f' st info pr v st' r,
  exec_le exec1 exec2 -> (f <= f')%nat ->
  expr_loop ia ib exec1 orig f st info pr v = (st', r) -> r <> Fuel ->
  expr_loop ia ib exec2 orig f' st info pr v = (st', r).
Proof.
  intros ia ib orig exec1 exec2 f f' st info pr v st' r He Hle. apply mle_elim.
  apply (expr_mono_all ia ib orig exec1 exec2 (proj1 (exec_le_mle _ _) He) f f' Hle).
Qed.

Theorem expr_lex_mono : forall ia ib orig exec1 exec2 f f' st info st' r,
  exec_le exec1 exec2 -> (f <= f')%nat ->
  expr_lex ia ib exec1 orig f st info = (st', r) -> r <> Fuel ->
  expr_lex ia ib exec2 orig f' st info = (st', r).
Proof.
  intros ia ib orig exec1 exec2 f f' st info st' r He Hle. apply mle_elim.
  apply (expr_mono_all ia ib orig exec1 exec2 (proj1 (exec_le_mle _ _) He) f f' Hle).
Qed.

Theorem expr_math_func_mono : forall ia ib orig exec1 exec2 f f' st info name st' r,
  exec_le exec1 exec2 -> (f <= f')%nat ->
  expr_math_func ia ib exec1 orig f st info name = (st', r) -> r <> Fuel ->
  expr_math_func ia ib exec2 orig f' st info name = (st', r).
Proof.
  intros ia ib orig exec1 exec2 f f' st info name st' r He Hle. apply mle_elim.
  apply (expr_mono_all ia ib orig exec1 exec2 (proj1 (exec_le_mle _ _) He) f f' Hle).
Qed.

(* for a fixed executor no hypothesis is needed: its calls are the same in both runs *)
Theorem expr_get_value_fuel_mono : forall ia ib exec orig f f' st info pr st' r,
  expr_get_value ia ib exec orig f st info pr = (st', r) -> r <> Fuel -> (f <= f')%nat ->
  expr_get_value ia ib exec orig f' st info pr = (st', r).
Proof.
  intros ia ib exec orig f f' st info pr st' r E Hr Hle.
  exact (expr_get_value_mono ia ib orig exec exec f f' st info pr st' r (exec_le_refl exec) Hle E Hr).
Qed.

Theorem expr_loop_fuel_mono : forall ia ib exec orig f f' st info pr v st' r,
  expr_loop ia ib exec orig f st info pr v = (st', r) -> r <> Fuel -> (f <= f')%nat ->
  expr_loop ia ib exec orig f' st info pr v = (st', r).
Proof.
  intros ia ib exec orig f f' st info pr v st' r E Hr Hle.
  exact (expr_loop_mono ia ib orig exec exec f f' st info pr v st' r (exec_le_refl exec) Hle E Hr).
Qed.

Theorem expr_lex_fuel_mono : forall ia ib exec orig f f' st info st' r,
  expr_lex ia ib exec orig f st info = (st', r) -> r <> Fuel -> (f <= f')%nat ->
  expr_lex ia ib exec orig f' st info = (st', r).
Proof.
  intros ia ib exec orig f f' st info st' r E Hr Hle.
  exact (expr_lex_mono ia ib orig exec exec f f' st info st' r (exec_le_refl exec) Hle E Hr).
Qed.

Theorem expr_math_func_fuel_mono : forall ia ib exec orig f f' st info name st' r,
  expr_math_func ia ib exec orig f st info name = (st', r) -> r <> Fuel -> (f <= f')%nat ->
  expr_math_func ia ib exec orig f' st info name = (st', r).
Proof.
  intros ia ib exec orig f f' st info name st' r E Hr Hle.
  exact (expr_math_func_mono ia ib orig exec exec f f' st info name st' r (exec_le_refl exec) Hle E Hr).
Qed.

(* expr_eval (fixed budget [expr_fuel]) is monotone in the executor *)
Lemma expr_eval_mono ia ib exec1 exec2 :
  (forall st cmd argv, mle (exec1 st cmd argv) (exec2 st cmd argv)) ->
  forall st e, mle (expr_eval ia ib exec1 st e) (expr_eval ia ib exec2 st e).
Proof.
  intros He st e. unfold expr_eval. cbv zeta.
  assert (Hg := proj1 (expr_mono_all ia ib (as_str e) exec1 exec2 He
                         (expr_fuel (as_str e)) (expr_fuel (as_str e)) (le_n _))).
  mle_tac.
Qed.

(* ... and any budget at least [expr_fuel] gives the result of [expr_eval], whenever that is not
   Fuel (which Proofs/TotalFacts.v [expr_eval_total] excludes for executors that never answer
   Fuel) *)
Theorem expr_eval_fuel_irrelevant : forall ia ib exec st e f st' r,
  expr_eval ia ib exec st e = (st', r) -> r <> Fuel -> (expr_fuel (as_str e) <= f)%nat ->
  (let s := as_str e in
   match expr_get_value ia ib exec s f st {| e_rest := s; e_token := -1; e_noeval := 0 |} (-1) with
   | (st1, Ok (v, i1)) =>
       if negb (e_token i1 =? T_END)%Z then (st1, err (lit "syntax error in expression """ ++ s ++ lit """"))
       else (st1, Ok (match v with DInt z => VInt z | DFlt x => VFlt x | DStr x => VStr x end))
   | (st1, Err ex) =>
       match x_code ex with
       | CBreak => (st1, err (lit "invoked ""break"" outside of a loop"))
       | CContinue => (st1, err (lit "invoked ""continue"" outside of a loop"))
       | _ => (st1, Err ex)
       end
   | (st1, Panic p) => (st1, Panic p)
   | (st1, Fuel) => (st1, Fuel)
   end) = (st', r).
Proof.
  intros ia ib exec st e f st' r E Hr Hle. cbv zeta.
  revert E Hr. apply mle_elim. unfold expr_eval. cbv zeta.
  assert (Hg := proj1 (expr_mono_all ia ib (as_str e) exec exec (fun st cmd argv => mle_refl _)
                         (expr_fuel (as_str e)) f Hle)).
  mle_tac.
Qed.

Print Assumptions expr_get_value_mono.
Print Assumptions expr_loop_mono.
Print Assumptions expr_lex_mono.
Print Assumptions expr_math_func_mono.
Print Assumptions expr_get_value_fuel_mono.
Print Assumptions expr_loop_fuel_mono.
Print Assumptions expr_lex_fuel_mono.
Print Assumptions expr_math_func_fuel_mono.
Print Assumptions expr_eval_fuel_irrelevant.

(* ====================================================================== *)
(* 5. the commands are monotone in [rec]                                   *)
(* ====================================================================== *)

(* [rec1] is below [rec2]: finished evaluations are reproduced, and the loop budget is larger *)
Definition rec_le (rec1 rec2 : recfns) : Prop :=
  fn_le (r_eval rec1) (r_eval rec2) /\ fn_le (r_expr rec1) (r_expr rec2) /\
  (r_loop rec1 <= r_loop rec2)%nat.

Section CmdMono.
Variable rec1 rec2 : recfns.
Hypothesis Heval : forall st v, mle (r_eval rec1 st v) (r_eval rec2 st v).
Hypothesis Hexpr : forall st v, mle (r_expr rec1 st v) (r_expr rec2 st v).
Hypothesis Hloop : (r_loop rec1 <= r_loop rec2)%nat.

Lemma cmd_catch_mono st argv : mle (cmd_catch rec1 st argv) (cmd_catch rec2 st argv).
Proof. unfold cmd_catch, bind. mle_tac. Qed.

Lemma cmd_expr_mono st argv : mle (cmd_expr rec1 st argv) (cmd_expr rec2 st argv).
Proof. unfold cmd_expr, bind. mle_tac. Qed.

Lemma expr_bool_mono st e : mle (expr_bool rec1 st e) (expr_bool rec2 st e).
Proof. unfold expr_bool, bind. mle_tac. Qed.

Lemma while_loop_mono : forall n n' st test body, (n <= n')%nat ->
  mle (while_loop rec1 n st test body) (while_loop rec2 n' st test body).
Proof.
  clear Hloop. induction n as [|n IH]; intros n' st test body Hle.
  - intros Hne. exfalso. apply Hne. reflexivity.
  - destruct n' as [|n'']; [lia|]. cbn [while_loop].
    assert (IH' : forall st, mle (while_loop rec1 n st test body) (while_loop rec2 n'' st test body))
      by (intros; apply IH; lia).
    clear IH. assert (Hb := expr_bool_mono). unfold bind. mle_tac.
Qed.

Lemma cmd_while_mono st argv : mle (cmd_while rec1 st argv) (cmd_while rec2 st argv).
Proof.
  unfold cmd_while, bind.
  assert (Hw := fun st => while_loop_mono _ _ st (arg argv 1) (arg argv 2) Hloop).
  mle_tac.
Qed.

Lemma for_loop_mono : forall n n' st test next body, (n <= n')%nat ->
  mle (for_loop rec1 n st test next body) (for_loop rec2 n' st test next body).
Proof.
  clear Hloop. induction n as [|n IH]; intros n' st test next body Hle.
  - intros Hne. exfalso. apply Hne. reflexivity.
  - destruct n' as [|n'']; [lia|]. cbn [for_loop].
    assert (IH' : forall st, mle (for_loop rec1 n st test next body) (for_loop rec2 n'' st test next body))
      by (intros; apply IH; lia).
    clear IH. assert (Hb := expr_bool_mono). unfold bind. mle_tac.
Qed.

Lemma cmd_for_mono st argv : mle (cmd_for rec1 st argv) (cmd_for rec2 st argv).
Proof.
  unfold cmd_for, bind.
  assert (Hw := fun st => for_loop_mono _ _ st (arg argv 2) (arg argv 3) (arg argv 4) Hloop).
  mle_tac.
Qed.

(* foreach, if: the budget does not come from [rec] *)
Lemma foreach_loop_mono : forall n st vars l body,
  mle (foreach_loop rec1 n st vars l body) (foreach_loop rec2 n st vars l body).
Proof.
  induction n as [|n IH]; intros st vars l body; [apply mle_refl|].
  cbn [foreach_loop]. unfold bind. mle_tac.
Qed.

Lemma cmd_foreach_mono st argv : mle (cmd_foreach rec1 st argv) (cmd_foreach rec2 st argv).
Proof. unfold cmd_foreach, bind. assert (Hw := foreach_loop_mono). mle_tac. Qed.

Lemma if_machine_mono : forall n st argv argi wants,
  mle (if_machine rec1 n st argv argi wants) (if_machine rec2 n st argv argi wants).
Proof.
  induction n as [|n IH]; intros st argv argi wants; [apply mle_refl|].
  cbn [if_machine]. cbv zeta. assert (Hb := expr_bool_mono). unfold bind. mle_tac.
Qed.

Lemma cmd_if_mono st argv : mle (cmd_if rec1 st argv) (cmd_if rec2 st argv).
Proof. unfold cmd_if. apply if_machine_mono. Qed.

Lemma proc_execute_mono st parms body argv :
  mle (proc_execute rec1 st parms body argv) (proc_execute rec2 st parms body argv).
Proof. unfold proc_execute. cbv zeta. mle_tac. Qed.

(* the test harness command *)
Lemma swallow_mono (m m' : M value) : mle m m' -> mle (swallow m) (swallow m').
Proof. intros H. unfold swallow. mle_tac. Qed.

Lemma run_test_mono st info : mle (run_test rec1 st info) (run_test rec2 st info).
Proof.
  unfold run_test. cbv zeta. unfold bind.
  assert (Hs := fun st v => swallow_mono _ _ (Heval st v)).
  mle_tac.
Qed.

Lemma cmd_test_mono st argv : mle (cmd_test rec1 st argv) (cmd_test rec2 st argv).
Proof.
  unfold cmd_test, fancy_test, simple_test, bind. assert (Hr := run_test_mono). mle_tac.
Qed.

Lemma run_native_mono U n st argv : mle (run_native U rec1 n st argv) (run_native U rec2 n st argv).
Proof.
  destruct n; cbn [run_native];
    first [ apply mle_refl | apply cmd_catch_mono | apply cmd_expr_mono | apply cmd_for_mono
          | apply cmd_foreach_mono | apply cmd_if_mono | apply cmd_while_mono | apply cmd_test_mono ].
Qed.

End CmdMono.

(* ====================================================================== *)
(* 6. the interpreter knot                                                 *)
(* ====================================================================== *)

Section InterpMono.
Variable U : uni.

Lemma toplevel_boundary_fuel : toplevel_boundary Fuel = Fuel.
Proof. reflexivity. Qed.

Lemma eval_value_with_mono exec1 exec2 :
  (forall st cmd argv, mle (exec1 st cmd argv) (exec2 st cmd argv)) ->
  forall st v, mle (eval_value_with U exec1 st v) (eval_value_with U exec2 st v).
Proof.
  intros He st v. unfold eval_value_with. cbv zeta.
  destruct (_ <? _); [apply mle_refl|].
  destruct (parse (u_alnum U) (as_str v)) as [sc rest|m|]; [|apply mle_refl..].
  apply mle_let.
  - apply eval_script_mono. exact He.
  - intros st0. destruct (_ =? 0); reflexivity.
  - intros st0 r. apply mle_refl.
Qed.

Lemma expr_with_mono exec1 exec2 :
  (forall st cmd argv, mle (exec1 st cmd argv) (exec2 st cmd argv)) ->
  forall st e, mle (expr_with U exec1 st e) (expr_with U exec2 st e).
Proof.
  intros He st e. unfold expr_with.
  assert (Hx := expr_eval_mono (u_alnum U) (u_alpha U) exec1 exec2 He).
  mle_tac.
Qed.

Lemma run_exec_mono_mle : forall f f', (f <= f')%nat ->
  forall st cmd argv, mle (run_exec U f st cmd argv) (run_exec U f' st cmd argv).
Proof.
  induction f as [|f IH]; intros f' Hle st cmd argv.
  - intros Hne. exfalso. apply Hne. reflexivity.
  - destruct f' as [|f'']; [lia|].
    assert (IH' := IH f'' ltac:(lia)). clear IH.
    cbn [run_exec]. cbv zeta.
    set (rec1 := {| r_eval := eval_value_with U (run_exec U f);
                    r_expr := expr_with U (run_exec U f); r_loop := S f |}).
    set (rec2 := {| r_eval := eval_value_with U (run_exec U f'');
                    r_expr := expr_with U (run_exec U f''); r_loop := S f'' |}).
    assert (H1 : forall st v, mle (r_eval rec1 st v) (r_eval rec2 st v)).
    { intros st0 v. cbn [r_eval rec1 rec2]. apply eval_value_with_mono. exact IH'. }
    assert (H2 : forall st v, mle (r_expr rec1 st v) (r_expr rec2 st v)).
    { intros st0 v. cbn [r_expr rec1 rec2]. apply expr_with_mono. exact IH'. }
    assert (H3 : (r_loop rec1 <= r_loop rec2)%nat) by (cbn [r_loop rec1 rec2]; lia).
    destruct cmd as [n ctx|parms body].
    + apply run_native_mono; assumption.
    + apply proc_execute_mono; assumption.
Qed.

End InterpMono.

(* ---- main statements for the interpreter ---- *)

Theorem run_exec_le : forall U f f', (f <= f')%nat -> exec_le (run_exec U f) (run_exec U f').
Proof. intros U f f' Hle. apply exec_le_mle. apply run_exec_mono_mle. exact Hle. Qed.

Theorem run_exec_fuel_mono : forall U f f' st cmd argv st' r,
  (f <= f')%nat -> run_exec U f st cmd argv = (st', r) -> r <> Fuel ->
  run_exec U f' st cmd argv = (st', r).
Proof. intros U f f' st cmd argv st' r Hle. apply (run_exec_le U f f' Hle). Qed.

Theorem eval_value_fuel_mono : forall U f f' st v st' r,
  (f <= f')%nat -> eval_value U f st v = (st', r) -> r <> Fuel -> eval_value U f' st v = (st', r).
Proof.
  intros U f f' st v st' r Hle. apply mle_elim. unfold eval_value.
  apply eval_value_with_mono. apply run_exec_mono_mle. exact Hle.
Qed.

Theorem expr_fuel_mono : forall U f f' st e st' r,
  (f <= f')%nat -> expr U f st e = (st', r) -> r <> Fuel -> expr U f' st e = (st', r).
Proof.
  intros U f f' st e st' r Hle. apply mle_elim. unfold expr.
  apply expr_with_mono. apply run_exec_mono_mle. exact Hle.
Qed.

Theorem eval_fuel_mono : forall U f f' st s st' r,
  (f <= f')%nat -> eval U f st s = (st', r) -> r <> Fuel -> eval U f' st s = (st', r).
Proof. intros U f f' st s st' r. unfold eval. apply eval_value_fuel_mono. Qed.

(* every command of Model/Commands.v, the procedure call and the `test` command are monotone in
   [rec], in the shape of the task *)
Theorem run_native_rec_mono : forall U rec1 rec2 n st argv st' r,
  rec_le rec1 rec2 -> run_native U rec1 n st argv = (st', r) -> r <> Fuel ->
  run_native U rec2 n st argv = (st', r).
Proof.
  intros U rec1 rec2 n st argv st' r (H1 & H2 & H3). apply mle_elim.
  apply run_native_mono; [apply fn_le_mle; exact H1|apply fn_le_mle; exact H2|exact H3].
Qed.

Theorem proc_execute_rec_mono : forall rec1 rec2 st parms body argv st' r,
  rec_le rec1 rec2 -> proc_execute rec1 st parms body argv = (st', r) -> r <> Fuel ->
  proc_execute rec2 st parms body argv = (st', r).
Proof.
  intros rec1 rec2 st parms body argv st' r (H1 & H2 & H3). apply mle_elim.
  apply proc_execute_mono. apply fn_le_mle; exact H1.
Qed.

(* the fuelled loops inside the commands: `while` and `for` take their iteration budget from
   [r_loop rec] (= the fuel of the knot), `foreach` and `if` compute their own from the arguments *)
Theorem while_loop_rec_mono : forall rec1 rec2 n n' st test body st' r,
  rec_le rec1 rec2 -> (n <= n')%nat ->
  while_loop rec1 n st test body = (st', r) -> r <> Fuel ->
  while_loop rec2 n' st test body = (st', r).
Proof.
  intros rec1 rec2 n n' st test body st' r (H1 & H2 & H3) Hle. apply mle_elim.
  exact (while_loop_mono rec1 rec2 (proj1 (fn_le_mle _ _) H1) (proj1 (fn_le_mle _ _) H2) n n' st test body Hle).
Qed.

Theorem for_loop_rec_mono : forall rec1 rec2 n n' st test next body st' r,
  rec_le rec1 rec2 -> (n <= n')%nat ->
  for_loop rec1 n st test next body = (st', r) -> r <> Fuel ->
  for_loop rec2 n' st test next body = (st', r).
Proof.
  intros rec1 rec2 n n' st test next body st' r (H1 & H2 & H3) Hle. apply mle_elim.
  exact (for_loop_mono rec1 rec2 (proj1 (fn_le_mle _ _) H1) (proj1 (fn_le_mle _ _) H2) n n' st test next body Hle).
Qed.

Theorem foreach_loop_rec_mono : forall rec1 rec2 n st vars l body st' r,
  rec_le rec1 rec2 ->
  foreach_loop rec1 n st vars l body = (st', r) -> r <> Fuel ->
  foreach_loop rec2 n st vars l body = (st', r).
Proof.
  intros rec1 rec2 n st vars l body st' r (H1 & H2 & H3). apply mle_elim.
  exact (foreach_loop_mono rec1 rec2 (proj1 (fn_le_mle _ _) H1) n st vars l body).
Qed.

Theorem if_machine_rec_mono : forall rec1 rec2 n st argv argi wants st' r,
  rec_le rec1 rec2 ->
  if_machine rec1 n st argv argi wants = (st', r) -> r <> Fuel ->
  if_machine rec2 n st argv argi wants = (st', r).
Proof.
  intros rec1 rec2 n st argv argi wants st' r (H1 & H2 & H3). apply mle_elim.
  exact (if_machine_mono rec1 rec2 (proj1 (fn_le_mle _ _) H1) (proj1 (fn_le_mle _ _) H2) n st argv argi wants).
Qed.

(* the two evaluators handed to the commands are monotone in the executor *)
Theorem eval_value_with_exec_mono : forall U exec1 exec2,
  exec_le exec1 exec2 -> fn_le (eval_value_with U exec1) (eval_value_with U exec2).
Proof.
  intros U exec1 exec2 He. apply fn_le_mle. apply eval_value_with_mono. apply exec_le_mle. exact He.
Qed.

Theorem expr_with_exec_mono : forall U exec1 exec2,
  exec_le exec1 exec2 -> fn_le (expr_with U exec1) (expr_with U exec2).
Proof.
  intros U exec1 exec2 He. apply fn_le_mle. apply expr_with_mono. apply exec_le_mle. exact He.
Qed.

(* Model/Eval.v is monotone in the executor *)
Theorem eval_script_exec_mono : forall exec1 exec2 st sc st' r,
  exec_le exec1 exec2 -> eval_script exec1 st sc = (st', r) -> r <> Fuel ->
  eval_script exec2 st sc = (st', r).
Proof.
  intros exec1 exec2 st sc st' r He. apply mle_elim. apply eval_script_mono.
  apply exec_le_mle. exact He.
Qed.

Theorem eval_word_exec_mono : forall exec1 exec2 st w st' r,
  exec_le exec1 exec2 -> eval_word exec1 st w = (st', r) -> r <> Fuel ->
  eval_word exec2 st w = (st', r).
Proof.
  intros exec1 exec2 st w st' r He. apply mle_elim. apply eval_word_mono.
  apply exec_le_mle. exact He.
Qed.

Print Assumptions run_exec_le.
Print Assumptions run_exec_fuel_mono.
Print Assumptions eval_value_fuel_mono.
Print Assumptions expr_fuel_mono.
Print Assumptions eval_fuel_mono.
Print Assumptions run_native_rec_mono.
Print Assumptions proc_execute_rec_mono.
Print Assumptions eval_script_exec_mono.
Print Assumptions while_loop_rec_mono.
Print Assumptions for_loop_rec_mono.
Print Assumptions foreach_loop_rec_mono.
Print Assumptions if_machine_rec_mono.
Print Assumptions eval_value_with_exec_mono.
Print Assumptions expr_with_exec_mono.
Print Assumptions eval_word_exec_mono.

(* ====================================================================== *)
(* 7. corollaries for the checker                                          *)
(* ====================================================================== *)

(* the amount of fuel cannot be observed: two runs that both finish agree *)
Theorem eval_fuel_unobservable : forall U f1 f2 st s st1 r1 st2 r2,
  eval U f1 st s = (st1, r1) -> r1 <> Fuel ->
  eval U f2 st s = (st2, r2) -> r2 <> Fuel ->
  (st1, r1) = (st2, r2).
Proof.
  intros U f1 f2 st s st1 r1 st2 r2 E1 H1 E2 H2.
  destruct (Nat.le_ge_cases f1 f2) as [Hle|Hle].
  - rewrite <- E2. symmetry. apply (eval_fuel_mono U f1 f2 st s st1 r1 Hle E1 H1).
  - rewrite <- E1. apply (eval_fuel_mono U f2 f1 st s st2 r2 Hle E2 H2).
Qed.

Theorem expr_fuel_unobservable : forall U f1 f2 st e st1 r1 st2 r2,
  expr U f1 st e = (st1, r1) -> r1 <> Fuel ->
  expr U f2 st e = (st2, r2) -> r2 <> Fuel ->
  (st1, r1) = (st2, r2).
Proof.
  intros U f1 f2 st e st1 r1 st2 r2 E1 H1 E2 H2.
  destruct (Nat.le_ge_cases f1 f2) as [Hle|Hle].
  - rewrite <- E2. symmetry. apply (expr_fuel_mono U f1 f2 st e st1 r1 Hle E1 H1).
  - rewrite <- E1. apply (expr_fuel_mono U f2 f1 st e st2 r2 Hle E2 H2).
Qed.

Theorem eval_value_fuel_unobservable : forall U f1 f2 st v st1 r1 st2 r2,
  eval_value U f1 st v = (st1, r1) -> r1 <> Fuel ->
  eval_value U f2 st v = (st2, r2) -> r2 <> Fuel ->
  (st1, r1) = (st2, r2).
Proof.
  intros U f1 f2 st v st1 r1 st2 r2 E1 H1 E2 H2.
  destruct (Nat.le_ge_cases f1 f2) as [Hle|Hle].
  - rewrite <- E2. symmetry. apply (eval_value_fuel_mono U f1 f2 st v st1 r1 Hle E1 H1).
  - rewrite <- E1. apply (eval_value_fuel_mono U f2 f1 st v st2 r2 Hle E2 H2).
Qed.

(* the instances the correspondence runs use (Check/*.v evaluate with [std_uni] and
   [Check.ScriptObs.model_fuel]) *)
Corollary eval_model_fuel : forall f st s st' r,
  eval std_uni f st s = (st', r) -> r <> Fuel ->
  forall f', (f <= f')%nat -> eval std_uni f' st s = (st', r).
Proof. intros f st s st' r E Hr f' Hle. exact (eval_fuel_mono std_uni f f' st s st' r Hle E Hr). Qed.

Corollary eval_value_model_fuel : forall f st v st' r,
  eval_value std_uni f st v = (st', r) -> r <> Fuel ->
  forall f', (f <= f')%nat -> eval_value std_uni f' st v = (st', r).
Proof. intros f st v st' r E Hr f' Hle. exact (eval_value_fuel_mono std_uni f f' st v st' r Hle E Hr). Qed.

Corollary expr_model_fuel : forall f st e st' r,
  expr std_uni f st e = (st', r) -> r <> Fuel ->
  forall f', (f <= f')%nat -> expr std_uni f' st e = (st', r).
Proof. intros f st e st' r E Hr f' Hle. exact (expr_fuel_mono std_uni f f' st e st' r Hle E Hr). Qed.

(* a whole history of scripts (Check/ScriptObs.v), for an arbitrary amount of fuel *)
Fixpoint run_history_f (f : nat) (st : interp) (scripts : list str) (acc : list term)
  : interp * list term :=
  match scripts with
  | [] => (st, rev acc)
  | s :: r =>
      let '(st1, res) := eval std_uni f st s in
      run_history_f f st1 r (Check.ScriptObs.obs_res res :: acc)
  end.

Lemma run_history_f_model : forall scripts st acc,
  run_history_f Check.ScriptObs.model_fuel st scripts acc = Check.ScriptObs.run_history st scripts acc.
Proof.
  induction scripts as [|s r IH]; intros st acc; [reflexivity|].
  cbn [run_history_f Check.ScriptObs.run_history].
  destruct (eval std_uni Check.ScriptObs.model_fuel st s) as [st1 res]. apply IH.
Qed.

Definition fuel_obs : term := TTag "FUEL" [].

Lemma obs_res_fuel r : Check.ScriptObs.obs_res r = fuel_obs -> r = Fuel.
Proof.
  destruct r as [v|e|p|]; unfold Check.ScriptObs.obs_res, Check.ScriptObs.obs_exn, fuel_obs, TTag;
    intros H; [inversion H|inversion H|inversion H|reflexivity].
Qed.

Lemma run_history_f_keeps_acc : forall f scripts st acc st' outs,
  run_history_f f st scripts acc = (st', outs) -> forall x, In x acc -> In x outs.
Proof.
  induction scripts as [|s r IH]; intros st acc st' outs E x Hx; cbn [run_history_f] in E.
  - inversion E; subst. apply in_rev in Hx. exact Hx.
  - destruct (eval std_uni f st s) as [st1 res]. apply (IH _ _ _ _ E). right. exact Hx.
Qed.

(* if no script of the history ran out of fuel, every larger amount of fuel gives the same final
   state and the same observations *)
Theorem run_history_fuel_mono : forall f f' scripts st acc st' outs,
  (f <= f')%nat ->
  run_history_f f st scripts acc = (st', outs) -> ~ In fuel_obs outs ->
  run_history_f f' st scripts acc = (st', outs).
Proof.
  intros f f' scripts. induction scripts as [|s r IH]; intros st acc st' outs Hle E Hno.
  - exact E.
  - cbn [run_history_f] in *.
    destruct (eval std_uni f st s) as [st1 res] eqn:Ev.
    assert (Hres : res <> Fuel).
    { intros ->. apply Hno. apply (run_history_f_keeps_acc _ _ _ _ _ _ E). left. reflexivity. }
    rewrite (eval_fuel_mono std_uni f f' st s st1 res Hle Ev Hres).
    apply IH; assumption.
Qed.

Corollary run_history_model_fuel : forall scripts st st' outs,
  Check.ScriptObs.run_history st scripts [] = (st', outs) -> ~ In fuel_obs outs ->
  forall f', (Check.ScriptObs.model_fuel <= f')%nat -> run_history_f f' st scripts [] = (st', outs).
Proof.
  intros scripts st st' outs E Hno f' Hle.
  apply (run_history_fuel_mono Check.ScriptObs.model_fuel f' scripts st [] st' outs Hle); [|exact Hno].
  rewrite run_history_f_model. exact E.
Qed.

(* the observation of Check/ScriptObs.v, for an arbitrary amount of fuel *)
Definition script_model_obs_f (f : nat) (c : term) : term :=
  let limit := term_int (term_nth c 0) in
  let scripts := term_strs (term_nth c 1) in
  let probes := term_strs (term_nth c 2) in
  let '(st, outs) := run_history_f f (Check.ScriptObs.harness_interp limit) scripts [] in
  TList [TList outs;
         TList (map TStrs (rev (i_trace st)));
         TList (map (Check.ScriptObs.obs_var st) probes);
         TInt (Z.of_nat (sc_current (i_scopes st)))].

Lemma script_model_obs_f_model c :
  script_model_obs_f Check.ScriptObs.model_fuel c = Check.ScriptObs.script_model_obs c.
Proof. unfold script_model_obs_f, Check.ScriptObs.script_model_obs. rewrite run_history_f_model. reflexivity. Qed.

(* the observation the checker compares with the implementation does not depend on the fuel, as
   soon as it reports no FUEL outcome *)
Theorem script_model_obs_fuel_irrelevant : forall c f',
  ~ In fuel_obs (term_list (term_nth (Check.ScriptObs.script_model_obs c) 0)) ->
  (Check.ScriptObs.model_fuel <= f')%nat ->
  script_model_obs_f f' c = Check.ScriptObs.script_model_obs c.
Proof.
  intros c f' Hno Hle. rewrite <- script_model_obs_f_model in *.
  unfold script_model_obs_f in *. cbv zeta in *.
  destruct (run_history_f Check.ScriptObs.model_fuel _ _ []) as [st outs] eqn:E.
  cbn [term_nth term_list nth] in Hno.
  rewrite (run_history_fuel_mono _ f' _ _ _ _ _ Hle E Hno). reflexivity.
Qed.

Print Assumptions eval_fuel_unobservable.
Print Assumptions expr_fuel_unobservable.
Print Assumptions eval_value_fuel_unobservable.
Print Assumptions eval_model_fuel.
Print Assumptions eval_value_model_fuel.
Print Assumptions expr_model_fuel.
Print Assumptions run_history_fuel_mono.
Print Assumptions run_history_model_fuel.
Print Assumptions script_model_obs_fuel_irrelevant.
