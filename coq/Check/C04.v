(* Check/C04.v — C04: a value's string is immutable and its typed views are faithful to it.
   The one place where the caches of value.rs are modelled: a cell holds the string it was built
   from and the KIND of its current data representation (which matters only for the documented
   numeric-as-boolean shortcut). *)
From Molt Require Import Model.Base Model.ListSyn Model.Float Model.Value Model.State Model.Script
  Model.Parser Model.Unicode.
Local Open Scope N_scope.

Definition is_case (c : term) (k : string) : bool := str_eqb (term_str (term_nth c 0)) (lit k).

Definition obs_view {A} (r : str + A) (f : A -> term) : term :=
  match r with inr a => TTag "Ok" [f a] | inl m => TTag "Err" [TStr m] end.

(* the data representation a cell carries after a request *)
Inductive rep := RNone | RInt (z : Z) | RFlt (f : fl) | ROther.

Definition view_of (s : str) (r : rep) (kind : str) : term * rep :=
  if str_eqb kind (lit "str") then (TTag "Ok" [TStr s], r)
  else if str_eqb kind (lit "int") then
    match r with
    | RInt z => (TTag "Ok" [TInt z], r)
    | _ => match get_int s with
           | Some z => (TTag "Ok" [TInt z], RInt z)
           | None => (TTag "Err" [TStr (err_expected_int s)], r)
           end
    end
  else if str_eqb kind (lit "float") then
    match r with
    | RFlt f => (TTag "Ok" [TStr (fmt_float f)], r)
    | _ => match get_float s with
           | Some f => (TTag "Ok" [TStr (fmt_float f)], RFlt f)
           | None => (TTag "Err" [TStr (err_expected_float s)], r)
           end
    end
  else if str_eqb kind (lit "bool") then
    match r with
    | RInt z => (TTag "Ok" [TBool (negb (Z.eqb z 0))], r)
    | RFlt f => (TTag "Ok" [TBool (negb (f_is_zero f))], r)
    | _ => match get_bool s with
           | Some b => (TTag "Ok" [TBool b], ROther)
           | None => (TTag "Err" [TStr (err_expected_bool s)], r)
           end
    end
  else if str_eqb kind (lit "list") then
    match v_as_list (VStr s) with
    | inr l => (TTag "Ok" [TStrs (map as_str l)], ROther)
    | inl m => (TTag "Err" [TStr m], r)
    end
  else if str_eqb kind (lit "dict") then
    match v_as_dict (VStr s) with
    | inr d => (TTag "Ok" [TList (map (fun kv => TStrs [as_str (fst kv); as_str (snd kv)]) d)], ROther)
    | inl m => (TTag "Err" [TStr m], r)
    end
  else if str_eqb kind (lit "varname") then
    (TTag "Ok" [match parse_varname_literal s with
                | (n, Some i) => TStrs [n; i]
                | (n, None) => TStrs [n]
                end], ROther)
  else (TTag "Ok" [TBool (match parse is_alphanumeric s with POk _ _ => true | _ => false end)], r).

Definition c04_model_obs (c : term) : term :=
  if is_case c "int" then
    let s := as_str (VInt (term_int (term_nth c 1))) in
    TList [TStr s; obs_view (v_as_int (VStr s)) TInt]
  else if is_case c "flt" then
    let f := term_int (term_nth c 1) in
    let s := as_str (VFlt f) in
    TList [TStr s; TBool (match get_float s with
                          | Some g => (f_is_nan g && f_is_nan f) || Z.eqb g f
                          | None => false
                          end)]
  else if is_case c "bool" then
    let b := Z.eqb (term_int (term_nth c 1)) 1 in
    let s := as_str (VBool b) in
    TList [TStr s; match v_as_bool (VStr s) with inr x => TBool x | inl _ => TStr (lit "err") end]
  else if is_case c "list" then
    let s := as_str (VList (map VStr (term_strs (term_nth c 1)))) in
    TList [TStr s; obs_view (v_as_list (VStr s)) (fun l => TStrs (map as_str l))]
  else if is_case c "dict" then
    let d := list_to_dict (map VStr (term_strs (term_nth c 1))) in
    let s := as_str (VDict d) in
    TList [TStr s; obs_view (v_as_dict (VStr s))
                     (fun d => TList (map (fun kv => TStrs [as_str (fst kv); as_str (snd kv)]) d))]
  else if is_case c "reqt" then
    (* a value born from typed data: its string is the string of the data whatever was viewed first *)
    let t := term_nth c 1 in
    let k := term_str (term_nth t 0) in
    let v := if str_eqb k (lit "i") then VInt (term_int (term_nth t 1))
             else if str_eqb k (lit "f") then
               match get_float (term_str (term_nth t 1)) with Some f => VFlt f | None => VStr [] end
             else if str_eqb k (lit "b") then VBool (Z.eqb (term_int (term_nth t 1)) 1)
             else if str_eqb k (lit "l") then VList (map VStr (term_strs (term_nth t 1)))
             else VDict (list_to_dict (map VStr (term_strs (term_nth t 1)))) in
    TList [TStr (as_str v); TStr (as_str v)]
  else if is_case c "req" then
    let s := term_str (term_nth c 1) in
    (* a value and its clone share one cell *)
    let '(outs, _) := fold_left (fun acc rq =>
                         let '(outs, r) := acc in
                         let '(o, r') := view_of s r (term_str (term_nth rq 0)) in
                         (outs ++ [o], r'))
                       (term_list (term_nth c 2)) ([], RNone) in
    TList [TList outs; TBool true]
  else if is_case c "eq" || is_case c "eqv" then
    let e := str_eqb (term_str (term_nth c 1)) (term_str (term_nth c 2)) in TList [TBool e; TBool e]
  else
    let e := str_eqb (show_Z (term_int (term_nth c 1))) (term_str (term_nth c 2)) in TList [TBool e; TBool e].

(* ---- the oracle ---- *)
Definition c04_spec_ok (c obs : term) : bool :=
  match term_list obs with
  | [a; b] =>
      if is_case c "reqt" then term_eqb a b
      else if is_case c "int" then
        (* the string converts back to the same integer *)
        term_eqb b (TTag "Ok" [TInt (term_int (term_nth c 1))])
      else if is_case c "flt" then term_eqb b (TBool true)
      else if is_case c "bool" then term_eqb b (TBool (Z.eqb (term_int (term_nth c 1)) 1))
      else if is_case c "list" then term_eqb b (TTag "Ok" [term_nth c 1])
      else if is_case c "dict" then
        term_eqb b (TTag "Ok" [TList ((fix pairs (l : list term) : list term :=
                                         match l with k :: v :: r => TList [k; v] :: pairs r | _ => [] end)
                                      (term_list (term_nth c 1)))])
      else if is_case c "req" then
        (* the string never changed (same bytes, same address), and every view except a boolean
           requested after a numeric one is what the string alone determines *)
        term_eqb b (TBool true)
        && (fix go (rqs outs : list term) (numeric : bool) : bool :=
              match rqs, outs with
              | [], [] => true
              | rq :: rr, o :: orr =>
                  let kind := term_str (term_nth rq 0) in
                  let fresh := fst (view_of (term_str (term_nth c 1)) RNone kind) in
                  let isok := match o with TList (TStr t :: _) => str_eqb t (lit "Ok") | _ => false end in
                  let numeric' := numeric || (isok && (str_eqb kind (lit "int") || str_eqb kind (lit "float"))) in
                  (if str_eqb kind (lit "bool") && numeric then true else term_eqb o fresh) && go rr orr numeric'
              | _, _ => false
              end) (term_list (term_nth c 2)) (term_list a) false
      else
        (* equality and hashing follow the string form *)
        let e := if is_case c "eq" || is_case c "eqv" then str_eqb (term_str (term_nth c 1)) (term_str (term_nth c 2))
                 else str_eqb (show_Z (term_int (term_nth c 1))) (term_str (term_nth c 2)) in
        term_eqb a (TBool e) && term_eqb b (TBool e)
  | _ => false
  end.
Definition c04_known (c : term) : bool := false.
Definition c04_nontrivial (c : term) : bool := true.
