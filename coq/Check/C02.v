(* Check/C02.v — C02: scripts are split into commands and words, and substituted, per the grammar.
   Two kinds of cases:
   - (limit scripts probes): a raw string; the oracle is agreement with the model (whose parser
     is the subject of Proofs/GrammarFacts.v);
   - (limit (prelude text) probes tree fault): a script rendered from a concrete syntax tree; the
     oracle is Spec/SpecGrammar.v: the tree renders to exactly this text, and the commands
     invoked, their arguments, the variables left behind and the result are the ones computed
     on the tree.  With fault > 0 an ill-formed command was added to the text: the evaluation
     must be an error and nothing else may have happened. *)
From Molt Require Import Model.Base Check.ScriptObs Spec.SpecGrammar.
Local Open Scope N_scope.

Definition c02_model_obs := script_model_obs.

(* the environment the checker's prelude sets up *)
Definition c02_env0 : list (str * str) :=
  [(lit "a", lit "1"); (lit "l", lit "p q r"); (lit "r", lit "rec");
   (lit "d", lit "$a [rec boom] \n {"); (lit "e", []); (lit "a b", lit "sp"); ([233], [252]);
   (lit "b(1)", lit "x"); (lit "b(a)", lit "y")].
Definition c02_probes : list str :=
  [lit "a"; lit "l"; lit "r"; lit "d"; lit "e"; lit "n1"; lit "n2"; lit "a b"; [233]].

(* the ill-formed commands (twin of harness c02cst::FAULTS): text, and whether it goes first *)
Definition c02_fault (k : Z) : str * bool :=
  if Z.eqb k 1 then (lit "rec {abc", false)
  else if Z.eqb k 2 then (lit "rec ""abc", false)
  else if Z.eqb k 3 then (lit "rec [rec a", false)
  else if Z.eqb k 4 then (lit "rec {a}b", false)
  else if Z.eqb k 5 then (lit "rec ""a""b", false)
  else if Z.eqb k 6 then (lit "rec ${a", false)
  else if Z.eqb k 7 then (lit "rec $b(1", false)
  else if Z.eqb k 8 then (lit "rec {a}b" ++ [c_nl], true)
  else (lit "rec ""a""b;", true).

Definition vars_of (env : list (str * str)) : term :=
  TList (map (fun n => match env_get n env with
                       | Some v => TTag "scalar" [TStr v]
                       | None => TTag "unset" []
                       end) c02_probes).

Definition ends_terminated (s : str) : bool :=
  match rev s with
  | [] => true
  | c :: _ => (c =? c_semi) || (c =? c_nl)
  end.

Definition is_error_outcome (t : term) : bool :=
  match t with
  | TList (TStr tg :: TInt code :: _) => str_eqb tg (lit "Err") && Z.eqb code 1
  | _ => false
  end.

Definition c02_tree_ok (c obs : term) (tree : term) (fault : Z) : bool :=
  let text := nth 1 (term_strs (term_nth c 1)) [] in
  match dec_script tree, term_list obs with
  | Some sc, [TList [_; out]; TList calls; vars; TInt level] =>
      wf sc && Z.eqb level 0 &&
      if Z.eqb fault 0 then
        str_eqb (render sc) text
        && match expected c02_env0 sc with
           | Some (trace, env, res) =>
               term_eqb out (TTag "Ok" [TStr res])
               && term_eqb (TList calls) (TList (map TStrs trace))
               && term_eqb vars (vars_of env)
           | None => false
           end
      else
        let '(ft, at_start) := c02_fault fault in
        ends_terminated (render sc)
        && str_eqb text (if at_start then ft ++ render sc else render sc ++ ft)
        && is_error_outcome out
        && match calls with [] => true | _ => false end
        && term_eqb vars (vars_of c02_env0)
  | _, _ => false
  end.

Definition c02_spec_ok (c obs : term) : bool :=
  match term_list c with
  | [_; _; _; tree; TInt fault] => c02_tree_ok c obs tree fault
  | _ => term_eqb obs (script_model_obs c)
  end.
Definition c02_known (c : term) : bool := false.
(* non-trivial: a tree case, or a raw string on which something was invoked or rejected *)
Definition c02_nontrivial (c : term) : bool :=
  match term_list c with
  | [_; _; _; TList (_ :: _); _] => true
  | _ => match term_list (script_model_obs c) with
         | [TList [_; out]; TList calls; _; _] =>
             match calls with _ :: _ => true | [] => is_error_outcome out end
         | _ => false
         end
  end.
