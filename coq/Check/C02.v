(* Check/C02.v — C02: scripts are split into commands and words, and substituted, per the grammar.
   First stage: the observation is the generic script observation; the oracle is refined in
   Spec/SpecGrammar.v. *)
From Molt Require Import Model.Base Check.ScriptObs.

Definition c02_model_obs := script_model_obs.
Definition c02_spec_ok (c obs : term) : bool := term_eqb obs (script_model_obs c).
Definition c02_known (c : term) : bool := false.
Definition c02_nontrivial (c : term) : bool := true.
