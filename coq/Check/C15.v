(* Check/C15.v — C15: dictionaries are insertion-ordered maps with value semantics.
   The oracle is a reference interpreter of the operation sequence over an abstract ordered map:
   every variable holds a STRING; an operation parses it into (key, value) pairs, applies the
   ordered-map operation written in specification style (filter / replace-in-place-or-append),
   and formats the result.  Error messages are not compared, only that an error occurs and
   that it changes nothing. *)
From Molt Require Import Model.Base Model.ListSyn Check.ScriptObs.
Local Open Scope N_scope.

Definition c15_model_obs := script_model_obs.

Definition amap := list (str * str).

Definition parse_dict (s : str) : option amap :=
  match get_list s with
  | Some (inr l) =>
      (fix go (l : list str) (acc : amap) : option amap :=
         match l with
         | [] => Some acc
         | k :: v :: r =>
             go r (if existsb (fun kv => str_eqb (fst kv) k) acc
                   then map (fun kv => if str_eqb (fst kv) k then (fst kv, v) else kv) acc
                   else acc ++ [(k, v)])
         | [_] => None
         end) l []
  | _ => None
  end.

Definition format_dict (d : amap) : str := list_to_string (flat_map (fun kv => [fst kv; snd kv]) d).

Definition a_lookup (d : amap) (k : str) : option str :=
  match find (fun kv => str_eqb (fst kv) k) d with Some kv => Some (snd kv) | None => None end.
Definition a_insert (d : amap) (k v : str) : amap :=
  if existsb (fun kv => str_eqb (fst kv) k) d
  then map (fun kv => if str_eqb (fst kv) k then (fst kv, v) else kv) d
  else d ++ [(k, v)].
Definition a_remove (d : amap) (k : str) : amap := filter (fun kv => negb (str_eqb (fst kv) k)) d.

(* None = error *)
Fixpoint path_get (s : str) (ks : list str) : option str :=
  match ks with
  | [] => Some s
  | k :: r => match parse_dict s with
              | Some d => match a_lookup d k with Some v => path_get v r | None => None end
              | None => None
              end
  end.
Fixpoint path_exists (s : str) (ks : list str) : bool :=
  match ks with
  | [] => true
  | k :: r => match parse_dict s with
              | Some d => match a_lookup d k with Some v => path_exists v r | None => false end
              | None => false
              end
  end.
Fixpoint path_insert (s : str) (ks : list str) (v : str) : option str :=
  match ks with
  | [] => None
  | [k] => match parse_dict s with Some d => Some (format_dict (a_insert d k v)) | None => None end
  | k :: r =>
      match parse_dict s with
      | Some d =>
          let sub := match a_lookup d k with Some x => x | None => [] end in
          match path_insert sub r v with
          | Some nv => Some (format_dict (a_insert d k nv))
          | None => None
          end
      | None => None
      end
  end.
Fixpoint path_remove (s : str) (ks : list str) : option str :=
  match ks with
  | [] => None
  | [k] => match parse_dict s with Some d => Some (format_dict (a_remove d k)) | None => None end
  | k :: r =>
      match parse_dict s with
      | Some d =>
          match a_lookup d k with
          | Some sub => match path_remove sub r with
                        | Some nv => Some (format_dict (a_insert d k nv))
                        | None => None
                        end
          | None => None
          end
      | None => None
      end
  end.

(* a variable is absent (None) or holds a string; set/unset through a path treat an absent
   variable as an empty dictionary and create it only when they succeed *)
Definition env := list (str * option str).
Definition e_get (e : env) (v : str) : str :=
  match find (fun kv => str_eqb (fst kv) v) e with Some (_, Some s) => s | _ => [] end.
Definition e_has (e : env) (v : str) : bool :=
  match find (fun kv => str_eqb (fst kv) v) e with Some (_, Some _) => true | _ => false end.
Definition e_set (e : env) (v s : str) : env :=
  map (fun kv => if str_eqb (fst kv) v then (v, Some s) else kv) e.
Definition e_drop (e : env) (v : str) : env :=
  map (fun kv => if str_eqb (fst kv) v then (v, None) else kv) e.

Definition is_op (o : term) (k : string) : bool := str_eqb (term_str (term_nth o 0)) (lit k).

(* one operation: new environment, and the expected outcome: Some value, or None for an error *)
Definition spec_op (e : env) (o : term) : env * option str :=
  let a1 := term_str (term_nth o 1) in
  if is_op o "create" then
    let kv := term_strs (term_nth o 2) in
    match parse_dict (list_to_string kv) with
    | Some d => let s := format_dict d in (e_set e a1 s, Some s)
    | None => (e, None)
    end
  else if is_op o "set" then
    match path_insert (e_get e a1) (term_strs (term_nth o 2)) (term_str (term_nth o 3)) with
    | Some s => (e_set e a1 s, Some s)
    | None => (e, None)
    end
  else if is_op o "unset" then
    match path_remove (e_get e a1) (term_strs (term_nth o 2)) with
    | Some s => (e_set e a1 s, Some s)
    | None => (e, None)
    end
  else if is_op o "drop" then (e_drop e a1, Some [])
  else if is_op o "mklist" then
    (* a list value: its string is the list of its elements, whatever is asked of it later *)
    let s := list_to_string (term_strs (term_nth o 2)) in (e_set e a1 s, Some [48])
  else if (is_op o "remove" || is_op o "copy") && negb (e_has e (term_str (term_nth o 2))) then (e, None)
  else if (is_op o "get" || is_op o "exists" || is_op o "keys" || is_op o "values" || is_op o "size")
          && negb (e_has e a1) then (e, None)
  else if is_op o "remove" then
    match parse_dict (e_get e (term_str (term_nth o 2))) with
    | Some d => let s := format_dict (fold_left a_remove (term_strs (term_nth o 3)) d) in (e_set e a1 s, Some s)
    | None => (e, None)
    end
  else if is_op o "copy" then
    let s := e_get e (term_str (term_nth o 2)) in (e_set e a1 s, Some s)
  else if is_op o "get" then (e, path_get (e_get e a1) (term_strs (term_nth o 2)))
  else if is_op o "exists" then (e, Some (if path_exists (e_get e a1) (term_strs (term_nth o 2)) then [49] else [48]))
  else if is_op o "keys" then
    (e, match parse_dict (e_get e a1) with Some d => Some (list_to_string (map fst d)) | None => None end)
  else if is_op o "values" then
    (e, match parse_dict (e_get e a1) with Some d => Some (list_to_string (map snd d)) | None => None end)
  else if is_op o "size" then
    (e, match parse_dict (e_get e a1) with Some d => Some (show_Z (Z.of_nat (length d))) | None => None end)
  else (* lit *)
    let s := term_str (term_nth o 2) in (e_set e a1 s, Some s).

Fixpoint spec_run (e : env) (ops : list term) (acc : list (option str)) : env * list (option str) :=
  match ops with
  | [] => (e, rev acc)
  | o :: r =>
      (* ("quiet" op): the same operation, its script followed by `; string length {}` so that nothing
         asks for the string of the value it produced: the outcome is 0 when the operation succeeds *)
      if is_op o "quiet" then
        let '(e', out) := spec_op e (term_nth o 1) in
        spec_run e' r (match out with Some _ => Some [48] | None => None end :: acc)
      else let '(e', out) := spec_op e o in spec_run e' r (out :: acc)
  end.

Definition outcome_matches (exp : option str) (obs : term) : bool :=
  match exp, obs with
  | Some s, TList [TStr t; TStr v] => str_eqb t (lit "Ok") && str_eqb v s
  | None, TList (TStr t :: _) => str_eqb t (lit "Err")
  | _, _ => false
  end.

Definition c15_spec_ok (c obs : term) : bool :=
  let ops := term_list (term_nth c 3) in
  let e0 := [(lit "d", Some []); (lit "e", Some []); (lit "f", Some [])] in
  let '(e, outs) := spec_run e0 ops [] in
  match term_list obs with
  | [TList (_ :: obs_outs); _; TList vars; _] =>
      Nat.eqb (length outs) (length obs_outs)
      && forallb (fun p => outcome_matches (fst p) (snd p)) (combine outs obs_outs)
      && term_eqb (TList vars) (TList (map (fun kv => match snd kv with
                                                          | Some s => TTag "scalar" [TStr s]
                                                          | None => TTag "unset" []
                                                          end) e))
  | _ => false
  end.
Definition c15_known (c : term) : bool := false.
Definition c15_nontrivial (c : term) : bool := Nat.ltb 1 (length (term_list (term_nth c 3))).
