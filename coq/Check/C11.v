(* Check/C11.v — C11: the string form of a list is safe to evaluate as a command. *)
From Molt Require Import Model.Base Model.ListSyn Model.Float Model.Value Model.State Model.Script
  Model.Parser Model.Eval Model.Expr Model.Commands Model.Unicode Model.Interp Check.ScriptObs.
Local Open Scope N_scope.

Definition q_name : str := [113; 1].
Definition i_name : str := [105; 1].

(* case: (elements mode).  obs: (outcome, recorder calls) *)
Definition c11_model_obs (c : term) : term :=
  let elems := term_strs (term_nth c 0) in
  let mode := term_int (term_nth c 1) in
  let st0 := interp_new in
  let st0 := set_cmds st0 (assoc_set (hd [] elems) (CmdNative NRecorder 0) (i_cmds st0)) in
  let text := VStr (as_str (VList (map VStr elems))) in
  let ev := eval_value std_uni model_fuel in
  let '(st, r) :=
    if Z.eqb mode 0 then ev st0 text
    else if Z.eqb mode 1 then
      match ev st0 (VStr (as_str (VList [VStr (lit "proc"); VStr q_name; VStr []; text]))) with
      | (st1, Ok _) => ev st1 (VStr q_name)
      | other => other
      end
    else if Z.eqb mode 2 then
      ev st0 (VStr (as_str (VList [VStr (lit "foreach"); VStr i_name; VStr (lit "1"); text])))
    else
      let st1 := fst (fold_left (fun acc e =>
                         let '(st, i) := acc in
                         (fst (st_set_scalar st (lit "p" ++ show_Z (Z.of_nat i)) (VStr e)), S i))
                       elems (st0, O)) in
      let parts := join_str [c_space] (map (fun i => lit "$p" ++ show_Z (Z.of_nat i)) (seq 0 (length elems))) in
      ev st1 (VStr (lit "if 1 [list " ++ parts ++ lit "]")) in
  TList [obs_res r; TList (map TStrs (rev (i_trace st)))].

(* the property: exactly one invocation, whose argv is exactly the list *)
Definition c11_spec_ok (c obs : term) : bool :=
  let elems := term_strs (term_nth c 0) in
  match term_list obs with
  | [TList (TStr t :: _); TList [call]] => str_eqb t (lit "Ok") && term_eqb call (TStrs elems)
  | _ => false
  end.
Definition c11_known (c : term) : bool := false.
Definition c11_nontrivial (c : term) : bool :=
  existsb (fun w => match get_mode w with AsIs => false | _ => true end) (term_strs (term_nth c 0)).
