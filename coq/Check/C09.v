(* Check/C09.v — C09: control structures and procedures execute per their operational semantics.
   The oracle is a reference interpreter that works on the PROGRAM TREE of the case (not on the
   text): big-step rules for set/incr/expr, if/elseif/else, while, for, foreach, catch and
   procedure calls over an environment of string-valued variables. *)
From Molt Require Import Model.Base Model.ListSyn Model.Float Model.Value Model.State Model.Expr
  Check.ScriptObs Spec.SpecExpr.
Local Open Scope Z_scope.

Definition c09_model_obs := script_model_obs.

(* ---- reference semantics ---- *)
Definition venv := list (str * str).
Definition v_get (e : venv) (n : str) : option str :=
  match find (fun kv => str_eqb (fst kv) n) e with Some kv => Some (snd kv) | None => None end.
Definition v_set (e : venv) (n s : str) : venv :=
  if existsb (fun kv => str_eqb (fst kv) n) e
  then map (fun kv => if str_eqb (fst kv) n then (n, s) else kv) e
  else e ++ [(n, s)].

Inductive out9 := ONorm (v : str) | OBreak | OContinue | OReturn (v : str) | OError
  | ORetBC (is_break : bool).   (* return -code break / continue: a return until it crosses the procedure boundary *)

Definition tg (t : term) (k : string) : bool := str_eqb (term_str (term_nth t 0)) (lit k).
Definition dstr (d : datum) : str := datum_str d.

(* expressions: None = error *)
Fixpoint ev9 (e : venv) (t : term) : option datum :=
  match t with
  | TList [TStr k; TInt z] => Some (DInt z)                                   (* lit *)
  | TList [TStr k; TStr v] =>
      if str_eqb k (lit "var") then
        match v_get e v with
        | Some s => match expr_parse_string s with Ok d => Some d | _ => None end
        | None => None
        end
      else (* llen *)
        match v_get e v with
        | Some s => match get_list s with Some (inr l) => Some (DInt (Z.of_nat (length l))) | _ => None end
        | None => None
        end
  | TList [TStr k; TStr v; i] =>                                              (* lidx v e *)
      match v_get e v, ev9 e i with
      | Some s, Some di =>
          (* the single index argument is itself a list of indices: none = the value itself,
             several = a path into nested lists *)
          match get_list (dstr di) with
          | Some (inr idx) =>
              match (fix path (s : str) (idx : list str) : option str :=
                       match idx with
                       | [] => Some s
                       | i :: r =>
                           match get_list s, get_int i with
                           | Some (inr l), Some z =>
                               path (if (z <? 0) || (Z.of_nat (length l) <=? z) then [] else nth (Z.to_nat z) l []) r
                           | _, _ => None
                           end
                       end) s idx with
              | Some el => match expr_parse_string el with Ok d => Some d | _ => None end
              | None => None
              end
          | _ => None
          end
      | _, _ => None
      end
  | TList [TStr k; TStr op; a; b] =>                                          (* bin *)
      if str_eqb op (lit "&&") || str_eqb op (lit "||") then
        match ev9 e a with
        | Some va =>
            match truth va with
            | Ok ta =>
                if str_eqb op (lit "&&") && negb ta then Some (DInt 0)
                else if str_eqb op (lit "||") && ta then Some (DInt 1)
                else match ev9 e b with
                     | Some vb => match truth vb with Ok tb => Some (DInt (if tb then 1 else 0)) | _ => None end
                     | None => None
                     end
            | _ => None
            end
        | None => None
        end
      else
        match ev9 e a, ev9 e b with
        | Some va, Some vb => match apply_binop (tok_of_binop op) va vb with Ok d => Some d | _ => None end
        | _, _ => None
        end
  | _ => None
  end.

(* the value of [expr {e}] as a string *)
Definition ev9s (e : venv) (t : term) : option str :=
  match ev9 e t with Some d => Some (dstr d) | None => None end.

(* the truth of an `if` condition: a number is tested against zero, a string must be a boolean word *)
Definition cond9 (e : venv) (t : term) : option bool :=
  match ev9 e t with
  | Some (DInt z) => Some (negb (z =? 0))
  | Some (DFlt f) => Some (negb (f_is_zero f))
  | Some (DStr s) => get_bool s
  | None => None
  end.

Record st9 := { genv : venv; lenv : option venv; tr9 : list (list str) }.
Definition cur9 (s : st9) : venv := match lenv s with Some l => l | None => genv s end.
Definition upd9 (s : st9) (f : venv -> venv) : st9 :=
  match lenv s with
  | Some l => {| genv := genv s; lenv := Some (f l); tr9 := tr9 s |}
  | None => {| genv := f (genv s); lenv := None; tr9 := tr9 s |}
  end.

Definition procs9 := list (str * (list str * list term)).

Section WithProcs.
Variable procs : procs9.

Fixpoint evals (e : venv) (ts : list term) : option (list str) :=
  match ts with
  | [] => Some []
  | t :: r => match ev9s e t, evals e r with Some v, Some vs => Some (v :: vs) | _, _ => None end
  end.

Fixpoint chunk_assign (e : venv) (vars : list str) (l : list str) : venv * list str :=
  match vars with
  | [] => (e, l)
  | v :: vs => match l with
               | x :: r => chunk_assign (v_set e v x) vs r
               | [] => chunk_assign (v_set e v []) vs []
               end
  end.

Fixpoint stmt9 (fuel : nat) (s : st9) (t : term) {struct fuel} : st9 * out9 :=
  match fuel with
  | O => (s, OError)
  | S f =>
      let block := fix block (s : st9) (b : list term) (last : str) : st9 * out9 :=
        match b with
        | [] => (s, ONorm last)
        | x :: r => match stmt9 f s x with
                    | (s1, ONorm v) => block s1 r v
                    | other => other
                    end
        end in
      (* a loop over the counter variable c from its current value while c < k *)
      let loop_while := fix loop_while (n : nat) (s : st9) (c : str) (k : Z) (body : list term) (is_for : bool)
                           : st9 * out9 :=
        match n with
        | O => (s, ONorm [])
        | S n' =>
            match v_get (cur9 s) c with
            | Some cs =>
                match get_int cs with
                | Some cv =>
                    if cv <? k then
                      (* while: incr first, then the body; for: body, then incr *)
                      let s1 := if is_for then s else upd9 s (fun e => v_set e c (show_Z (cv + 1))) in
                      match block s1 body [] with
                      | (s2, ONorm _) | (s2, OContinue) =>
                          let s3 := if is_for then
                                      match v_get (cur9 s2) c with
                                      | Some cs2 => match get_int cs2 with
                                                    | Some c2 => upd9 s2 (fun e => v_set e c (show_Z (c2 + 1)))
                                                    | None => s2
                                                    end
                                      | None => s2
                                      end
                                    else s2 in
                          loop_while n' s3 c k body is_for
                      | (s2, OBreak) => (s2, ONorm [])
                      | other => other
                      end
                    else (s, ONorm [])
                | None => (s, OError)
                end
            | None => (s, OError)
            end
        end in
      (* while {[incr c] <= k} body: the test itself increments the counter, before every iteration *)
      let loop_whilec := fix loop_whilec (n : nat) (s : st9) (c : str) (k : Z) (body : list term)
                           : st9 * out9 :=
        match n with
        | O => (s, ONorm [])
        | S n' =>
            match v_get (cur9 s) c with
            | Some cs =>
                match get_int cs with
                | Some cv =>
                    let s1 := upd9 s (fun e => v_set e c (show_Z (cv + 1))) in
                    if cv + 1 <=? k then
                      match block s1 body [] with
                      | (s2, ONorm _) | (s2, OContinue) => loop_whilec n' s2 c k body
                      | (s2, OBreak) => (s2, ONorm [])
                      | other => other
                      end
                    else (s1, ONorm [])
                | None => (s, OError)
                end
            | None => (s, OError)
            end
        end in
      let loop_each := fix loop_each (n : nat) (s : st9) (vars : list str) (l : list str) (body : list term)
                          : st9 * out9 :=
        match n with
        | O => (s, ONorm [])
        | S n' =>
            match l with
            | [] => (s, ONorm [])
            | _ =>
                let '(e1, rest) := chunk_assign (cur9 s) vars l in
                let s1 := upd9 s (fun _ => e1) in
                match block s1 body [] with
                | (s2, ONorm _) | (s2, OContinue) => loop_each n' s2 vars rest body
                | (s2, OBreak) => (s2, ONorm [])
                | other => other
                end
            end
        end in
      let e := cur9 s in
      let name := term_str (term_nth t 1) in
      if tg t "set" then
        match ev9s e (term_nth t 2) with
        | Some v => (upd9 s (fun e => v_set e name v), ONorm v)
        | None => (s, OError)
        end
      else if tg t "incr" then
        match (match v_get e name with Some cs => get_int cs | None => Some 0 end) with
        | Some z => let nv := z + term_int (term_nth t 2) in
                    if in_i64 nv then (upd9 s (fun e => v_set e name (show_Z nv)), ONorm (show_Z nv)) else (s, OError)
        | None => (s, OError)
        end
      else if tg t "rec" then
        match evals e (term_list (term_nth t 2)) with
        | Some vs =>
            ({| genv := genv s; lenv := lenv s;
                tr9 := tr9 s ++ [lit "rec" :: (lit "t" ++ show_Z (term_int (term_nth t 1))) :: vs] |},
             ONorm (last vs []))
        | None => (s, OError)
        end
      else if tg t "lappend" then
        match ev9s e (term_nth t 2) with
        | Some v =>
            match (match v_get e name with Some ls => get_list ls | None => Some (inr []) end) with
            | Some (inr l) => let nl := list_to_string (l ++ [v]) in (upd9 s (fun e => v_set e name nl), ONorm nl)
            | _ => (s, OError)
            end
        | None => (s, OError)
        end
      else if tg t "break" then (s, OBreak)
      else if tg t "continue" then (s, OContinue)
      else if tg t "retbreak" then (s, ORetBC true)
      else if tg t "retcont" then (s, ORetBC false)
      else if tg t "return" then
        match ev9s e (term_nth t 1) with Some v => (s, OReturn v) | None => (s, OError) end
      else if tg t "if" then
        (fix clauses (cl : list term) : st9 * out9 :=
           match cl with
           | [] => match term_list (term_nth t 2) with
                   | [TList b] => block s b []
                   | _ => (s, ONorm [])
                   end
           | c :: r =>
               match cond9 e (term_nth c 0) with
               | Some true => block s (term_list (term_nth c 1)) []
               | Some false => clauses r
               | None => (s, OError)
               end
           end) (term_list (term_nth t 1))
      else if tg t "while" then
        let c := name in
        loop_while (S (Z.to_nat (term_int (term_nth t 2)))) (upd9 s (fun e => v_set e c (lit "0"))) c
                   (term_int (term_nth t 2)) (term_list (term_nth t 3)) false
      else if tg t "whilec" then
        let c := name in
        loop_whilec (S (S (Z.to_nat (term_int (term_nth t 2))))) (upd9 s (fun e => v_set e c (lit "0"))) c
                    (term_int (term_nth t 2)) (term_list (term_nth t 3))
      else if tg t "for" then
        let c := name in
        loop_while (S (Z.to_nat (term_int (term_nth t 2)))) (upd9 s (fun e => v_set e c (lit "0"))) c
                   (term_int (term_nth t 2)) (term_list (term_nth t 3)) true
      else if tg t "foreach" then
        let vars := term_strs (term_nth t 1) in
        let src := term_nth t 2 in
        match (if tg src "lvar"
               then match v_get e (term_str (term_nth src 1)) with
                    | Some ls => match get_list ls with Some (inr l) => Some l | _ => None end
                    | None => None
                    end
               else Some (map (fun z => show_Z (term_int z)) (term_list (term_nth src 1)))) with
        | Some l =>
            (* no loop variables: an error whatever the list holds *)
            match vars with
            | [] => (s, OError)
            | _ => loop_each (S (length l)) s vars l (term_list (term_nth t 3))
            end
        | None => (s, OError)
        end
      else if tg t "catch" then
        match block s (term_list (term_nth t 1)) [] with
        | (s1, ONorm _) => (s1, ONorm (lit "0"))
        | (s1, OError) => (s1, ONorm (lit "1"))
        | (s1, OReturn _) => (s1, ONorm (lit "2"))
        | (s1, ORetBC _) => (s1, ONorm (lit "2"))
        | (s1, OBreak) => (s1, ONorm (lit "3"))
        | (s1, OContinue) => (s1, ONorm (lit "4"))
        end
      else if tg t "call" then
        match evals e (term_list (term_nth t 3)),
              find (fun p => str_eqb (fst p) (term_str (term_nth t 2))) procs with
        | Some args, Some (_, (params, body)) =>
            if Nat.eqb (length args) (length params) then
              let bound := combine params args in
              let zero := lit "0" in
              let init := fold_left (fun acc v => if existsb (str_eqb v) params then acc else v_set acc v zero)
                                    [lit "x"; lit "y"; lit "z"; lit "w"] bound in
              let init := fold_left (fun acc v => v_set acc v []) [lit "l"; lit "m"; lit "a"; lit "b"] init in
              match block {| genv := genv s; lenv := Some init; tr9 := tr9 s |} body [] with
              | (s1, ONorm v) | (s1, OReturn v) =>
                  (upd9 {| genv := genv s1; lenv := lenv s; tr9 := tr9 s1 |} (fun e => v_set e name v), ONorm v)
              | (s1, ORetBC b) =>
                  (* takes effect in the caller as break / continue; the assignment does not happen *)
                  ({| genv := genv s1; lenv := lenv s; tr9 := tr9 s1 |}, if b then OBreak else OContinue)
              | (s1, _) => ({| genv := genv s1; lenv := lenv s; tr9 := tr9 s1 |}, OError)
              end
            else (s, OError)
        | _, _ => (s, OError)
        end
      else if tg t "setif" then
        match cond9 e (term_nth t 2) with
        | Some b =>
            match ev9s e (if b then term_nth t 3 else term_nth t 4) with
            | Some v => (upd9 s (fun e => v_set e name v), ONorm v)
            | None => (s, OError)
            end
        | None => (s, OError)
        end
      else (s, OError)
  end.

Fixpoint block9 (fuel : nat) (s : st9) (b : list term) (last : str) : st9 * out9 :=
  match b with
  | [] => (s, ONorm last)
  | x :: r => match stmt9 fuel s x with
              | (s1, ONorm v) => block9 fuel s1 r v
              | other => other
              end
  end.
End WithProcs.

Definition init9 : venv :=
  [(lit "x", lit "1"); (lit "y", lit "2"); (lit "z", lit "0"); (lit "w", lit "-1"); (lit "l", []);
   (lit "m", lit "3 4"); (lit "a", []); (lit "b", [])].

Definition c09_spec_ok (c obs : term) : bool :=
  let tree := term_nth c 3 in
  let procs := map (fun p => (term_str (term_nth p 0), (term_strs (term_nth p 1), term_list (term_nth p 2))))
                   (term_list (term_nth tree 0)) in
  let '(s, o) := block9 procs 60 {| genv := init9; lenv := None; tr9 := [] |} (term_list (term_nth tree 1)) [] in
  match term_list obs with
  | [TList [_; out]; TList calls; TList vars; TInt level] =>
      Z.eqb level 0
      && term_eqb (TList calls) (TList (map TStrs (tr9 s)))
      && term_eqb (TList vars)
           (TList (map (fun n => match v_get (genv s) n with
                                 | Some v => TTag "scalar" [TStr v]
                                 | None => TTag "unset" []
                                 end) [lit "x"; lit "y"; lit "z"; lit "w"; lit "l"; lit "m"; lit "a"; lit "b"; lit "u"]))
      && match o, out with
         | ONorm v, TList [TStr t; TStr got] => str_eqb t (lit "Ok") && str_eqb got v
         | OError, TList (TStr t :: _) => str_eqb t (lit "Err")
         (* a break / continue that reaches the top level is reported as an error *)
         | OBreak, TList (TStr t :: _) | OContinue, TList (TStr t :: _) => str_eqb t (lit "Err")
         | _, _ => false
         end
  | _ => false
  end.
Definition c09_known (c : term) : bool := false.
Definition c09_nontrivial (c : term) : bool :=
  Nat.ltb 1 (length (term_list (term_nth (term_nth c 3) 1))).
