(* Check/C09.v — C09: control structures and procedures execute per their operational semantics. *)
From Molt Require Import Model.Base Check.ScriptObs.

Definition c09_model_obs := script_model_obs.
Definition c09_spec_ok (c obs : term) : bool := term_eqb obs (script_model_obs c).
Definition c09_known (c : term) : bool := false.
Definition c09_nontrivial (c : term) : bool := true.
