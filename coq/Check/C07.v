(* Check/C07.v — C07: variables live in the right scope and keep one shape.
   The oracle is a reference interpreter of the operation tree over abstract frames
   name -> Unset | Scalar v | Array m | Link-to-global. *)
From Molt Require Import Model.Base Model.ListSyn Model.Float Model.Value Model.State Model.Script
  Model.Parser Model.Eval Model.Expr Model.Commands Model.Unicode Model.Interp Check.ScriptObs.
Local Open Scope N_scope.

Definition c07_names : list str := [lit "x"; lit "y"; lit "a"; [233]].

Definition canon_call (c : list str) : list str :=
  match c with
  | [r; tg; code; v] =>
      if str_eqb code (lit "0") then
        match tg with
        | k :: _ =>
            if k =? 76 (* L *) then
              match get_list v with
              | Some (inr l) => [r; tg; code; list_to_string (sort_strs (filter (fun n => existsb (str_eqb n) c07_names) l))]
              | _ => c
              end
            else if k =? 80 (* P *) then
              match get_list v with
              | Some (inr l) =>
                  [r; tg; code;
                   list_to_string (sort_strs ((fix pairs (l : list str) : list str :=
                                                 match l with
                                                 | a :: b :: r => (a ++ [c_eq] ++ b) :: pairs r
                                                 | [a] => [a ++ [c_eq]]
                                                 | [] => []
                                                 end) l))]
              | _ => c
              end
            else c
        | [] => c
        end
      else c
  | _ => c
  end.

Definition c07_model_obs (c : term) : term :=
  let '(st, outs) := run_history (harness_interp 0) (term_strs (term_nth c 0)) [] in
  let host := map (fun n =>
      TList [obs_var st n; TBool (sc_exists (i_scopes st) n); TBool (sc_array_exists (i_scopes st) n);
             TInt (Z.of_nat (length (sc_array_map (i_scopes st) n)))]) c07_names in
  TList [TList outs; TList (map (fun call => TStrs (canon_call call)) (rev (i_trace st)));
         TList host; TInt (Z.of_nat (sc_current (i_scopes st)))].

(* ---------------- the reference interpreter ---------------- *)
Inductive avar := AScalar (v : str) | AArray (m : list (str * str)) | ALink.
Definition frame := list (str * avar).

Definition f_get (f : frame) (n : str) : option avar :=
  match find (fun kv => str_eqb (fst kv) n) f with Some kv => Some (snd kv) | None => None end.
Definition f_del (f : frame) (n : str) : frame := filter (fun kv => negb (str_eqb (fst kv) n)) f.
Definition f_put (f : frame) (n : str) (v : avar) : frame := (n, v) :: f_del f n.

(* abstract state: the global frame and the local frames (innermost first) *)
Record astate := { g : frame; locals : list frame }.

Definition cur (s : astate) : frame := match locals s with f :: _ => f | [] => g s end.
Definition with_cur (s : astate) (f : frame) : astate :=
  match locals s with
  | _ :: r => {| g := g s; locals := f :: r |}
  | [] => {| g := f; locals := [] |}
  end.
Definition linked (s : astate) (n : str) : bool :=
  match locals s with
  | f :: _ => match f_get f n with Some ALink => true | _ => false end
  | [] => false
  end.
(* the variable as seen from the current frame *)
Definition look (s : astate) (n : str) : option avar :=
  if linked s n then f_get (g s) n else f_get (cur s) n.
Definition store (s : astate) (n : str) (v : avar) : astate :=
  if linked s n then {| g := f_put (g s) n v; locals := locals s |} else with_cur s (f_put (cur s) n v).
Definition erase (s : astate) (n : str) : astate :=
  if linked s n then with_cur {| g := f_del (g s) n; locals := locals s |} (f_del (cur s) n)
  else with_cur s (f_del (cur s) n).

(* results: Some v = ok with value v, None = error *)
Definition rd (s : astate) (n : str) (i : option str) : option str :=
  match look s n, i with
  | Some (AScalar v), None => Some v
  | Some (AArray m), Some k => match find (fun kv => str_eqb (fst kv) k) m with Some kv => Some (snd kv) | None => None end
  | _, _ => None
  end.
Definition m_put (m : list (str * str)) (k v : str) : list (str * str) :=
  if existsb (fun kv => str_eqb (fst kv) k) m then map (fun kv => if str_eqb (fst kv) k then (k, v) else kv) m
  else m ++ [(k, v)].
Definition wr (s : astate) (n : str) (i : option str) (v : str) : astate * option str :=
  match look s n, i with
  | Some (AArray _), None => (s, None)
  | _, None => (store s n (AScalar v), Some v)
  | Some (AScalar _), Some _ => (s, None)
  | Some (AArray m), Some k => (store s n (AArray (m_put m k v)), Some v)
  | _, Some k => (store s n (AArray [(k, v)]), Some v)
  end.

Definition op_is (o : term) (k : string) : bool := str_eqb (term_str (term_nth o 0)) (lit k).
Definition op_idx (o : term) : option str := match term_list (term_nth o 2) with [TStr i] => Some i | _ => None end.
Definition only_names (l : list str) : list str := sort_strs (filter (fun n => existsb (str_eqb n) c07_names) l).

(* one leaf operation *)
Definition ref_op (s : astate) (o : term) : astate * option str :=
  let n := term_str (term_nth o 1) in
  let i := op_idx o in
  if op_is o "set" then wr s n i (term_str (term_nth o 3))
  else if op_is o "get" then (s, rd s n i)
  else if op_is o "unset" then
    match i with
    | None => (erase s n, Some [])
    | Some k => (match look s n with
                 | Some (AArray m) => store s n (AArray (filter (fun kv => negb (str_eqb (fst kv) k)) m))
                 | _ => s
                 end, Some [])
    end
  else if op_is o "incr" then
    match (match rd s n i with Some v => get_int v | None => Some 0%Z end) with
    | Some z => if in_i64 (z + 1) then wr s n i (show_Z (z + 1)) else (s, None)
    | None => (s, None)
    end
  else if op_is o "append" then
    wr s n i ((match rd s n i with Some v => v | None => [] end) ++ term_str (term_nth o 3))
  else if op_is o "lappend" then
    match (match rd s n i with
           | Some v => match get_list v with Some (inr l) => Some l | _ => None end
           | None => Some []
           end) with
    | Some l => wr s n i (list_to_string (l ++ [term_str (term_nth o 3)]))
    | None => (s, None)
    end
  else if op_is o "aset" then
    let kv := term_strs (term_nth o 2) in
    let merge := (fix go (m : list (str * str)) (l : list str) :=
                    match l with k :: v :: r => go (m_put m k v) r | _ => m end) in
    if Nat.odd (length kv) then (s, None)       (* an odd number of items: an error that changes nothing *)
    else
    match look s n with
    | Some (AScalar _) => (s, None)
    | Some (AArray m) => (store s n (AArray (merge m kv)), Some [])
    | _ => (store s n (AArray (merge [] kv)), Some [])
    end
  else if op_is o "aunset" then
    match i with
    | None =>
        (* through a link only the global array goes: the link stays, so that later array
           operations and writes still act on the global (scope.rs unset_at, array_only) *)
        (match look s n with
         | Some (AArray _) => if linked s n then {| g := f_del (g s) n; locals := locals s |} else erase s n
         | _ => s
         end, Some [])
    | Some k => (match look s n with
                 | Some (AArray m) => store s n (AArray (filter (fun kv => negb (str_eqb (fst kv) k)) m))
                 | _ => s
                 end, Some [])
    end
  else if op_is o "exists" then
    (s, Some (match i with
              | None => match look s n with Some _ => [49] | None => [48] end
              | Some _ => match rd s n i with Some _ => [49] | None => [48] end
              end))
  else if op_is o "aexists" then (s, Some (match look s n with Some (AArray _) => [49] | _ => [48] end))
  else if op_is o "asize" then
    (s, Some (show_Z (Z.of_nat (match look s n with Some (AArray m) => length m | _ => O end))))
  else if op_is o "anames" then
    (s, Some (list_to_string (only_names (match look s n with Some (AArray m) => map fst m | _ => [] end))))
  else if op_is o "aget" then
    (s, Some (list_to_string (sort_strs (match look s n with
                                         | Some (AArray m) => map (fun kv => fst kv ++ [c_eq] ++ snd kv) m
                                         | _ => []
                                         end))))
  else if op_is o "vars" then (s, Some (list_to_string (only_names (map fst (cur s)))))
  else if op_is o "locals" then
    (s, Some (list_to_string (only_names
       (match locals s with
        | f :: _ => map fst (filter (fun kv => match snd kv with ALink => false | _ => true end) f)
        | [] => []
        end))))
  else if op_is o "globals" then (s, Some (list_to_string (only_names (map fst (g s)))))
  else if op_is o "global" then
    (match locals s with
     | f :: r => {| g := g s; locals := f_put f n ALink :: r |}
     | [] => s
     end, Some [])
  else (s, None).

(* the "anames" listing is not filtered to the variable names: re-state it unfiltered *)
Definition ref_op' (s : astate) (o : term) : astate * option str :=
  if op_is o "anames" then
    (s, Some (list_to_string (sort_strs (filter (fun n => existsb (str_eqb n) c07_names)
        (match look s (term_str (term_nth o 1)) with Some (AArray m) => map fst m | _ => [] end)))))
  else ref_op s o.

Fixpoint ref_run (fuel : nat) (s : astate) (ops : list term) (acc : list (option str))
  : astate * list (option str) :=
  match fuel with
  | O => (s, acc)
  | S f =>
      match ops with
      | [] => (s, acc)
      | o :: r =>
          if op_is o "call" || op_is o "errcall" then
            (* errcall: the body ends in an error; the frame vanishes all the same *)
            let '(s1, acc1) := ref_run f {| g := g s; locals := [] :: locals s |} (term_list (term_nth o 1)) acc in
            ref_run f {| g := g s1; locals := tl (locals s1) |} r acc1
          else if op_is o "badcall" then
            (* a call with the wrong number of arguments: the body never runs, nothing changes *)
            ref_run f s r acc
          else
            let '(s1, out) := ref_op' s o in
            ref_run f s1 r (acc ++ [out])
      end
  end.

Fixpoint op_count (o : term) : nat :=
  match o with
  | TList (TStr _ :: TList ops :: nil) =>
      S ((fix go (l : list term) : nat := match l with [] => O | x :: r => (op_count x + go r)%nat end) ops)
  | _ => 1%nat
  end.

Definition call_matches (e : option str) (call : term) : bool :=
  match e, term_strs call with
  | Some v, [_; _; code; got] => str_eqb code (lit "0") && str_eqb got v
  | None, [_; _; code; _] => str_eqb code (lit "1")
  | _, _ => false
  end.

Definition c07_spec_ok (c obs : term) : bool :=
  let ops := term_list (term_nth c 1) in
  let total := fold_left (fun acc o => (acc + op_count o)%nat) ops O in
  let '(s, outs) := ref_run (S (2 * total)) {| g := []; locals := [] |} ops [] in
  match term_list obs with
  | [TList (_ :: _); TList calls; TList host; TInt level] =>
      Z.eqb level 0
      && Nat.eqb (length calls) (length outs)
      && forallb (fun p => call_matches (fst p) (snd p)) (combine outs calls)
      && term_eqb (TList host)
           (TList (map (fun n =>
              match f_get (g s) n with
              | Some (AScalar v) => TList [TTag "scalar" [TStr v]; TBool true; TBool false; TInt 0]
              | Some (AArray m) =>
                  TList [TTag "array" [TStrs (sort_strs (map (fun kv => fst kv ++ [c_eq] ++ snd kv) m))];
                         TBool true; TBool true; TInt (Z.of_nat (length m))]
              | _ => TList [TTag "unset" []; TBool false; TBool false; TInt 0]
              end) c07_names))
  | _ => false
  end.
Definition c07_known (c : term) : bool := false.
Definition c07_nontrivial (c : term) : bool := Nat.ltb 2 (length (term_list (term_nth c 1))).
