(* Check/C18.v — C18: the command table and command contexts stay consistent. *)
From Molt Require Import Model.Base Model.ListSyn Model.Float Model.Value Model.State Model.Script
  Model.Parser Model.Eval Model.Expr Model.Commands Model.Unicode Model.Interp Check.ScriptObs.
Local Open Scope N_scope.

Definition c18_names : list str := [lit "na"; lit "nb"; lit "n c"].

Definition list_cmd (parts : list str) : str := list_to_string parts.

Definition is_op18 (o : term) (k : string) : bool := str_eqb (term_str (term_nth o 0)) (lit k).

Definition ev (st : interp) (s : str) : interp * res value := eval std_uni model_fuel st s.

Definition observe (st : interp) : term :=
  let per_name := map (fun n =>
      let call := match snd (ev st (list_cmd [n])) with
                  | Ok v => TTag "Ok" [TStr (as_str v)]
                  | Err _ => TTag "Err" []
                  | Panic p => TTag "PANIC" [TStr p]
                  | Fuel => TTag "FUEL" []
                  end in
      let ty := match snd (ev st (list_cmd [lit "info"; lit "cmdtype"; n])) with
                | Ok v => TStr (as_str v)
                | _ => TStr (lit "none")
                end in
      TList [call; ty]) c18_names in
  let listing (what : string) :=
    match snd (ev st (lit "info " ++ lit what)) with
    | Ok v => match v_as_list v with
              | inr l => TStrs (sort_strs (filter (fun x => existsb (str_eqb x) c18_names) (map as_str l)))
              | inl _ => TStrs []
              end
    | _ => TStrs []
    end in
  let dropped := map (fun c => TBool (match ctx_get (i_ctx st) c with None => true | Some _ => false end)) [1; 2] in
  TList [TList per_name; listing "commands"%string; listing "procs"%string; TList dropped].

Definition apply18 (st : interp) (o : term) : interp :=
  let n := term_str (term_nth o 1) in
  if is_op18 o "add" then
    fst (add_context_command st n (NDummy (Z.to_N (term_int (term_nth o 2)))) 0)
  else if is_op18 o "addctx" then
    let c := Z.to_N (term_int (term_nth o 2)) in
    match ctx_get (i_ctx st) c with
    | None => st
    | Some _ => fst (add_context_command st n (NDummy (100 + c)) c)
    end
  else if is_op18 o "badproc" then
    (* a definition that is rejected (a parameter with no name): nothing may change *)
    fst (ev st (list_cmd [lit "proc"; n; list_to_string [[]]; lit "return P"]))
  else if is_op18 o "selfdef" then
    (* a procedure that redefines itself, called twice in a row in one script *)
    let st1 := fst (ev st (list_cmd [lit "proc"; n; []; lit "proc " ++ list_to_string [n] ++ lit " {} {return P}; return Q"])) in
    fst (ev st1 (list_to_string [n] ++ lit "; " ++ list_to_string [n]))
  else if is_op18 o "proc" then fst (ev st (list_cmd [lit "proc"; n; []; lit "return P"]))
  (* the same body and the same parameter name, with and without a default value *)
  else if is_op18 o "procd" then fst (ev st (list_cmd [lit "proc"; n; lit "{x D}"; lit "return $x"]))
  else if is_op18 o "procn" then fst (ev st (list_cmd [lit "proc"; n; lit "x"; lit "return $x"]))
  else if is_op18 o "rename" then fst (ev st (list_cmd [lit "rename"; n; term_str (term_nth o 2)]))
  else fst (ev st (list_cmd [lit "rename"; n; []])).

Definition c18_init : interp := fst (save_context (fst (save_context interp_new))).

(* the second of the two consecutive calls of a self-redefining procedure *)
Definition selfdef_result (st : interp) (o : term) : term :=
  let n := term_str (term_nth o 1) in
  let st1 := fst (ev st (list_cmd [lit "proc"; n; []; lit "proc " ++ list_to_string [n] ++ lit " {} {return P}; return Q"])) in
  match snd (ev st1 (list_to_string [n] ++ lit "; " ++ list_to_string [n])) with
  | Ok v => TStr (as_str v)
  | _ => TStr (lit "<error>")
  end.
Definition with_extra (o : term) (extra : term) (obs : term) : term :=
  if is_op18 o "selfdef" then TList (term_list obs ++ [extra]) else obs.

Definition c18_model_obs (c : term) : term :=
  TList (rev (snd (fold_left (fun acc o => let st := apply18 (fst acc) o in
                                           (st, with_extra o (selfdef_result (fst acc) o) (observe st) :: snd acc))
                             (term_list c) (c18_init, [])))).

(* ---- the oracle: an abstract name map and context liveness ---- *)
Inductive kind := KNative (tag : Z) | KCtx (c : Z) | KProc | KProcD | KProcN.
Definition amap18 := list (str * kind).

Definition a_unbind (m : amap18) (n : str) : amap18 := filter (fun kv => negb (str_eqb (fst kv) n)) m.
Definition a_bind (m : amap18) (n : str) (k : kind) : amap18 := (n, k) :: a_unbind m n.
Definition a_find (m : amap18) (n : str) : option kind :=
  match find (fun kv => str_eqb (fst kv) n) m with Some kv => Some (snd kv) | None => None end.
Definition a_users (m : amap18) (c : Z) : nat :=
  length (filter (fun kv => match snd kv with KCtx c' => Z.eqb c' c | _ => false end) m).

(* abstract state: bindings, and which contexts have been dropped *)
Definition spec_step (s : amap18 * list bool) (o : term) : amap18 * list bool :=
  let '(m, dropped) := s in
  let n := term_str (term_nth o 1) in
  let m' :=
    if is_op18 o "add" then a_bind m n (KNative (term_int (term_nth o 2)))
    else if is_op18 o "addctx" then
      let c := term_int (term_nth o 2) in
      if nth (Z.to_nat (c - 1)) dropped false then m else a_bind m n (KCtx c)
    else if is_op18 o "badproc" then m
    else if is_op18 o "selfdef" then a_bind m n KProc
    else if is_op18 o "proc" then a_bind m n KProc
    else if is_op18 o "procd" then a_bind m n KProcD
    else if is_op18 o "procn" then a_bind m n KProcN
    else if is_op18 o "rename" then
      match a_find m n with
      | Some k => match term_str (term_nth o 2) with
                  | [] => a_unbind m n
                  | n2 => a_bind (a_unbind m n) n2 k
                  end
      | None => m
      end
    else a_unbind m n in
  (* a context is dropped when its last user disappears *)
  let dropped' := map (fun p => let '(c, d) := p in
                         d || (Nat.ltb 0 (a_users m c) && Nat.eqb (a_users m' c) 0))
                      (combine [1; 2]%Z dropped) in
  (m', dropped').

Definition spec_observe (s : amap18 * list bool) : term :=
  let '(m, dropped) := s in
  let per_name := map (fun n =>
      match a_find m n with
      | Some (KNative t) => TList [TTag "Ok" [TStr (show_Z t)]; TStr (lit "native")]
      | Some (KCtx c) => TList [TTag "Ok" [TStr (show_Z (100 + c))]; TStr (lit "native")]
      | Some KProc => TList [TTag "Ok" [TStr (lit "P")]; TStr (lit "proc")]
      | Some KProcD => TList [TTag "Ok" [TStr (lit "D")]; TStr (lit "proc")]
      | Some KProcN => TList [TTag "Err" []; TStr (lit "proc")]
      | None => TList [TTag "Err" []; TStr (lit "none")]
      end) c18_names in
  let bound := sort_strs (filter (fun n => match a_find m n with Some _ => true | None => false end) c18_names) in
  let procs := sort_strs (filter (fun n => match a_find m n with Some KProc | Some KProcD | Some KProcN => true | _ => false end) c18_names) in
  TList [TList per_name; TStrs bound; TStrs procs; TList (map TBool dropped)].

Definition c18_spec_ok (c obs : term) : bool :=
  let expected := rev (snd (fold_left (fun acc o => let s := spec_step (fst acc) o in
                                                    (s, with_extra o (TStr (lit "P")) (spec_observe s) :: snd acc))
                                      (term_list c) (([], [false; false]), []))) in
  term_eqb obs (TList expected).

Definition c18_known (c : term) : bool := false.
Definition c18_nontrivial (c : term) : bool := Nat.ltb 1 (length (term_list c)).
