(* Check/C06.v — C06: exceptional returns propagate by the documented return/catch protocol.
   The oracle is a reference propagation of the raised outcome through the stack of frames
   (procedure boundary, loop, catch, plain body), producing the expected recorder trace. *)
From Molt Require Import Model.Base Model.ListSyn Model.Float Model.Value Model.State Model.Script
  Model.Parser Model.Eval Model.Expr Model.Commands Model.Unicode Model.Interp Check.ScriptObs.
Local Open Scope N_scope.

(* case: (raise frames script).  obs: (outcome, recorder calls without the command name) *)
Definition c06_model_obs (c : term) : term :=
  let '(st, r) := eval std_uni model_fuel (harness_interp 0) (term_str (term_nth c 2)) in
  TList [match r with
         | Ok v => TTag "Ok" [TStr (as_str v)]
         | Err e => TTag "Err" [TInt (rcode_as_int (x_code e)); TStr (as_str (x_value e))]
         | Panic p => TTag "PANIC" [TStr p]
         | Fuel => TTag "FUEL" []
         end;
         TList (map (fun call => TStrs (tl call)) (rev (i_trace st)))].

(* ---- the oracle ---- *)
Inductive rc := RcOk | RcError | RcReturn | RcBreak | RcContinue | RcOther (n : Z).
Definition rc_num (c : rc) : Z :=
  match c with RcOk => 0 | RcError => 1 | RcReturn => 2 | RcBreak => 3 | RcContinue => 4 | RcOther n => n end%Z.
Definition rc_of_str (s : str) : rc :=
  if str_eqb s (lit "ok") then RcOk else if str_eqb s (lit "error") then RcError
  else if str_eqb s (lit "return") then RcReturn else if str_eqb s (lit "break") then RcBreak
  else if str_eqb s (lit "continue") then RcContinue
  else match get_int s with
       | Some z => if Z.eqb z 0 then RcOk else if Z.eqb z 1 then RcError else if Z.eqb z 2 then RcReturn
                   else if Z.eqb z 3 then RcBreak else if Z.eqb z 4 then RcContinue else RcOther z
       | None => RcOk
       end.

Inductive outc :=
| ONormal (v : str)
| OExc (code : rc) (level : Z) (next : rc) (v : str).

Definition o_val : str := lit "val".

Definition raised (r : term) : outc :=
  let k := term_str (term_nth r 0) in
  if str_eqb k (lit "ret") then
    let c := rc_of_str (term_str (term_nth r 1)) in
    let l := term_int (term_nth r 2) in
    match c with
    | RcError => OExc (if Z.eqb l 0 then RcError else RcReturn) l RcError o_val
    | RcOk => if Z.eqb l 0 then ONormal o_val else OExc RcReturn l RcOk o_val
    | RcReturn => if Z.eqb l 0 then OExc RcReturn 1 RcOk o_val else OExc RcReturn l RcReturn o_val
    | _ => OExc (if Z.ltb 0 l then RcReturn else c) l c o_val
    end
  else if str_eqb k (lit "plainret") then OExc RcReturn 1 RcOk o_val
  else if str_eqb k (lit "break") then OExc RcBreak 0 RcBreak []
  else if str_eqb k (lit "continue") then OExc RcContinue 0 RcContinue []
  else OExc RcError 0 RcError o_val.

Definition ev (parts : list str) : term := TStrs parts.
Definition ks (k : nat) : str := show_Z (Z.of_nat k).

(* a Return exception crossing a procedure boundary (or the top level): one level is used up *)
Definition cross (o : outc) : outc :=
  match o with
  | OExc RcReturn l next v =>
      if Z.eqb (l - 1) 0 then
        match next with
        | RcOk => ONormal v
        | RcReturn => OExc RcReturn 1 RcOk v
        | c => OExc c 0 c v
        end
      else OExc RcReturn (l - 1) next v
  | other => other
  end.

(* what a frame does with the outcome of what it encloses: the outcome it yields and the events
   it records AFTER the enclosed part *)
Definition frame_exit (kind : str) (k : nat) (o : outc) : outc * list term :=
  let is (s : string) := str_eqb kind (lit s) in
  if str_eqb kind (lit "if") then
    match o with ONormal _ => (ONormal (ks k), [ev [lit "after"; ks k]]) | _ => (o, []) end
  else if str_eqb kind (lit "catch") then
    match o with
    | ONormal _ =>
        (ONormal (lit "0"),
         [ev [lit "after"; ks k]; ev [lit "caught"; ks k; lit "0"; ks k; lit "0"; lit "0"]])
    | OExc c l next v =>
        (ONormal (show_Z (rc_num c)),
         [ev [lit "caught"; ks k; show_Z (rc_num c); v;
              show_Z (match c with RcReturn => rc_num next | _ => rc_num c end); show_Z l]])
    end
  else if str_eqb kind (lit "expr") then
    (* a command substitution inside an expression: every code passes through unchanged, except
       that an escaping break / continue is an error of the expression *)
    match o with
    | ONormal _ => (ONormal (ks k), [ev [lit "after"; ks k]])
    | OExc RcBreak _ _ _ => (OExc RcError 0 RcError (lit "invoked ""break"" outside of a loop"), [])
    | OExc RcContinue _ _ _ => (OExc RcError 0 RcError (lit "invoked ""continue"" outside of a loop"), [])
    | _ => (o, [])
    end
  else if str_eqb kind (lit "proc") then
    match o with
    | ONormal _ => (ONormal (ks k), [ev [lit "after"; ks k]])
    | OExc RcReturn _ _ _ => (cross o, [])
    | OExc RcBreak _ _ _ => (OExc RcError 0 RcError (lit "invoked ""break"" outside of a loop"), [])
    | OExc RcContinue _ _ _ => (OExc RcError 0 RcError (lit "invoked ""continue"" outside of a loop"), [])
    | _ => (o, [])
    end
  else (* while / for / foreach: the raise happens in iteration 1 of 2 *)
    let second := [ev [lit "iter"; ks k; lit "2"]; ev [lit "after"; ks k; lit "2"]] in
    match o with
    | ONormal _ => (ONormal [], ev [lit "after"; ks k; lit "1"] :: second)
    | OExc RcBreak _ _ _ => (ONormal [], [])
    | OExc RcContinue _ _ _ => (ONormal [], second)
    | _ => (o, [])
    end.

Definition frame_entry (kind : str) (k : nat) : list term :=
  if str_eqb kind (lit "proc") then [ev [lit "in"; ks k]]
  else if str_eqb kind (lit "while") || str_eqb kind (lit "for") || str_eqb kind (lit "foreach")
  then [ev [lit "iter"; ks k; lit "1"]]
  else [].

(* frames are listed outermost first *)
Fixpoint propagate (frames : list str) (k : nat) (raise : outc) : outc * list term :=
  match frames with
  | [] => (raise, [])
  | f :: rest =>
      let '(o, tr) := propagate rest (S k) raise in
      let '(o', tr') := frame_exit f k o in
      (o', frame_entry f k ++ tr ++ tr')
  end.

Definition toplevel (o : outc) : term * list term :=
  match o with
  | ONormal _ => (TTag "Ok" [TStr (lit "end")], [ev [lit "end"]])
  | _ =>
      match cross o with
      | ONormal v => (TTag "Ok" [TStr v], [])
      | OExc RcError _ _ v => (TTag "Err" [TInt 1; TStr v], [])
      | OExc RcReturn _ _ v => (TTag "Err" [TInt 2; TStr v], [])
      | OExc RcBreak _ _ _ => (TTag "Err" [TInt 1; TStr (lit "invoked ""break"" outside of a loop")], [])
      | OExc RcContinue _ _ _ => (TTag "Err" [TInt 1; TStr (lit "invoked ""continue"" outside of a loop")], [])
      | OExc (RcOther _) _ _ _ => (TTag "Err" [TInt 1; TStr (lit "unexpected result code.")], [])
      | OExc RcOk _ _ v => (TTag "Ok" [TStr v], [])
      end
  end.

Definition c06_expected (c : term) : term :=
  let '(o, tr) := propagate (term_strs (term_nth c 1)) O (raised (term_nth c 0)) in
  let '(out, tr2) := toplevel o in
  TList [out; TList (tr ++ tr2)].

Definition c06_spec_ok (c obs : term) : bool := term_eqb obs (c06_expected c).
Definition c06_known (c : term) : bool := false.
Definition c06_nontrivial (c : term) : bool := Nat.ltb 0 (length (term_strs (term_nth c 1))).
