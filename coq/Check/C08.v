(* Check/C08.v — C08: a failed evaluation leaves no residue in the interpreter's control state. *)
From Molt Require Import Model.Base Check.ScriptObs.
Local Open Scope N_scope.

Definition c08_model_obs := script_model_obs.

(* The oracle looks only at the four probes that follow the failing evaluations (the last four
   outcomes), at the recorder, at the global g8 and at the scope level. *)
Definition last_n {A} (n : nat) (l : list A) : list A := skipn (length l - n) l.

Definition is_ok_with (t : term) (v : string) : bool :=
  term_eqb t (TTag "Ok" [TStr (lit v)]).
Definition is_err_msg (t : term) (m : string) : bool :=
  match t with
  | TList (TStr tg :: TInt code :: TStr msg :: _) => str_eqb tg (lit "Err") && Z.eqb code 1 && str_eqb msg (lit m)
  | _ => false
  end.

Definition c08_spec_ok (c obs : term) : bool :=
  match term_list obs with
  | [TList outs; TList calls; TList [g8]; TInt level] =>
      match last_n 4 outs with
      | [p1; p2; p3; p4] =>
          is_ok_with p1 "v7"                                           (* a top-level return yields its value *)
          && is_err_msg p2 "invoked ""break"" outside of a loop"       (* a stray break is an error *)
          && is_ok_with p3 "1"                                         (* set is global and visible to `global` *)
          && term_eqb g8 (TTag "scalar" [TStr (lit "1")])
          && is_ok_with p4 "deep"                                      (* the whole configured depth is available *)
          && match last_n 1 calls with [k] => term_eqb k (TStrs [lit "rec"; lit "deep"]) | _ => false end
          && Z.eqb level 0
      | _ => false
      end
  | _ => false
  end.
Definition c08_known (c : term) : bool := false.
Definition c08_nontrivial (c : term) : bool := true.
