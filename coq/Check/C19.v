(* Check/C19.v — C19: string and list utilities index by character and clamp as documented.
   The oracle computes the expected result of each utility from the declaratively specified
   functions of Spec/SpecStr.v (proved to characterise the model in Proofs/StrFacts.v) applied to
   the operand strings; it does not go through the interpreter. *)
From Molt Require Import Model.Base Model.ListSyn Model.Float Model.Value Model.State Model.Script
  Model.Parser Model.Eval Model.Expr Model.Commands Model.Unicode Model.Interp Check.ScriptObs
  Spec.SpecStr.
Local Open Scope N_scope.

Definition out_term (r : res value) : term :=
  match r with
  | Ok v => TTag "Ok" [TStr (as_str v)]
  | Err e => TTag "Err" [TStr (as_str (x_value e))]
  | Panic p => TTag "PANIC" [TStr p]
  | Fuel => TTag "FUEL" []
  end.

Definition c19_model_obs (c : term) : term :=
  let st0 := harness_interp 0 in
  if str_eqb (term_str (term_nth c 0)) (lit "cmd") then
    out_term (snd (eval_value std_uni model_fuel st0 (VStr (list_to_string (term_strs (term_nth c 1))))))
  else
    let st1 := match term_list (term_nth c 1) with
               | [TStr i] => fst (st_set_scalar st0 (lit "v") (VStr i))
               | _ => st0
               end in
    let '(st2, r) := eval_value std_uni model_fuel st1 (VStr (list_to_string (term_strs (term_nth c 2)))) in
    TList [out_term r; obs_var st2 (lit "v")].

(* ---- the oracle ---- *)
Definition exp := option str.     (* Some s: Ok s; None: an error (message not fixed) *)

Definition is_w (s : str) (w : string) : bool := str_eqb s (lit w).
Definition int_of (s : str) : option Z := get_int s.
Definition zs (z : Z) : str := show_Z z.
Definition list_of (s : str) : option (list str) :=
  match get_list s with Some (inr l) => Some l | _ => None end.

(* options of compare / equal: (-nocase)? (-length n)? in any order, repeated allowed *)
Fixpoint cmp_opts (l : list str) (nocase : bool) (len : option Z) : option (bool * option Z) :=
  match l with
  | [] => Some (nocase, len)
  | o :: r =>
      if is_w o "-nocase" then cmp_opts r true len
      else if is_w o "-length" then
        match r with
        | n :: r' => match int_of n with Some z => cmp_opts r' nocase (Some z) | None => None end
        | [] => None
        end
      else None
  end.

Fixpoint lindex_spec (s : str) (idx : list str) : exp :=
  match idx with
  | [] => Some s
  | i :: r =>
      match list_of s, int_of i with
      | Some l, Some z =>
          if (z <? 0)%Z || (Z.of_nat (length l) <=? z)%Z then lindex_spec [] r
          else lindex_spec (nth (Z.to_nat z) l []) r
      | _, _ => None
      end
  end.

Definition expect_cmd (argv : list str) : exp :=
  match argv with
  | c :: rest =>
      if is_w c "string" then
        match rest with
        | sub :: args =>
            if is_w sub "length" then match args with [s] => Some (zs (Z.of_nat (length s))) | _ => None end
            else if is_w sub "range" then
              match args with
              | [s; f; l] => match int_of f, int_of l with
                             | Some zf, Some zl => Some (string_range s zf zl)
                             | _, _ => None
                             end
              | _ => None
              end
            else if is_w sub "first" then
              match args with
              | [n; h] => Some (zs (string_first n h 0))
              | [n; h; st] => match int_of st with Some z => Some (zs (string_first n h z)) | None => None end
              | _ => None
              end
            else if is_w sub "last" then
              match args with
              | [n; h] => Some (zs (string_last n h None))
              | [n; h; st] => match int_of st with Some z => Some (zs (string_last n h (Some z))) | None => None end
              | _ => None
              end
            else if is_w sub "compare" || is_w sub "equal" then
              let n := length args in
              if Nat.ltb n 2 || Nat.ltb 5 n then None
              else
                match cmp_opts (firstn (n - 2) args) false None with
                | Some (nocase, len) =>
                    let a := nth (n - 2) args [] in
                    let b := nth (n - 1) args [] in
                    let a' := if nocase then to_lowercase a else a in
                    let b' := if nocase then to_lowercase b else b in
                    let r := Z_of_comparison (str_cmp (cut_len len a') (cut_len len b')) in
                    Some (if is_w sub "compare" then zs r else if Z.eqb r 0 then [49] else [48])
                | None => None
                end
            else if is_w sub "trim" then match args with [s] => Some (trim s) | _ => None end
            else if is_w sub "trimleft" then match args with [s] => Some (trim_start s) | _ => None end
            else if is_w sub "trimright" then match args with [s] => Some (trim_end s) | _ => None end
            else if is_w sub "tolower" then match args with [s] => Some (to_lowercase s) | _ => None end
            else if is_w sub "toupper" then match args with [s] => Some (to_uppercase s) | _ => None end
            else if is_w sub "cat" then Some (concat_str args)
            else None
        | [] => None
        end
      else if is_w c "llength" then
        match rest with [l] => match list_of l with Some x => Some (zs (Z.of_nat (length x))) | None => None end | _ => None end
      else if is_w c "lindex" then
        match rest with
        | [l] => Some l
        | [l; i] => match list_of i with Some idx => lindex_spec l idx | None => None end
        | l :: idx => lindex_spec l idx
        | [] => None
        end
      else if is_w c "join" then
        match rest with
        | [l] => match list_of l with Some x => Some (join_str [c_space] x) | None => None end
        | [l; sep] => match list_of l with Some x => Some (join_str sep x) | None => None end
        | _ => None
        end
      else None
  | [] => None
  end.

Definition is_map_cmd (argv : list str) : bool :=
  match argv with c :: sub :: _ => is_w c "string" && is_w sub "map" | _ => false end.

(* string map: case-sensitive form is specified by spec_map; the -nocase form is left to the
   model comparison *)
Definition expect_map (argv : list str) : option exp :=
  match argv with
  | [_; _; d; s] =>
      match list_of d with
      | Some l =>
          if Nat.even (length l) then
            let keys := (fix pairs (l : list str) (acc : list (str * str)) : list (str * str) :=
                           match l with
                           | k :: v :: r =>
                               pairs r (if existsb (fun kv => str_eqb (fst kv) k) acc
                                        then map (fun kv => if str_eqb (fst kv) k then (fst kv, v) else kv) acc
                                        else acc ++ [(k, v)])
                           | _ => acc
                           end) l [] in
            let keys := filter (fun kv => negb (Nat.eqb (length (fst kv)) 0)) keys in
            Some (Some (spec_map (S (length s)) keys s))
          else Some None
      | None => Some None
      end
  | _ => None
  end.

Definition matches (e : exp) (obs : term) : bool :=
  match e, obs with
  | Some s, TList [TStr t; TStr v] => str_eqb t (lit "Ok") && str_eqb v s
  | None, TList (TStr t :: _) => str_eqb t (lit "Err")
  | _, _ => false
  end.

(* variable-updating utilities: expected (result, new value of v); None for an error, which
   must leave v unchanged *)
Definition expect_var (init : option str) (argv : list str) : option (str * str) :=
  match argv with
  | c :: _ :: args =>
      if is_w c "lappend" then
        match (match init with Some i => list_of i | None => Some [] end) with
        | Some l => let s := list_to_string (l ++ args) in Some (s, s)
        | None => None
        end
      else if is_w c "append" then
        let s := (match init with Some i => i | None => [] end) ++ concat_str args in Some (s, s)
      else if is_w c "incr" then
        let inc := match args with [] => Some 1%Z | [x] => int_of x | _ => None end in
        let old := match init with Some i => int_of i | None => Some 0%Z end in
        match inc, old with
        | Some a, Some b => if in_i64 (a + b) then Some (zs (a + b), zs (a + b)) else None
        | _, _ => None
        end
      else None
  | _ => None
  end.

Definition c19_spec_ok (c obs : term) : bool :=
  if str_eqb (term_str (term_nth c 0)) (lit "cmd") then
    let argv := term_strs (term_nth c 1) in
    if is_map_cmd argv then
      match expect_map argv with
      | Some e => matches e obs
      | None => term_eqb obs (c19_model_obs c)
      end
    else matches (expect_cmd argv) obs
  else
    let init := match term_list (term_nth c 1) with [TStr i] => Some i | _ => None end in
    match term_list obs with
    | [out; var] =>
        match expect_var init (term_strs (term_nth c 2)) with
        | Some (r, nv) => matches (Some r) out && term_eqb var (TTag "scalar" [TStr nv])
        | None => matches None out
                  && term_eqb var (match init with Some i => TTag "scalar" [TStr i] | None => TTag "unset" [] end)
        end
    | _ => false
    end.
Definition c19_known (c : term) : bool := false.
Definition c19_nontrivial (c : term) : bool := true.
