(* Check/C01.v — C01: evaluation is total.  Observation: the outcome of one call at one of the
   entry points (eval, expr, complete, the value conversions, one built-in command). *)
From Molt Require Import Model.Base Model.ListSyn Model.Float Model.Value Model.State Model.Script
  Model.Parser Model.Eval Model.Expr Model.Commands Model.Unicode Model.Interp Check.ScriptObs.
Local Open Scope N_scope.

Definition obs_sum {A} (r : str + A) (f : A -> term) : term :=
  match r with
  | inr a => TTag "Ok" [f a]
  | inl m => TTag "Err" [TStr m]
  end.

Definition c01_prelude : str := lit "set a 1; set b(1) x".
Definition c01_cmd_prelude : str := lit "set a 1; set b(1) x; proc p {x {y 2} args} {return $x$y$args}".

Definition is_kind (c : term) (k : string) : bool := str_eqb (term_str (term_nth c 0)) (lit k).

Definition c01_model_obs (c : term) : term :=
  if is_kind c "cmd" then
    let '(st, _) := eval std_uni model_fuel (harness_interp 0) c01_cmd_prelude in
    let argv := map VStr (term_strs (term_nth c 1)) in
    obs_res (snd (eval_value std_uni model_fuel st (VList argv)))
  else
    let text := term_str (term_nth c 1) in
    let '(st, _) := eval std_uni model_fuel (harness_interp 0) c01_prelude in
    if is_kind c "eval" then obs_res (snd (eval std_uni model_fuel st text))
    else if is_kind c "expr" then obs_res (snd (expr std_uni model_fuel st (VStr text)))
    else if is_kind c "complete" then TBool (complete std_uni text)
    else if is_kind c "int" then obs_sum (v_as_int (VStr text)) TInt
    else if is_kind c "float" then obs_sum (v_as_float (VStr text)) (fun f => TStr (fmt_float f))
    else if is_kind c "bool" then obs_sum (v_as_bool (VStr text)) TBool
    else if is_kind c "list" then obs_sum (v_as_list (VStr text)) (fun l => TStrs (map as_str l))
    else if is_kind c "dict" then
      obs_sum (v_as_dict (VStr text)) (fun d => TList (map (fun kv => TStrs [as_str (fst kv); as_str (snd kv)]) d))
    else if is_kind c "varname" then
      match parse_varname_literal text with
      | (n, Some i) => TStrs [n; i]
      | (n, None) => TStrs [n]
      end
    else TTag "?" [].

(* the property: the call returned (a value or an error result); no panic, abort or hang *)
Definition is_crash (obs : term) : bool :=
  match obs with
  | TList (TStr t :: _) =>
      str_eqb t (lit "PANIC") || str_eqb t (lit "ABORT") || str_eqb t (lit "TIMEOUT") || str_eqb t (lit "FUEL")
  | _ => false
  end.
Definition c01_spec_ok (c obs : term) : bool := negb (is_crash obs).
Definition c01_known (c : term) : bool := false.
Definition c01_nontrivial (c : term) : bool :=
  match c01_model_obs c with
  | TList (TStr t :: _) => str_eqb t (lit "Err")
  | _ => false
  end.
