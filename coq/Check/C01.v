(* Check/C01.v — C01: evaluation is total.  Observation: the outcome of one call at one of the
   entry points (eval, expr, complete, the value conversions, one built-in command). *)
From Molt Require Import Model.Base Model.ListSyn Model.Float Model.Value Model.State Model.Script
  Model.Parser Model.Eval Model.Expr Model.Commands Model.Unicode Model.Interp Check.ScriptObs.
Local Open Scope N_scope.

Definition obs_sum {A} (r : str + A) (f : A -> term) : term :=
  match r with
  | inr a => TTag "Ok" [f a]
  | inl m => TTag "Err" [TStr m]
  end.

Definition c01_prelude : str := lit "set a 1; set b(1) x".
Definition c01_cmd_prelude : str := lit "set a 1; set b(1) x; proc p {x {y 2} args} {return $x$y$args}".

Definition is_kind (c : term) (k : string) : bool := str_eqb (term_str (term_nth c 0)) (lit k).

(* twin of harness c01::deep_text: the text and the entry point of a (construct, depth) pair *)
Fixpoint rep (n : nat) (s acc : str) : str :=
  match n with O => acc | S k => rep k s (s ++ acc) end.
Definition which_is (which : str) (w : string) : bool := str_eqb which (lit w).
Arguments which_is which w%string.
Definition deep_text (which : str) (d : nat) : str * bool (* true = expression *) :=
  if which_is which "open-bracket" then (lit "rec " ++ rep d [c_lbracket] [], false)
  else if which_is which "bracket" then (lit "rec " ++ rep d (lit "[rec ") (lit "rec x" ++ rep d [c_rbracket] []), false)
  else if which_is which "quoted-bracket" then
    (lit "rec " ++ rep d ([c_dquote] ++ lit "[rec ") (lit "x" ++ rep d [c_rbracket; c_dquote] []), false)
  else if which_is which "brace" then (lit "rec " ++ rep d [c_lbrace] (lit "x" ++ rep d [c_rbrace] []), false)
  else if which_is which "open-brace" then (lit "llength {" ++ rep d [c_lbrace] [c_rbrace], false)
  else if which_is which "paren" then (rep d [c_lparen] (lit "1" ++ rep d [c_rparen] []), true)
  else if which_is which "open-paren" then (rep d [c_lparen] [], true)
  else if which_is which "array-index" then (lit "rec " ++ rep d (lit "$b(") (lit "1" ++ rep d [c_rparen] []), false)
  else (rep d [c_minus] (lit "1"), true).

Definition to_nat_small (z : Z) : nat := Z.to_nat (Z.min (Z.max z 0) 1000000).

Fixpoint hist_run (st : interp) (scripts : list str) (last_is_expr : bool) : term :=
  match scripts with
  | [] => TTag "none" []
  | [s] => if last_is_expr then obs_res (snd (expr std_uni model_fuel st (VStr s)))
           else obs_res (snd (eval std_uni model_fuel st s))
  | s :: r => hist_run (fst (eval std_uni model_fuel st s)) r last_is_expr
  end.

Definition c01_model_obs (c : term) : term :=
  (* commands outside the model (`time`): only the oracle (the call returned) applies *)
  if is_kind c "implonly" then TTag "SKIP" []
  else if is_kind c "hist" then
    let '(st, _) := eval std_uni model_fuel (harness_interp 0) c01_prelude in
    hist_run st (term_strs (term_nth c 2)) (str_eqb (term_str (term_nth c 1)) (lit "expr"))
  else if is_kind c "deep" then
    let '(text, is_expr) := deep_text (term_str (term_nth c 1)) (to_nat_small (term_int (term_nth c 2))) in
    let '(st, _) := eval std_uni model_fuel (harness_interp 0) c01_prelude in
    if is_expr then obs_res (snd (expr std_uni model_fuel st (VStr text)))
    else obs_res (snd (eval std_uni model_fuel st text))
  else if is_kind c "cmd" then
    let '(st, _) := eval std_uni model_fuel (harness_interp 0) c01_cmd_prelude in
    let argv := map VStr (term_strs (term_nth c 1)) in
    obs_res (snd (eval_value std_uni model_fuel st (VList argv)))
  else
    let text := term_str (term_nth c 1) in
    let '(st, _) := eval std_uni model_fuel (harness_interp 0) c01_prelude in
    if is_kind c "eval" then obs_res (snd (eval std_uni model_fuel st text))
    else if is_kind c "expr" then obs_res (snd (expr std_uni model_fuel st (VStr text)))
    else if is_kind c "complete" then TBool (complete std_uni text)
    else if is_kind c "int" then obs_sum (v_as_int (VStr text)) TInt
    else if is_kind c "float" then obs_sum (v_as_float (VStr text)) (fun f => TStr (fmt_float f))
    else if is_kind c "bool" then obs_sum (v_as_bool (VStr text)) TBool
    else if is_kind c "list" then obs_sum (v_as_list (VStr text)) (fun l => TStrs (map as_str l))
    else if is_kind c "dict" then
      obs_sum (v_as_dict (VStr text)) (fun d => TList (map (fun kv => TStrs [as_str (fst kv); as_str (snd kv)]) d))
    else if is_kind c "varname" then
      match parse_varname_literal text with
      | (n, Some i) => TStrs [n; i]
      | (n, None) => TStrs [n]
      end
    else TTag "?" [].

(* the property: the call returned (a value or an error result); no panic, abort or hang *)
Definition is_crash (obs : term) : bool :=
  match obs with
  | TList (TStr t :: _) =>
      str_eqb t (lit "PANIC") || str_eqb t (lit "ABORT") || str_eqb t (lit "TIMEOUT") || str_eqb t (lit "FUEL")
  | _ => false
  end.
Definition c01_spec_ok (c obs : term) : bool := negb (is_crash obs).
(* Known class (known_findings.json, finding D30): the script and expression readers recurse on
   the native stack once per nesting level of [ ] ( ) $a( and per unary operator, so input nested
   deeper than a few thousand levels exhausts the stack and aborts the process.  Depths up to
   1000 are never excused, nor is any construct that does not recurse (braces). *)
Definition c01_known (c : term) : bool :=
  is_kind c "deep"
  && Z.leb 3000 (term_int (term_nth c 2))
  && negb (str_eqb (term_str (term_nth c 1)) (lit "brace") || str_eqb (term_str (term_nth c 1)) (lit "open-brace")).
Definition c01_nontrivial (c : term) : bool :=
  match c01_model_obs c with
  | TList (TStr t :: _) => str_eqb t (lit "Err")
  | _ => false
  end.
