(* Check/C10.v — C10: procedure arguments bind per the declared signature.
   The oracle works on the specifier KINDS of the case (required / optional with default /
   trailing args / malformed), not on the parameter strings. *)
From Molt Require Import Model.Base Model.ListSyn Model.Float Model.Value Model.State Model.Script
  Model.Parser Model.Eval Model.Expr Model.Commands Model.Unicode Model.Interp Check.ScriptObs.
Local Open Scope N_scope.

Definition kind_is (k : term) (w : string) : bool := str_eqb (term_str (term_nth k 0)) (lit w).
Definition kname (k : term) : option str :=
  if kind_is k "req" || kind_is k "opt" then Some (term_str (term_nth k 1))
  else if kind_is k "args" then Some (lit "args") else None.

Definition spec_string (k : term) : str :=
  if kind_is k "req" then list_to_string [term_str (term_nth k 1)]
  else if kind_is k "opt" then list_to_string [term_str (term_nth k 1); term_str (term_nth k 2)]
  else if kind_is k "args" then lit "args"
  else if kind_is k "empty" then []
  else if kind_is k "blank" then [c_space; c_tab]
  else lit "p q r".

Fixpoint dedup (l : list str) (seen : list str) : list str :=
  match l with
  | [] => []
  | x :: r => if existsb (str_eqb x) seen then dedup r seen else x :: dedup r (x :: seen)
  end.

Definition declared_names (kinds : list term) : list str :=
  dedup (flat_map (fun k => match kname k with Some n => [n] | None => [] end) kinds) [].

(* A parameter named like an array element, `a(1)`, is an ordinary local whose name is that whole
   string (the binder never splits names); no command of the language can read it back, since every
   reader splits `a(1)` into array and index.  The body does not report such parameters with `set`:
   it reports the number of locals instead, which counts them. *)
Definition elem_like (n : str) : bool :=
  existsb (N.eqb 40) n && match rev n with c :: _ => N.eqb c 41 | [] => false end.
Definition reported_names (kinds : list term) : list str :=
  filter (fun n => negb (elem_like n)) (declared_names kinds).
Definition has_elem_like (kinds : list term) : bool := existsb elem_like (declared_names kinds).

Definition c10_body (kinds : list term) : str :=
  concat_str (map (fun n => let q := list_to_string [n] in
                            lit "rec " ++ q ++ lit " [set " ++ q ++ lit "]" ++ [c_nl]) (reported_names kinds))
  ++ (if has_elem_like kinds then lit "rec locals [llength [info locals]]" ++ [c_nl] else [])
  ++ lit "return done".

Definition evs (st : interp) (s : str) := eval std_uni model_fuel st s.

Definition c10_model_obs (c : term) : term :=
  let kinds := term_list (term_nth c 0) in
  let args := term_strs (term_nth c 1) in
  let st0 := harness_interp 0 in
  let def := list_to_string [lit "proc"; lit "p"; list_to_string (map spec_string kinds); c10_body kinds] in
  let '(st1, rdef) := evs st0 def in
  let '(st2, rcall) := evs st1 (list_to_string (lit "p" :: args)) in
  let level := TInt (Z.of_nat (sc_current (i_scopes st2))) in
  let calls := TList (map TStrs (rev (i_trace st2))) in
  let '(st3, ia) := evs st2 (lit "info args p") in
  let '(st4, ib) := evs st3 (lit "info body p") in
  let '(st5, idefs) :=
    fold_left (fun acc n =>
                 let '(st, l) := acc in
                 let '(st', r) := evs st (list_to_string [lit "info"; lit "default"; lit "p"; n; lit "dv"]) in
                 (st', l ++ [TList [obs_res r; obs_var st' (lit "dv")]]))
              (declared_names kinds) (st4, []) in
  (* a wrong-arity call, then the procedure is renamed and called again: the message names the
     command as it is called now *)
  let w8 := map (fun c => [c]) [119; 50; 51; 52; 53; 54; 55; 56]%N in
  let '(st6, _) := evs st5 (list_to_string (lit "p" :: w8)) in
  let '(st7, _) := evs st6 (lit "rename p q9") in
  let '(st8, r8) := evs st7 (list_to_string (lit "q9" :: w8)) in
  let '(st9, r0) := evs st8 (lit "q9") in
  TList [obs_res rdef; obs_res rcall; calls; level; obs_res ia; obs_res ib; TList idefs; TList [obs_res r8; obs_res r0]].

(* ---- the oracle ---- *)
Definition is_bad (k : term) : bool := kind_is k "empty" || kind_is k "blank" || kind_is k "long".

(* positional binding by kind; None = arity mismatch *)
Fixpoint bind_spec (kinds : list term) (args : list str) : option (list (str * str)) :=
  match kinds with
  | [] => match args with [] => Some [] | _ => None end
  | k :: ks =>
      (* the last parameter collects the remaining arguments when its NAME is args, whether it is
         written `args` or with a default, `{args {}}` *)
      if (kind_is k "args" || (kind_is k "opt" && str_eqb (term_str (term_nth k 1)) (lit "args")))
         && match ks with [] => true | _ => false end then
        Some [(lit "args", list_to_string args)]
      else
        let name := match kname k with Some n => n | None => [] end in
        match args with
        | a :: ar => match bind_spec ks ar with Some b => Some ((name, a) :: b) | None => None end
        | [] =>
            if kind_is k "opt" then
              match bind_spec ks [] with Some b => Some ((name, term_str (term_nth k 2)) :: b) | None => None end
            else None
        end
  end.

Fixpoint signature (kinds : list term) : str :=
  match kinds with
  | [] => []
  | k :: ks =>
      [c_space] ++
      (if kind_is k "args" && match ks with [] => true | _ => false end then lit "?arg ...?"
       else if kind_is k "opt" then lit "?" ++ term_str (term_nth k 1) ++ lit "?"
       else match kname k with Some n => n | None => [] end)
      ++ signature ks
  end.

Definition last_binding (b : list (str * str)) (n : str) : str :=
  fold_left (fun acc kv => if str_eqb (fst kv) n then snd kv else acc) b [].

Definition err_with (t : term) (msg : str) : bool :=
  match t with
  | TList (TStr tg :: TInt code :: TStr m :: _) => str_eqb tg (lit "Err") && Z.eqb code 1 && str_eqb m msg
  | _ => false
  end.
Definition ok_with (t : term) (v : str) : bool := term_eqb t (TTag "Ok" [TStr v]).

Definition default_of (kinds : list term) (n : str) : option str :=
  match find (fun k => match kname k with Some m => str_eqb m n | None => false end) kinds with
  | Some k => if kind_is k "opt" then Some (term_str (term_nth k 2)) else None
  | None => None
  end.

Definition c10_spec_ok (c obs : term) : bool :=
  let kinds := term_list (term_nth c 0) in
  let args := term_strs (term_nth c 1) in
  match term_list obs with
  | [rdef; rcall; TList calls; TInt level; ia; ib; TList idefs; TList [r8; r0]] =>
      Z.eqb level 0 &&
      (* after `rename p q9` an arity error names q9 *)
      (match find is_bad kinds with
       | Some _ => true
       | None =>
           let w8 := map (fun c => [c]) [119; 50; 51; 52; 53; 54; 55; 56]%N in
           (match bind_spec kinds w8 with
            | Some _ => true
            | None => err_with r8 (lit "wrong # args: should be ""q9" ++ signature kinds ++ lit """")
            end)
           && (match bind_spec kinds [] with
               | Some _ => true
               | None => err_with r0 (lit "wrong # args: should be ""q9" ++ signature kinds ++ lit """")
               end)
       end) &&
      match find is_bad kinds with
      | Some k =>
          (* rejected at definition; nothing is defined *)
          err_with rdef (if kind_is k "empty" || kind_is k "blank" then lit "argument with no name"
                         else lit "too many fields in argument specifier ""p q r""")
          && err_with rcall (lit "invalid command name ""p""")
          && match calls with [] => true | _ => false end
          && err_with ia (lit """p"" isn't a procedure")
      | None =>
          ok_with rdef []
          && ok_with ia (list_to_string (map (fun k => match kname k with Some n => n | None => [] end) kinds))
          && ok_with ib (c10_body kinds)
          && (* info default reports what was declared *)
             term_eqb (TList idefs)
               (TList (map (fun n => match default_of kinds n with
                                     | Some d => TList [TTag "Ok" [TStr (lit "1")]; TTag "scalar" [TStr d]]
                                     | None => TList [TTag "Ok" [TStr (lit "0")]; TTag "scalar" [TStr []]]
                                     end) (declared_names kinds)))
          && match bind_spec kinds args with
             | Some b =>
                 ok_with rcall (lit "done")
                 && term_eqb (TList calls)
                      (TList (map (fun n => TStrs [lit "rec"; n; last_binding b n]) (reported_names kinds)
                              ++ (if has_elem_like kinds
                                  then [TStrs [lit "rec"; lit "locals"; show_Z (Z.of_nat (length (declared_names kinds)))]]
                                  else [])))
             | None =>
                 (* rejected before the body runs, with the call signature in the message *)
                 err_with rcall (lit "wrong # args: should be ""p" ++ signature kinds ++ lit """")
                 && match calls with [] => true | _ => false end
             end
      end
  | _ => false
  end.
Definition c10_known (c : term) : bool := false.
Definition c10_nontrivial (c : term) : bool := Nat.ltb 0 (length (term_list (term_nth c 0))).
