(* Check/C14.v — C14: errors are reported faithfully and consistently on every channel.
   The oracle states the property as relations between the channels of the observation and the
   error that was raised (message, code, first trace line, procedures passed through). *)
From Molt Require Import Model.Base Model.ListSyn Model.Float Model.Value Model.State Model.Script
  Model.Parser Model.Eval Model.Expr Model.Commands Model.Unicode Model.Interp Check.ScriptObs.
Local Open Scope N_scope.

Definition c14_prelude : str :=
  lit "proc pa2 {a b} {}; set nonint abc; proc rce {} {return -code error rmsg}; proc rcei {} {return -code error -errorcode ECODE -errorinfo {given info} imsg}; proc rcec {} {return -code error -errorcode ONLYCODE cmsg}; proc rceo {} {return -errorcode OCODE -code error omsg}; proc rceb {} {return -code error}; proc rcel {} {set errorInfo mine; set errorCode mine; catch {throw LCODE lmsg} lr lo; return -code error -errorcode [dict get $lo -errorcode] -errorinfo [dict get $lo -errorinfo] $lr}".

Definition gvar (st : interp) (n : string) : term :=
  match st_scalar st (lit n) with Ok v => TStr (as_str v) | _ => TStr (lit "<unset>") end.

Definition host_obs (st : interp) (script : str) : interp * term :=
  let '(st1, r) := eval std_uni model_fuel st script in
  (st1, TList [obs_res r; gvar st1 "errorCode"; gvar st1 "errorInfo"]).

Definition c14_model_obs (c : term) : term :=
  let '(st0, _) := eval std_uni model_fuel (harness_interp 0) c14_prelude in
  let variant := term_str (term_nth c 0) in
  let f := term_str (term_nth c 3) in
  let is (s : string) := str_eqb variant (lit s) in
  let '(st, out) :=
    if str_eqb variant (lit "host") then host_obs st0 f
    else if str_eqb variant (lit "catch") then
      host_obs st0 (lit "set c [catch {" ++ f ++ lit "} r o]; rec caught $c $r [dict get $o -code] [dict get $o -errorcode] [dict get $o -errorinfo] $errorCode $errorInfo")
    else if str_eqb variant (lit "catchafter") then
      host_obs st0 (lit "catch {error earlier}; set c [catch {" ++ f ++ lit "} r o]; rec caught $c $r [dict get $o -code] [dict get $o -errorcode] [dict get $o -errorinfo] $errorCode $errorInfo")
    else if str_eqb variant (lit "rethrow") then
      host_obs st0 (lit "catch {" ++ f ++ lit "} r o; rec first [dict get $o -errorinfo]; return {*}$o $r")
    else if str_eqb variant (lit "rethrow3") then
      host_obs st0 (lit "catch {" ++ f ++ lit "} r o; rec first [dict get $o -errorinfo]; proc again {r o} {return -errorinfo [dict get $o -errorinfo] -errorcode [dict get $o -errorcode] -code error $r}; catch {again $r $o} r2 o2; rec second $r2 [dict get $o2 -errorcode] [dict get $o2 -errorinfo]")
    else if str_eqb variant (lit "rethrow2") then
      host_obs st0 (lit "catch {" ++ f ++ lit "} r o; rec first [dict get $o -errorinfo]; proc again {r o} {return -code error -errorcode [dict get $o -errorcode] -errorinfo [dict get $o -errorinfo] $r}; catch {again $r $o} r2 o2; rec second $r2 [dict get $o2 -errorcode] [dict get $o2 -errorinfo]")
    else
      let '(st1, a) := host_obs st0 f in
      let '(st2, b) := host_obs st1 (lit "set x 1; catch {break}; catch {return 5}; foreach i {1 2} {continue}; proc qq {} {return -code 7 z}; catch {qq}; catch {return -code error -errorcode LATER later}; catch {return -level 2 -code error -errorcode L2 -errorinfo {later info} l2}; expr {1 && 0}") in
      (st2, TList [a; b]) in
  TList [out; TList (map (fun call => TStrs (tl call)) (rev (i_trace st)))].

(* ---- the oracle ---- *)
Fixpoint split_lines (s : str) (cur : str) : list str :=
  match s with
  | [] => [rev cur]
  | c :: r => if c =? c_nl then rev cur :: split_lines r [] else split_lines r (c :: cur)
  end.

Definition proc_prefix : str := lit "    (procedure """.
Definition proc_suffix : str := lit """ line TODO)".

(* the procedures named in a trace, in order of appearance *)
Definition procs_in_trace (info : str) : list str :=
  flat_map (fun l => if starts_with proc_prefix l
                     then [firstn (length l - length proc_prefix - length proc_suffix) (skipn (length proc_prefix) l)]
                     else []) (split_lines info []).

Definition first_line (info : str) : str := hd [] (split_lines info []).

(* the procedures the error passes through, innermost first *)
Definition expected_procs (frames : list str) (through_source : bool) (through_name : str) : list str :=
  (if through_source then [through_name] else []) ++
  rev (flat_map (fun p => if str_eqb (snd p) (lit "proc") || str_eqb (snd p) (lit "rproc") then [lit "q" ++ show_Z (Z.of_nat (fst p))] else [])
                (combine (seq 0 (length frames)) frames)).

Definition trace_ok (c : term) (info : str) : bool :=
  let e := term_nth c 1 in
  str_eqb (first_line info) (term_str (term_nth e 2))
  && term_eqb (TStrs (procs_in_trace info))
       (TStrs (expected_procs (term_strs (term_nth c 2)) (Z.eqb (term_int (term_nth e 3)) 1)
                 (if str_eqb (term_str (term_nth e 0)) (lit "lmsg") then lit "rcel" else lit "rcei"))).

(* host channels: (("Err" 1 msg level (code info)) errorCode errorInfo) all describe the error *)
Definition host_ok (c : term) (h : term) : bool :=
  let e := term_nth c 1 in
  match h with
  | TList [TList [TStr t; TInt code; TStr msg; TInt _; TList [TStr ecode; TStr einfo]]; TStr gcode; TStr ginfo] =>
      str_eqb t (lit "Err") && Z.eqb code 1
      && str_eqb msg (term_str (term_nth e 0))
      && str_eqb ecode (term_str (term_nth e 1)) && str_eqb gcode ecode
      && str_eqb ginfo einfo && trace_ok c einfo
  | _ => false
  end.

Definition is_prefix (p s : str) : bool := starts_with p s.

Definition c14_spec_ok (c obs : term) : bool :=
  let e := term_nth c 1 in
  let variant := term_str (term_nth c 0) in
  match term_list obs with
  | [out; TList calls] =>
      if str_eqb variant (lit "host") then host_ok c out && match calls with [] => true | _ => false end
      else if str_eqb variant (lit "catch") || str_eqb variant (lit "catchafter") then
        match calls with
        | [TList [TStr _; TStr code; TStr msg; TStr ocode; TStr ecode; TStr einfo; TStr gcode; TStr ginfo]] =>
            str_eqb code (lit "1") && str_eqb ocode (lit "1")
            && str_eqb msg (term_str (term_nth e 0))
            && str_eqb ecode (term_str (term_nth e 1)) && str_eqb gcode ecode
            && str_eqb ginfo einfo && trace_ok c einfo
        | _ => false
        end
      else if str_eqb variant (lit "rethrow") then
        match calls, out with
        | [TList [TStr _; TStr first]],
          TList [TList [TStr t; TInt code; TStr msg; TInt _; TList [TStr ecode; TStr einfo]]; TStr gcode; TStr ginfo] =>
            (* re-raised with its options: same message, code, and the trace it already had *)
            str_eqb t (lit "Err") && Z.eqb code 1 && str_eqb msg (term_str (term_nth e 0))
            && str_eqb ecode (term_str (term_nth e 1)) && str_eqb gcode ecode
            && str_eqb einfo first && str_eqb ginfo first && trace_ok c first
        | _, _ => false
        end
      else if str_eqb variant (lit "rethrow2") || str_eqb variant (lit "rethrow3") then
        match calls with
        | [TList [TStr _; TStr first]; TList [TStr _; TStr msg; TStr ecode; TStr einfo]] =>
            str_eqb msg (term_str (term_nth e 0)) && str_eqb ecode (term_str (term_nth e 1))
            && is_prefix first einfo && trace_ok c first
        | _ => false
        end
      else
        (* quiet: a later evaluation that raises no error leaves the record untouched *)
        match out, calls with
        | TList [a; TList [TList (TStr t :: _); TStr gcode2; TStr ginfo2]], [] =>
            host_ok c a && str_eqb t (lit "Ok")
            && match a with
               | TList [_; TStr gcode; TStr ginfo] => str_eqb gcode2 gcode && str_eqb ginfo2 ginfo
               | _ => false
               end
        | _, _ => false
        end
  | _ => false
  end.
(* Known class (known_findings.json, finding D35): an error that consists in a script or body TEXT
   failing to parse takes an early exit of eval_value that skips the error bookkeeping - at top
   level (or as the body handed to catch) it is not recorded in errorInfo / errorCode, and a
   procedure whose body does not parse is not named by a "(procedure ...)" line.  Recognised by the
   case's error source being one of the two unparsable texts of the generator (their expected
   messages are the reader's); every other source is reported. *)
Definition c14_known (c : term) : bool :=
  let m := term_str (term_nth (term_nth c 1) 0) in
  str_eqb m (lit "missing """) || str_eqb m (lit "missing close-bracket").
Definition c14_nontrivial (c : term) : bool := Nat.ltb 0 (length (term_strs (term_nth c 2))).
