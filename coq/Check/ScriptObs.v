(* Check/ScriptObs.v — running a history of scripts on the model interpreter and observing it,
   shared by the script-level properties.  The Rust twin is harness/src/props/script.rs. *)
From Molt Require Import Model.Base Model.ListSyn Model.Float Model.Value Model.State Model.Script
  Model.Parser Model.Eval Model.Expr Model.Commands Model.Unicode Model.Interp.
Local Open Scope N_scope.

Definition model_fuel : nat := 3000.

Definition obs_exn (e : exn) : term :=
  TTag "Err" [TInt (rcode_as_int (x_code e)); TStr (as_str (x_value e)); TInt (Z.of_N (x_level e));
              match x_data e with
              | Some d => TList [TStr (as_str (ed_code d)); TStr (ed_info d)]
              | None => TList []
              end].

Definition obs_res (r : res value) : term :=
  match r with
  | Ok v => TTag "Ok" [TStr (as_str v)]
  | Err e => obs_exn e
  | Panic p => TTag "PANIC" [TStr p]
  | Fuel => TTag "FUEL" []
  end.

(* the interpreter the harness builds: Interp::new() plus its own commands *)
Definition harness_interp (limit : Z) : interp :=
  let st := interp_new in
  let st := set_cmds st (i_cmds st ++ [(lit "rec", CmdNative NRecorder 0); (lit "ident", CmdNative NIdent 0)]) in
  if Z.eqb limit 0 then st else set_limit st (Z.to_N limit).

Fixpoint run_history (st : interp) (scripts : list str) (acc : list term) : interp * list term :=
  match scripts with
  | [] => (st, rev acc)
  | s :: r =>
      let '(st1, res) := eval std_uni model_fuel st s in
      run_history st1 r (obs_res res :: acc)
  end.

(* insertion sort of strings (HashMap-derived listings are compared as sets) *)
Fixpoint insert_sorted (x : str) (l : list str) : list str :=
  match l with
  | [] => [x]
  | y :: r => match str_cmp x y with Gt => y :: insert_sorted x r | _ => x :: l end
  end.
Definition sort_strs (l : list str) : list str := fold_right insert_sorted [] l.

Definition obs_var (st : interp) (name : str) : term :=
  match sc_lookup (i_scopes st) name with
  | None => TTag "unset" []
  | Some (VarScalar v) => TTag "scalar" [TStr (as_str v)]
  | Some (VarArray m) =>
      TTag "array" [TStrs (sort_strs (map (fun kv => fst kv ++ [c_eq] ++ as_str (snd kv)) m))]
  | Some _ => TTag "other" []
  end.

(* case: (limit scripts probes).  obs: (outcomes trace vars scope_level) *)
Definition script_model_obs (c : term) : term :=
  let limit := term_int (term_nth c 0) in
  let scripts := term_strs (term_nth c 1) in
  let probes := term_strs (term_nth c 2) in
  let '(st, outs) := run_history (harness_interp limit) scripts [] in
  TList [TList outs;
         TList (map TStrs (rev (i_trace st)));
         TList (map (obs_var st) probes);
         TInt (Z.of_nat (sc_current (i_scopes st)))].
