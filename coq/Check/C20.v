(* Check/C20.v — C20: the test harness's verdicts are truthful. *)
From Molt Require Import Model.Base Model.ListSyn Model.Float Model.Value Model.State Model.Script
  Model.Parser Model.Eval Model.Expr Model.Commands Model.Harness Model.Unicode Model.Interp
  Check.ScriptObs.
Local Open Scope N_scope.

(* case: (descriptors script).  obs: (tests passed failed errors ok) | ("aborted" ok) *)
Definition c20_model_obs (c : term) : term :=
  let st0 := interp_new in
  let st0 := set_cmds st0 (i_cmds st0 ++ [(lit "test", CmdNative NTest 0)]) in
  let '(st, r) := eval std_uni model_fuel st0 (term_str (term_nth c 1)) in
  match r with
  | Ok _ =>
      let '(t, p, f, e) := i_test st in
      TList [TInt (Z.of_N t); TInt (Z.of_N p); TInt (Z.of_N f); TInt (Z.of_N e); TBool (harness_verdict st r)]
  | Err _ => TTag "aborted" [TBool false]
  | Panic p => TTag "PANIC" [TStr p]
  | Fuel => TTag "FUEL" []
  end.

(* ---- the oracle: verdicts from the descriptors alone ---- *)
(* body table: (outcome kind, value); kind 13 depends on the setup *)
Definition body_outcome (b : Z) (form : str) (setup : Z) : str * str :=
  let t := [("ok", "3"); ("ok", "5"); ("ok", "0"); ("ok", "a b"); ("ok", ""); ("error", "boom");
            ("error", "invalid command name ""nosuchcmd"""); ("error", "a msg"); ("return", "foo");
            ("break", ""); ("continue", ""); ("return", "x"); ("return", "rboom")]%string in
  if Z.eqb b 14 then (lit "ok", lit "0")          (* a variable set by an earlier -cleanup is not visible *)
  else if Z.eqb b 15 then                          (* only this test's own -setup is visible *)
    if (str_eqb form (lit "fancy") || str_eqb form (lit "fancy2")) && Z.eqb setup 1
    then (lit "ok", lit "1") else (lit "ok", lit "0")
  else if Z.eqb b 13 then
    if (str_eqb form (lit "fancy") || str_eqb form (lit "fancy2")) && Z.eqb setup 1
    then (lit "ok", lit "1") else (lit "error", lit "can't read ""sv"": no such variable")
  else
    match nth_error t (Z.to_nat b) with
    | Some (k, v) => (lit k, lit v)
    | None => ([], [])
    end.

(* per test: (ran, passed, failed, errors) increments, and whether the script aborts here *)
Definition verdict_of (d : term) : (N * N * N * N) * bool :=
  let form := term_str (term_nth d 0) in
  let '(kind, val) := body_outcome (term_int (term_nth d 1)) form (term_int (term_nth d 4)) in
  let ecode := term_str (term_nth d 2) in
  let evalue := term_str (term_nth d 3) in
  if str_eqb form (lit "arity") then ((0, 0, 0, 0), true)                       (* wrong # args: the script stops *)
  else if str_eqb form (lit "badcode") || str_eqb form (lit "missing") || str_eqb form (lit "badopt") then ((0, 0, 0, 1), false)   (* not run, counted as error *)
  else
    let want_ok := str_eqb ecode (lit "-ok") in
    if (str_eqb kind (lit "ok") && want_ok) || (str_eqb kind (lit "error") && negb want_ok) then
      if str_eqb val evalue then ((1, 1, 0, 0), false) else ((1, 0, 1, 0), false)
    else ((1, 0, 0, 1), false).

Fixpoint tally (ds : list term) (acc : N * N * N * N) : (N * N * N * N) * bool :=
  match ds with
  | [] => (acc, false)
  | d :: r =>
      let '((t, p, f, e), abort) := verdict_of d in
      let '(at_, ap, af, ae) := acc in
      if abort then (acc, true) else tally r (at_ + t, ap + p, af + f, ae + e)
  end.

Definition c20_spec_ok (c obs : term) : bool :=
  let '((t, p, f, e), abort) := tally (term_list (term_nth c 0)) (0, 0, 0, 0) in
  if abort then term_eqb obs (TTag "aborted" [TBool false])
  else
    term_eqb obs (TList [TInt (Z.of_N t); TInt (Z.of_N p); TInt (Z.of_N f); TInt (Z.of_N e);
                         TBool (f + e =? 0)])
    (* every executed test is counted exactly once *)
    && (t =? p + f + e - (* malformed invocations count an error without running a test *)
              N.of_nat (length (filter (fun d => let form := term_str (term_nth d 0) in
                                                  str_eqb form (lit "badcode") || str_eqb form (lit "missing")
                                                  || str_eqb form (lit "badopt"))
                                       (term_list (term_nth c 0))))).
Definition c20_known (c : term) : bool := false.
Definition c20_nontrivial (c : term) : bool := true.
