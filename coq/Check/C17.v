(* Check/C17.v — C17: syntax errors are detected before anything runs, and `complete` agrees. *)
From Molt Require Import Model.Base Model.ListSyn Model.Float Model.Value Model.State Model.Script
  Model.Parser Model.Eval Model.Expr Model.Commands Model.Unicode Model.Interp Check.ScriptObs.
Local Open Scope N_scope.

(* case: the script text.  obs: (complete_host complete_info side_effect_free outcome trace same_after_views) *)
Definition c17_model_obs (c : term) : term :=
  let s := term_str c in
  let '(st0, _) := eval std_uni model_fuel (harness_interp 0) (lit "set a 0; set k(1) v") in
  let c1 := complete std_uni s in
  let '(st1, r2) := eval_value std_uni model_fuel st0
                      (VStr (as_str (VList [VStr (lit "info"); VStr (lit "complete"); VStr s]))) in
  let c2 := match r2 with Ok v => TStr (as_str v) | Err e => TTag "Err" [TStr (as_str (x_value e))] | _ => TTag "?" [] end in
  let pure := match i_trace st1 with [] => true | _ => false end in
  let '(st2, r) := eval std_uni model_fuel st1 s in
  (* last component: evaluating the same text from a value that was first read as a list, a
     dictionary and an integer gives the same outcome and calls (the model has no caches, so this
     is [true] by construction; the implementation's answer is what is being tested) *)
  TList [TBool c1; c2; TBool pure; obs_res r; TList (map TStrs (rev (i_trace st2))); TBool true].

(* the property, against the reference reader [parse] *)
Definition c17_spec_ok (c obs : term) : bool :=
  let s := term_str c in
  let valid := match parse is_alphanumeric s with POk _ _ => true | _ => false end in
  match term_list obs with
  | [TInt c1; c2; TInt pure; TList (TStr t :: _); TList calls; TInt same] =>
      Z.eqb same 1
      && Z.eqb c1 (if valid then 1 else 0)
      && term_eqb c2 (TStr (if valid then [49] else [48]))
      && Z.eqb pure 1
      && (valid || (str_eqb t (lit "Err") && match calls with [] => true | _ => false end))
  | _ => false
  end.
Definition c17_known (c : term) : bool := false.
Definition c17_nontrivial (c : term) : bool :=
  match parse is_alphanumeric (term_str c) with POk _ _ => false | _ => true end.
