(* Check/C13.v — C13: cached representations are unobservable: everything is a string. *)
From Molt Require Import Model.Base Model.ListSyn Model.Float Model.Value Model.State Model.Script
  Model.Parser Model.Eval Model.Expr Model.Commands Model.Unicode Model.Interp Check.ScriptObs.
Local Open Scope N_scope.

Definition c13_init : str :=
  lit "set n 5; set m 10; set l {1 2 3}; set d {k 1 j 2}; set s abc; set body {}".

Definition run13 (script : str) : term :=
  let '(st0, _) := eval std_uni model_fuel (harness_interp 0) c13_init in
  let '(st, r) := eval std_uni model_fuel st0 script in
  TList [match r with
         | Ok v => TTag "Ok" [TStr (as_str v)]
         | Err e => TTag "Err" [TStr (as_str (x_value e))]
         | Panic p => TTag "PANIC" [TStr p]
         | Fuel => TTag "FUEL" []
         end;
         TList (map (obs_var st) [lit "n"; lit "m"; lit "l"; lit "d"; lit "s"])].

Definition run13_keep (script : str) : term :=
  run13 (lit "set ident_keeps_integral_floats 1; " ++ script).

(* case: (may_build_floats plain stripped).  obs: (observation of plain, observation of stripped) *)
Definition c13_model_obs (c : term) : term :=
  TList [run13 (term_str (term_nth c 1)); run13 (term_str (term_nth c 2))].

(* the property: both forms of the program give the same result and the same final variables. *)
Definition c13_spec_ok (c obs : term) : bool :=
  match term_list obs with
  | [a; b] => term_eqb a b
  | _ => false
  end.

(* Known class (known_findings.json, finding D31, pinned by the project's own tests): a float
   with an integral value prints without a decimal point and re-reads as an integer.  A case
   belongs to it when, in the model, the two forms differ and stop differing once the identity
   command keeps such floats typed - so any other dependence on a cached representation is
   still reported. *)
Definition c13_known (c : term) : bool :=
  let plain := run13 (term_str (term_nth c 1)) in
  negb (term_eqb plain (run13 (term_str (term_nth c 2)))) &&
  term_eqb plain (run13_keep (term_str (term_nth c 2))).
Definition c13_nontrivial (c : term) : bool := negb (str_eqb (term_str (term_nth c 1)) (term_str (term_nth c 2))).
