(* Check/C05.v — observation, oracle and known-class functions of property C05 (extracted). *)
From Molt Require Import Model.Base Model.Tokenizer Model.ListSyn.

Definition obs_list_result (r : option (list_err + list str)) : term :=
  match r with
  | None => TTag "OutOfFuel" []
  | Some (inl e) => TTag "Err" [TStr (list_err_msg e)]
  | Some (inr l) => TTag "Ok" [TStrs l]
  end.

(* case: TList of strings.  obs: (formatted, re-parsed, re-formatted) *)
Definition c05_model_obs (c : term) : term :=
  let l := term_strs c in
  let f := list_to_string l in
  let r := get_list f in
  let f2 := match r with Some (inr l') => list_to_string l' | _ => [] end in
  TList [TStr f; obs_list_result r; TStr f2].

(* the property itself, evaluated on an observation (model's or implementation's) *)
Definition c05_spec_ok (c : term) (obs : term) : bool :=
  let l := term_strs c in
  match term_list obs with
  | [TStr f; r; TStr f2] => term_eqb r (TTag "Ok" [TStrs l]) && str_eqb f f2
  | _ => false
  end.

Definition c05_known (c : term) : bool := false.

(* non-trivial: some element needed quoting *)
Definition c05_nontrivial (c : term) : bool :=
  existsb (fun w => match get_mode w with AsIs => false | _ => true end) (term_strs c).
