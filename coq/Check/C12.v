(* Check/C12.v — C12: short-circuit operands are parsed but never executed. *)
From Molt Require Import Model.Base Model.ListSyn Model.Float Model.Value Model.State Model.Script
  Model.Parser Model.Eval Model.Expr Model.Commands Model.Unicode Model.Interp Check.ScriptObs
  Check.C03 Spec.SpecExpr.
Local Open Scope N_scope.

(* case: (tree text vars).  obs: (outcome, list of recorded call keys) *)
Definition c12_model_obs (c : term) : term :=
  let st := preset (harness_interp 0) (term_list (term_nth c 2)) in
  let '(st1, r) := expr std_uni model_fuel st (VStr (term_str (term_nth c 1))) in
  TList [match r with
         | Ok v => TTag "Ok" [TStr (as_str v)]
         | Err e => TTag "Err" [TStr (as_str (x_value e))]
         | Panic p => TTag "PANIC" [TStr p]
         | Fuel => TTag "FUEL" []
         end;
         TStrs (map (fun call => nth 1 call []) (rev (i_trace st1)))].

(* oracle: the reference evaluation of the tree under C semantics: the same calls in the same
   order, and the same value (any error message is accepted where the reference has an error);
   a tree with malformed text in it must be an error *)
Definition c12_spec_ok (c obs : term) : bool :=
  let t := term_nth c 0 in
  match term_list obs with
  | [out; TList calls] =>
      if contains_raw t then
        match out with TList (TStr tg :: _) => str_eqb tg (lit "Err") | _ => false end
      else
        let '(tr, r) := eval_tr t in
        term_eqb (TList calls) (TStrs tr)
        && match r, out with
           | Ok d, TList [TStr tg; TStr s] => str_eqb tg (lit "Ok") && str_eqb s (datum_str d)
           | Err _, TList [TStr tg; _] => str_eqb tg (lit "Err")
           | _, _ => false
           end
  | _ => false
  end.
Definition c12_known (c : term) : bool := false.
(* non-trivial: some operand was skipped, i.e. the tree mentions more calls than were made *)
Fixpoint count_recs (t : term) : nat :=
  match t with
  | TList (TStr tg :: rest) =>
      (if str_eqb tg (lit "rec") || str_eqb tg (lit "qrec") then 1 else 0)%nat +
      (fix go (l : list term) : nat := match l with [] => O | x :: r => (count_recs x + go r)%nat end) rest
  | _ => O
  end.
Definition c12_nontrivial (c : term) : bool :=
  Nat.ltb (length (fst (eval_tr (term_nth c 0)))) (count_recs (term_nth c 0)).
