(* Check/C03.v — C03: expressions evaluate per the documented operator grammar. *)
From Molt Require Import Model.Base Model.ListSyn Model.Float Model.Value Model.State Model.Script
  Model.Parser Model.Eval Model.Expr Model.Commands Model.Unicode Model.Interp Check.ScriptObs
  Spec.SpecExpr.
Local Open Scope N_scope.

Definition preset (st : interp) (vars : list term) : interp :=
  fold_left (fun st kv => fst (st_set_scalar st (term_str (term_nth kv 0)) (VStr (term_str (term_nth kv 1)))))
            vars st.

(* case: (tree text vars).  obs: ("Ok" string) | ("Err" message) *)
Definition c03_model_obs (c : term) : term :=
  let st := preset (harness_interp 0) (term_list (term_nth c 2)) in
  match snd (expr std_uni model_fuel st (VStr (term_str (term_nth c 1)))) with
  | Ok v => TTag "Ok" [TStr (as_str v)]
  | Err e => TTag "Err" [TStr (as_str (x_value e))]
  | Panic p => TTag "PANIC" [TStr p]
  | Fuel => TTag "FUEL" []
  end.

(* the oracle: the value of the TREE (errors: any error message is accepted) *)
Definition c03_spec_ok (c obs : term) : bool :=
  match eval_ast (term_nth c 0), obs with
  | Ok d, TList [TStr t; TStr s] => str_eqb t (lit "Ok") && str_eqb s (datum_str d)
  | Err _, TList [TStr t; _] => str_eqb t (lit "Err")
  | _, _ => false
  end.

Definition c03_known (c : term) : bool := false.
Definition c03_nontrivial (c : term) : bool :=
  match term_nth c 0 with TList (_ :: _ :: _ :: _) => true | _ => false end.
