(* Check/C16.v — C16: the nesting limit is exact, fail-safe and recoverable. *)
From Molt Require Import Model.Base Model.ListSyn Model.Float Model.Value Model.State Model.Script
  Model.Parser Model.Eval Model.Expr Model.Commands Model.Unicode Model.Interp Check.ScriptObs.
Local Open Scope Z_scope.

Definition zrepeat (d : Z) (f : Z -> str -> str) (s : str) : str :=
  snd (fold_left (fun acc _ => let '(i, s) := acc in (i + 1, f i s)) (repeat tt (Z.to_nat d)) (0, s)).

Definition wrap_catch (s : str) : str := lit "catch {" ++ s ++ lit "}".

(* twin of harness c16::nest *)
Definition nest (kind d : Z) (catch_each : bool) : str :=
  zrepeat d (fun i s =>
    let s1 :=
      if kind =? 0 then wrap_catch s
      else if kind =? 1 then lit "if 1 {" ++ s ++ lit "}"
      else if kind =? 2 then lit "foreach v" ++ show_Z i ++ lit " 1 {" ++ s ++ lit "}"
      else lit "for {set u" ++ show_Z i ++ lit " 0} {$u" ++ show_Z i ++ lit " < 1} {incr u" ++ show_Z i ++ lit "} {" ++ s ++ lit "}" in
    if catch_each && negb (kind =? 0) then wrap_catch s1 else s1) (lit "rec deep").

Definition procs_text : str :=
  lit "proc down {n} {if {$n <= 0} {rec deep; return ok}; down [expr {$n - 1}]}" ++ [c_nl] ++
  lit "proc ping {n} {if {$n <= 0} {rec deep; return ok}; pong [expr {$n - 1}]}" ++ [c_nl] ++
  lit "proc pong {n} {ping $n}".

(* the script for (kind, target, catch_each) and the number of nested evaluation levels it needs *)
(* kind 6: an `if` nest whose innermost body does not parse (an unterminated quote): one level too deep,
   the limit error must win over the syntax error; when it fits, the syntax error is reported *)
Definition nest_bad (d : Z) : str :=
  zrepeat d (fun _ s => lit "if 1 {" ++ s ++ lit "}") (lit "set x ""abc").

Definition script_for (kind target : Z) (catch_each : bool) : str * Z :=
  if kind =? 6 then
    let d := Z.max (target - 1) 0 in (nest_bad d, 1 + d)
  else if kind <=? 3 then
    let per := if catch_each && negb (kind =? 0) then 2 else 1 in
    let d := Z.max ((target - 1) / per) 0 in
    (nest kind d catch_each, 1 + d * per)
  else if kind =? 4 then
    let k := Z.max (target - 3) 0 in (lit "down " ++ show_Z k, k + 3)
  else if kind =? 7 then
    (* recursion through a command substitution inside an expression: as deep as `down` *)
    let k := Z.max (target - 3) 0 in
    (lit "proc sum {n} {if {$n <= 0} {rec deep; return 0}; expr {1 + [sum [expr {$n - 1}]]}}; sum " ++ show_Z k, k + 3)
  else
    let k := Z.max ((target - 3) / 2) 0 in (lit "ping " ++ show_Z k, 2 * k + 3).

(* earlier, caught failures on the same interpreter (twin of harness c16::HISTORIES) *)
Definition history_text (h : Z) : str :=
  if h =? 1 then
    [c_nl] ++ lit "catch {if 1 ""set x \{""}" ++ [c_nl] ++ lit "catch {if 1 {if 1 ""set x \{""}}" ++ [c_nl]
    ++ lit "catch {foreach i 1 {expr {[}}}" ++ [c_nl] ++ lit "set h ok"
  else if h =? 2 then
    [c_nl] ++ lit "proc inf {} {inf}" ++ [c_nl] ++ lit "catch {inf}" ++ [c_nl] ++ lit "catch {if 1 {inf}}" ++ [c_nl] ++ lit "set h ok"
  else if h =? 3 then
    [c_nl] ++ lit "proc wa {a} {}" ++ [c_nl] ++ lit "catch {if 1 {wa}}" ++ [c_nl] ++ lit "catch {wa 1 2}" ++ [c_nl] ++ lit "set h ok"
  else if h =? 4 then
    [c_nl] ++ lit "proc e1 {} {e2}" ++ [c_nl] ++ lit "proc e2 {} {error deep}" ++ [c_nl]
    ++ lit "unset -nocomplain errorCode" ++ [c_nl] ++ lit "set errorCode(x) 1" ++ [c_nl]
    ++ lit "catch {e1}" ++ [c_nl] ++ lit "catch {if 1 {e1}}" ++ [c_nl]
    ++ lit "unset errorCode" ++ [c_nl] ++ lit "set errorCode NONE" ++ [c_nl] ++ lit "set h ok"
  else [].

Definition c16_scripts (c : term) : list str :=
  let n := term_int (term_nth c 0) in
  let kind := term_int (term_nth c 1) in
  let target := term_int (term_nth c 2) in
  let catch_each := Z.eqb (term_int (term_nth c 3)) 1 in
  let reps := Z.to_nat (term_int (term_nth c 4)) in
  let s := fst (script_for kind target catch_each) in
  [procs_text ++ history_text (term_int (term_nth c 5))] ++ concat (repeat [s; lit "catch {" ++ s ++ lit "} msg; set msg"] reps)
  ++ [fst (script_for 1 n false)].

Definition c16_model_obs (c : term) : term :=
  let n := term_int (term_nth c 0) in
  match c16_scripts c with
  | p :: rest =>
      let '(st0, r0) := eval std_uni model_fuel (harness_interp 0) p in
      let '(st, outs) := run_history (set_limit st0 (Z.to_N n)) rest [obs_res r0] in
      TList [TList outs; TList (map TStrs (rev (i_trace st))); TList []; TInt (Z.of_nat (sc_current (i_scopes st)))]
  | [] => TList []
  end.

(* the oracle: a script that needs [need] levels succeeds iff need <= N; the failure is the
   catchable 'too many nested calls' error; afterwards depth N is available again *)
Definition too_many : str := lit "too many nested calls to Interp::eval (infinite loop?)".

Definition is_ok (t : term) : bool := match t with TList (TStr tg :: _) => str_eqb tg (lit "Ok") | _ => false end.
Definition ok_value (t : term) : str := match t with TList [_; TStr v] => v | _ => [] end.
Definition is_err_with (t : term) (m : str) : bool :=
  match t with
  | TList (TStr tg :: TInt code :: TStr msg :: _) => str_eqb tg (lit "Err") && Z.eqb code 1 && str_eqb msg m
  | _ => false
  end.
Definition is_too_many (t : term) : bool :=
  match t with
  | TList (TStr tg :: TInt code :: TStr msg :: _) => str_eqb tg (lit "Err") && Z.eqb code 1 && str_eqb msg too_many
  | _ => false
  end.

Definition c16_spec_ok (c obs : term) : bool :=
  let n := term_int (term_nth c 0) in
  let kind := term_int (term_nth c 1) in
  let target := term_int (term_nth c 2) in
  let catch_each := Z.eqb (term_int (term_nth c 3)) 1 in
  let reps := Z.to_nat (term_int (term_nth c 4)) in
  let need := snd (script_for kind target catch_each) in
  let fits := need <=? n in
  (* every level of the nest is inside a catch when kind = 0 or catch_each *)
  let guarded := (kind =? 0) || (catch_each && (kind <=? 3)) in
  let fits1 := need + 1 <=? n in
  match term_list obs with
  | [TList (o0 :: outs); TList calls; _; TInt level] =>
      is_ok o0
      && (fix go (k : nat) (l : list term) : bool :=
            match k, l with
            | O, [final] => is_ok final         (* the full depth N is available again *)
            | S k', plain :: caught :: l' =>
                (if kind =? 6 then
                   (* the innermost body is a syntax error: reported when it fits, the limit error otherwise *)
                   (if fits then is_err_with plain (lit "missing """) else is_too_many plain)
                   && is_ok caught
                   && str_eqb (ok_value caught) (if fits1 then lit "missing """ else too_many)
                 else
                (if fits then is_ok plain
                 else if guarded then is_ok plain      (* the innermost catch absorbs the error *)
                 else is_too_many plain)
                (* `catch {script} msg; set msg`: needs one more level *)
                && is_ok caught
                && (if fits1 then true
                    else if guarded && fits then true
                    else if guarded then true
                    else str_eqb (ok_value caught) too_many))
                && go k' l'
            | _, _ => false
            end) reps outs
      && Z.eqb level 0
      && (* `rec deep` ran exactly in the runs that fit *)
         Nat.eqb (length calls)
           ((if Z.eqb kind 6 then O else ((if fits then reps else O) + (if fits1 then reps else O))) + 1)%nat
  | _ => false
  end.
Definition c16_known (c : term) : bool := false.
Definition c16_nontrivial (c : term) : bool :=
  negb (snd (script_for (term_int (term_nth c 1)) (term_int (term_nth c 2)) (Z.eqb (term_int (term_nth c 3)) 1))
        <=? term_int (term_nth c 0)).
