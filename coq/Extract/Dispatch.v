(* Dispatch.v — one entry point for the OCaml driver: property number -> functions. *)
From Molt Require Import Model.Base Model.Tokenizer Check.C05 Check.C02 Check.C01 Check.C03 Check.C09 Check.C11 Check.C17 Check.C08 Check.C16 Check.C15 Check.C18 Check.C19 Check.C10 Check.C12 Check.C07 Check.C04 Check.C20 Check.C06 Check.C14 Check.C13.

Record prop_fns := {
  pf_model_obs : term -> term;
  pf_spec_ok : term -> term -> bool;
  pf_known : term -> bool;
  pf_nontrivial : term -> bool }.

Definition no_prop : prop_fns :=
  {| pf_model_obs := fun _ => TTag "NoSuchProperty" [];
     pf_spec_ok := fun _ _ => false; pf_known := fun _ => false; pf_nontrivial := fun _ => false |}.

Definition dispatch (p : N) : prop_fns :=
  match p with
  | 3%N => {| pf_model_obs := c03_model_obs; pf_spec_ok := c03_spec_ok;
              pf_known := c03_known; pf_nontrivial := c03_nontrivial |}
  | 4%N => {| pf_model_obs := c04_model_obs; pf_spec_ok := c04_spec_ok;
              pf_known := c04_known; pf_nontrivial := c04_nontrivial |}
  | 5%N => {| pf_model_obs := c05_model_obs; pf_spec_ok := c05_spec_ok;
              pf_known := c05_known; pf_nontrivial := c05_nontrivial |}
  | 1%N => {| pf_model_obs := c01_model_obs; pf_spec_ok := c01_spec_ok;
              pf_known := c01_known; pf_nontrivial := c01_nontrivial |}
  | 2%N => {| pf_model_obs := c02_model_obs; pf_spec_ok := c02_spec_ok;
              pf_known := c02_known; pf_nontrivial := c02_nontrivial |}
  | 6%N => {| pf_model_obs := c06_model_obs; pf_spec_ok := c06_spec_ok;
              pf_known := c06_known; pf_nontrivial := c06_nontrivial |}
  | 7%N => {| pf_model_obs := c07_model_obs; pf_spec_ok := c07_spec_ok;
              pf_known := c07_known; pf_nontrivial := c07_nontrivial |}
  | 8%N => {| pf_model_obs := c08_model_obs; pf_spec_ok := c08_spec_ok;
              pf_known := c08_known; pf_nontrivial := c08_nontrivial |}
  | 12%N => {| pf_model_obs := c12_model_obs; pf_spec_ok := c12_spec_ok;
               pf_known := c12_known; pf_nontrivial := c12_nontrivial |}
  | 13%N => {| pf_model_obs := c13_model_obs; pf_spec_ok := c13_spec_ok;
               pf_known := c13_known; pf_nontrivial := c13_nontrivial |}
  | 14%N => {| pf_model_obs := c14_model_obs; pf_spec_ok := c14_spec_ok;
               pf_known := c14_known; pf_nontrivial := c14_nontrivial |}
  | 15%N => {| pf_model_obs := c15_model_obs; pf_spec_ok := c15_spec_ok;
               pf_known := c15_known; pf_nontrivial := c15_nontrivial |}
  | 16%N => {| pf_model_obs := c16_model_obs; pf_spec_ok := c16_spec_ok;
               pf_known := c16_known; pf_nontrivial := c16_nontrivial |}
  | 18%N => {| pf_model_obs := c18_model_obs; pf_spec_ok := c18_spec_ok;
               pf_known := c18_known; pf_nontrivial := c18_nontrivial |}
  | 19%N => {| pf_model_obs := c19_model_obs; pf_spec_ok := c19_spec_ok;
               pf_known := c19_known; pf_nontrivial := c19_nontrivial |}
  | 9%N => {| pf_model_obs := c09_model_obs; pf_spec_ok := c09_spec_ok;
              pf_known := c09_known; pf_nontrivial := c09_nontrivial |}
  | 10%N => {| pf_model_obs := c10_model_obs; pf_spec_ok := c10_spec_ok;
               pf_known := c10_known; pf_nontrivial := c10_nontrivial |}
  | 11%N => {| pf_model_obs := c11_model_obs; pf_spec_ok := c11_spec_ok;
               pf_known := c11_known; pf_nontrivial := c11_nontrivial |}
  | 17%N => {| pf_model_obs := c17_model_obs; pf_spec_ok := c17_spec_ok;
               pf_known := c17_known; pf_nontrivial := c17_nontrivial |}
  | 20%N => {| pf_model_obs := c20_model_obs; pf_spec_ok := c20_spec_ok;
               pf_known := c20_known; pf_nontrivial := c20_nontrivial |}
  | _ => no_prop
  end.

(* helpers for the driver's reader/printer, so that big integers never go through OCaml ints *)
Definition parse_dec (neg : bool) (ds : str) : Z :=
  let n := Z.of_N (Tokenizer.digits_val 10 ds) in if neg then Z.opp n else n.
Definition print_dec (z : Z) : str := show_Z z.
