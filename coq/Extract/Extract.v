From Coq Require Extraction.
From Coq Require Import ExtrOcamlBasic.
From Molt Require Import Model.Base Extract.Dispatch.
Extraction Language OCaml.
Extraction "../driver/molt_model.ml" dispatch term_eqb parse_dec print_dec.
