
val negb : bool -> bool

type nat =
| O
| S of nat

type ('a, 'b) sum =
| Inl of 'a
| Inr of 'b

val length : 'a1 list -> nat

val app : 'a1 list -> 'a1 list -> 'a1 list

type comparison =
| Eq
| Lt
| Gt

type positive =
| XI of positive
| XO of positive
| XH

type n =
| N0
| Npos of positive

type z =
| Z0
| Zpos of positive
| Zneg of positive

module Nat :
 sig
  val eqb : nat -> nat -> bool
 end

module Pos :
 sig
  type mask =
  | IsNul
  | IsPos of positive
  | IsNeg
 end

module Coq_Pos :
 sig
  val succ : positive -> positive

  val add : positive -> positive -> positive

  val add_carry : positive -> positive -> positive

  val pred_double : positive -> positive

  type mask = Pos.mask =
  | IsNul
  | IsPos of positive
  | IsNeg

  val succ_double_mask : mask -> mask

  val double_mask : mask -> mask

  val double_pred_mask : positive -> mask

  val sub_mask : positive -> positive -> mask

  val sub_mask_carry : positive -> positive -> mask

  val mul : positive -> positive -> positive

  val compare_cont : comparison -> positive -> positive -> comparison

  val compare : positive -> positive -> comparison

  val eqb : positive -> positive -> bool
 end

module N :
 sig
  val add : n -> n -> n

  val sub : n -> n -> n

  val mul : n -> n -> n

  val compare : n -> n -> comparison

  val eqb : n -> n -> bool

  val leb : n -> n -> bool

  val ltb : n -> n -> bool
 end

type ascii =
| Ascii of bool * bool * bool * bool * bool * bool * bool * bool

val n_of_digits : bool list -> n

val n_of_ascii : ascii -> n

val rev : 'a1 list -> 'a1 list

val map : ('a1 -> 'a2) -> 'a1 list -> 'a2 list

val fold_left : ('a1 -> 'a2 -> 'a1) -> 'a2 list -> 'a1 -> 'a1

val existsb : ('a1 -> bool) -> 'a1 list -> bool

module Z :
 sig
  val eqb : z -> z -> bool
 end

type string =
| EmptyString
| String of ascii * string

type char = n

type str = char list

val str_of_string : string -> str

val lit : string -> str

val c_nl : char

val c_space : char

val c_dquote : char

val c_hash : char

val c_dollar : char

val c_semi : char

val c_lbracket : char

val c_bslash : char

val c_rbracket : char

val c_lbrace : char

val c_rbrace : char

val str_eqb : str -> str -> bool

val join_str : str -> str list -> str

val is_whitespace : char -> bool

val is_digit10 : char -> bool

val is_digit8 : char -> bool

val is_digit16 : char -> bool

val digit_val : char -> n

val is_scalar : n -> bool

val skip_while : (char -> bool) -> str -> str

type term =
| TStr of str
| TInt of z
| TList of term list

val term_str : term -> str

val term_list : term -> term list

val term_strs : term -> str list

val tStrs : str list -> term

val tTag : string -> term list -> term

val term_eqb : term -> term -> bool

val take_upto : nat -> (char -> bool) -> str -> str * str

val digits_val : n -> str -> n

val bsubst : str -> char * str

type list_err =
| UnmatchedBrace
| ExtraAfterBrace
| UnmatchedQuote

val list_err_msg : list_err -> str

val is_list_white : char -> bool

val pbi : str -> nat -> str -> (list_err, str * str) sum

val pqi : nat -> str -> str -> (list_err, str * str) sum

val pbare : nat -> str -> str -> str * str

val parse_item : str -> (list_err, str * str) sum

val parse_list : nat -> str -> str list -> (list_err, str list) sum option

val get_list : str -> (list_err, str list) sum option

type mode =
| AsIs
| Brace
| Escape

val is_quote_special : char -> bool

val mode_scan : str -> bool -> bool -> nat -> (bool * bool) * nat

val get_mode : str -> mode

val brace_item : str -> str

val is_escape_special : char -> bool

val escape_chars : str -> str

val escape_item : bool -> str -> str

val format_items : bool -> str list -> str list

val starts_with_hash : str list -> bool

val list_to_string : str list -> str

val obs_list_result : (list_err, str list) sum option -> term

val c05_model_obs : term -> term

val c05_spec_ok : term -> term -> bool

val c05_known : term -> bool

val c05_nontrivial : term -> bool

type prop_fns = { pf_model_obs : (term -> term);
                  pf_spec_ok : (term -> term -> bool);
                  pf_known : (term -> bool); pf_nontrivial : (term -> bool) }

val no_prop : prop_fns

val dispatch : n -> prop_fns
