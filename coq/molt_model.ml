
(** val negb : bool -> bool **)

let negb = function
| true -> false
| false -> true

type nat =
| O
| S of nat

type ('a, 'b) sum =
| Inl of 'a
| Inr of 'b

(** val length : 'a1 list -> nat **)

let rec length = function
| [] -> O
| _ :: l' -> S (length l')

(** val app : 'a1 list -> 'a1 list -> 'a1 list **)

let rec app l m =
  match l with
  | [] -> m
  | a :: l1 -> a :: (app l1 m)

type comparison =
| Eq
| Lt
| Gt

type positive =
| XI of positive
| XO of positive
| XH

type n =
| N0
| Npos of positive

type z =
| Z0
| Zpos of positive
| Zneg of positive

module Nat =
 struct
  (** val eqb : nat -> nat -> bool **)

  let rec eqb n0 m =
    match n0 with
    | O -> (match m with
            | O -> true
            | S _ -> false)
    | S n' -> (match m with
               | O -> false
               | S m' -> eqb n' m')
 end

module Pos =
 struct
  type mask =
  | IsNul
  | IsPos of positive
  | IsNeg
 end

module Coq_Pos =
 struct
  (** val succ : positive -> positive **)

  let rec succ = function
  | XI p -> XO (succ p)
  | XO p -> XI p
  | XH -> XO XH

  (** val add : positive -> positive -> positive **)

  let rec add x y =
    match x with
    | XI p ->
      (match y with
       | XI q -> XO (add_carry p q)
       | XO q -> XI (add p q)
       | XH -> XO (succ p))
    | XO p ->
      (match y with
       | XI q -> XI (add p q)
       | XO q -> XO (add p q)
       | XH -> XI p)
    | XH -> (match y with
             | XI q -> XO (succ q)
             | XO q -> XI q
             | XH -> XO XH)

  (** val add_carry : positive -> positive -> positive **)

  and add_carry x y =
    match x with
    | XI p ->
      (match y with
       | XI q -> XI (add_carry p q)
       | XO q -> XO (add_carry p q)
       | XH -> XI (succ p))
    | XO p ->
      (match y with
       | XI q -> XO (add_carry p q)
       | XO q -> XI (add p q)
       | XH -> XO (succ p))
    | XH ->
      (match y with
       | XI q -> XI (succ q)
       | XO q -> XO (succ q)
       | XH -> XI XH)

  (** val pred_double : positive -> positive **)

  let rec pred_double = function
  | XI p -> XI (XO p)
  | XO p -> XI (pred_double p)
  | XH -> XH

  type mask = Pos.mask =
  | IsNul
  | IsPos of positive
  | IsNeg

  (** val succ_double_mask : mask -> mask **)

  let succ_double_mask = function
  | IsNul -> IsPos XH
  | IsPos p -> IsPos (XI p)
  | IsNeg -> IsNeg

  (** val double_mask : mask -> mask **)

  let double_mask = function
  | IsPos p -> IsPos (XO p)
  | x0 -> x0

  (** val double_pred_mask : positive -> mask **)

  let double_pred_mask = function
  | XI p -> IsPos (XO (XO p))
  | XO p -> IsPos (XO (pred_double p))
  | XH -> IsNul

  (** val sub_mask : positive -> positive -> mask **)

  let rec sub_mask x y =
    match x with
    | XI p ->
      (match y with
       | XI q -> double_mask (sub_mask p q)
       | XO q -> succ_double_mask (sub_mask p q)
       | XH -> IsPos (XO p))
    | XO p ->
      (match y with
       | XI q -> succ_double_mask (sub_mask_carry p q)
       | XO q -> double_mask (sub_mask p q)
       | XH -> IsPos (pred_double p))
    | XH -> (match y with
             | XH -> IsNul
             | _ -> IsNeg)

  (** val sub_mask_carry : positive -> positive -> mask **)

  and sub_mask_carry x y =
    match x with
    | XI p ->
      (match y with
       | XI q -> succ_double_mask (sub_mask_carry p q)
       | XO q -> double_mask (sub_mask p q)
       | XH -> IsPos (pred_double p))
    | XO p ->
      (match y with
       | XI q -> double_mask (sub_mask_carry p q)
       | XO q -> succ_double_mask (sub_mask_carry p q)
       | XH -> double_pred_mask p)
    | XH -> IsNeg

  (** val mul : positive -> positive -> positive **)

  let rec mul x y =
    match x with
    | XI p -> add y (XO (mul p y))
    | XO p -> XO (mul p y)
    | XH -> y

  (** val compare_cont : comparison -> positive -> positive -> comparison **)

  let rec compare_cont r x y =
    match x with
    | XI p ->
      (match y with
       | XI q -> compare_cont r p q
       | XO q -> compare_cont Gt p q
       | XH -> Gt)
    | XO p ->
      (match y with
       | XI q -> compare_cont Lt p q
       | XO q -> compare_cont r p q
       | XH -> Gt)
    | XH -> (match y with
             | XH -> r
             | _ -> Lt)

  (** val compare : positive -> positive -> comparison **)

  let compare =
    compare_cont Eq

  (** val eqb : positive -> positive -> bool **)

  let rec eqb p q =
    match p with
    | XI p0 -> (match q with
                | XI q0 -> eqb p0 q0
                | _ -> false)
    | XO p0 -> (match q with
                | XO q0 -> eqb p0 q0
                | _ -> false)
    | XH -> (match q with
             | XH -> true
             | _ -> false)
 end

module N =
 struct
  (** val add : n -> n -> n **)

  let add n0 m =
    match n0 with
    | N0 -> m
    | Npos p -> (match m with
                 | N0 -> n0
                 | Npos q -> Npos (Coq_Pos.add p q))

  (** val sub : n -> n -> n **)

  let sub n0 m =
    match n0 with
    | N0 -> N0
    | Npos n' ->
      (match m with
       | N0 -> n0
       | Npos m' ->
         (match Coq_Pos.sub_mask n' m' with
          | Coq_Pos.IsPos p -> Npos p
          | _ -> N0))

  (** val mul : n -> n -> n **)

  let mul n0 m =
    match n0 with
    | N0 -> N0
    | Npos p -> (match m with
                 | N0 -> N0
                 | Npos q -> Npos (Coq_Pos.mul p q))

  (** val compare : n -> n -> comparison **)

  let compare n0 m =
    match n0 with
    | N0 -> (match m with
             | N0 -> Eq
             | Npos _ -> Lt)
    | Npos n' -> (match m with
                  | N0 -> Gt
                  | Npos m' -> Coq_Pos.compare n' m')

  (** val eqb : n -> n -> bool **)

  let eqb n0 m =
    match n0 with
    | N0 -> (match m with
             | N0 -> true
             | Npos _ -> false)
    | Npos p -> (match m with
                 | N0 -> false
                 | Npos q -> Coq_Pos.eqb p q)

  (** val leb : n -> n -> bool **)

  let leb x y =
    match compare x y with
    | Gt -> false
    | _ -> true

  (** val ltb : n -> n -> bool **)

  let ltb x y =
    match compare x y with
    | Lt -> true
    | _ -> false
 end

type ascii =
| Ascii of bool * bool * bool * bool * bool * bool * bool * bool

(** val n_of_digits : bool list -> n **)

let rec n_of_digits = function
| [] -> N0
| b :: l' ->
  N.add (if b then Npos XH else N0) (N.mul (Npos (XO XH)) (n_of_digits l'))

(** val n_of_ascii : ascii -> n **)

let n_of_ascii = function
| Ascii (a0, a1, a2, a3, a4, a5, a6, a7) ->
  n_of_digits
    (a0 :: (a1 :: (a2 :: (a3 :: (a4 :: (a5 :: (a6 :: (a7 :: []))))))))

(** val rev : 'a1 list -> 'a1 list **)

let rec rev = function
| [] -> []
| x :: l' -> app (rev l') (x :: [])

(** val map : ('a1 -> 'a2) -> 'a1 list -> 'a2 list **)

let rec map f = function
| [] -> []
| a :: t -> (f a) :: (map f t)

(** val fold_left : ('a1 -> 'a2 -> 'a1) -> 'a2 list -> 'a1 -> 'a1 **)

let rec fold_left f l a0 =
  match l with
  | [] -> a0
  | b :: t -> fold_left f t (f a0 b)

(** val existsb : ('a1 -> bool) -> 'a1 list -> bool **)

let rec existsb f = function
| [] -> false
| a :: l0 -> (||) (f a) (existsb f l0)

module Z =
 struct
  (** val eqb : z -> z -> bool **)

  let eqb x y =
    match x with
    | Z0 -> (match y with
             | Z0 -> true
             | _ -> false)
    | Zpos p -> (match y with
                 | Zpos q -> Coq_Pos.eqb p q
                 | _ -> false)
    | Zneg p -> (match y with
                 | Zneg q -> Coq_Pos.eqb p q
                 | _ -> false)
 end

type string =
| EmptyString
| String of ascii * string

type char = n

type str = char list

(** val str_of_string : string -> str **)

let rec str_of_string = function
| EmptyString -> []
| String (a, r) -> (n_of_ascii a) :: (str_of_string r)

(** val lit : string -> str **)

let lit =
  str_of_string

(** val c_nl : char **)

let c_nl =
  Npos (XO (XI (XO XH)))

(** val c_space : char **)

let c_space =
  Npos (XO (XO (XO (XO (XO XH)))))

(** val c_dquote : char **)

let c_dquote =
  Npos (XO (XI (XO (XO (XO XH)))))

(** val c_hash : char **)

let c_hash =
  Npos (XI (XI (XO (XO (XO XH)))))

(** val c_dollar : char **)

let c_dollar =
  Npos (XO (XO (XI (XO (XO XH)))))

(** val c_semi : char **)

let c_semi =
  Npos (XI (XI (XO (XI (XI XH)))))

(** val c_lbracket : char **)

let c_lbracket =
  Npos (XI (XI (XO (XI (XI (XO XH))))))

(** val c_bslash : char **)

let c_bslash =
  Npos (XO (XO (XI (XI (XI (XO XH))))))

(** val c_rbracket : char **)

let c_rbracket =
  Npos (XI (XO (XI (XI (XI (XO XH))))))

(** val c_lbrace : char **)

let c_lbrace =
  Npos (XI (XI (XO (XI (XI (XI XH))))))

(** val c_rbrace : char **)

let c_rbrace =
  Npos (XI (XO (XI (XI (XI (XI XH))))))

(** val str_eqb : str -> str -> bool **)

let rec str_eqb a b =
  match a with
  | [] -> (match b with
           | [] -> true
           | _ :: _ -> false)
  | x :: a' ->
    (match b with
     | [] -> false
     | y :: b' -> (&&) (N.eqb x y) (str_eqb a' b'))

(** val join_str : str -> str list -> str **)

let rec join_str sep = function
| [] -> []
| x :: r ->
  (match r with
   | [] -> x
   | _ :: _ -> app x (app sep (join_str sep r)))

(** val is_whitespace : char -> bool **)

let is_whitespace c =
  (||)
    ((||)
      ((||)
        ((||)
          ((||)
            ((||)
              ((||)
                ((||)
                  ((||)
                    ((||)
                      ((&&) (N.leb (Npos (XI (XO (XO XH)))) c)
                        (N.leb c (Npos (XI (XO (XI XH))))))
                      (N.eqb c (Npos (XO (XO (XO (XO (XO XH))))))))
                    (N.eqb c (Npos (XI (XO (XI (XO (XO (XO (XO XH))))))))))
                  (N.eqb c (Npos (XO (XO (XO (XO (XO (XI (XO XH))))))))))
                (N.eqb c (Npos (XO (XO (XO (XO (XO (XO (XO (XI (XO (XI (XI
                  (XO XH)))))))))))))))
              ((&&)
                (N.leb (Npos (XO (XO (XO (XO (XO (XO (XO (XO (XO (XO (XO (XO
                  (XO XH)))))))))))))) c)
                (N.leb c (Npos (XO (XI (XO (XI (XO (XO (XO (XO (XO (XO (XO
                  (XO (XO XH)))))))))))))))))
            (N.eqb c (Npos (XO (XO (XO (XI (XO (XI (XO (XO (XO (XO (XO (XO
              (XO XH))))))))))))))))
          (N.eqb c (Npos (XI (XO (XO (XI (XO (XI (XO (XO (XO (XO (XO (XO (XO
            XH))))))))))))))))
        (N.eqb c (Npos (XI (XI (XI (XI (XO (XI (XO (XO (XO (XO (XO (XO (XO
          XH))))))))))))))))
      (N.eqb c (Npos (XI (XI (XI (XI (XI (XO (XI (XO (XO (XO (XO (XO (XO
        XH))))))))))))))))
    (N.eqb c (Npos (XO (XO (XO (XO (XO (XO (XO (XO (XO (XO (XO (XO (XI
      XH)))))))))))))))

(** val is_digit10 : char -> bool **)

let is_digit10 c =
  (&&) (N.leb (Npos (XO (XO (XO (XO (XI XH)))))) c)
    (N.leb c (Npos (XI (XO (XO (XI (XI XH)))))))

(** val is_digit8 : char -> bool **)

let is_digit8 c =
  (&&) (N.leb (Npos (XO (XO (XO (XO (XI XH)))))) c)
    (N.leb c (Npos (XI (XI (XI (XO (XI XH)))))))

(** val is_digit16 : char -> bool **)

let is_digit16 c =
  (||)
    ((||) (is_digit10 c)
      ((&&) (N.leb (Npos (XI (XO (XO (XO (XO (XI XH))))))) c)
        (N.leb c (Npos (XO (XI (XI (XO (XO (XI XH))))))))))
    ((&&) (N.leb (Npos (XI (XO (XO (XO (XO (XO XH))))))) c)
      (N.leb c (Npos (XO (XI (XI (XO (XO (XO XH)))))))))

(** val digit_val : char -> n **)

let digit_val c =
  if is_digit10 c
  then N.sub c (Npos (XO (XO (XO (XO (XI XH))))))
  else if (&&) (N.leb (Npos (XI (XO (XO (XO (XO (XI XH))))))) c)
            (N.leb c (Npos (XO (XI (XI (XO (XO (XI XH))))))))
       then N.sub c (Npos (XI (XI (XI (XO (XI (XO XH)))))))
       else N.sub c (Npos (XI (XI (XI (XO (XI XH))))))

(** val is_scalar : n -> bool **)

let is_scalar n0 =
  (||)
    (N.ltb n0 (Npos (XO (XO (XO (XO (XO (XO (XO (XO (XO (XO (XO (XI (XI (XO
      (XI XH)))))))))))))))))
    ((&&)
      (N.ltb (Npos (XI (XI (XI (XI (XI (XI (XI (XI (XI (XI (XI (XI (XI (XO
        (XI XH)))))))))))))))) n0)
      (N.ltb n0 (Npos (XO (XO (XO (XO (XO (XO (XO (XO (XO (XO (XO (XO (XO (XO
        (XO (XO (XI (XO (XO (XO XH)))))))))))))))))))))))

(** val skip_while : (char -> bool) -> str -> str **)

let rec skip_while p s = match s with
| [] -> []
| c :: r -> if p c then skip_while p r else s

type term =
| TStr of str
| TInt of z
| TList of term list

(** val term_str : term -> str **)

let term_str = function
| TStr s -> s
| _ -> []

(** val term_list : term -> term list **)

let term_list = function
| TList l -> l
| _ -> []

(** val term_strs : term -> str list **)

let term_strs t =
  map term_str (term_list t)

(** val tStrs : str list -> term **)

let tStrs l =
  TList (map (fun x -> TStr x) l)

(** val tTag : string -> term list -> term **)

let tTag tag args =
  TList ((TStr (lit tag)) :: args)

(** val term_eqb : term -> term -> bool **)

let rec term_eqb a b =
  match a with
  | TStr x -> (match b with
               | TStr y -> str_eqb x y
               | _ -> false)
  | TInt x -> (match b with
               | TInt y -> Z.eqb x y
               | _ -> false)
  | TList x ->
    (match b with
     | TList y ->
       let rec go x0 y0 =
         match x0 with
         | [] -> (match y0 with
                  | [] -> true
                  | _ :: _ -> false)
         | p :: x' ->
           (match y0 with
            | [] -> false
            | q :: y' -> (&&) (term_eqb p q) (go x' y'))
       in go x y
     | _ -> false)

(** val take_upto : nat -> (char -> bool) -> str -> str * str **)

let rec take_upto n0 p s =
  match n0 with
  | O -> ([], s)
  | S k ->
    (match s with
     | [] -> ([], s)
     | c :: r ->
       if p c
       then let (d, r') = take_upto k p r in ((c :: d), r')
       else ([], s))

(** val digits_val : n -> str -> n **)

let digits_val radix ds =
  fold_left (fun acc d -> N.add (N.mul acc radix) (digit_val d)) ds N0

(** val bsubst : str -> char * str **)

let bsubst = function
| [] -> (c_bslash, [])
| c :: r ->
  if N.eqb c (Npos (XI (XO (XO (XO (XO (XI XH)))))))
  then ((Npos (XI (XI XH))), r)
  else if N.eqb c (Npos (XO (XI (XO (XO (XO (XI XH)))))))
       then ((Npos (XO (XO (XO XH)))), r)
       else if N.eqb c (Npos (XO (XI (XI (XO (XO (XI XH)))))))
            then ((Npos (XO (XO (XI XH)))), r)
            else if N.eqb c (Npos (XO (XI (XI (XI (XO (XI XH)))))))
                 then ((Npos (XO (XI (XO XH)))), r)
                 else if N.eqb c (Npos (XO (XI (XO (XO (XI (XI XH)))))))
                      then ((Npos (XI (XO (XI XH)))), r)
                      else if N.eqb c (Npos (XO (XO (XI (XO (XI (XI XH)))))))
                           then ((Npos (XI (XO (XO XH)))), r)
                           else if N.eqb c (Npos (XO (XI (XI (XO (XI (XI
                                     XH)))))))
                                then ((Npos (XI (XI (XO XH)))), r)
                                else if is_digit8 c
                                     then let (ds, r') =
                                            take_upto (S (S O)) is_digit8 r
                                          in
                                          ((digits_val (Npos (XO (XO (XO
                                             XH)))) (c :: ds)), r')
                                     else if (||)
                                               ((||)
                                                 (N.eqb c (Npos (XO (XO (XO
                                                   (XI (XI (XI XH))))))))
                                                 (N.eqb c (Npos (XI (XO (XI
                                                   (XO (XI (XI XH)))))))))
                                               (N.eqb c (Npos (XI (XO (XI (XO
                                                 (XI (XO XH))))))))
                                          then let max =
                                                 if N.eqb c (Npos (XO (XO (XO
                                                      (XI (XI (XI XH)))))))
                                                 then S (S O)
                                                 else if N.eqb c (Npos (XI
                                                           (XO (XI (XO (XI
                                                           (XI XH)))))))
                                                      then S (S (S (S O)))
                                                      else S (S (S (S (S (S
                                                             (S (S O)))))))
                                               in
                                               let (ds, r') =
                                                 take_upto max is_digit16 r
                                               in
                                               (match ds with
                                                | [] -> (c, r)
                                                | _ :: _ ->
                                                  let v =
                                                    digits_val (Npos (XO (XO
                                                      (XO (XO XH))))) ds
                                                  in
                                                  if is_scalar v
                                                  then (v, r')
                                                  else (c, r))
                                          else (c, r)

type list_err =
| UnmatchedBrace
| ExtraAfterBrace
| UnmatchedQuote

(** val list_err_msg : list_err -> str **)

let list_err_msg = function
| UnmatchedBrace ->
  lit (String ((Ascii (true, false, true, false, true, true, true, false)),
    (String ((Ascii (false, true, true, true, false, true, true, false)),
    (String ((Ascii (true, false, true, true, false, true, true, false)),
    (String ((Ascii (true, false, false, false, false, true, true, false)),
    (String ((Ascii (false, false, true, false, true, true, true, false)),
    (String ((Ascii (true, true, false, false, false, true, true, false)),
    (String ((Ascii (false, false, false, true, false, true, true, false)),
    (String ((Ascii (true, false, true, false, false, true, true, false)),
    (String ((Ascii (false, false, true, false, false, true, true, false)),
    (String ((Ascii (false, false, false, false, false, true, false, false)),
    (String ((Ascii (true, true, true, true, false, true, true, false)),
    (String ((Ascii (false, false, false, false, true, true, true, false)),
    (String ((Ascii (true, false, true, false, false, true, true, false)),
    (String ((Ascii (false, true, true, true, false, true, true, false)),
    (String ((Ascii (false, false, false, false, false, true, false, false)),
    (String ((Ascii (false, true, false, false, false, true, true, false)),
    (String ((Ascii (false, true, false, false, true, true, true, false)),
    (String ((Ascii (true, false, false, false, false, true, true, false)),
    (String ((Ascii (true, true, false, false, false, true, true, false)),
    (String ((Ascii (true, false, true, false, false, true, true, false)),
    (String ((Ascii (false, false, false, false, false, true, false, false)),
    (String ((Ascii (true, false, false, true, false, true, true, false)),
    (String ((Ascii (false, true, true, true, false, true, true, false)),
    (String ((Ascii (false, false, false, false, false, true, false, false)),
    (String ((Ascii (false, false, true, true, false, true, true, false)),
    (String ((Ascii (true, false, false, true, false, true, true, false)),
    (String ((Ascii (true, true, false, false, true, true, true, false)),
    (String ((Ascii (false, false, true, false, true, true, true, false)),
    EmptyString))))))))))))))))))))))))))))))))))))))))))))))))))))))))
| ExtraAfterBrace ->
  lit (String ((Ascii (true, false, true, false, false, true, true, false)),
    (String ((Ascii (false, false, false, true, true, true, true, false)),
    (String ((Ascii (false, false, true, false, true, true, true, false)),
    (String ((Ascii (false, true, false, false, true, true, true, false)),
    (String ((Ascii (true, false, false, false, false, true, true, false)),
    (String ((Ascii (false, false, false, false, false, true, false, false)),
    (String ((Ascii (true, true, false, false, false, true, true, false)),
    (String ((Ascii (false, false, false, true, false, true, true, false)),
    (String ((Ascii (true, false, false, false, false, true, true, false)),
    (String ((Ascii (false, true, false, false, true, true, true, false)),
    (String ((Ascii (true, false, false, false, false, true, true, false)),
    (String ((Ascii (true, true, false, false, false, true, true, false)),
    (String ((Ascii (false, false, true, false, true, true, true, false)),
    (String ((Ascii (true, false, true, false, false, true, true, false)),
    (String ((Ascii (false, true, false, false, true, true, true, false)),
    (String ((Ascii (true, true, false, false, true, true, true, false)),
    (String ((Ascii (false, false, false, false, false, true, false, false)),
    (String ((Ascii (true, false, false, false, false, true, true, false)),
    (String ((Ascii (false, true, true, false, false, true, true, false)),
    (String ((Ascii (false, false, true, false, true, true, true, false)),
    (String ((Ascii (true, false, true, false, false, true, true, false)),
    (String ((Ascii (false, true, false, false, true, true, true, false)),
    (String ((Ascii (false, false, false, false, false, true, false, false)),
    (String ((Ascii (true, true, false, false, false, true, true, false)),
    (String ((Ascii (false, false, true, true, false, true, true, false)),
    (String ((Ascii (true, true, true, true, false, true, true, false)),
    (String ((Ascii (true, true, false, false, true, true, true, false)),
    (String ((Ascii (true, false, true, false, false, true, true, false)),
    (String ((Ascii (true, false, true, true, false, true, false, false)),
    (String ((Ascii (false, true, false, false, false, true, true, false)),
    (String ((Ascii (false, true, false, false, true, true, true, false)),
    (String ((Ascii (true, false, false, false, false, true, true, false)),
    (String ((Ascii (true, true, false, false, false, true, true, false)),
    (String ((Ascii (true, false, true, false, false, true, true, false)),
    EmptyString))))))))))))))))))))))))))))))))))))))))))))))))))))))))))))))))))))
| UnmatchedQuote ->
  lit (String ((Ascii (true, false, true, false, true, true, true, false)),
    (String ((Ascii (false, true, true, true, false, true, true, false)),
    (String ((Ascii (true, false, true, true, false, true, true, false)),
    (String ((Ascii (true, false, false, false, false, true, true, false)),
    (String ((Ascii (false, false, true, false, true, true, true, false)),
    (String ((Ascii (true, true, false, false, false, true, true, false)),
    (String ((Ascii (false, false, false, true, false, true, true, false)),
    (String ((Ascii (true, false, true, false, false, true, true, false)),
    (String ((Ascii (false, false, true, false, false, true, true, false)),
    (String ((Ascii (false, false, false, false, false, true, false, false)),
    (String ((Ascii (true, true, true, true, false, true, true, false)),
    (String ((Ascii (false, false, false, false, true, true, true, false)),
    (String ((Ascii (true, false, true, false, false, true, true, false)),
    (String ((Ascii (false, true, true, true, false, true, true, false)),
    (String ((Ascii (false, false, false, false, false, true, false, false)),
    (String ((Ascii (true, false, false, false, true, true, true, false)),
    (String ((Ascii (true, false, true, false, true, true, true, false)),
    (String ((Ascii (true, true, true, true, false, true, true, false)),
    (String ((Ascii (false, false, true, false, true, true, true, false)),
    (String ((Ascii (true, false, true, false, false, true, true, false)),
    (String ((Ascii (false, false, false, false, false, true, false, false)),
    (String ((Ascii (true, false, false, true, false, true, true, false)),
    (String ((Ascii (false, true, true, true, false, true, true, false)),
    (String ((Ascii (false, false, false, false, false, true, false, false)),
    (String ((Ascii (false, false, true, true, false, true, true, false)),
    (String ((Ascii (true, false, false, true, false, true, true, false)),
    (String ((Ascii (true, true, false, false, true, true, true, false)),
    (String ((Ascii (false, false, true, false, true, true, true, false)),
    EmptyString))))))))))))))))))))))))))))))))))))))))))))))))))))))))

(** val is_list_white : char -> bool **)

let is_list_white c =
  (||)
    ((||)
      ((||)
        ((||)
          ((||) (N.eqb c (Npos (XO (XO (XO (XO (XO XH)))))))
            (N.eqb c (Npos (XO (XI (XO XH))))))
          (N.eqb c (Npos (XI (XO (XI XH))))))
        (N.eqb c (Npos (XI (XO (XO XH))))))
      (N.eqb c (Npos (XI (XI (XO XH)))))) (N.eqb c (Npos (XO (XO (XI XH)))))

(** val pbi : str -> nat -> str -> (list_err, str * str) sum **)

let rec pbi s count acc =
  match s with
  | [] -> Inl UnmatchedBrace
  | c :: r ->
    if N.eqb c c_bslash
    then (match r with
          | [] -> Inl UnmatchedBrace
          | d :: r' -> pbi r' count (d :: (c :: acc)))
    else if N.eqb c c_lbrace
         then pbi r (S count) (c :: acc)
         else if N.eqb c c_rbrace
              then (match count with
                    | O ->
                      (match r with
                       | [] -> Inr ((rev acc), r)
                       | n0 :: _ ->
                         if is_list_white n0
                         then Inr ((rev acc), r)
                         else Inl ExtraAfterBrace)
                    | S k -> pbi r k (c :: acc))
              else pbi r count (c :: acc)

(** val pqi : nat -> str -> str -> (list_err, str * str) sum **)

let rec pqi fuel s acc =
  match fuel with
  | O -> Inl UnmatchedQuote
  | S f ->
    (match s with
     | [] -> Inl UnmatchedQuote
     | c :: r ->
       if N.eqb c c_dquote
       then Inr ((rev acc), r)
       else if N.eqb c c_bslash
            then let (ch, r') = bsubst r in pqi f r' (ch :: acc)
            else pqi f r (c :: acc))

(** val pbare : nat -> str -> str -> str * str **)

let rec pbare fuel s acc =
  match fuel with
  | O -> ((rev acc), s)
  | S f ->
    (match s with
     | [] -> ((rev acc), [])
     | c :: r ->
       if is_list_white c
       then ((rev acc), s)
       else if N.eqb c c_bslash
            then let (ch, r') = bsubst r in pbare f r' (ch :: acc)
            else pbare f r (c :: acc))

(** val parse_item : str -> (list_err, str * str) sum **)

let parse_item s = match s with
| [] -> Inr ([], [])
| c :: r ->
  if N.eqb c c_lbrace
  then pbi r O []
  else if N.eqb c c_dquote
       then pqi (S (length r)) r []
       else Inr (pbare (S (length s)) s [])

(** val parse_list :
    nat -> str -> str list -> (list_err, str list) sum option **)

let rec parse_list fuel s acc =
  match fuel with
  | O -> None
  | S f ->
    (match skip_while is_list_white s with
     | [] -> Some (Inr (rev acc))
     | c :: l ->
       (match parse_item (c :: l) with
        | Inl e -> Some (Inl e)
        | Inr p -> let (item, rest) = p in parse_list f rest (item :: acc)))

(** val get_list : str -> (list_err, str list) sum option **)

let get_list s =
  parse_list (S (length s)) s []

type mode =
| AsIs
| Brace
| Escape

(** val is_quote_special : char -> bool **)

let is_quote_special c =
  (||)
    ((||)
      ((||) ((||) (N.eqb c c_semi) (N.eqb c c_dollar)) (N.eqb c c_lbracket))
      (N.eqb c c_rbracket)) (N.eqb c c_dquote)

(** val mode_scan : str -> bool -> bool -> nat -> (bool * bool) * nat **)

let rec mode_scan w nq safe depth =
  match w with
  | [] -> ((nq, safe), depth)
  | c :: r ->
    if is_whitespace c
    then mode_scan r true safe depth
    else if is_quote_special c
         then mode_scan r true safe depth
         else if N.eqb c c_lbrace
              then mode_scan r true safe (S depth)
              else if N.eqb c c_rbrace
                   then (match depth with
                         | O -> mode_scan r true false O
                         | S k -> mode_scan r true safe k)
                   else if N.eqb c c_bslash
                        then (match r with
                              | [] -> ((true, false), depth)
                              | d :: r' ->
                                if N.eqb d c_nl
                                then mode_scan r' true false depth
                                else mode_scan r' true safe depth)
                        else mode_scan r nq safe depth

(** val get_mode : str -> mode **)

let get_mode w = match w with
| [] -> Brace
| _ :: _ ->
  let (p, depth) = mode_scan w false true O in
  let (nq, safe) = p in
  if negb nq
  then AsIs
  else if (&&) safe (Nat.eqb depth O) then Brace else Escape

(** val brace_item : str -> str **)

let brace_item w =
  c_lbrace :: (app w (c_rbrace :: []))

(** val is_escape_special : char -> bool **)

let is_escape_special c =
  (||)
    ((||)
      ((||)
        ((||)
          ((||)
            ((||) ((||) (N.eqb c c_lbrace) (N.eqb c c_rbrace))
              (N.eqb c c_semi)) (N.eqb c c_dollar)) (N.eqb c c_lbracket))
        (N.eqb c c_rbracket)) (N.eqb c c_bslash)) (N.eqb c c_dquote)

(** val escape_chars : str -> str **)

let rec escape_chars = function
| [] -> []
| c :: r ->
  if (||) (is_whitespace c) (is_escape_special c)
  then c_bslash :: (c :: (escape_chars r))
  else c :: (escape_chars r)

(** val escape_item : bool -> str -> str **)

let escape_item hash w =
  if hash then c_bslash :: (escape_chars w) else escape_chars w

(** val format_items : bool -> str list -> str list **)

let rec format_items hash = function
| [] -> []
| w :: r ->
  (match get_mode w with
   | AsIs ->
     if hash
     then (brace_item w) :: (format_items false r)
     else w :: (format_items hash r)
   | Brace -> (brace_item w) :: (format_items false r)
   | Escape -> (escape_item hash w) :: (format_items false r))

(** val starts_with_hash : str list -> bool **)

let starts_with_hash = function
| [] -> false
| s :: _ -> (match s with
             | [] -> false
             | c :: _ -> N.eqb c c_hash)

(** val list_to_string : str list -> str **)

let list_to_string l =
  join_str (c_space :: []) (format_items (starts_with_hash l) l)

(** val obs_list_result : (list_err, str list) sum option -> term **)

let obs_list_result = function
| Some s ->
  (match s with
   | Inl e ->
     tTag (String ((Ascii (true, false, true, false, false, false, true,
       false)), (String ((Ascii (false, true, false, false, true, true, true,
       false)), (String ((Ascii (false, true, false, false, true, true, true,
       false)), EmptyString)))))) ((TStr (list_err_msg e)) :: [])
   | Inr l ->
     tTag (String ((Ascii (true, true, true, true, false, false, true,
       false)), (String ((Ascii (true, true, false, true, false, true, true,
       false)), EmptyString)))) ((tStrs l) :: []))
| None ->
  tTag (String ((Ascii (true, true, true, true, false, false, true, false)),
    (String ((Ascii (true, false, true, false, true, true, true, false)),
    (String ((Ascii (false, false, true, false, true, true, true, false)),
    (String ((Ascii (true, true, true, true, false, false, true, false)),
    (String ((Ascii (false, true, true, false, false, true, true, false)),
    (String ((Ascii (false, true, true, false, false, false, true, false)),
    (String ((Ascii (true, false, true, false, true, true, true, false)),
    (String ((Ascii (true, false, true, false, false, true, true, false)),
    (String ((Ascii (false, false, true, true, false, true, true, false)),
    EmptyString)))))))))))))))))) []

(** val c05_model_obs : term -> term **)

let c05_model_obs c =
  let l = term_strs c in
  let f = list_to_string l in
  let r = get_list f in
  let f2 =
    match r with
    | Some s -> (match s with
                 | Inl _ -> []
                 | Inr l' -> list_to_string l')
    | None -> []
  in
  TList ((TStr f) :: ((obs_list_result r) :: ((TStr f2) :: [])))

(** val c05_spec_ok : term -> term -> bool **)

let c05_spec_ok c obs =
  let l = term_strs c in
  (match term_list obs with
   | [] -> false
   | t :: l0 ->
     (match t with
      | TStr f ->
        (match l0 with
         | [] -> false
         | r :: l1 ->
           (match l1 with
            | [] -> false
            | t0 :: l2 ->
              (match t0 with
               | TStr f2 ->
                 (match l2 with
                  | [] ->
                    (&&)
                      (term_eqb r
                        (tTag (String ((Ascii (true, true, true, true, false,
                          false, true, false)), (String ((Ascii (true, true,
                          false, true, false, true, true, false)),
                          EmptyString)))) ((tStrs l) :: []))) (str_eqb f f2)
                  | _ :: _ -> false)
               | _ -> false)))
      | _ -> false))

(** val c05_known : term -> bool **)

let c05_known _ =
  false

(** val c05_nontrivial : term -> bool **)

let c05_nontrivial c =
  existsb (fun w -> match get_mode w with
                    | AsIs -> false
                    | _ -> true) (term_strs c)

type prop_fns = { pf_model_obs : (term -> term);
                  pf_spec_ok : (term -> term -> bool);
                  pf_known : (term -> bool); pf_nontrivial : (term -> bool) }

(** val no_prop : prop_fns **)

let no_prop =
  { pf_model_obs = (fun _ ->
    tTag (String ((Ascii (false, true, true, true, false, false, true,
      false)), (String ((Ascii (true, true, true, true, false, true, true,
      false)), (String ((Ascii (true, true, false, false, true, false, true,
      false)), (String ((Ascii (true, false, true, false, true, true, true,
      false)), (String ((Ascii (true, true, false, false, false, true, true,
      false)), (String ((Ascii (false, false, false, true, false, true, true,
      false)), (String ((Ascii (false, false, false, false, true, false,
      true, false)), (String ((Ascii (false, true, false, false, true, true,
      true, false)), (String ((Ascii (true, true, true, true, false, true,
      true, false)), (String ((Ascii (false, false, false, false, true, true,
      true, false)), (String ((Ascii (true, false, true, false, false, true,
      true, false)), (String ((Ascii (false, true, false, false, true, true,
      true, false)), (String ((Ascii (false, false, true, false, true, true,
      true, false)), (String ((Ascii (true, false, false, true, true, true,
      true, false)), EmptyString)))))))))))))))))))))))))))) []);
    pf_spec_ok = (fun _ _ -> false); pf_known = (fun _ -> false);
    pf_nontrivial = (fun _ -> false) }

(** val dispatch : n -> prop_fns **)

let dispatch = function
| N0 -> no_prop
| Npos p0 ->
  (match p0 with
   | XI p1 ->
     (match p1 with
      | XO p2 ->
        (match p2 with
         | XH ->
           { pf_model_obs = c05_model_obs; pf_spec_ok = c05_spec_ok;
             pf_known = c05_known; pf_nontrivial = c05_nontrivial }
         | _ -> no_prop)
      | _ -> no_prop)
   | _ -> no_prop)
