(* Props/C07.v — property C07: variables live in the right scope and keep one shape.
   Statements only.  Spec/SpecVars.v: scope_inv (well-formed scope stack), shape_of
   (Unset | Scalar v | Array m as seen through links), ent, unlinked, local_steps. *)
From Molt Require Import Model.Base Model.Value Model.State.
From Molt Require Import Spec.SpecVars Proofs.ScopeFacts.

(* a name is at any time unset, a scalar or an array: using it as the other kind is an error
   that leaves the scope stack EXACTLY unchanged *)
Theorem C07_one_shape : forall ss n,
  scope_inv ss ->
  (forall m v, shape_of ss n = Array m ->
     (exists e, sc_set ss n v = (ss, Err e)) /\ (exists e, sc_get ss n = Err e)) /\
  (forall w i v kv, shape_of ss n = Scalar w ->
     (exists e, sc_set_elem ss n i v = (ss, Err e)) /\ (exists e, sc_get_elem ss n i = Err e) /\
     (exists e, sc_array_set ss n kv = (ss, Err e))) /\
  (forall i, shape_of ss n = Unset ->
     (exists e, sc_get ss n = Err e) /\ (exists e, sc_get_elem ss n i = Err e)).
Proof. exact one_shape. Qed.
Print Assumptions C07_one_shape.

(* writes are read back, and touch no other name *)
Theorem C07_set_get : forall ss n v ss',
  scope_inv ss -> sc_set ss n v = (ss', Ok tt) ->
  scope_inv ss' /\ sc_get ss' n = Ok v /\ length ss' = length ss /\
  (forall n', n' <> n -> sc_lookup ss' n' = sc_lookup ss n') /\
  (forall n', n' <> n -> sc_get ss' n' = sc_get ss n') /\
  (forall n' i, n' <> n -> sc_get_elem ss' n' i = sc_get_elem ss n' i).
Proof. exact sc_set_get. Qed.
Print Assumptions C07_set_get.

(* removing something that does not exist creates nothing *)
Theorem C07_unset_absent : forall ss n,
  scope_inv ss -> shape_of ss n = Unset ->
  sc_unset ss n = sc_del ss (sc_current ss) n /\
  (unlinked ss n -> sc_unset ss n = ss) /\
  (forall n', sc_lookup (sc_unset ss n) n' = sc_lookup ss n') /\
  incl (sc_vars_in_scope (sc_unset ss n)) (sc_vars_in_scope ss) /\
  (forall k p, In p (sc_get_scope (sc_unset ss n) k) -> In p (sc_get_scope ss k)).
Proof. exact sc_unset_absent. Qed.
Print Assumptions C07_unset_absent.

(* procedure locals are invisible outside the call and vanish when it returns: whatever sequence
   of variable operations on unlinked names runs in the pushed scope, popping it restores the
   caller's scopes exactly *)
Theorem C07_locals_vanish : forall ss ss'',
  local_steps (sc_push ss) ss'' ->
  length ss'' = S (length ss) /\ firstn (length ss) ss'' = ss /\ sc_pop ss'' = ss.
Proof. exact locals_vanish. Qed.
Print Assumptions C07_locals_vanish.

(* after `global n` reads and writes act on the global itself *)
Theorem C07_global_link : forall ss n,
  scope_inv ss -> (0 < sc_current ss)%nat ->
  let ss1 := sc_upvar ss 0 n in
  scope_inv ss1 /\ sc_target ss1 n = O /\ sc_lookup ss1 n = ent ss O n /\
  (forall v, sc_set ss1 n v = sc_set_global ss1 n v) /\
  (forall v ss2, sc_set ss1 n v = (ss2, Ok tt) ->
     ss2 = sc_put ss1 O n (VarScalar v) /\ ent ss2 O n = Some (VarScalar v) /\
     (forall k, k <> O -> sc_get_scope ss2 k = sc_get_scope ss1 k) /\
     sc_get (firstn 1 ss2) n = Ok v).
Proof. exact global_link. Qed.
Print Assumptions C07_global_link.

(* introspection agrees with what reads and writes observe *)
Theorem C07_exists_agrees : forall ss n, scope_inv ss -> (sc_exists ss n = true <-> shape_of ss n <> Unset).
Proof. exact sc_exists_shape. Qed.
Print Assumptions C07_exists_agrees.
Theorem C07_array_exists_agrees : forall ss n, sc_array_exists ss n = true <-> exists m, shape_of ss n = Array m.
Proof. exact sc_array_exists_shape. Qed.
Print Assumptions C07_array_exists_agrees.

(* the well-formedness invariant is preserved by every scope operation (samples; the full list
   is in Proofs/ScopeFacts.v part a) *)
Theorem C07_inv_set : forall ss n v, scope_inv ss -> scope_inv (fst (sc_set ss n v)).
Proof. exact sc_set_inv. Qed.
Print Assumptions C07_inv_set.
Theorem C07_inv_unset : forall ss n, scope_inv ss -> scope_inv (sc_unset ss n).
Proof. exact sc_unset_inv. Qed.
Print Assumptions C07_inv_unset.
Theorem C07_inv_push : forall ss, scope_inv ss -> scope_inv (sc_push ss).
Proof. exact sc_push_inv. Qed.
Print Assumptions C07_inv_push.

(* ---- refinement over every operation sequence (Proofs/ScopeRefineFacts.v) ----
   Abstract state: a global frame and a stack of procedure frames, each mapping a name to
   Unset | Scalar v | Array m | Link (declared `global`).  [run_ops] runs a list of variable
   operations (set/get/unset, element and array operations, exists, listings, global, push = call,
   pop = return) on the model's scope stack, [a_run_ops] on the abstract state; [R] relates a scope
   stack to the abstract state it represents. *)
From Molt Require Import Model.Eval Model.Commands Proofs.ScopeRefineFacts.

(* from the initial scopes, EVERY balanced operation sequence produces the abstract outputs and an
   abstract-equivalent state *)
Theorem C07_sequences_refine : forall ops,
  balanced_from O ops ->
  R (fst (run_ops [[]] ops)) (fst (a_run_ops a_init ops)) /\
  Forall2 out_match (snd (run_ops [[]] ops)) (snd (a_run_ops a_init ops)).
Proof. exact run_refines_init. Qed.
Print Assumptions C07_sequences_refine.

Theorem C07_step_refines : forall ss o,
  winv ss -> (o = OPop -> (2 <= length ss)%nat) ->
  winv (fst (m_step ss o)) /\
  aeq (abs (fst (m_step ss o))) (fst (a_step (abs ss) o)) /\
  out_match (snd (m_step ss o)) (snd (a_step (abs ss) o)).
Proof. exact step_refines_abs. Qed.
Print Assumptions C07_step_refines.

(* a read returns the last value written, whatever happened to other names in between *)
Theorem C07_last_write : forall ss n v ss1 ops,
  winv ss -> sc_set ss n v = (ss1, Ok tt) -> Forall (untouched n) ops ->
  sc_get (fst (run_ops ss1 ops)) n = Ok v.
Proof. exact last_write. Qed.
Print Assumptions C07_last_write.

(* a whole call: whatever the body does, on return the caller's frames are as before, and the
   global frame changes only at names the body declared `global` *)
Theorem C07_call_returns : forall ss ops,
  winv ss -> balanced_from O ops -> depth_after O ops = O ->
  let ss' := sc_pop (fst (run_ops (sc_push ss) ops)) in
  winv ss' /\ length ss' = length ss /\
  (forall k n, (0 < k)%nat -> ent ss' k n = ent ss k n) /\
  (forall n, Forall (no_decl n) ops -> ent ss' O n = ent ss O n) /\
  (forall n, Forall (no_decl n) ops -> shape_of ss' n = shape_of ss n).
Proof. exact call_returns. Qed.
Print Assumptions C07_call_returns.

(* removing something that does not exist creates nothing *)
Theorem C07_removal_creates_nothing : forall ss n k n',
  winv ss ->
  (ent (sc_unset ss n) k n' = None \/ ent (sc_unset ss n) k n' = ent ss k n') /\
  (ent (sc_array_unset ss n) k n' = None \/ ent (sc_array_unset ss n) k n' = ent ss k n').
Proof. exact removal_creates_nothing. Qed.
Print Assumptions C07_removal_creates_nothing.

(* introspection agrees with what reads would do *)
Theorem C07_exists_iff_readable : forall ss n,
  winv ss -> (sc_exists ss n = true <-> (exists v, sc_get ss n = Ok v) \/ sc_array_exists ss n = true).
Proof. exact exists_agrees. Qed.
Print Assumptions C07_exists_iff_readable.

(* the variable commands (set, unset, global, incr, append, lappend, array, info ...) touch the scope
   stack only through these operations, so command sequences refine too *)
Theorem C07_command_sequences_refine : forall U cs st a,
  Forall (fun ca => var_command U (fst ca)) cs -> R (i_scopes st) a ->
  exists ops, Forall simple ops /\
    i_scopes (run_cmds st cs) = fst (run_ops (i_scopes st) ops) /\
    R (i_scopes (run_cmds st cs)) (fst (a_run_ops a ops)).
Proof. exact var_command_sequences_refine. Qed.
Print Assumptions C07_command_sequences_refine.

(* every scope stack reachable by operations satisfies the invariant *)
Theorem C07_reachable_invariant : forall ss, reachable ss -> winv ss.
Proof. exact reachable_winv. Qed.
Print Assumptions C07_reachable_invariant.
