(* Props/C07.v — property C07: variables live in the right scope and keep one shape.
   Statements only.  Spec/SpecVars.v: scope_inv (well-formed scope stack), shape_of
   (Unset | Scalar v | Array m as seen through links), ent, unlinked, local_steps. *)
From Molt Require Import Model.Base Model.Value Model.State.
From Molt Require Import Spec.SpecVars Proofs.ScopeFacts.

(* a name is at any time unset, a scalar or an array: using it as the other kind is an error
   that leaves the scope stack EXACTLY unchanged *)
Theorem C07_one_shape : forall ss n,
  scope_inv ss ->
  (forall m v, shape_of ss n = Array m ->
     (exists e, sc_set ss n v = (ss, Err e)) /\ (exists e, sc_get ss n = Err e)) /\
  (forall w i v kv, shape_of ss n = Scalar w ->
     (exists e, sc_set_elem ss n i v = (ss, Err e)) /\ (exists e, sc_get_elem ss n i = Err e) /\
     (exists e, sc_array_set ss n kv = (ss, Err e))) /\
  (forall i, shape_of ss n = Unset ->
     (exists e, sc_get ss n = Err e) /\ (exists e, sc_get_elem ss n i = Err e)).
Proof. exact one_shape. Qed.
Print Assumptions C07_one_shape.

(* writes are read back, and touch no other name *)
Theorem C07_set_get : forall ss n v ss',
  scope_inv ss -> sc_set ss n v = (ss', Ok tt) ->
  scope_inv ss' /\ sc_get ss' n = Ok v /\ length ss' = length ss /\
  (forall n', n' <> n -> sc_lookup ss' n' = sc_lookup ss n') /\
  (forall n', n' <> n -> sc_get ss' n' = sc_get ss n') /\
  (forall n' i, n' <> n -> sc_get_elem ss' n' i = sc_get_elem ss n' i).
Proof. exact sc_set_get. Qed.
Print Assumptions C07_set_get.

(* removing something that does not exist creates nothing *)
Theorem C07_unset_absent : forall ss n,
  scope_inv ss -> shape_of ss n = Unset ->
  sc_unset ss n = sc_del ss (sc_current ss) n /\
  (unlinked ss n -> sc_unset ss n = ss) /\
  (forall n', sc_lookup (sc_unset ss n) n' = sc_lookup ss n') /\
  incl (sc_vars_in_scope (sc_unset ss n)) (sc_vars_in_scope ss) /\
  (forall k p, In p (sc_get_scope (sc_unset ss n) k) -> In p (sc_get_scope ss k)).
Proof. exact sc_unset_absent. Qed.
Print Assumptions C07_unset_absent.

(* procedure locals are invisible outside the call and vanish when it returns: whatever sequence
   of variable operations on unlinked names runs in the pushed scope, popping it restores the
   caller's scopes exactly *)
Theorem C07_locals_vanish : forall ss ss'',
  local_steps (sc_push ss) ss'' ->
  length ss'' = S (length ss) /\ firstn (length ss) ss'' = ss /\ sc_pop ss'' = ss.
Proof. exact locals_vanish. Qed.
Print Assumptions C07_locals_vanish.

(* after `global n` reads and writes act on the global itself *)
Theorem C07_global_link : forall ss n,
  scope_inv ss -> (0 < sc_current ss)%nat ->
  let ss1 := sc_upvar ss 0 n in
  scope_inv ss1 /\ sc_target ss1 n = O /\ sc_lookup ss1 n = ent ss O n /\
  (forall v, sc_set ss1 n v = sc_set_global ss1 n v) /\
  (forall v ss2, sc_set ss1 n v = (ss2, Ok tt) ->
     ss2 = sc_put ss1 O n (VarScalar v) /\ ent ss2 O n = Some (VarScalar v) /\
     (forall k, k <> O -> sc_get_scope ss2 k = sc_get_scope ss1 k) /\
     sc_get (firstn 1 ss2) n = Ok v).
Proof. exact global_link. Qed.
Print Assumptions C07_global_link.

(* introspection agrees with what reads and writes observe *)
Theorem C07_exists_agrees : forall ss n, scope_inv ss -> (sc_exists ss n = true <-> shape_of ss n <> Unset).
Proof. exact sc_exists_shape. Qed.
Print Assumptions C07_exists_agrees.
Theorem C07_array_exists_agrees : forall ss n, sc_array_exists ss n = true <-> exists m, shape_of ss n = Array m.
Proof. exact sc_array_exists_shape. Qed.
Print Assumptions C07_array_exists_agrees.

(* the well-formedness invariant is preserved by every scope operation (samples; the full list
   is in Proofs/ScopeFacts.v part a) *)
Theorem C07_inv_set : forall ss n v, scope_inv ss -> scope_inv (fst (sc_set ss n v)).
Proof. exact sc_set_inv. Qed.
Print Assumptions C07_inv_set.
Theorem C07_inv_unset : forall ss n, scope_inv ss -> scope_inv (sc_unset ss n).
Proof. exact sc_unset_inv. Qed.
Print Assumptions C07_inv_unset.
Theorem C07_inv_push : forall ss, scope_inv ss -> scope_inv (sc_push ss).
Proof. exact sc_push_inv. Qed.
Print Assumptions C07_inv_push.
