(* Props/C16.v — property C16: the nesting limit is exact, fail-safe and recoverable. *)
From Molt Require Import Model.Base Model.Value Model.State Model.Script Model.Parser Model.Eval
  Model.Commands Model.Interp.
From Molt Require Import Proofs.CtlFacts Proofs.InterpFacts.
Local Open Scope N_scope.

(* At the limit nothing is evaluated: the state is untouched and the result is the
   'too many nested calls' error, for every script and every limit N. *)
Theorem C16_at_limit : forall U exec st v,
  i_limit st <= i_levels st ->
  eval_value_with U exec st v = (st, Err (molt_err too_many_nested)).
Proof. exact eval_at_limit. Qed.
Print Assumptions C16_at_limit.

(* It is an ordinary error (code 1), hence catchable like any other. *)
Theorem C16_catchable : x_code (molt_err too_many_nested) = CError.
Proof. exact too_many_is_plain_error. Qed.
Print Assumptions C16_catchable.

(* Below the limit the script is run exactly one level deeper. *)
Theorem C16_below_limit : forall U exec st v sc rest,
  i_levels st < i_limit st ->
  parse (u_alnum U) (as_str v) = POk sc rest ->
  exists st2 r, eval_script exec (set_levels st (i_levels st + 1)) sc = (st2, r)
    /\ fst (eval_value_with U exec st v) =
         fst (let st3 := set_levels st2 (i_levels st2 - 1) in
              let r' := if i_levels st3 =? 0 then toplevel_boundary r else r in
              match r' with
              | Err e => if rcode_eqb (x_code e) CError
                         then bind (set_global_error_data st3 e) (fun st4 _ => (st4, Err e))
                         else (st3, r')
              | _ => (st3, r')
              end).
Proof. exact eval_below_limit. Qed.
Print Assumptions C16_below_limit.

(* Every command — built-in or procedure, whatever construct does the nesting — runs its bodies
   at the level it was entered at (it leaves the counter alone), so the depth reached is the
   number of nested evaluations and nothing else ... *)
Theorem C16_commands_keep_level : forall U fuel, exec_ok (run_exec U fuel).
Proof. exact run_exec_ok. Qed.
Print Assumptions C16_commands_keep_level.

(* ... and once the error (or anything else) has propagated, the counter is back where it was
   and the limit is unchanged: the full depth N is available again. *)
Theorem C16_recoverable : forall U fuel st v st' r,
  eval_value U fuel st v = (st', r) -> normal r ->
  i_levels st' = i_levels st /\ i_limit st' = i_limit st.
Proof. intros U fuel st v st' r H N. destruct (eval_value_restores U fuel st v st' r H N) as (A & _ & B). split; assumption. Qed.
Print Assumptions C16_recoverable.
