(* Props/C16.v — property C16: the nesting limit is exact, fail-safe and recoverable. *)
From Molt Require Import Model.Base Model.Value Model.State Model.Script Model.Parser Model.Eval
  Model.Commands Model.Interp.
From Molt Require Import Proofs.CtlFacts Proofs.InterpFacts.
Local Open Scope N_scope.

(* At the limit nothing is evaluated: the state is untouched and the result is the
   'too many nested calls' error, for every script and every limit N. *)
Theorem C16_at_limit : forall U exec st v,
  i_limit st <= i_levels st ->
  eval_value_with U exec st v = (st, Err (molt_err too_many_nested)).
Proof. exact eval_at_limit. Qed.
Print Assumptions C16_at_limit.

(* It is an ordinary error (code 1), hence catchable like any other. *)
Theorem C16_catchable : x_code (molt_err too_many_nested) = CError.
Proof. exact too_many_is_plain_error. Qed.
Print Assumptions C16_catchable.

(* Below the limit the script is run exactly one level deeper. *)
Theorem C16_below_limit : forall U exec st v sc rest,
  i_levels st < i_limit st ->
  parse (u_alnum U) (as_str v) = POk sc rest ->
  exists st2 r, eval_script exec (set_levels st (i_levels st + 1)) sc = (st2, r)
    /\ fst (eval_value_with U exec st v) =
         fst (let st3 := set_levels st2 (i_levels st2 - 1) in
              let r' := if i_levels st3 =? 0 then toplevel_boundary r else r in
              match r' with
              | Err e => if rcode_eqb (x_code e) CError
                         then bind (set_global_error_data st3 e) (fun st4 _ => (st4, Err e))
                         else (st3, r')
              | _ => (st3, r')
              end).
Proof. exact eval_below_limit. Qed.
Print Assumptions C16_below_limit.

(* Every command — built-in or procedure, whatever construct does the nesting — runs its bodies
   at the level it was entered at (it leaves the counter alone), so the depth reached is the
   number of nested evaluations and nothing else ... *)
Theorem C16_commands_keep_level : forall U fuel, exec_ok (run_exec U fuel).
Proof. exact run_exec_ok. Qed.
Print Assumptions C16_commands_keep_level.

(* ... and once the error (or anything else) has propagated, the counter is back where it was
   and the limit is unchanged: the full depth N is available again. *)
Theorem C16_recoverable : forall U fuel st v st' r,
  eval_value U fuel st v = (st', r) -> normal r ->
  i_levels st' = i_levels st /\ i_limit st' = i_limit st.
Proof. intros U fuel st v st' r H N. destruct (eval_value_restores U fuel st v st' r H N) as (A & _ & B). split; assumption. Qed.
Print Assumptions C16_recoverable.

(* ---- exactness: the threshold is N, for every N and every depth (Proofs/DepthFacts.v) ---- *)
From Molt Require Import Model.Unicode Proofs.DepthFacts.

(* d nested `if 1 {...}` bodies around one recorder call need d+1 levels: with limit N the script
   succeeds (recorder called once, nothing else changed) iff d+1 <= N; otherwise it fails with the
   catchable 'too many nested calls' error, the recorder is not reached and the level is back at 0.
   errvars_ok: errorInfo / errorCode are not arrays (otherwise recording the error fails: D32). *)
Theorem C16_if_nest_exact : forall U (N : N) (d fuel : nat) st,
  i_levels st = 0 -> i_limit st = N ->
  if_bound st -> rec_bound st ->
  (d + 1 <= fuel)%nat ->
  (N.of_nat d + 1 <= N ->
     exists st',
       eval U fuel st (nest_if d) = (st', Ok (VStr (lit "deep")))
       /\ i_levels st' = 0 /\ i_limit st' = N /\ i_cmds st' = i_cmds st
       /\ i_scopes st' = i_scopes st
       /\ i_trace st' = deep_call :: i_trace st)
  /\
  (N < N.of_nat d + 1 ->
   errvars_ok (i_scopes st) ->
     exists st' e,
       eval U fuel st (nest_if d) = (st', Err e)
       /\ x_code e = CError /\ x_value e = VStr too_many_nested
       /\ i_levels st' = 0 /\ i_limit st' = N /\ i_cmds st' = i_cmds st
       /\ i_trace st' = i_trace st /\ errvars_ok (i_scopes st')).
Proof. exact DepthFacts.C16_if_nest_exact. Qed.
Print Assumptions C16_if_nest_exact.

(* any mixture of `if` and `catch` wrappers, from any current level *)
Theorem C16_nest_exact : forall U ks fuel st,
  Forall no_var ks ->
  Forall (kind_bound st) ks -> rec_bound st ->
  (length ks + 1 <= fuel)%nat ->
  (i_levels st + N.of_nat (length ks) + 1 <= i_limit st ->
     eval U fuel st (nestk ks) = (set_trace st (deep_call :: i_trace st), Ok (val ks)))
  /\
  (i_limit st < i_levels st + N.of_nat (length ks) + 1 ->
   errvars_ok (i_scopes st) ->
     exists st' r,
       eval U fuel st (nestk ks) = (st', r)
       /\ matches (out (N.to_nat (i_limit st - i_levels st)) ks) r
       /\ i_trace st' = i_trace st /\ i_levels st' = i_levels st /\ i_limit st' = i_limit st
       /\ i_cmds st' = i_cmds st /\ errvars_ok (i_scopes st')).
Proof. exact DepthFacts.C16_nest_exact. Qed.
Print Assumptions C16_nest_exact.

(* `foreach` bodies count the same way *)
Theorem C16_foreach_nest_exact : forall U (N : N) (d fuel : nat) st,
  i_levels st = 0 -> i_limit st = N ->
  foreach_bound st -> rec_bound st ->
  scopes_ready (i_scopes st) ->
  (d + 1 <= fuel)%nat ->
  exists st' r,
    eval U fuel st (nest_foreach d) = (st', r)
    /\ i_levels st' = 0 /\ i_limit st' = N /\ i_cmds st' = i_cmds st
    /\ scopes_ready (i_scopes st')
    /\ (N.of_nat d + 1 <= N ->
          r = Ok (match d with O => VStr (lit "deep") | S _ => v_empty end)
          /\ i_trace st' = deep_call :: i_trace st)
    /\ (N < N.of_nat d + 1 ->
          (exists e, r = Err e /\ x_code e = CError /\ x_value e = VStr too_many_nested)
          /\ i_trace st' = i_trace st).
Proof. exact DepthFacts.C16_foreach_nest_exact. Qed.
Print Assumptions C16_foreach_nest_exact.

(* on the interpreter the checker builds, with no side hypotheses, including recovery: after the
   failure the same interpreter evaluates a script of the full depth N again *)
Theorem C16_harness_if_nest : forall (N : N) (d fuel : nat),
  1 <= N -> (d + 1 <= fuel)%nat ->
  (N.of_nat d + 1 <= N ->
     exists st',
       eval std_uni fuel (limited N) (nest_if d) = (st', Ok (VStr (lit "deep")))
       /\ i_levels st' = 0 /\ i_limit st' = N /\ i_trace st' = [deep_call])
  /\
  (N < N.of_nat d + 1 ->
     exists st' e,
       eval std_uni fuel (limited N) (nest_if d) = (st', Err e)
       /\ x_code e = CError /\ x_value e = VStr too_many_nested
       /\ i_levels st' = 0 /\ i_limit st' = N /\ i_trace st' = []
       /\ forall fuel', (N.to_nat N <= fuel')%nat ->
            exists st'',
              eval std_uni fuel' st' (nest_if (N.to_nat N - 1)) = (st'', Ok (VStr (lit "deep")))
              /\ i_levels st'' = 0 /\ i_trace st'' = [deep_call]).
Proof. exact DepthFacts.C16_harness_if_nest. Qed.
Print Assumptions C16_harness_if_nest.

(* the scripts the checker generates for the `if` construct are these nests *)
Theorem C16_checker_nest_is_nest_if : forall d, Molt.Check.C16.nest 1 d false = nest_if (Z.to_nat d).
Proof. exact checker_nest_if. Qed.
Print Assumptions C16_checker_nest_is_nest_if.

(* ---- procedure recursion, mutual recursion and `for` nests (Proofs/DepthFacts2.v) ---- *)
From Molt Require Import Proofs.DepthFacts2.

(* the checker's recursive procedure `down k` needs k+3 levels (the top-level script, k+1 procedure
   bodies, the `if` body at the bottom): with limit N it succeeds iff k+3 <= N; otherwise it
   fails with the catchable error, every procedure frame is popped, the level is back at 0 *)
Theorem C16_down_exact : forall U (N : N) (k : Z) (fuel : nat) st,
  uni_ok U ->
  i_levels st = 0 -> i_limit st = N -> i_scopes st <> [] ->
  counting_natives st ->
  assoc_get (lit "down") (i_cmds st) = Some down_proc ->
  (0 <= k <= i64_max)%Z -> (Z.to_nat k + 3 <= fuel)%nat ->
  (Z.to_N k + 3 <= N ->
     eval U fuel st (lit "down " ++ show_Z k)
     = (set_trace st (deep_call :: i_trace st), Ok (VStr (lit "ok"))))
  /\
  (N < Z.to_N k + 3 -> errvars_ok (i_scopes st) ->
     exists st' e,
       eval U fuel st (lit "down " ++ show_Z k) = (st', Err e)
       /\ x_code e = CError /\ x_value e = VStr too_many_nested
       /\ i_levels st' = 0 /\ i_limit st' = N /\ i_cmds st' = i_cmds st
       /\ i_trace st' = i_trace st
       /\ length (i_scopes st') = length (i_scopes st) /\ errvars_ok (i_scopes st')).
Proof. exact DepthFacts2.C16_down_exact. Qed.
Print Assumptions C16_down_exact.

(* mutual recursion ping/pong: 2k+3 levels *)
Theorem C16_ping_exact : forall U (N : N) (k : Z) (fuel : nat) st,
  uni_ok U ->
  i_levels st = 0 -> i_limit st = N -> i_scopes st <> [] ->
  counting_natives st ->
  assoc_get (lit "ping") (i_cmds st) = Some ping_proc ->
  assoc_get (lit "pong") (i_cmds st) = Some pong_proc ->
  (0 <= k <= i64_max)%Z -> (2 * Z.to_nat k + 3 <= fuel)%nat ->
  (2 * Z.to_N k + 3 <= N ->
     eval U fuel st (lit "ping " ++ show_Z k)
     = (set_trace st (deep_call :: i_trace st), Ok (VStr (lit "ok"))))
  /\
  (N < 2 * Z.to_N k + 3 -> errvars_ok (i_scopes st) ->
     exists st' e,
       eval U fuel st (lit "ping " ++ show_Z k) = (st', Err e)
       /\ x_code e = CError /\ x_value e = VStr too_many_nested
       /\ i_levels st' = 0 /\ i_limit st' = N /\ i_cmds st' = i_cmds st
       /\ i_trace st' = i_trace st
       /\ length (i_scopes st') = length (i_scopes st) /\ errvars_ok (i_scopes st')).
Proof. exact DepthFacts2.C16_ping_exact. Qed.
Print Assumptions C16_ping_exact.

(* `for` bodies count one level each, like the other loop bodies *)
Theorem C16_for_nest_exact : forall U (N : N) (d fuel : nat) st,
  uni_names_ok U ->
  i_levels st = 0 -> i_limit st = N ->
  for_natives st -> Ready (i_scopes st) ->
  (d + 1 <= fuel)%nat ->
  exists st' r,
    eval U fuel st (nest_for d) = (st', r)
    /\ i_levels st' = 0 /\ i_limit st' = N /\ i_cmds st' = i_cmds st
    /\ Ready (i_scopes st')
    /\ (N.of_nat d + 1 <= N ->
          r = Ok (val_for d) /\ i_trace st' = deep_call :: i_trace st)
    /\ (N < N.of_nat d + 1 ->
          (exists e, r = Err e /\ x_code e = CError /\ x_value e = VStr too_many_nested)
          /\ i_trace st' = i_trace st).
Proof. exact DepthFacts2.C16_for_nest_exact. Qed.
Print Assumptions C16_for_nest_exact.

(* on the interpreter state the checker builds (procedures defined by its own text), no side
   hypotheses; the global scope is the current one again on both paths *)
Theorem C16_harness_down : forall (N : N) (k : Z) (fuel : nat),
  (0 <= k <= i64_max)%Z -> (Z.to_nat k + 3 <= fuel)%nat ->
  (Z.to_N k + 3 <= N ->
     exists st',
       eval std_uni fuel (checker_state N) (lit "down " ++ show_Z k) = (st', Ok (VStr (lit "ok")))
       /\ i_levels st' = 0 /\ i_trace st' = [deep_call] /\ sc_current (i_scopes st') = 0%nat)
  /\
  (N < Z.to_N k + 3 ->
     exists st' e,
       eval std_uni fuel (checker_state N) (lit "down " ++ show_Z k) = (st', Err e)
       /\ x_code e = CError /\ x_value e = VStr too_many_nested
       /\ i_levels st' = 0 /\ i_limit st' = N /\ i_trace st' = []
       /\ sc_current (i_scopes st') = 0%nat).
Proof. exact DepthFacts2.C16_harness_down. Qed.
Print Assumptions C16_harness_down.

Theorem C16_checker_down_script : forall target ce,
  Molt.Check.C16.script_for 4 target ce
  = (lit "down " ++ show_Z (Z.max (target - 3) 0), (Z.max (target - 3) 0 + 3)%Z).
Proof. exact checker_script_down. Qed.
Print Assumptions C16_checker_down_script.

(* ---- recursion through a command substitution inside an expression (the checker's kind 7) ----
   `proc sum {n} {if {$n <= 0} {rec deep; return 0}; expr {1 + [sum [expr {$n - 1}]]}}`: a command
   substitution inside `expr` is evaluated at the level of the body it stands in, so `sum k` needs
   k+3 levels like `down k`: it succeeds iff k+3 <= N, with the recorder reached exactly then;
   otherwise the catchable error, every frame popped, the level back at 0. *)
From Molt Require Import Proofs.DepthFacts3.

Theorem C16_sum_exact : forall U (N : N) (k : Z) (fuel : nat) st,
  uni_ok U ->
  i_levels st = 0 -> i_limit st = N -> i_scopes st <> [] ->
  counting_natives st ->
  assoc_get (lit "sum") (i_cmds st) = Some sum_proc ->
  (0 <= k <= i64_max)%Z -> (2 * Z.to_nat k + 3 <= fuel)%nat ->
  (Z.to_N k + 3 <= N ->
     eval U fuel st (lit "sum " ++ show_Z k)
     = (set_trace st (deep_call :: i_trace st), Ok (sum_value k)))
  /\
  (N < Z.to_N k + 3 -> errvars_ok (i_scopes st) ->
     exists st' e,
       eval U fuel st (lit "sum " ++ show_Z k) = (st', Err e)
       /\ x_code e = CError /\ x_value e = VStr too_many_nested
       /\ i_levels st' = 0 /\ i_limit st' = N /\ i_cmds st' = i_cmds st
       /\ i_trace st' = i_trace st
       /\ length (i_scopes st') = length (i_scopes st) /\ errvars_ok (i_scopes st')).
Proof. exact DepthFacts3.C16_sum_exact. Qed.
Print Assumptions C16_sum_exact.

(* the value returned: the text of k (`return 0` gives the string, `expr` the integer) *)
Theorem C16_sum_value_text : forall k, (0 <= k)%Z -> as_str (sum_value k) = show_Z k.
Proof.
  intros k Hk. unfold sum_value. destruct (k =? 0)%Z eqn:E.
  - apply Z.eqb_eq in E. subst k. reflexivity.
  - reflexivity.
Qed.
Print Assumptions C16_sum_value_text.

(* on the state the checker builds, for the whole script text of kind 7 (definition, then call) *)
Theorem C16_harness_sum : forall (N : N) (k : Z) (fuel : nat),
  (0 <= k <= i64_max)%Z -> (2 * Z.to_nat k + 4 <= fuel)%nat ->
  (Z.to_N k + 3 <= N ->
     exists st',
       eval std_uni fuel (checker_state N) (sum_script_text k) = (st', Ok (sum_value k))
       /\ i_levels st' = 0 /\ i_limit st' = N /\ i_trace st' = [deep_call]
       /\ sc_current (i_scopes st') = 0%nat
       /\ assoc_get sum_name (i_cmds st') = Some sum_proc)
  /\
  (N < Z.to_N k + 3 ->
     exists st' e,
       eval std_uni fuel (checker_state N) (sum_script_text k) = (st', Err e)
       /\ x_code e = CError /\ x_value e = VStr too_many_nested
       /\ i_levels st' = 0 /\ i_limit st' = N /\ i_trace st' = []
       /\ sc_current (i_scopes st') = 0%nat).
Proof. exact DepthFacts3.C16_harness_sum. Qed.
Print Assumptions C16_harness_sum.

Theorem C16_checker_sum_script : forall (N : N) (target : Z) (ce : bool) (fuel : nat),
  let s := fst (Molt.Check.C16.script_for 7 target ce) in
  let need := snd (Molt.Check.C16.script_for 7 target ce) in
  (need <= i64_max)%Z -> (2 * Z.to_nat need <= fuel)%nat ->
  ((need <= Z.of_N N)%Z ->
     exists st', eval std_uni fuel (checker_state N) s = (st', Ok (sum_value (need - 3)))
                 /\ i_levels st' = 0 /\ i_trace st' = [deep_call] /\ sc_current (i_scopes st') = 0%nat)
  /\ ((Z.of_N N < need)%Z -> exists st' e, eval std_uni fuel (checker_state N) s = (st', Err e)
                   /\ x_code e = CError /\ x_value e = VStr too_many_nested
                   /\ i_levels st' = 0 /\ i_limit st' = N /\ i_trace st' = []
                   /\ sc_current (i_scopes st') = 0%nat).
Proof. exact DepthFacts3.C16_checker_sum_script. Qed.
Print Assumptions C16_checker_sum_script.
