(* Props/C05.v — property C05: the string form of a list parses back to exactly the same list.
   Statements only; every proof is [exact <lemma>]. *)
From Molt Require Import Model.Base Model.Tokenizer Model.ListSyn Check.C05.
From Molt Require Import Proofs.BaseFacts Proofs.ListSynFacts Proofs.C05Facts.

(* Every list of arbitrary strings (all scalar values, all lengths) survives formatting and
   re-parsing unchanged.  [Some (inr l)]: the parser neither runs out of fuel nor reports an error. *)
Theorem C05_roundtrip : forall l : list str, get_list (list_to_string l) = Some (inr l).
Proof. exact list_roundtrip. Qed.
Print Assumptions C05_roundtrip.

(* Formatting the re-parsed list gives the same string again. *)
Theorem C05_format_idempotent : forall l : list str,
  match get_list (list_to_string l) with
  | Some (inr l') => list_to_string l' = list_to_string l
  | _ => False
  end.
Proof. exact list_format_idempotent. Qed.
Print Assumptions C05_format_idempotent.

(* Nested lists: a list of lists, each given by its string form, parses back to those string
   forms, and each of them parses back to its own elements. *)
Theorem C05_nested : forall ll : list (list str),
  get_list (list_to_string (map list_to_string ll)) = Some (inr (map list_to_string ll))
  /\ Forall (fun l => get_list (list_to_string l) = Some (inr l)) ll.
Proof. exact list_nested_roundtrip. Qed.
Print Assumptions C05_nested.

(* The uniform statement used by the correspondence check: the property's oracle accepts the
   model's observation on every case (a case is any list of strings). *)
Theorem C05_oracle_holds : forall l : list str,
  c05_known (TStrs l) = false -> c05_spec_ok (TStrs l) (c05_model_obs (TStrs l)) = true.
Proof. exact c05_oracle_holds. Qed.
Print Assumptions C05_oracle_holds.

(* Non-vacuity / regression witnesses evaluated by the kernel. *)
Example C05_witnesses :
  map (fun l => list_to_string (map lit l))
      [["{}"]; ["a\"]; ["} {"]; ["#a b"; "{"]; [""; "a b"]]%string
  = map lit ["{{}}"; "a\\"; "\}\ \{"; "{#a b} \{"; "{} {a b}"]%string.
Proof. vm_compute. reflexivity. Qed.
Print Assumptions C05_witnesses.
