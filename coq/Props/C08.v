(* Props/C08.v — property C08: a failed evaluation leaves no residue in the interpreter's
   control state.  Statements only. *)
From Molt Require Import Model.Base Model.Value Model.State Model.Eval Model.Commands Model.Interp.
From Molt Require Import Proofs.CtlFacts.

(* For EVERY script value, every starting state and every outcome other than the model's own
   Panic / out-of-fuel markers — a value, an error, break/continue/return escaping from any depth,
   a syntax error in any body, a wrong argument count — the evaluation leaves the nesting-level
   counter, the depth of the scope stack and the recursion limit exactly as they were. *)
Theorem C08_eval_restores : forall U fuel st v st' r,
  eval_value U fuel st v = (st', r) -> normal r -> ctl_eq st st'.
Proof. exact eval_value_restores. Qed.
Print Assumptions C08_eval_restores.

Theorem C08_expr_restores : forall U fuel st e st' r,
  expr U fuel st e = (st', r) -> normal r -> ctl_eq st st'.
Proof. exact expr_restores. Qed.
Print Assumptions C08_expr_restores.

(* Hence after any top-level evaluation the interpreter is back at global scope with no
   evaluation in progress, whatever happened inside. *)
Theorem C08_toplevel_clean : forall U fuel st v st' r,
  i_levels st = 0%N -> length (i_scopes st) = 1%nat ->
  eval_value U fuel st v = (st', r) -> normal r ->
  i_levels st' = 0%N /\ length (i_scopes st') = 1%nat.
Proof. exact toplevel_clean. Qed.
Print Assumptions C08_toplevel_clean.

(* ... and this holds along every history of evaluations on one interpreter *)
Theorem C08_history_clean : forall U fuel (scripts : list value) st,
  i_levels st = 0%N -> length (i_scopes st) = 1%nat ->
  let run := fold_left (fun acc v => match acc with
                                     | Some st => let '(st', r) := eval_value U fuel st v in
                                                  match r with Panic _ | Fuel => None | _ => Some st' end
                                     | None => None
                                     end) scripts (Some st) in
  forall st', run = Some st' -> i_levels st' = 0%N /\ length (i_scopes st') = 1%nat.
Proof. exact history_clean. Qed.
Print Assumptions C08_history_clean.

(* every built-in and every procedure call preserves the control state (the generic
   interpreter induction the above rests on) *)
Theorem C08_every_command_preserves : forall U fuel, exec_ok (run_exec U fuel).
Proof. exact run_exec_ok. Qed.
Print Assumptions C08_every_command_preserves.
