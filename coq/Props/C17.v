(* Props/C17.v — property C17: syntax errors are detected before anything runs, and `complete`
   agrees. *)
From Molt Require Import Model.Base Model.Value Model.State Model.Script Model.Parser Model.Eval
  Model.Commands Model.Interp.
From Molt Require Import Proofs.InterpFacts.
Local Open Scope N_scope.

(* A script with a syntax error anywhere in its own text — bracketed command substitutions are
   part of that text: the reader parses them as part of the enclosing word — executes none of its
   commands: the interpreter state (variables, recorder, command table) is exactly unchanged. *)
Theorem C17_nothing_runs : forall U exec st v m,
  i_levels st < i_limit st ->
  parse (u_alnum U) (as_str v) = PErr m ->
  eval_value_with U exec st v = (st, Err (molt_err m)).
Proof. exact eval_syntax_error. Qed.
Print Assumptions C17_nothing_runs.

(* The outcome does not even depend on the command executor. *)
Theorem C17_no_command_invoked : forall U exec1 exec2 st v m,
  parse (u_alnum U) (as_str v) = PErr m ->
  eval_value_with U exec1 st v = eval_value_with U exec2 st v.
Proof. exact eval_syntax_error_runs_nothing. Qed.
Print Assumptions C17_no_command_invoked.

(* `complete` is true exactly for the scripts the evaluator's reader accepts ... *)
Theorem C17_complete_iff : forall U s,
  complete U s = true <-> exists sc rest, parse (u_alnum U) s = POk sc rest.
Proof. exact complete_iff. Qed.
Print Assumptions C17_complete_iff.

(* ... through both entry points (`info complete` is the same function of the text and leaves
   the interpreter unchanged) ... *)
Theorem C17_same_reader : forall U st (s : str),
  cmd_info U st [VStr (lit "info"); VStr (lit "complete"); VStr s] = (st, Ok (VBool (complete U s))).
Proof. exact info_complete_same. Qed.
Print Assumptions C17_same_reader.

(* ... and it has no side effects: it does not take an interpreter at all. *)
Theorem C17_complete_pure : forall U s,
  complete U s = match parse (u_alnum U) s with POk _ _ => true | _ => false end.
Proof. exact complete_is_pure. Qed.
Print Assumptions C17_complete_pure.
