(* Props/C09.v — property C09: control structures and procedures execute per their operational
   semantics.  Statements only, each for an ARBITRARY evaluator of bodies and conditions (rec).
   Spec/SpecCtl.v: if_shape / spec_if / skip_clauses, spec_while / while_iters / while_trace,
   spec_for, spec_foreach / chunk_bindings / ceil_div, cmds_run. *)
From Molt Require Import Model.Base Model.Value Model.State Model.Script Model.Eval Model.Commands.
From Molt Require Import Spec.SpecCtl Proofs.CtlStructFacts.

(* if: for every well-shaped argument list (with or without then / else / elseif) the command is
   the specification: conditions are tried in order, exactly one branch runs and its value is
   the result; with no true condition the else body runs, or the result is the empty string *)
Theorem C09_if : forall rec st argv clauses els,
  if_shape (tl argv) = Some (clauses, els) -> cmd_if rec st argv = spec_if rec st clauses els.
Proof. exact if_spec. Qed.
Print Assumptions C09_if.
Theorem C09_if_branch : forall rec st pre st1 c b st2 post els,
  skip_clauses rec st pre st1 -> expr_bool rec st1 c = (st2, Ok true) ->
  spec_if rec st (pre ++ (c, b) :: post) els = r_eval rec st2 b.
Proof. exact if_branch_taken. Qed.
Print Assumptions C09_if_branch.
Theorem C09_if_else : forall rec st cl st1 b,
  skip_clauses rec st cl st1 -> spec_if rec st cl (Some b) = r_eval rec st1 b.
Proof. exact if_else_taken. Qed.
Print Assumptions C09_if_else.
Theorem C09_if_none : forall rec st cl st1,
  skip_clauses rec st cl st1 -> spec_if rec st cl None = (st1, Ok v_empty).
Proof. exact if_no_branch. Qed.
Print Assumptions C09_if_none.

(* while: test before each iteration, empty-string result; if the test is true exactly for the
   states in l (bodies completing or continuing) and then false, the body ran exactly |l| times *)
Theorem C09_while : forall rec n st test body,
  while_loop rec n st test body = spec_while rec n st test body.
Proof. exact while_spec. Qed.
Print Assumptions C09_while.
Theorem C09_while_count : forall rec test body st l st' st'' n,
  while_iters rec test body st l st' -> expr_bool rec st' test = (st'', Ok false) ->
  (length l < n)%nat ->
  while_loop rec n st test body = (st'', Ok v_empty) /\ while_trace rec n st test body = l.
Proof. exact while_count. Qed.
Print Assumptions C09_while_count.

(* for: next runs after a completed or continued body, not after break *)
Theorem C09_for : forall rec n st test next body,
  for_loop rec n st test next body = spec_for rec n st test next body.
Proof. exact for_spec. Qed.
Print Assumptions C09_for.
Theorem C09_for_continue_runs_next : forall rec n st test next body st1 st2 e st3 w,
  expr_bool rec st test = (st1, Ok true) ->
  r_eval rec st1 body = (st2, Err e) -> x_code e = CContinue ->
  r_eval rec st2 next = (st3, Ok w) ->
  for_loop rec (S n) st test next body = for_loop rec n st3 test next body.
Proof. exact for_unroll_continue. Qed.
Print Assumptions C09_for_continue_runs_next.
Theorem C09_for_break_skips_next : forall rec n st test next body st1 st2 e,
  expr_bool rec st test = (st1, Ok true) ->
  r_eval rec st1 body = (st2, Err e) -> x_code e = CBreak ->
  for_loop rec (S n) st test next body = (st2, Ok v_empty).
Proof. exact for_unroll_break. Qed.
Print Assumptions C09_for_break_skips_next.

(* foreach: ceil(|l| / |vars|) iterations; iteration k binds variable j to element k*|vars|+j,
   the last chunk padded with empty strings (chunk_bindings); an empty variable list is an error *)
Theorem C09_foreach : forall rec st vars l body,
  vars <> [] ->
  foreach_loop rec (S (length l)) st vars l body =
  spec_foreach rec (ceil_div (length l) (length vars)) st vars l body 0.
Proof. exact foreach_chunks. Qed.
Print Assumptions C09_foreach.
Theorem C09_foreach_empty_varlist : forall rec st argv l,
  length argv = 4%nat -> v_as_list (arg argv 1) = inr [] -> v_as_list (arg argv 2) = inr l ->
  cmd_foreach rec st argv = (st, err (lit "foreach varlist is empty")).
Proof. exact cmd_foreach_empty_varlist. Qed.
Print Assumptions C09_foreach_empty_varlist.

(* a procedure returns its last command's result or its `return` value *)
Theorem C09_proc_result : forall rec st parms body argv st2 st3 v,
  bind_parms (push_scope st) (arg argv 0) parms parms (skipn 1 argv) = (st2, Ok tt) ->
  (r_eval rec st2 body = (st3, Ok v) \/ r_eval rec st2 body = (st3, Err (molt_return_ext v 1 COkay))) ->
  proc_execute rec st parms body argv = (pop_scope st3, Ok v).
Proof. exact proc_result_last_command. Qed.
Print Assumptions C09_proc_result.

(* a script's result is the value of its last command; the empty script gives the empty string *)
Theorem C09_script_empty : forall exec st, eval_script exec st [] = (st, Ok v_empty).
Proof. exact eval_script_nil. Qed.
Print Assumptions C09_script_empty.
Theorem C09_script_last : forall exec st cmds st1 r1 c st2 name args cmd st3 v,
  cmds_run exec (eval_word exec) st v_empty cmds st1 r1 ->
  eval_words exec st1 c [] = (st2, Ok (name :: args)) ->
  assoc_get (as_str name) (i_cmds st2) = Some cmd ->
  exec st2 cmd (name :: args) = (st3, Ok v) ->
  eval_script exec st (cmds ++ [c]) = (st3, Ok v).
Proof. exact eval_script_last_value. Qed.
Print Assumptions C09_script_last.

(* ---- whole programs (Proofs/CtlProgFacts.v) ----
   A typed statement language: expressions Lit z | Var v | Bin op a b (the 16 symbolic binary
   operators, fully parenthesised as the checker's renderer writes them), statements
   set v [expr {e}] | incr v k | if {c} {..} | if {c} {..} else {..} | while {c} {..} | break |
   continue, blocks of statements one per line.  `run` is the reference big-step semantics over an
   environment of integer variables (fuel counts nested blocks and loop iterations).  For every
   well-formed program, every state whose current scope holds the environment (`Rel`), with the
   standard commands bound (`cmds_ok`) and room below the nesting limit: whenever the reference run
   finishes, the interpreter on the rendered text — for every sufficiently large fuel — returns
   the corresponding result (value / break / continue / error with the message; at the top level a
   stray break or continue becomes the "outside of a loop" error: `finish`), a state that again
   holds the final environment, and unchanged command table, nesting level and limit.
   Not covered (tested only): procedures, for, foreach, catch, string-valued variables, the
   indentation the checker's renderer puts inside nested bodies, and the link between this typed
   language and the checker's term encoding (`stmt9`). *)
From Molt Require Proofs.CtlProgFacts.
From Molt Require Import Model.Unicode Model.Interp.

Theorem C09_whole_program : forall n p en en' o st,
  CtlProgFacts.run n en p = (en', o) -> o <> CtlProgFacts.OFuel -> CtlProgFacts.wf_block p = true ->
  CtlProgFacts.Rel en st -> CtlProgFacts.cmds_ok st ->
  (i_levels st + 1 + CtlProgFacts.depth_block p <= i_limit st)%N ->
  exists F, forall fuel, (F <= fuel)%nat ->
  exists st' r, eval std_uni fuel st (CtlProgFacts.render_block p) = (st', r) /\
                CtlProgFacts.res_ok (CtlProgFacts.finish (i_levels st =? 0)%N o) r /\
                CtlProgFacts.Rel en' st' /\ CtlProgFacts.same_ctl st st'.
Proof. exact CtlProgFacts.run_agrees. Qed.
Print Assumptions C09_whole_program.

(* the hypotheses hold of a fresh interpreter with the empty environment *)
Theorem C09_whole_program_nonvacuous :
  CtlProgFacts.cmds_ok interp_new /\ CtlProgFacts.Rel [] interp_new.
Proof. exact (conj CtlProgFacts.cmds_ok_new CtlProgFacts.Rel_new). Qed.
Print Assumptions C09_whole_program_nonvacuous.

(* ---- the checker's oracle and the model agree (Proofs/CtlProgFacts2.v) ----
   cblock: the statement language above with the counting loop the checker generates
   (`while c k body` = `set c 0; while {$c < k} {incr c; body}`); `to_prog` expands it into the
   typed language, `to_term` encodes it as the term the checker's reference interpreter
   (Check/C09.v `block9`) works on.  On every well-formed program (`wfc_block`: in particular a
   loop body never assigns its own counter) the oracle computes the outcome and environment of the
   reference run, and therefore what the interpreter computes from the rendered text.
   CtlProgFacts2 also records what happens outside `wfc_block`: the oracle gives a loop a budget of
   k+1 iterations and then stops silently, so on a body that resets its counter it differs from
   model and implementation (the ex_bad examples); the generator never produces such a body. *)
From Molt Require Proofs.CtlProgFacts2.
From Molt Require Check.C09.

Theorem C09_oracle_agrees_with_reference : forall n cp en en' o ve tr,
  CtlProgFacts.run n en (CtlProgFacts2.to_prog cp) = (en', o) -> o <> CtlProgFacts.OFuel ->
  CtlProgFacts2.wfc_block cp = true ->
  CtlProgFacts2.env_i64 en -> CtlProgFacts2.venv_rel en ve ->
  forall f, (CtlProgFacts2.dep_block cp <= f)%nat ->
  exists ve' o9, C09.block9 [] f (CtlProgFacts2.mk9 ve tr) (CtlProgFacts2.to_term cp) [] = (CtlProgFacts2.mk9 ve' tr, o9) /\
                 CtlProgFacts2.outrel o o9 /\ CtlProgFacts2.venv_rel en' ve' /\ CtlProgFacts2.env_i64 en'.
Proof. exact CtlProgFacts2.checker_agrees. Qed.
Print Assumptions C09_oracle_agrees_with_reference.

Theorem C09_model_matches_oracle : forall n cp en en' o st ve tr,
  CtlProgFacts.run n en (CtlProgFacts2.to_prog cp) = (en', o) -> o <> CtlProgFacts.OFuel ->
  CtlProgFacts2.wfc_block cp = true ->
  CtlProgFacts2.env_i64 en -> CtlProgFacts2.venv_rel en ve -> CtlProgFacts.Rel en st -> CtlProgFacts.cmds_ok st ->
  (i_levels st + 1 + CtlProgFacts.depth_block (CtlProgFacts2.to_prog cp) <= i_limit st)%N ->
  exists F, forall fuel f9, (F <= fuel)%nat -> (CtlProgFacts2.dep_block cp <= f9)%nat ->
  exists st' r ve' o9,
    eval std_uni fuel st (CtlProgFacts.render_block (CtlProgFacts2.to_prog cp)) = (st', r) /\
    C09.block9 [] f9 (CtlProgFacts2.mk9 ve tr) (CtlProgFacts2.to_term cp) [] = (CtlProgFacts2.mk9 ve' tr, o9) /\
    CtlProgFacts2.res9 (i_levels st =? 0)%N o9 r /\
    CtlProgFacts.Rel en' st' /\ CtlProgFacts2.venv_rel en' ve' /\ CtlProgFacts.same_ctl st st'.
Proof. exact CtlProgFacts2.model_matches_oracle. Qed.
Print Assumptions C09_model_matches_oracle.

(* ---- whole programs with for, catch and foreach (Proofs/CtlProgFacts3.v) ----
   The statement language above extended with `for {init} {cond} {next} {body}` (init and next are
   blocks; `continue` runs next, `break` skips it), `set v [catch {body}]` (v receives 0, 1, 3 or 4
   for ok / error / break / continue; the environment is as the body left it) and
   `foreach v {z1 z2 ...} {body}` over a literal list of integers.  Same shape of statement as
   C09_whole_program.  Procedures are not covered by a whole-program theorem (tested only). *)
From Molt Require Proofs.CtlProgFacts3.

Theorem C09_whole_program_for_catch_foreach : forall n p en en' o st,
  CtlProgFacts3.run2 n en p = (en', o) -> o <> CtlProgFacts.OFuel -> CtlProgFacts3.wf_block2 p = true ->
  CtlProgFacts.Rel en st -> CtlProgFacts3.cmds_ok2 st ->
  (i_levels st + 1 + CtlProgFacts3.depth_block2 p <= i_limit st)%N ->
  exists F, forall fuel, (F <= fuel)%nat ->
  exists st' r, eval std_uni fuel st (CtlProgFacts3.render_block2 p) = (st', r) /\
                CtlProgFacts.res_ok (CtlProgFacts.finish (i_levels st =? 0)%N o) r /\
                CtlProgFacts.Rel en' st' /\ CtlProgFacts.same_ctl st st'.
Proof. exact CtlProgFacts3.run_agrees2. Qed.
Print Assumptions C09_whole_program_for_catch_foreach.

Theorem C09_whole_program_for_catch_foreach_nonvacuous :
  CtlProgFacts3.cmds_ok2 interp_new /\ CtlProgFacts.Rel [] interp_new.
Proof. exact (conj CtlProgFacts3.cmds_ok2_new CtlProgFacts.Rel_new). Qed.
Print Assumptions C09_whole_program_for_catch_foreach_nonvacuous.
