(* Props/C19.v — property C19: string and list utilities index by character and clamp as
   documented.  Statements only.  In the model a string is a list of Unicode scalar values, so
   every index below counts characters, never bytes; Spec/SpecStr.v holds the declarative
   notions (occurs_at, greatest, occurs_within, is_trim, map_rel, ...). *)
From Molt Require Import Model.Base Model.ListSyn Model.Value Model.State Model.Eval Model.Commands.
From Molt Require Import Spec.SpecStr Proofs.StrFacts.

(* string first: -1, or the least character index >= start at which the needle occurs *)
Theorem C19_first : forall needle hay start,
  let s := Z.to_nat (clamp0 start) in
  (string_first needle hay start = (-1)%Z
   /\ ((length hay <= s)%nat \/ forall j, (s <= j)%nat -> ~ occurs_at needle hay j))
  \/ (exists r, string_first needle hay start = Z.of_nat r
                /\ (s <= r)%nat /\ (s < length hay)%nat /\ occurs_at needle hay r
                /\ forall j, (s <= j < r)%nat -> ~ occurs_at needle hay j).
Proof. exact string_first_spec. Qed.
Print Assumptions C19_first.

(* string last: -1, or the greatest index of an occurrence lying inside the first last+1 characters *)
Theorem C19_last : forall needle hay last,
  match last with
  | None =>
      (string_last needle hay None = (-1)%Z /\ forall i, ~ occurs_at needle hay i)
      \/ exists r, string_last needle hay None = Z.of_nat r /\ greatest (occurs_at needle hay) r
  | Some z =>
      if (z <? 0)%Z then string_last needle hay (Some z) = (-1)%Z
      else
        (string_last needle hay (Some z) = (-1)%Z
         /\ forall i, ~ occurs_within needle hay (S (Z.to_nat z)) i)
        \/ exists r, string_last needle hay (Some z) = Z.of_nat r
                     /\ greatest (occurs_within needle hay (S (Z.to_nat z))) r
  end.
Proof. exact string_last_spec. Qed.
Print Assumptions C19_last.

(* string range, for ALL integer indices (far below 0, far beyond the length, i64 extremes):
   character i of the result is character i + max(first,0) of the string while that position is
   <= last; a range with first > last or entirely outside the string is empty *)
Theorem C19_range_chars : forall s first last i,
  nth_error (string_range s first last) i =
    if (0 <=? last)%Z && (Z.of_nat i + clamp0 first <=? last)%Z
    then nth_error s (i + Z.to_nat (clamp0 first)) else None.
Proof. exact string_range_nth_all. Qed.
Print Assumptions C19_range_chars.

Theorem C19_range_empty : forall s first last,
  (last < 0 \/ last < clamp0 first)%Z -> string_range s first last = [].
Proof. exact string_range_empty. Qed.
Print Assumptions C19_range_empty.

(* compare / equal (with -length): lexicographic order by scalar value on the cut strings *)
Theorem C19_compare : forall a b len,
  compare_len a b len = Z_of_comparison (str_cmp (cut_len len a) (cut_len len b)).
Proof. exact compare_len_spec. Qed.
Print Assumptions C19_compare.

Theorem C19_equal : forall a b len,
  Z.eqb (compare_len a b len) 0 = true <-> cut_len len a = cut_len len b.
Proof. exact string_equal_spec. Qed.
Print Assumptions C19_equal.

(* trim: the unique way of writing s = white ++ t ++ white with t empty or not starting/ending
   in white space *)
Theorem C19_trim : forall s, is_trim s (trim s).
Proof. exact trim_spec. Qed.
Print Assumptions C19_trim.
Theorem C19_trim_unique : forall s t, is_trim s t -> t = trim s.
Proof. exact trim_unique. Qed.
Print Assumptions C19_trim_unique.

(* string map: one left-to-right scan; at each position the first key that is a prefix of the
   remaining input is replaced and the scan resumes after it *)
Theorem C19_map : forall keys s,
  keys_nonempty keys -> map_rel keys s (map_scan (S (length s)) keys s s []).
Proof. exact map_scan_spec. Qed.
Print Assumptions C19_map.

(* lindex: nested paths; an out-of-range index yields the empty string, from which every further
   index yields the empty string; a non-integer index is an error *)
Theorem C19_lindex_in_range : forall v l i z,
  v_as_list v = inr l -> v_as_int i = inr z -> (0 <= z < Z.of_nat (length l))%Z ->
  lindex_into v [i] = Ok (nth (Z.to_nat z) l v_empty)
  /\ nth_error l (Z.to_nat z) = Some (nth (Z.to_nat z) l v_empty).
Proof. exact lindex_into_in_range. Qed.
Print Assumptions C19_lindex_in_range.

Theorem C19_lindex_out_of_range : forall v l i z r,
  v_as_list v = inr l -> v_as_int i = inr z -> (z < 0 \/ Z.of_nat (length l) <= z)%Z ->
  lindex_into v (i :: r) = lindex_into v_empty r.
Proof. exact lindex_into_out_of_range. Qed.
Print Assumptions C19_lindex_out_of_range.

Theorem C19_lindex_empty : forall idx, all_int_indices idx -> lindex_into v_empty idx = Ok v_empty.
Proof. exact lindex_into_empty. Qed.
Print Assumptions C19_lindex_empty.

Theorem C19_lindex_bad_index : forall v l i r,
  v_as_list v = inr l -> (forall z, v_as_int i <> inr z) ->
  lindex_into v (i :: r) = err (err_expected_int (as_str i)).
Proof. exact lindex_into_bad_index. Qed.
Print Assumptions C19_lindex_bad_index.

(* the commands are these functions (samples of the command-level links proved in StrFacts) *)
Theorem C19_cmd_range : forall U st c sub s a b first last,
  as_str sub = lit "range" -> v_as_int a = inr first -> v_as_int b = inr last ->
  cmd_string U st [c; sub; s; a; b] = (st, Ok (VStr (string_range (as_str s) first last))).
Proof. exact cmd_string_range. Qed.
Print Assumptions C19_cmd_range.

Theorem C19_cmd_first : forall U st c sub n h s z,
  as_str sub = lit "first" -> v_as_int s = inr z ->
  cmd_string U st [c; sub; n; h; s] = (st, Ok (VInt (string_first (as_str n) (as_str h) z))).
Proof. exact cmd_string_first5. Qed.
Print Assumptions C19_cmd_first.

(* incr: the sum, or an error outside i64; a non-integer variable is an error *)
Theorem C19_incr : forall st c name iv i old,
  v_as_int iv = inr i ->
  match st_var st name with Ok v => v_as_int v = inr old | _ => old = 0%Z end ->
  cmd_incr st [c; name; iv] =
    if in_i64 (i + old) then st_set_var_return st name (VInt (i + old))
    else (st, err (lit "integer overflow")).
Proof. exact cmd_incr_spec. Qed.
Print Assumptions C19_incr.

(* ---- the case mapping behind tolower / -nocase (Rust std's str::to_lowercase) ----
   It is character by character except for capital sigma (U+03A3 = 931), whose image depends on
   its context.  The rule reaches no further than this: without a sigma the result is the
   per-character map; with sigmas, every character still contributes exactly its own block, and a
   sigma's block is one of the two small sigmas, chosen by the closed-form condition. *)
From Molt Require Import Model.Unicode Proofs.UnicodeFacts.

Theorem C19_lower_no_sigma : forall s,
  ~ In 931%N s -> to_lowercase s = flat_map lower_char s.
Proof. exact to_lowercase_no_sigma. Qed.
Print Assumptions C19_lower_no_sigma.

Theorem C19_lower_blocks : forall s, blocks_ok s (to_lowercase s).
Proof. exact to_lowercase_blocks. Qed.
Print Assumptions C19_lower_blocks.

Theorem C19_lower_sigma : forall before r,
  lower_go before (931%N :: r)
  = (if ci_then_cased before && negb (ci_then_cased r) then 962%N else 963%N)
      :: lower_go (931%N :: before) r.
Proof. exact lower_go_sigma_here. Qed.
Print Assumptions C19_lower_sigma.
