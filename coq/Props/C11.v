(* Props/C11.v — property C11: the string form of a list is safe to evaluate as a command. *)
From Molt Require Import Model.Base Model.ListSyn Model.Script Model.Parser Model.Value Model.State
  Model.Eval.
From Molt Require Import Proofs.ListAsCommandFacts.

(* The script reader turns the string form of ANY non-empty list into exactly one command whose
   words are the elements as literals: no element is split, substituted, expanded, treated as a
   comment or as a command terminator, whatever characters it contains (all scalar values, all
   lengths); all input is consumed. *)
Theorem C11_one_literal_command : forall (is_alnum : char -> bool) (l : list str),
  l <> [] -> parse is_alnum (list_to_string l) = POk [map WValue l] [].
Proof. exact list_string_is_one_command. Qed.
Print Assumptions C11_one_literal_command.

(* Evaluating it invokes exactly one command — looked up under the first element — with an
   argument vector that is exactly the list; for every executor, hence also when the string is a
   procedure body, a loop body or was produced by `list` (they all go through eval_script). *)
Theorem C11_one_invocation : forall is_alnum exec st (w : str) (r : list str),
  match parse is_alnum (list_to_string (w :: r)) with
  | POk sc rest =>
      rest = [] /\
      eval_script exec st sc =
      match assoc_get w (i_cmds st) with
      | None =>
          (st, Err (add_error_info
                      (add_error_info (molt_err (lit "invalid command name """ ++ w ++ lit """"))
                                      (lit "    while executing"))
                      (lit """" ++ list_to_string (map as_str (map VStr (w :: r))) ++ lit """")))
      | Some cmd =>
          match exec st cmd (map VStr (w :: r)) with
          | (st2, Ok v) => (st2, Ok v)
          | (st2, Err e) => command_outcome st2 cmd w (map VStr (w :: r)) e
          | (st2, Panic p) => (st2, Panic p)
          | (st2, Fuel) => (st2, Fuel)
          end
      end
  | _ => False
  end.
Proof. exact eval_list_string. Qed.
Print Assumptions C11_one_invocation.

(* the empty list is the empty script: nothing is invoked *)
Theorem C11_empty_list : forall is_alnum, parse is_alnum (list_to_string []) = POk [] [].
Proof. exact empty_list_no_command. Qed.
Print Assumptions C11_empty_list.

Example C11_witness :
  parse (fun _ => false) (list_to_string (map lit ["#a b"; "$x [y]"; "{*}"; "a;b"; "{"]%string))
  = POk [map WValue (map lit ["#a b"; "$x [y]"; "{*}"; "a;b"; "{"]%string)] [].
Proof. vm_compute. reflexivity. Qed.
Print Assumptions C11_witness.
