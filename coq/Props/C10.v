(* Props/C10.v — property C10: procedure arguments bind per the declared signature.
   Statements only.  Spec/SpecBind.v: pspec (PReq / POpt / PArgs), parse_specs, spec_bind
   (positional binding by cases), bind_scope, msg_specs / render (signature text). *)
From Molt Require Import Model.Base Model.Value Model.State Model.Eval Model.Commands.
From Molt Require Import Spec.SpecBind Proofs.BindFacts.

(* binding in the freshly pushed scope is exactly the specification's positional binding:
   required parameters from the call, optional ones from the call or else their defaults, a
   trailing `args` gets the list of all remaining arguments; any other arity is the
   'wrong # args' error *)
Theorem C10_bind_spec : forall st name all parms args ps,
  parse_specs parms = Some ps ->
  match spec_bind ps args with
  | Some bs => bind_parms (push_scope st) name all parms args
               = (set_scopes st (i_scopes st ++ [bind_scope bs []]), Ok tt)
  | None => exists sc, bind_parms (push_scope st) name all parms args
               = (set_scopes st (i_scopes st ++ [sc]), Err (molt_err (proc_wrong_args name all)))
  end.
Proof. exact bind_parms_pushed. Qed.
Print Assumptions C10_bind_spec.

(* which arities bind: between the number of parameters that need an argument and the number of
   parameters (unbounded with a trailing args) *)
Theorem C10_arity : forall ps, specs_wf ps -> forall args,
  (exists bs, spec_bind ps args = Some bs) <->
  (min_args ps <= length args)%nat /\
  match max_args ps with Some m => (length args <= m)%nat | None => True end.
Proof. exact spec_bind_arity. Qed.
Print Assumptions C10_arity.

(* a call with any other arity is rejected before the body runs, the interpreter state is
   exactly what it was (no scope, no variable left behind) *)
Theorem C10_arity_error_leaves_nothing : forall rec st parms body argv ps,
  parse_specs parms = Some ps -> spec_bind ps (skipn 1 argv) = None ->
  proc_execute rec st parms body argv = (st, Err (molt_err (proc_wrong_args (arg argv 0) parms))).
Proof. exact proc_execute_arity_error. Qed.
Print Assumptions C10_arity_error_leaves_nothing.

(* ... and the error message names the call signature *)
Theorem C10_message_names_signature : forall name parms,
  proc_wrong_args name parms
  = lit "wrong # args: should be """ ++ as_str name ++ concat (map render (msg_specs parms)) ++ lit """".
Proof. exact proc_wrong_args_render. Qed.
Print Assumptions C10_message_names_signature.

(* when the arity fits, the body runs in a scope holding exactly the bindings *)
Theorem C10_body_sees_bindings : forall rec st parms body argv ps bs,
  parse_specs parms = Some ps -> spec_bind ps (skipn 1 argv) = Some bs ->
  proc_execute rec st parms body argv
  = let '(st3, r) := r_eval rec (set_scopes st (i_scopes st ++ [bind_scope bs []])) body in
    proc_boundary (pop_scope st3) r.
Proof. exact proc_execute_bound. Qed.
Print Assumptions C10_body_sees_bindings.

(* a parameter list with an empty or over-long specifier is rejected at definition and nothing
   is defined *)
Theorem C10_reject_bad_spec : forall st name specs body,
  Exists bad_spec specs ->
  exists st' e, cmd_proc st [VStr (lit "proc"); name; VList specs; body] = (st', Err e)
                /\ i_cmds st' = i_cmds st.
Proof. exact cmd_proc_rejects_cmds. Qed.
Print Assumptions C10_reject_bad_spec.
