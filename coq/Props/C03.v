(* Props/C03.v — property C03: expressions evaluate per the documented grammar.
   Statements only; proofs in Proofs/ExprFacts.v.

   Three layers.
   (A) the operator tables regenerated from /repo/molt/src/expr.rs on every run (Gen/SrcFacts.v):
       unary operators outrank every binary operator; the binary operators fall into the C
       precedence classes, strictly decreasing; token numbers and operator strings agree with
       the model's constants.
   (B) the arithmetic of every operator, for ALL operands: i64 with overflow reported, truncating
       division, int-to-float promotion, shift counts outside 0..63 rejected, results in range,
       numeric-else-string comparison, eq/ne/in/ni, wrong operand types are errors, abs/int/...
   (C) structure: the evaluation loop stops at a lower-ranked operator and groups equal ranks to
       the left, and (completeness, fragment) for EVERY tree over the 20 ordinary binary
       operators and non-negative literals, rendered with exactly the parentheses C precedence
       requires, the evaluator returns the value of the tree.
   PARTIAL: (C) does not cover unary operators, && || ?:, functions, float/string/variable/
   command leaves or other spacings inside the theorem; those are covered by the correspondence
   run, whose oracle (Spec/SpecExpr.v eval_ast) is the same tree evaluator used in (C). *)
From Molt Require Import Model.Base Model.ListSyn Model.Float Model.Value Model.State Model.Script
  Model.Parser Model.Eval Model.Expr Model.Commands Model.Unicode.
From Molt Require Import Gen.SrcFacts Spec.SpecExpr Proofs.ExprFacts.
Local Open Scope Z_scope.

(* ---- A ---- *)
Theorem C03_unary_binds_tightest :
  forall u b, In u unary_toks -> In b binary_toks -> prec b < prec u.
Proof. exact unary_binds_tightest. Qed.
Print Assumptions C03_unary_binds_tightest.

Theorem C03_binary_classes :
  concat prec_classes = binary_toks /\
  forallb class_uniform prec_classes = true /\
  strictly_decreasing (map class_prec prec_classes) = true /\
  forallb (fun b => 0 <? prec b) binary_toks = true.
Proof. exact binary_classes_ordered. Qed.
Print Assumptions C03_binary_classes.

(* ---- B ---- *)
Theorem C03_int_plus : forall x y, apply_binop T_PLUS (DInt x) (DInt y) =
  if in_i64 (x + y) then Ok (DInt (x + y)) else err (lit "integer overflow").
Proof. exact int_plus. Qed.
Print Assumptions C03_int_plus.
Theorem C03_int_minus : forall x y, apply_binop T_MINUS (DInt x) (DInt y) =
  if in_i64 (x - y) then Ok (DInt (x - y)) else err (lit "integer overflow").
Proof. exact int_minus. Qed.
Print Assumptions C03_int_minus.
Theorem C03_int_mult : forall x y, apply_binop T_MULT (DInt x) (DInt y) =
  if in_i64 (x * y) then Ok (DInt (x * y)) else err (lit "integer overflow").
Proof. exact int_mult. Qed.
Print Assumptions C03_int_mult.
Theorem C03_int_divide : forall x y, apply_binop T_DIVIDE (DInt x) (DInt y) =
  if y =? 0 then err (lit "divide by zero")
  else if in_i64 (Z.quot x y) then Ok (DInt (Z.quot x y)) else err (lit "integer overflow").
Proof. exact int_divide. Qed.
Print Assumptions C03_int_divide.
Theorem C03_int_mod : forall x y, apply_binop T_MOD (DInt x) (DInt y) =
  if y =? 0 then err (lit "divide by zero")
  else if (x =? i64_min) && (y =? -1) then err (lit "integer overflow")
  else Ok (DInt (Z.rem x y)).
Proof. exact int_mod. Qed.
Print Assumptions C03_int_mod.
Theorem C03_divide_overflow_only : forall x y,
  in_i64 x = true -> in_i64 y = true -> y <> 0 ->
  (in_i64 (Z.quot x y) = false <-> x = i64_min /\ y = -1).
Proof. exact int_divide_overflow_only. Qed.
Print Assumptions C03_divide_overflow_only.
Theorem C03_promote : forall x b, apply_binop T_PLUS (DInt x) (DFlt b) = Ok (DFlt (fadd (f_of_Z x) b)).
Proof. exact promote_plus_l. Qed.
Print Assumptions C03_promote.
Theorem C03_shift_left : forall x y, apply_binop T_LEFT_SHIFT (DInt x) (DInt y) =
  if (y <? 0) || (63 <? y) then err (lit "shift count out of range")
  else Ok (DInt (wrap_i64 (Z.shiftl x y))).
Proof. exact shift_left. Qed.
Print Assumptions C03_shift_left.
Theorem C03_shift_right : forall x y, apply_binop T_RIGHT_SHIFT (DInt x) (DInt y) =
  if (y <? 0) || (63 <? y) then err (lit "shift count out of range")
  else Ok (DInt (Z.shiftr x y)).
Proof. exact shift_right. Qed.
Print Assumptions C03_shift_right.
(* never a wrapped or arbitrary value: every integer result is an i64 *)
Theorem C03_int_results_in_range : forall op x y z,
  in_i64 x = true -> in_i64 y = true ->
  apply_binop op (DInt x) (DInt y) = Ok (DInt z) -> in_i64 z = true.
Proof. exact apply_binop_int_range. Qed.
Print Assumptions C03_int_results_in_range.
Theorem C03_cmp_int_flt : forall op x b, In op cmp_toks ->
  apply_binop op (DInt x) (DFlt b) = Ok (d_bool (fcmp_op op (f_of_Z x) b)).
Proof. exact cmp_int_flt. Qed.
Print Assumptions C03_cmp_int_flt.
Theorem C03_string_eq : forall v v2,
  apply_binop T_STRING_EQ v v2 = Ok (d_bool (str_eqb (datum_text v) (datum_text v2))).
Proof. exact string_eq_rule. Qed.
Print Assumptions C03_string_eq.
Theorem C03_in : forall v v2,
  apply_binop T_IN v v2 =
  match get_list (datum_text v2) with
  | Some (inr l) => Ok (d_bool (existsb (fun e => str_eqb e (datum_text v)) l))
  | Some (inl e) => err (list_err_msg e)
  | None => Fuel
  end.
Proof. exact in_rule. Qed.
Print Assumptions C03_in.
Theorem C03_wrong_type_is_error : forall op v v2,
  (In op arith_toks /\ is_string v || is_string v2 = true) \/
  (In op intonly_toks /\ (is_int v = false \/ is_int v2 = false)) ->
  exists e, apply_binop op v v2 = Err e.
Proof. exact wrong_type_is_error. Qed.
Print Assumptions C03_wrong_type_is_error.
Theorem C03_abs_min : call_func (lit "abs") (DInt i64_min) = err (lit "integer overflow").
Proof. exact func_abs_min. Qed.
Print Assumptions C03_abs_min.

(* ---- C ---- *)
(* every tree over the ordinary binary operators, rendered with the parentheses C precedence
   requires and no others, evaluates to the value of the tree (errors included) *)
Theorem C03_tree_completeness : forall exec st t, lits_ok t ->
  expr_eval (u_alnum std_uni) (u_alpha std_uni) exec st (VStr (render_c t))
  = (st, res_value (eval_ast (to_term t))).
Proof. exact expr_eval_tree_std. Qed.
Print Assumptions C03_tree_completeness.

(* ---- the full grammar (Proofs/ExprFacts2.v) ----
   tree2: integer and float literals, parentheses anywhere, unary - + ! ~, the 20 ordinary binary
   operators, && and || (short-circuit), ?: (right associative), abs/double/int/round; every token
   carries its own run of spaces/tabs.  `ok` says the tree is written as the grammar requires
   (operands bind tightly enough or are parenthesised, literals in range, word operators
   separated by white space); `bnot_ok` excludes `~` applied to a float (there the model and the
   reference both report an error, with different messages: C03_bnot_float_messages_differ). *)
From Molt Require Import Proofs.ExprFacts2.

Theorem C03_full_grammar_completeness : forall exec st t lead trail,
  ok t = true -> bnot_ok t = true -> ws lead = true -> ws trail = true ->
  expr_eval (u_alnum std_uni) (u_alpha std_uni) exec st (VStr (lead ++ render2 t ++ trail))
  = (st, res_value (eval_ast (to_term2 t))).
Proof. exact expr_eval_tree2_ws_std. Qed.
Print Assumptions C03_full_grammar_completeness.

(* with no side condition on `~`: same value, or an error on both sides; the state is unchanged *)
Theorem C03_full_grammar_value_or_error : forall exec st t, ok t = true ->
  let E := expr_eval (u_alnum std_uni) (u_alpha std_uni) exec st (VStr (render2 t)) in
  fst E = st /\ res_sim (snd E) (res_value (eval_ast (to_term2 t))).
Proof. exact expr_eval_tree2_sim_std. Qed.
Print Assumptions C03_full_grammar_value_or_error.

(* parentheses inserted exactly where C precedence and associativity require them *)
Theorem C03_minimal_parentheses : forall exec st t, sok t = true -> bnot_ok t = true ->
  expr_eval (u_alnum std_uni) (u_alpha std_uni) exec st (VStr (render2_c t))
  = (st, res_value (eval_ast (to_term2 t))).
Proof. exact expr_eval_tree2_c_std. Qed.
Print Assumptions C03_minimal_parentheses.

Theorem C03_bnot_float_messages_differ : forall exec st,
  let t := U UBnot [] (Fn FDouble [] [] [] (L 1)) in
  ok t = true /\ bnot_ok t = false /\
  expr_eval (u_alnum std_uni) (u_alpha std_uni) exec st (VStr (render2 t)) =
    (st, err (lit "can't use floating-point value as operand of ""~""")) /\
  res_value (eval_ast (to_term2 t)) = err (lit "type").
Proof. exact bnot_float_counterexample. Qed.
Print Assumptions C03_bnot_float_messages_differ.

(* ---- every kind of operand (Proofs/ExprFacts3.v) ----
   tree3: the full grammar above with the operand leaves the lexer accepts besides numbers:
   `$name` and `${name}` (a scalar of the current scope), quoted strings without brackets, dollars, backslashes or quotes,
   braced strings without `{ } \`, `[script]` for any well-formed script tree of
   Spec/SpecGrammar.v, and the boolean words true/false/yes/no/on/off.  `ev3` is the reference
   evaluator: state-passing, left to right, C's rules for `&&`, `||`, `?:`; `top_res` is the
   conversion `expr` applies to its result.  Not covered: `$a(index)`, quoted strings with
   substitutions, braced strings with nested braces or backslashes (tested only). *)
From Molt Require Proofs.ExprFacts3.

Theorem C03_operand_completeness : forall exec st t lead trail,
  ExprFacts3.ok3_std t = true -> ws lead = true -> ws trail = true ->
  expr_eval (u_alnum std_uni) (u_alpha std_uni) exec st (VStr (lead ++ ExprFacts3.render3 t ++ trail)) =
  (fst (ExprFacts3.ev3 exec t st), ExprFacts3.top_res (snd (ExprFacts3.ev3 exec t st))).
Proof. exact ExprFacts3.expr_eval_render3_std. Qed.
Print Assumptions C03_operand_completeness.

(* without command substitutions the state is returned as it was and the executor is irrelevant *)
Theorem C03_operand_frame : forall exec st t lead trail,
  ExprFacts3.ok3_std t = true -> ExprFacts3.no_cmd t = true -> ws lead = true -> ws trail = true ->
  expr_eval (u_alnum std_uni) (u_alpha std_uni) exec st (VStr (lead ++ ExprFacts3.render3 t ++ trail)) =
  (st, res_value (snd (ExprFacts3.ev3 exec t st))).
Proof. exact ExprFacts3.expr_eval_render3_pure. Qed.
Print Assumptions C03_operand_frame.

(* how a variable's, a string's and a command's value enters the arithmetic *)
Theorem C03_variable_operand_value : forall exec n st,
  ExprFacts3.ev3 exec (ExprFacts3.X3 (ExprFacts3.KVar n)) st = (st, ExprFacts3.rb (st_scalar st n) expr_parse_value) /\
  ExprFacts3.ev3 exec (ExprFacts3.X3 (ExprFacts3.KVarB n)) st = (st, ExprFacts3.rb (st_scalar st n) expr_parse_value).
Proof. exact ExprFacts3.var_leaf_value. Qed.
Print Assumptions C03_variable_operand_value.

Theorem C03_string_operand_value : forall exec s st,
  ExprFacts3.ev3 exec (ExprFacts3.X3 (ExprFacts3.KQuo s)) st = (st, expr_parse_string s) /\
  ExprFacts3.ev3 exec (ExprFacts3.X3 (ExprFacts3.KBrace s)) st = (st, expr_parse_string s).
Proof. exact ExprFacts3.string_leaf_value. Qed.
Print Assumptions C03_string_operand_value.

Theorem C03_command_operand_value : forall exec sc st,
  ExprFacts3.ev3 exec (ExprFacts3.X3 (ExprFacts3.KCmd sc)) st =
  (fst (eval_script exec st (ExprFacts3.cmd_script sc)),
   ExprFacts3.rb (snd (eval_script exec st (ExprFacts3.cmd_script sc))) expr_parse_value).
Proof. exact ExprFacts3.cmd_leaf_value. Qed.
Print Assumptions C03_command_operand_value.

Theorem C03_unknown_variable_operand : forall exec n st, sc_lookup (i_scopes st) n = None ->
  ExprFacts3.ev3 exec (ExprFacts3.X3 (ExprFacts3.KVar n)) st =
  (st, err (lit "can't read """ ++ n ++ lit """: no such variable")).
Proof. exact ExprFacts3.unknown_var_message. Qed.
Print Assumptions C03_unknown_variable_operand.

(* ---- array elements, strings with substitutions, nested braces (Proofs/ExprFacts4.v) ----
   tree4: tree3 with three more operand leaves: `$a(index)` for any well-formed index of
   Spec/SpecGrammar.v (literal text, escapes, `$name`, nested `$b(i)`, `[script]`), quoted strings
   with any well-formed content (literal text, every backslash escape, `$name`, `${name}`, `$a(i)`,
   `[script]`), braced strings with nested braces and backslashes.  With these every operand form
   the lexer accepts is covered by a completeness theorem. *)
From Molt Require Proofs.ExprFacts4.

Theorem C03_every_operand_completeness : forall exec st t lead trail,
  ExprFacts4.ok4_std t = true -> ws lead = true -> ws trail = true ->
  expr_eval (u_alnum std_uni) (u_alpha std_uni) exec st (VStr (lead ++ ExprFacts4.render4 t ++ trail)) =
  (fst (ExprFacts4.ev4 exec t st), ExprFacts3.top_res (snd (ExprFacts4.ev4 exec t st))).
Proof. exact ExprFacts4.expr_eval_render4_std. Qed.
Print Assumptions C03_every_operand_completeness.

(* no command substitution anywhere (and indices / strings that only read variables): the state
   is returned as it was *)
Theorem C03_every_operand_frame : forall exec st t lead trail,
  ExprFacts4.ok4_std t = true -> ExprFacts4.pure4 t = true -> ws lead = true -> ws trail = true ->
  expr_eval (u_alnum std_uni) (u_alpha std_uni) exec st (VStr (lead ++ ExprFacts4.render4 t ++ trail)) =
  (st, ExprFacts3.top_res (snd (ExprFacts4.ev4 exec t st))).
Proof. exact ExprFacts4.expr_eval_render4_frame. Qed.
Print Assumptions C03_every_operand_frame.

Theorem C03_element_operand_value : forall exec n x st,
  ExprFacts4.ev4 exec (ExprFacts4.X4 (ExprFacts4.KArr n [SpecGrammar.SLit x])) st =
  (st, ExprFacts3.rb (st_element st n x) expr_parse_value).
Proof. exact ExprFacts4.arr_leaf_value. Qed.
Print Assumptions C03_element_operand_value.

Theorem C03_unknown_element_operand : forall exec n x st m,
  sc_lookup (i_scopes st) n = Some (VarArray m) -> assoc_get x m = None ->
  ExprFacts4.ev4 exec (ExprFacts4.X4 (ExprFacts4.KArr n [SpecGrammar.SLit x])) st =
  (st, err (lit "can't read """ ++ n ++ lit "(" ++ x ++ lit ")"": no such element in array")).
Proof. exact ExprFacts4.unknown_element_message. Qed.
Print Assumptions C03_unknown_element_operand.

(* a quoted operand is the concatenation of its pieces, evaluated left to right with the state
   threaded through them, read as a string operand *)
Theorem C03_quoted_operand_value : forall exec l st,
  ExprFacts4.ev4 exec (ExprFacts4.X4 (ExprFacts4.KQuoS l)) st =
  (fst (GrammarFacts.eval_seq exec st (ExprFacts4.quo_pieces l)),
   ExprFacts3.rb (snd (ExprFacts4.cat_of (GrammarFacts.eval_seq exec st (ExprFacts4.quo_pieces l)))) expr_parse_string).
Proof. exact ExprFacts4.quo_leaf_value. Qed.
Print Assumptions C03_quoted_operand_value.

Theorem C03_braced_operand_value : forall exec b st,
  ExprFacts4.ev4 exec (ExprFacts4.X4 (ExprFacts4.KBraceN b)) st =
  (st, expr_parse_string (flat_map SpecGrammar.bseg_value b)).
Proof. exact ExprFacts4.brace_leaf_value. Qed.
Print Assumptions C03_braced_operand_value.
