(* Props/C13.v — property C13: cached representations are unobservable: everything is a string.
   Statements only; proofs in Proofs/RepFacts.v.

   In the model a value is the tree it was built from and [as_str] computes its string;
   [strip v := VStr (as_str v)] is what the checker's identity command returns.  [same v w] says
   v and w have the same string and well-formed typed data (every carried integer is an i64,
   every carried dictionary has distinct key strings).

   PROVED here: every way the model reads a value (string, equality, integer, float, boolean,
   list, dictionary, expression operand) and the commands llength/lindex/join/list/incr/string/
   read-only dict give the same answer on a value and on any other value with the same string,
   floats excepted; evaluating a body or an expression depends only on the text of the value
   (the parse cache does not exist in the model).
   REFUTED here (known finding D31, pinned by the project's tests): a float with an integral
   value prints without a decimal point and re-reads as an integer.
   PARTIAL: the lift to whole programs ("the two forms of every program give the same result and
   final variables") is not a theorem; it is what the correspondence run tests on every
   generated program, on the implementation, where the real caches live. *)
From Molt Require Import Model.Base Model.ListSyn Model.Float Model.Value Model.State Model.Script
  Model.Parser Model.Eval Model.Expr Model.Commands Model.Interp.
From Molt Require Import Proofs.RepFacts.

(* every read of a float-free, well-formed value agrees with the read of its string *)
Theorem C13_value_interface : forall v, good v ->
  as_str (strip v) = as_str v /\
  (forall w, v_eqb (strip v) w = v_eqb v w /\ v_eqb w (strip v) = v_eqb w v) /\
  v_as_int (strip v) = v_as_int v /\
  v_as_float (strip v) = v_as_float v /\
  v_as_list (strip v) = sum_map (map strip) (v_as_list v) /\
  v_as_dict (strip v) = sum_map (map strip_pair) (v_as_dict v) /\
  expr_parse_value (strip v) = expr_parse_value v /\
  ((forall z, v <> VInt z) -> v_as_bool (strip v) = v_as_bool v) /\
  (forall z b, v = VInt z -> v_as_bool (strip v) = inr b -> v_as_bool v = inr b).
Proof. exact RepFacts.C13_value_interface. Qed.
Print Assumptions C13_value_interface.

(* the same for any two routes to one string *)
Theorem C13_int_same : forall v w, same v w -> v_as_int v = v_as_int w.
Proof. exact v_as_int_same. Qed.
Print Assumptions C13_int_same.
Theorem C13_list_same : forall v w, same v w -> sum_rel (Forall2 same) (v_as_list v) (v_as_list w).
Proof. exact v_as_list_same. Qed.
Print Assumptions C13_list_same.
Theorem C13_dict_same : forall v w, same v w -> sum_rel (Forall2 same_pair) (v_as_dict v) (v_as_dict w).
Proof. exact v_as_dict_same. Qed.
Print Assumptions C13_dict_same.
Theorem C13_expr_operand_same : forall v w,
  float_free v = true -> float_free w = true -> same v w -> expr_parse_value v = expr_parse_value w.
Proof. exact expr_parse_value_same. Qed.
Print Assumptions C13_expr_operand_same.

(* the hypotheses are needed, and the float one is the known finding *)
Theorem C13_float_refuted : exists f, expr_parse_value (VFlt f) <> expr_parse_value (strip (VFlt f)).
Proof. exact float_rep_observable. Qed.
Print Assumptions C13_float_refuted.
Theorem C13_float_refuted_division :
  halve (expr_parse_value (VFlt f_five)) = Ok (DFlt f_two_and_half) /\
  halve (expr_parse_value (strip (VFlt f_five))) = Ok (DInt 2).
Proof. exact float_rep_observable_division. Qed.
Print Assumptions C13_float_refuted_division.

(* commands: related argument vectors give related outcomes (state included) *)
Theorem C13_cmd_llength : forall st argv argv', Forall2 same argv argv' -> cmd_llength st argv' = cmd_llength st argv.
Proof. exact cmd_llength_same. Qed.
Print Assumptions C13_cmd_llength.
Theorem C13_cmd_join : forall st argv argv', Forall2 same argv argv' -> cmd_join st argv' = cmd_join st argv.
Proof. exact cmd_join_same. Qed.
Print Assumptions C13_cmd_join.
Theorem C13_cmd_incr : forall st argv argv', Forall2 same argv argv' -> cmd_incr st argv' = cmd_incr st argv.
Proof. exact cmd_incr_same. Qed.
Print Assumptions C13_cmd_incr.
Theorem C13_cmd_string : forall U st argv argv', Forall2 same argv argv' -> cmd_string U st argv' = cmd_string U st argv.
Proof. exact cmd_string_same. Qed.
Print Assumptions C13_cmd_string.
Theorem C13_cmd_lindex : forall st argv argv',
  Forall2 same argv argv' -> m_rel same (cmd_lindex st argv) (cmd_lindex st argv').
Proof. exact cmd_lindex_same. Qed.
Print Assumptions C13_cmd_lindex.
Theorem C13_cmd_list : forall st argv argv',
  Forall2 same argv argv' -> m_rel str_same (cmd_list st argv) (cmd_list st argv').
Proof. exact cmd_list_same. Qed.
Print Assumptions C13_cmd_list.
Theorem C13_cmd_dict : forall st argv argv',
  Forall2 same argv argv' -> dict_readonly (as_str (arg argv 1)) ->
  m_rel str_same (cmd_dict st argv) (cmd_dict st argv').
Proof. exact cmd_dict_same. Qed.
Print Assumptions C13_cmd_dict.

(* a body / expression evaluated from any value with the same text behaves identically *)
Theorem C13_eval_text_only : forall U exec st v w,
  as_str v = as_str w -> eval_value_with U exec st v = eval_value_with U exec st w.
Proof. exact eval_value_with_same. Qed.
Print Assumptions C13_eval_text_only.
Theorem C13_expr_text_only : forall U exec st e, expr_with U exec st (strip e) = expr_with U exec st e.
Proof. exact expr_with_strip. Qed.
Print Assumptions C13_expr_text_only.

(* ---- whole programs (Proofs/RepSimFacts.v) ----
   [vrel] relates two values that are equal, or well-formed float-free values with the same
   string, or containers of related elements (identical floats may sit inside differently
   represented containers).  It is lifted to variables, scopes, the command table (procedure
   bodies are values), exceptions, results and interpreter states ([strel]).  The fundamental
   lemma: EVERY command of the interpreter - all natives, procedures, the word, script and
   expression evaluators, at every nesting depth - maps related states and arguments to related
   states and results.  So the result of any script and the final variable state do not depend on
   the representation of any value that is not a float read back from a string. *)
From Molt Require Import Model.Unicode Check.ScriptObs Proofs.RepSimFacts.

Theorem C13_every_command_respects_representation : forall U fuel, exec_rel (run_exec U fuel).
Proof. exact run_exec_rel. Qed.
Print Assumptions C13_every_command_respects_representation.

(* any script, from related states, evaluated from any two values with the same text *)
Theorem C13_scripts : forall U fuel st st' v w, strel st st' -> as_str v = as_str w ->
  mrel vrel (eval_value U fuel st v) (eval_value U fuel st' w).
Proof. exact eval_rel. Qed.
Print Assumptions C13_scripts.

(* expressions give EQUAL values *)
Theorem C13_expressions : forall U fuel st st' v w, strel st st' -> as_str v = as_str w ->
  mrel eqr (expr U fuel st v) (expr U fuel st' w).
Proof. exact expr_rel. Qed.
Print Assumptions C13_expressions.

(* related outcomes are indistinguishable once everything is read as a string *)
Theorem C13_related_is_unobservable : forall m m', mrel vrel m m' ->
  strip_state (fst m') = strip_state (fst m) /\ strip_res (snd m') = strip_res (snd m).
Proof. exact mrel_observable. Qed.
Print Assumptions C13_related_is_unobservable.

(* the property's own formulation: run the program as written, and with EVERY command invocation at
   every nesting depth receiving fresh copies of its arguments and returning a fresh copy of its
   result through a representation-stripping identity that keeps floats ([ident_keep]): same final
   state, same result, once read as strings *)
Theorem C13_program_with_stripping_identity : forall U fuel st s,
  let m := eval U fuel st s in
  let m' := eval_value_T ident_keep U fuel st (VStr s) in
  strip_state (fst m') = strip_state (fst m) /\ strip_res (snd m') = strip_res (snd m) /\
  out_str m' = out_str m.
Proof. exact C13_program_ident_keep. Qed.
Print Assumptions C13_program_with_stripping_identity.

(* histories of scripts on one interpreter: equal outcomes, recorder trace, variable probes, depth *)
Theorem C13_histories : forall scripts probes st st', strel st st' ->
  let '(s1, outs) := Check.ScriptObs.run_history st scripts [] in
  let '(s1', outs') := Check.ScriptObs.run_history st' scripts [] in
  outs' = outs /\ i_trace s1' = i_trace s1 /\
  map (Check.ScriptObs.obs_var s1') probes = map (Check.ScriptObs.obs_var s1) probes /\
  sc_current (i_scopes s1') = sc_current (i_scopes s1).
Proof. exact history_observation_rel. Qed.
Print Assumptions C13_histories.

(* the float exception, at program level *)
Theorem C13_float_program_refuted :
  obs (eval std_uni 50 (st_with_x (VFlt f_five)) (lit "expr {$x / 2}")) = Some (inr (lit "2.5")) /\
  obs (eval std_uni 50 (st_with_x (strip (VFlt f_five))) (lit "expr {$x / 2}")) = Some (inr (lit "2")).
Proof. exact float_program_observable. Qed.
Print Assumptions C13_float_program_refuted.
