(* Props/C18.v — property C18: the command table and command contexts stay consistent.
   Statements only; definitions in Spec/SpecTable.v (tab_op, apply_op, users, table_inv,
   spec_apply, op_defined). *)
From Molt Require Import Model.Base Model.State Model.Eval Model.Commands Model.Interp.
From Molt Require Import Spec.SpecTable Proofs.TableFacts.

(* the invariant — names unique, one entry per live context, reference count = number of names
   bound to a command carrying the context, every context in use is live — holds initially *)
Theorem C18_inv_init : table_inv interp_new.
Proof. exact table_inv_init. Qed.
Print Assumptions C18_inv_init.

(* ... is preserved by every operation: registration with and without context, procedure
   definition, rename, removal, including redefinition over an existing name *)
Theorem C18_inv_step : forall st o, table_inv st -> table_inv (apply_op st o).
Proof. exact apply_op_inv. Qed.
Print Assumptions C18_inv_step.

(* ... hence holds after every finite history *)
Theorem C18_inv_reachable : forall ops, table_inv (fold_left apply_op ops interp_new).
Proof. exact reachable_inv. Qed.
Print Assumptions C18_inv_reachable.

(* dispatch refines the abstract name map: each name resolves to the implementation last bound
   to it; removed or renamed-away names are unknown *)
Theorem C18_dispatch_refines : forall st o name,
  names_unique (i_cmds st) -> op_defined st o ->
  assoc_get name (i_cmds (apply_op st o)) = assoc_get name (spec_apply (i_cmds st) o).
Proof. exact apply_op_refines. Qed.
Print Assumptions C18_dispatch_refines.

(* context data stays retrievable while at least one command registered with it exists ... *)
Theorem C18_context_kept_while_used : forall st o c,
  table_inv st -> ctx_get (i_ctx st) c <> None ->
  (0 < users (i_cmds (apply_op st o)) c)%nat -> ctx_get (i_ctx (apply_op st o)) c <> None.
Proof. exact context_kept_while_used. Qed.
Print Assumptions C18_context_kept_while_used.

(* ... and is dropped once none does *)
Theorem C18_context_dropped_when_unused : forall st o c,
  table_inv st -> (0 < users (i_cmds st) c)%nat ->
  users (i_cmds (apply_op st o)) c = 0%nat -> ctx_get (i_ctx (apply_op st o)) c = None.
Proof. exact context_dropped_when_unused. Qed.
Print Assumptions C18_context_dropped_when_unused.
