(* Props/C15.v — property C15: dictionaries are insertion-ordered maps with value semantics.
   Statements only; the abstract ordered map is Spec/SpecDict.v (observations keys_of / lookup). *)
From Molt Require Import Model.Base Model.ListSyn Model.Value Model.State Model.Commands.
From Molt Require Import Spec.SpecDict Proofs.DictFacts Proofs.ValueFacts.

(* insertion: an existing key keeps its position, a new key goes last; k maps to v, every other
   key to what it did; one entry per key is preserved *)
Theorem C15_insert_refines : forall d k v, wf d -> spec_insert d (as_str k) v (dict_insert d k v).
Proof. exact dict_insert_refines. Qed.
Print Assumptions C15_insert_refines.

(* removal keeps the order and values of the others *)
Theorem C15_remove_refines : forall d k, wf d -> spec_remove d (as_str k) (dict_remove d k).
Proof. exact dict_remove_refines. Qed.
Print Assumptions C15_remove_refines.

Theorem C15_remove_all_refines : forall ks d, wf d ->
  spec_remove_all d (map as_str ks) (fold_left dict_remove ks d).
Proof. exact fold_dict_remove_refines. Qed.
Print Assumptions C15_remove_all_refines.

(* `dict create` / reading a dictionary from a string: keys in FIRST-insertion order with their
   LAST-written values, duplicates allowed in the input *)
Theorem C15_of_list_refines : forall l, spec_of_list l (list_to_dict l).
Proof. exact list_to_dict_refines. Qed.
Print Assumptions C15_of_list_refines.

(* dict get answers as the ordered-map model does *)
Theorem C15_get_is_lookup : forall d k, dict_get d k = lookup d (as_str k).
Proof. exact dict_get_lookup. Qed.
Print Assumptions C15_get_is_lookup.

(* nested paths: a missing path prefix and a malformed inner dictionary are errors (the
   operations are pure functions of immutable values, so an error changes nothing and no copy
   of a dictionary is ever affected by operating on another) *)
Theorem C15_missing_prefix_is_error : forall dv d k k2 rest,
  v_as_dict dv = inr d -> dict_get d k = None ->
  dict_path_remove dv (k :: k2 :: rest) = err (key_not_known k).
Proof. exact dict_path_remove_missing_prefix. Qed.
Print Assumptions C15_missing_prefix_is_error.

Theorem C15_malformed_is_error : forall dv k rest v m,
  v_as_dict dv = inl m -> dict_path_insert dv (k :: rest) v = err m.
Proof. exact dict_path_insert_malformed. Qed.
Print Assumptions C15_malformed_is_error.

Theorem C15_path_insert_two : forall dv d k1 k2 sub d2 v,
  v_as_dict dv = inr d -> dict_get d k1 = Some sub -> v_as_dict sub = inr d2 ->
  dict_path_insert dv [k1; k2] v = Ok (VDict (dict_insert d k1 (VDict (dict_insert d2 k2 v)))).
Proof. intros. eapply dict_path_insert_two_present; eassumption. Qed.
Print Assumptions C15_path_insert_two.

(* the string form of a dictionary is an even-length list that parses back to the same
   dictionary (keys pairwise distinct as strings) *)
Theorem C15_string_roundtrip : forall d : list (value * value),
  NoDup (map (fun kv => as_str (fst kv)) d) ->
  v_as_dict (VStr (as_str (VDict d))) =
  inr (map (fun kv => (VStr (as_str (fst kv)), VStr (as_str (snd kv)))) d).
Proof. exact dict_value_roundtrip. Qed.
Print Assumptions C15_string_roundtrip.

Theorem C15_string_even : forall d,
  exists l, get_list (as_str (VDict d)) = Some (inr l) /\ Nat.even (length l) = true.
Proof. exact dict_string_even. Qed.
Print Assumptions C15_string_even.
