(* Props/C02.v — property C02: scripts are split into commands and words, and substituted, as the
   documented grammar says.  Statements only; proofs in Proofs/GrammarFacts.v.

   Spec/SpecGrammar.v describes a script by a concrete syntax tree (commands, words, separators,
   comments, `$name` `${name}` `$name(index)` `[script]` backslash escapes, `{*}`), with
   `render` (its text), `wf` (what the generator promises) and `expected` (the commands it invokes,
   computed on the tree).  `ast_of` is the structural translation of a tree to the model's AST.

   PROVED: the reader inverts `render` on EVERY well-formed tree (all word forms, nesting to any
   depth, any size); a rejected script returns the error and leaves the state exactly as it was,
   whatever the commands would have done; substitution results are inserted verbatim, left to
   right, and braces do not substitute.
   EDGE (C02_star_edge): `{*}` directly followed by `;` or by a closing `]` is read as the
   expansion of an empty word (the standard Tcl rule: "{*} followed by a non-white-space
   character"), not as the braced word `*`; `star_safe` excludes exactly that position and
   `C02_reader_inverts_render_model` says what is read there.
   PARTIAL (C02_evaluation_agrees_partial): that evaluating the tree's AST invokes exactly the
   commands `expected` lists is proved for trees without `{*}`, over the commands rec and set,
   assuming the checker's Tcl procedure `c` behaves as a recorder (hypothesis c_behaves); with `{*}`
   and for `c` itself it is what the correspondence run tests on every generated tree. *)
From Molt Require Import Model.Base Model.Tokenizer Model.Script Model.Parser Model.Value Model.State
  Model.Eval Model.Commands Model.Unicode Model.Interp.
From Molt Require Import Spec.SpecGrammar Proofs.GrammarFacts.
Local Open Scope N_scope.

(* the reader inverts render: every well-formed tree, any nesting, any size *)
Theorem C02_reader_inverts_render : forall sc, wf sc = true -> star_safe sc = true ->
  parse (u_alnum std_uni) (render sc) = POk (ast_of sc) [].
Proof. exact parse_render_std. Qed.
Print Assumptions C02_reader_inverts_render.

Theorem C02_reader_inverts_render_model : forall isa sc, name_ok isa -> wf sc = true ->
  parse isa (render sc) = POk (ast_of_model sc) [].
Proof. exact parse_render_model. Qed.
Print Assumptions C02_reader_inverts_render_model.

Theorem C02_star_edge :
  wf star_tree = true
  /\ render star_tree = lit "rec {*};"
  /\ parse (u_alnum std_uni) (render star_tree)
     = POk [[WValue (lit "rec"); WExpand (WValue [])]] []
  /\ ast_of star_tree = [[WValue (lit "rec"); WValue (lit "*")]]
  /\ ast_of_model star_tree = [[WValue (lit "rec"); WExpand (WValue [])]]
  /\ star_safe star_tree = false
  /\ expected [] star_tree = Some ([[lit "rec"; lit "*"]], [], lit "*")
  /\ wf star_tree_nested = true
  /\ render star_tree_nested = lit "rec [rec {*}]"
  /\ parse (u_alnum std_uni) (render star_tree_nested)
     = POk [[WValue (lit "rec"); WScript [[WValue (lit "rec"); WExpand (WValue [])]]]] [].
Proof. exact parse_render_star_counterexample. Qed.
Print Assumptions C02_star_edge.

(* a script the grammar rejects yields an error and nothing else *)
Theorem C02_reject_nothing_else : forall U fuel st s m st' r,
  parse (u_alnum U) s = PErr m -> eval U fuel st s = (st', r) ->
  st' = st
  /\ i_trace st' = i_trace st /\ i_cmds st' = i_cmds st /\ i_levels st' = i_levels st
  /\ (forall name, sc_lookup (i_scopes st') name = sc_lookup (i_scopes st) name)
  /\ exists msg, r = Err (molt_err msg).
Proof. exact reject_top_observables. Qed.
Print Assumptions C02_reject_nothing_else.

Theorem C02_reject_reports_the_syntax_error : forall U fuel st s m,
  parse (u_alnum U) s = PErr m -> i_levels st < i_limit st ->
  eval U fuel st s = (st, Err (molt_err m))
  /\ x_code (molt_err m) = CError /\ x_value (molt_err m) = VStr m.
Proof. exact reject_top. Qed.
Print Assumptions C02_reject_reports_the_syntax_error.

Theorem C02_reject_runs_no_command : forall U exec1 exec2 st s m,
  parse (u_alnum U) s = PErr m ->
  eval_value_with U exec1 st (VStr s) = eval_value_with U exec2 st (VStr s).
Proof. exact reject_runs_nothing. Qed.
Print Assumptions C02_reject_runs_no_command.

(* one pass, never re-scanned *)
Theorem C02_var_verbatim : forall exec st n,
  Eval.eval_word exec st (WVarRef n) = (st, sc_get (i_scopes st) n).
Proof. exact subst_var_verbatim. Qed.
Print Assumptions C02_var_verbatim.
Theorem C02_cmd_verbatim : forall exec st cmds,
  Eval.eval_word exec st (WScript cmds) = eval_script exec st cmds.
Proof. exact subst_cmd_verbatim. Qed.
Print Assumptions C02_cmd_verbatim.
Theorem C02_braces_no_subst : forall exec st s, Eval.eval_word exec st (WValue s) = (st, Ok (VStr s)).
Proof. exact braces_no_subst. Qed.
Print Assumptions C02_braces_no_subst.
Theorem C02_tokens_left_to_right : forall exec st ws, forallb not_expand ws = true ->
  Eval.eval_word exec st (WTokens ws) =
  match eval_seq exec st ws with
  | (st', Ok l) => (st', Ok (VStr (concat_str (map as_str l))))
  | (st', Err e) => (st', Err e)
  | (st', Panic p) => (st', Panic p)
  | (st', Fuel) => (st', Fuel)
  end.
Proof. exact tokens_concat_in_order. Qed.
Print Assumptions C02_tokens_left_to_right.

(* the commands invoked are those computed on the tree (partial: no {*}; c assumed) *)
Theorem C02_evaluation_agrees_partial : forall U fuel cmdC, c_behaves U fuel cmdC ->
  forall sc env trace env' res st,
  name_ok (u_alnum U) -> wf sc = true -> star_safe sc = true -> no_expand sc = true ->
  expected env sc = Some (trace, env', res) ->
  Rc cmdC {| g_env := env; g_trace := [] |} st -> i_levels st < i_limit st ->
  exists st' v, eval U (S fuel) st (render sc) = (st', Ok v)
    /\ rev (i_trace st') = trace /\ as_str v = res /\ i_levels st' = i_levels st
    /\ (forall n s, env_get n env' = Some s ->
          exists w, sc_get (i_scopes st') n = Ok w /\ as_str w = s).
Proof. exact eval_text_agrees. Qed.
Print Assumptions C02_evaluation_agrees_partial.
