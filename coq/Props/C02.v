(* Props/C02.v — property C02: scripts are split into commands and words, and substituted, as the
   documented grammar says.  Statements only; proofs in Proofs/GrammarFacts.v.

   Spec/SpecGrammar.v describes a script by a concrete syntax tree (commands, words, separators,
   comments, `$name` `${name}` `$name(index)` `[script]` backslash escapes, `{*}`), with
   `render` (its text), `wf` (what the generator promises) and `expected` (the commands it invokes,
   computed on the tree).  `ast_of` is the structural translation of a tree to the model's AST.

   PROVED: the reader inverts `render` on EVERY well-formed tree (all word forms, nesting to any
   depth, any size); a rejected script returns the error and leaves the state exactly as it was,
   whatever the commands would have done; substitution results are inserted verbatim, left to
   right, and braces do not substitute.
   EDGE (C02_star_edge): `{*}` directly followed by `;` or by a closing `]` is read as the
   expansion of an empty word (the standard Tcl rule: "{*} followed by a non-white-space
   character"), not as the braced word `*`; `star_safe` excludes exactly that position and
   `C02_reader_inverts_render_model` says what is read there.
   PARTIAL (C02_evaluation_agrees_partial): that evaluating the tree's AST invokes exactly the
   commands `expected` lists is proved for trees without `{*}`, over the commands rec and set,
   assuming the checker's Tcl procedure `c` behaves as a recorder (hypothesis c_behaves); with `{*}`
   and for `c` itself it is what the correspondence run tests on every generated tree. *)
From Molt Require Import Model.Base Model.Tokenizer Model.Script Model.Parser Model.Value Model.State
  Model.Eval Model.Commands Model.Unicode Model.Interp.
From Molt Require Import Spec.SpecGrammar Proofs.GrammarFacts.
Local Open Scope N_scope.

(* the reader inverts render: every well-formed tree, any nesting, any size *)
Theorem C02_reader_inverts_render : forall sc, wf sc = true -> star_safe sc = true ->
  parse (u_alnum std_uni) (render sc) = POk (ast_of sc) [].
Proof. exact parse_render_std. Qed.
Print Assumptions C02_reader_inverts_render.

Theorem C02_reader_inverts_render_model : forall isa sc, name_ok isa -> wf sc = true ->
  parse isa (render sc) = POk (ast_of_model sc) [].
Proof. exact parse_render_model. Qed.
Print Assumptions C02_reader_inverts_render_model.

Theorem C02_star_edge :
  wf star_tree = true
  /\ render star_tree = lit "rec {*};"
  /\ parse (u_alnum std_uni) (render star_tree)
     = POk [[WValue (lit "rec"); WExpand (WValue [])]] []
  /\ ast_of star_tree = [[WValue (lit "rec"); WValue (lit "*")]]
  /\ ast_of_model star_tree = [[WValue (lit "rec"); WExpand (WValue [])]]
  /\ star_safe star_tree = false
  /\ expected [] star_tree = Some ([[lit "rec"; lit "*"]], [], lit "*")
  /\ wf star_tree_nested = true
  /\ render star_tree_nested = lit "rec [rec {*}]"
  /\ parse (u_alnum std_uni) (render star_tree_nested)
     = POk [[WValue (lit "rec"); WScript [[WValue (lit "rec"); WExpand (WValue [])]]]] [].
Proof. exact parse_render_star_counterexample. Qed.
Print Assumptions C02_star_edge.

(* a script the grammar rejects yields an error and nothing else *)
Theorem C02_reject_nothing_else : forall U fuel st s m st' r,
  parse (u_alnum U) s = PErr m -> eval U fuel st s = (st', r) ->
  st' = st
  /\ i_trace st' = i_trace st /\ i_cmds st' = i_cmds st /\ i_levels st' = i_levels st
  /\ (forall name, sc_lookup (i_scopes st') name = sc_lookup (i_scopes st) name)
  /\ exists msg, r = Err (molt_err msg).
Proof. exact reject_top_observables. Qed.
Print Assumptions C02_reject_nothing_else.

Theorem C02_reject_reports_the_syntax_error : forall U fuel st s m,
  parse (u_alnum U) s = PErr m -> i_levels st < i_limit st ->
  eval U fuel st s = (st, Err (molt_err m))
  /\ x_code (molt_err m) = CError /\ x_value (molt_err m) = VStr m.
Proof. exact reject_top. Qed.
Print Assumptions C02_reject_reports_the_syntax_error.

Theorem C02_reject_runs_no_command : forall U exec1 exec2 st s m,
  parse (u_alnum U) s = PErr m ->
  eval_value_with U exec1 st (VStr s) = eval_value_with U exec2 st (VStr s).
Proof. exact reject_runs_nothing. Qed.
Print Assumptions C02_reject_runs_no_command.

(* one pass, never re-scanned *)
Theorem C02_var_verbatim : forall exec st n,
  Eval.eval_word exec st (WVarRef n) = (st, sc_get (i_scopes st) n).
Proof. exact subst_var_verbatim. Qed.
Print Assumptions C02_var_verbatim.
Theorem C02_cmd_verbatim : forall exec st cmds,
  Eval.eval_word exec st (WScript cmds) = eval_script exec st cmds.
Proof. exact subst_cmd_verbatim. Qed.
Print Assumptions C02_cmd_verbatim.
Theorem C02_braces_no_subst : forall exec st s, Eval.eval_word exec st (WValue s) = (st, Ok (VStr s)).
Proof. exact braces_no_subst. Qed.
Print Assumptions C02_braces_no_subst.
Theorem C02_tokens_left_to_right : forall exec st ws, forallb not_expand ws = true ->
  Eval.eval_word exec st (WTokens ws) =
  match eval_seq exec st ws with
  | (st', Ok l) => (st', Ok (VStr (concat_str (map as_str l))))
  | (st', Err e) => (st', Err e)
  | (st', Panic p) => (st', Panic p)
  | (st', Fuel) => (st', Fuel)
  end.
Proof. exact tokens_concat_in_order. Qed.
Print Assumptions C02_tokens_left_to_right.

(* the commands invoked are those computed on the tree (partial: no {*}; c assumed) *)
Theorem C02_evaluation_agrees_partial : forall U fuel cmdC, c_behaves U fuel cmdC ->
  forall sc env trace env' res st,
  name_ok (u_alnum U) -> wf sc = true -> star_safe sc = true -> no_expand sc = true ->
  expected env sc = Some (trace, env', res) ->
  Rc cmdC {| g_env := env; g_trace := [] |} st -> i_levels st < i_limit st ->
  exists st' v, eval U (S fuel) st (render sc) = (st', Ok v)
    /\ rev (i_trace st') = trace /\ as_str v = res /\ i_levels st' = i_levels st
    /\ (forall n s, env_get n env' = Some s ->
          exists w, sc_get (i_scopes st') n = Ok w /\ as_str w = s).
Proof. exact eval_text_agrees. Qed.
Print Assumptions C02_evaluation_agrees_partial.

(* ---- Proofs/GrammarFacts2.v: the commands invoked are those computed on the tree, in general ----
   For every well-formed tree (with {*}, with the checker's procedure `c`, any nesting and size):
   evaluating its text on an interpreter that agrees with the environment [env] (relation Rc2:
   rec, set and c bound as the checker binds them, scalars and array elements as in env) returns
   the result `expected` computes, records exactly the commands it lists, in order, and leaves
   the variables it lists.  `consistent env'`: no name is both a scalar and an array in the final
   environment (the specification keeps elements as keys "b(1)": C02_spec_array_edge).
   The only headroom needed is one nesting level for the procedure `c`. *)
From Molt Require Import Proofs.GrammarFacts2.

Theorem C02_evaluation_agrees : forall U fuel, name_ok (u_alnum U) ->
  forall sc env trace env' res st,
  wf sc = true -> star_safe sc = true ->
  expected env sc = Some (trace, env', res) ->
  consistent env' ->
  Rc2 {| g_env := env; g_trace := [] |} st -> i_levels st + 1 < i_limit st ->
  exists st', eval U (S (S fuel)) st (render sc) = (st', Ok (VStr res))
    /\ rev (i_trace st') = trace /\ i_levels st' = i_levels st
    /\ (forall n s, has_char c_lparen n = false -> env_get n env' = Some s ->
          sc_get (i_scopes st') n = Ok (VStr s))
    /\ (forall n i s, env_get (akey n i) env' = Some s ->
          sc_get_elem (i_scopes st') n i = Ok (VStr s)).
Proof. exact eval_text_agrees2. Qed.
Print Assumptions C02_evaluation_agrees.

(* the hypotheses are met by the state the checker's prelude builds *)
Theorem C02_prelude_state_related : Rc2 {| g_env := Molt.Check.C02.c02_env0; g_trace := [] |} prelude_state.
Proof. exact prelude_Rc2. Qed.
Print Assumptions C02_prelude_state_related.

(* the checker's procedure c records its arguments and returns the last one, exactly *)
Theorem C02_procedure_c : forall U f st name_v args c1,
  name_ok (u_alnum U) ->
  assoc_get (lit "rec") (i_cmds st) = Some (CmdNative NRecorder c1) ->
  i_levels st < i_limit st ->
  run_exec U (S (S f)) st c_proc (name_v :: args)
  = (set_trace st ((lit "rec" :: lit "c" :: map as_str args) :: i_trace st),
     Ok (last (VStr (lit "rec") :: VStr (lit "c") :: args) v_empty)).
Proof. exact c_proc_behaves. Qed.
Print Assumptions C02_procedure_c.

(* {*}: the specification's splitting of a simple value is the model's list reading *)
Theorem C02_expansion_splits_as_list : forall s l,
  split_simple s [] [] = Some l -> v_as_list (VStr s) = inr (map VStr l).
Proof. exact split_simple_as_list. Qed.
Print Assumptions C02_expansion_splits_as_list.
