(* Props/C12.v — property C12: short-circuit operands are parsed but never executed.
   Statements only. *)
From Molt Require Import Model.Base Model.Value Model.State Model.Eval Model.Expr.
From Molt Require Import Proofs.NoEvalFacts.

(* Evaluating an operand in no-eval mode leaves the interpreter state exactly unchanged and the
   no-eval counter balanced — for EVERY command executor, i.e. no command ever ran. *)
Theorem C12_noeval_state_unchanged : forall ia ib original exec fuel st info pr st' r,
  noeval info = true ->
  expr_get_value ia ib exec original fuel st info pr = (st', r) ->
  st' = st /\ (forall v info', r = Ok (v, info') -> e_noeval info' = e_noeval info).
Proof. exact noeval_state_unchanged. Qed.
Print Assumptions C12_noeval_state_unchanged.

(* Its outcome is a function of the TEXT alone: it does not depend on the executor or on the
   interpreter state, so it cannot raise run-time errors (unknown variables, failing commands,
   type errors); the errors it can raise are syntax errors, and those are still reported. *)
Theorem C12_noeval_independent : forall ia ib original exec1 exec2 fuel st1 st2 info pr,
  noeval info = true ->
  snd (expr_get_value ia ib exec1 original fuel st1 info pr)
  = snd (expr_get_value ia ib exec2 original fuel st2 info pr).
Proof. exact noeval_independent. Qed.
Print Assumptions C12_noeval_independent.

(* a && b with a false: b is read in no-eval mode, the result is 0, and everything after happens
   in the state left by a *)
Theorem C12_and_skips_right : forall ia ib exec original f st info pr v,
  e_token info = T_AND -> (pr < prec T_AND)%Z -> datum_truth v = Some false ->
  expr_loop ia ib exec original (S f) st info pr v =
  match snd (expr_get_value ia ib exec original f st (with_noeval info (e_noeval info + 1)) (prec T_AND)) with
  | Ok (_, i2) => expr_loop ia ib exec original f st (with_noeval i2 (e_noeval info)) pr (DInt 0)
  | Err e => (st, Err e) | Panic p => (st, Panic p) | Fuel => (st, Fuel)
  end.
Proof. exact and_skips_right. Qed.
Print Assumptions C12_and_skips_right.

(* a || b with a true: dually, result 1 *)
Theorem C12_or_skips_right : forall ia ib exec original f st info pr v,
  e_token info = T_OR -> (pr < prec T_OR)%Z -> datum_truth v = Some true ->
  expr_loop ia ib exec original (S f) st info pr v =
  match snd (expr_get_value ia ib exec original f st (with_noeval info (e_noeval info + 1)) (prec T_OR)) with
  | Ok (_, i2) => expr_loop ia ib exec original f st (with_noeval i2 (e_noeval info)) pr (DInt 1)
  | Err e => (st, Err e) | Panic p => (st, Panic p) | Fuel => (st, Fuel)
  end.
Proof. exact or_skips_right. Qed.
Print Assumptions C12_or_skips_right.
