(* Props/C12.v — property C12: short-circuit operands are parsed but never executed.
   Statements only. *)
From Molt Require Import Model.Base Model.Value Model.State Model.Eval Model.Expr.
From Molt Require Import Proofs.NoEvalFacts.

(* Evaluating an operand in no-eval mode leaves the interpreter state exactly unchanged and the
   no-eval counter balanced — for EVERY command executor, i.e. no command ever ran. *)
Theorem C12_noeval_state_unchanged : forall ia ib original exec fuel st info pr st' r,
  noeval info = true ->
  expr_get_value ia ib exec original fuel st info pr = (st', r) ->
  st' = st /\ (forall v info', r = Ok (v, info') -> e_noeval info' = e_noeval info).
Proof. exact noeval_state_unchanged. Qed.
Print Assumptions C12_noeval_state_unchanged.

(* Its outcome is a function of the TEXT alone: it does not depend on the executor or on the
   interpreter state, so it cannot raise run-time errors (unknown variables, failing commands,
   type errors); the errors it can raise are syntax errors, and those are still reported. *)
Theorem C12_noeval_independent : forall ia ib original exec1 exec2 fuel st1 st2 info pr,
  noeval info = true ->
  snd (expr_get_value ia ib exec1 original fuel st1 info pr)
  = snd (expr_get_value ia ib exec2 original fuel st2 info pr).
Proof. exact noeval_independent. Qed.
Print Assumptions C12_noeval_independent.

(* a && b with a false: b is read in no-eval mode, the result is 0, and everything after happens
   in the state left by a *)
Theorem C12_and_skips_right : forall ia ib exec original f st info pr v,
  e_token info = T_AND -> (pr < prec T_AND)%Z -> datum_truth v = Some false ->
  expr_loop ia ib exec original (S f) st info pr v =
  match snd (expr_get_value ia ib exec original f st (with_noeval info (e_noeval info + 1)) (prec T_AND)) with
  | Ok (_, i2) => expr_loop ia ib exec original f st (with_noeval i2 (e_noeval info)) pr (DInt 0)
  | Err e => (st, Err e) | Panic p => (st, Panic p) | Fuel => (st, Fuel)
  end.
Proof. exact and_skips_right. Qed.
Print Assumptions C12_and_skips_right.

(* a || b with a true: dually, result 1 *)
Theorem C12_or_skips_right : forall ia ib exec original f st info pr v,
  e_token info = T_OR -> (pr < prec T_OR)%Z -> datum_truth v = Some true ->
  expr_loop ia ib exec original (S f) st info pr v =
  match snd (expr_get_value ia ib exec original f st (with_noeval info (e_noeval info + 1)) (prec T_OR)) with
  | Ok (_, i2) => expr_loop ia ib exec original f st (with_noeval i2 (e_noeval info)) pr (DInt 1)
  | Err e => (st, Err e) | Panic p => (st, Panic p) | Fuel => (st, Fuel)
  end.
Proof. exact or_skips_right. Qed.
Print Assumptions C12_or_skips_right.

(* ---- Proofs/NoEvalFacts2.v: ?:, the kinds of error a skipped operand can raise, nesting ---- *)
From Molt Require Import Proofs.NoEvalFacts2.

(* c ? x : y with c true: y is read in no-eval mode and contributes nothing; the value is x's *)
Theorem C12_cond_true_skips_else : forall ia ib exec original f st info pr v,
  e_token info = T_QUESTY -> (pr < prec T_QUESTY)%Z -> datum_truth v = Some true ->
  expr_loop ia ib exec original (S f) st info pr v =
  match expr_get_value ia ib exec original f st info pq with
  | (st2, Ok (va, i2)) =>
      if negb (Z.eqb (e_token i2) T_COLON) then (st2, syntax_error original)
      else
        match snd (expr_get_value ia ib exec original f st2 (with_noeval i2 (e_noeval info + 1)) pq) with
        | Ok (_, i3) =>
            let i3' := with_noeval i3 (e_noeval info) in
            if bad_after_token i3' then (st2, syntax_error original)
            else expr_loop ia ib exec original f st2 i3' pr va
        | Err e => (st2, Err e)
        | Panic p => (st2, Panic p)
        | Fuel => (st2, Fuel)
        end
  | (st2, Err e) => (st2, Err e)
  | (st2, Panic p) => (st2, Panic p)
  | (st2, Fuel) => (st2, Fuel)
  end.
Proof. exact questy_true_skips_else2. Qed.
Print Assumptions C12_cond_true_skips_else.

(* c ? x : y with c false: dually *)
Theorem C12_cond_false_skips_then : forall ia ib exec original f st info pr v,
  e_token info = T_QUESTY -> (pr < prec T_QUESTY)%Z -> datum_truth v = Some false ->
  expr_loop ia ib exec original (S f) st info pr v =
  match snd (expr_get_value ia ib exec original f st (with_noeval info (e_noeval info + 1)) pq) with
  | Ok (_, i2) =>
      let i2' := with_noeval i2 (e_noeval info) in
      if negb (Z.eqb (e_token i2') T_COLON) then (st, syntax_error original)
      else
        match expr_get_value ia ib exec original f st i2' pq with
        | (st3, Ok (va, i3)) =>
            if bad_after_token i3 then (st3, syntax_error original) else expr_loop ia ib exec original f st3 i3 pr va
        | (st3, Err e) => (st3, Err e) | (st3, Panic p) => (st3, Panic p) | (st3, Fuel) => (st3, Fuel)
        end
  | Err e => (st, Err e) | Panic p => (st, Panic p) | Fuel => (st, Fuel)
  end.
Proof. exact questy_false_skips_then2. Qed.
Print Assumptions C12_cond_false_skips_then.

(* a skipped operand cannot raise a run-time error: whatever error comes out of no-eval mode is a
   plain error whose message is none of the run-time ones (unset variable, unknown command,
   division by zero, operand type, overflow, shift count, math-function argument, ...) *)
Theorem C12_skipped_errors_are_not_runtime : forall ia ib exec original fuel st info pr st' e,
  noeval info = true ->
  expr_get_value ia ib exec original fuel st info pr = (st', Err e) ->
  x_code e = CError /\
  forall p, In p runtime_prefixes -> starts_with p (as_str (x_value e)) = false.
Proof. exact noeval_errors_not_runtime. Qed.
Print Assumptions C12_skipped_errors_are_not_runtime.

(* ... it is one of the syntax messages (reader errors, "syntax error in expression", unknown
   math function, an integer literal outside i64 - C12_skipped_literal_out_of_range) *)
Theorem C12_skipped_errors_are_syntax : forall ia ib exec original fuel st info pr st' e,
  noeval info = true ->
  expr_get_value ia ib exec original fuel st info pr = (st', Err e) ->
  exists m, e = molt_err m /\ syntax_msg original m.
Proof. exact noeval_errors_are_syntax. Qed.
Print Assumptions C12_skipped_errors_are_syntax.

(* command substitutions in a skipped operand have no effect: the executor is never consulted *)
Theorem C12_skipped_never_calls_commands : forall ia ib original exec1 exec2 fuel st info pr,
  noeval info = true ->
  expr_get_value ia ib exec1 original fuel st info pr = expr_get_value ia ib exec2 original fuel st info pr.
Proof. exact noeval_exec_irrelevant. Qed.
Print Assumptions C12_skipped_never_calls_commands.

(* skipping inside a skipped operand cannot re-enable evaluation: the counter is balanced in
   every mode *)
Theorem C12_counter_balanced : forall ia ib exec original fuel st info pr st' v info',
  expr_get_value ia ib exec original fuel st info pr = (st', Ok (v, info')) -> e_noeval info' = e_noeval info.
Proof. exact counter_restored. Qed.
Print Assumptions C12_counter_balanced.

Theorem C12_skipped_never_panics : forall ia ib exec original fuel st info pr st' q,
  noeval info = true -> expr_get_value ia ib exec original fuel st info pr <> (st', Panic q).
Proof. exact noeval_no_panic. Qed.
Print Assumptions C12_skipped_never_panics.

(* ---- the full grammar with variable, string and command operands (Proofs/ExprFacts3.v) ----
   The state an expression returns is the initial state threaded through exactly the operand
   leaves that C's rules evaluate (`run3`: nothing of an operand that `&&`, `||` or `?:` skips),
   left to right; those leaves are a sub-sequence of the tree's leaves; and a leaf that is not a
   command substitution leaves the state alone.  With C03_operand_completeness this is the
   evaluator's behaviour on the rendered text of every such tree. *)
From Molt Require Proofs.ExprFacts3.

Theorem C12_state_threads_through_evaluated_operands_only : forall exec t st,
  fst (ExprFacts3.ev3 exec t st) = fold_left (ExprFacts3.leaf_step exec) (ExprFacts3.run3 exec t st) st.
Proof. exact ExprFacts3.ev3_trace. Qed.
Print Assumptions C12_state_threads_through_evaluated_operands_only.

Theorem C12_evaluated_operands_in_order : forall exec t st,
  ExprFacts3.subseq (ExprFacts3.run3 exec t st) (ExprFacts3.leaves3 t).
Proof. exact ExprFacts3.run3_subseq. Qed.
Print Assumptions C12_evaluated_operands_in_order.

Theorem C12_only_commands_touch_the_state : forall exec k st,
  ExprFacts3.is_cmd k = false -> fst (ExprFacts3.lsem exec k st) = st.
Proof. exact ExprFacts3.lsem_frame. Qed.
Print Assumptions C12_only_commands_touch_the_state.
