(* Props/C14.v — property C14: errors are reported faithfully and consistently on every channel.
   Statements only. *)
From Molt Require Import Model.Base Model.ListSyn Model.Value Model.State Model.Script Model.Parser
  Model.Eval Model.Commands Model.Interp.
From Molt Require Import Spec.SpecExc Proofs.ErrFacts Proofs.ExcFacts.
Local Open Scope N_scope.

(* a new error's trace begins with its message; its code is NONE unless thrown with one *)
Theorem C14_new_error : forall msg,
  trace_head (molt_err_v msg) = Some (as_str msg) /\ is_new_error (molt_err_v msg) = true.
Proof. exact new_error_trace. Qed.
Print Assumptions C14_new_error.
Theorem C14_code_default : forall msg, exists d, x_data (molt_err_v msg) = Some d /\ ed_code d = v_NONE.
Proof. exact default_code_none. Qed.
Print Assumptions C14_code_default.
Theorem C14_thrown_code : forall code msg,
  trace_head (molt_err2 code msg) = Some (as_str msg)
  /\ (exists d, x_data (molt_err2 code msg) = Some d /\ ed_code d = code).
Proof. exact throw_trace. Qed.
Print Assumptions C14_thrown_code.

(* every frame the error passes through keeps the message, the code and the beginning of the
   trace, and only appends to the trace *)
Theorem C14_frames_keep : forall st cmd name argv e,
  x_code e = CError ->
  exists e', command_outcome st cmd name argv e = (st, Err e')
    /\ x_value e' = x_value e /\ x_code e' = CError
    /\ (forall h, trace_head e = Some h -> trace_head e' = Some h)
    /\ (forall d, x_data e = Some d -> exists d', x_data e' = Some d' /\ ed_code d' = ed_code d
                                                  /\ exists more, ed_trace d' = ed_trace d ++ more).
Proof. exact command_outcome_keeps. Qed.
Print Assumptions C14_frames_keep.

(* ... and a procedure it passes through is named in the trace (innermost first, since entries
   are appended on the way out) *)
Theorem C14_procedure_named : forall st parms body name argv e d,
  x_code e = CError -> x_data e = Some d -> ed_new d = false ->
  exists e' d', command_outcome st (CmdProc parms body) name argv e = (st, Err e')
    /\ x_data e' = Some d'
    /\ ed_trace d' = ed_trace d ++ [lit "    invoked from within";
                                    lit "    (procedure """ ++ name ++ lit """ line TODO)";
                                    lit """" ++ list_to_string (map as_str argv) ++ lit """"].
Proof. exact command_outcome_names_proc. Qed.
Print Assumptions C14_procedure_named.

(* host and globals agree: an evaluation that returns an error has stored exactly that error's
   code and trace in errorCode / errorInfo — unless storing failed (errorInfo or errorCode was
   made an array: the returned error is then that failure) or the evaluation never started *)
Theorem C14_globals_hold_the_error : forall st e d st',
  i_scopes st <> [] -> x_data e = Some d -> set_global_error_data st e = (st', Ok tt) ->
  global_scalar st' "errorInfo" = Some (VStr (ed_info d)) /\ global_scalar st' "errorCode" = Some (ed_code d).
Proof. exact set_global_error_data_spec. Qed.
Print Assumptions C14_globals_hold_the_error.

Theorem C14_eval_records_error : forall U exec st v st' e d,
  eval_value_with U exec st v = (st', Err e) -> x_code e = CError -> x_data e = Some d ->
  (exists stm, set_global_error_data stm e = (st', Ok tt))
  \/ (exists stm e0, set_global_error_data stm e0 = (st', Err e))
  \/ st' = st.
Proof. exact eval_value_records_error. Qed.
Print Assumptions C14_eval_records_error.

(* the script sees the same: catch returns the code, stores the message, and the options carry
   -errorcode and -errorinfo of that very error *)
Theorem C14_catch_options_carry_error : forall e,
  x_code e <> COkay -> (x_code e = CError -> x_data e <> None) ->
  exists d, return_options (Err e) = Ok (VDict d)
    /\ dict_get d k_code = Some (code_entry e)
    /\ dict_get d k_level = Some (level_entry e)
    /\ v_as_int (code_entry e) = inr (rcode_as_int (effective_code e))
    /\ v_as_int (level_entry e) = inr (to_i64 (Z.of_N (x_level e))).
Proof. exact return_options_entries. Qed.
Print Assumptions C14_catch_options_carry_error.

(* re-raising with -errorcode / -errorinfo keeps message, code and the trace it already had *)
Theorem C14_rethrow_preserves : forall msg level code info,
  let e := molt_return_err msg level (Some code) (Some info) in
  x_value e = msg /\ (exists d, x_data e = Some d /\ ed_code d = code /\ ed_trace d = [as_str info] /\ ed_new d = false).
Proof. exact rethrow_keeps. Qed.
Print Assumptions C14_rethrow_preserves.

(* an evaluation whose outcome is not an error does not write the record (at its own level: a
   nested evaluation writes it only if it returns an error itself) *)
Theorem C14_quiet_when_no_error : forall U exec st v sc rest st2 r,
  negb (i_limit (set_levels st (i_levels st + 1)) <? i_levels (set_levels st (i_levels st + 1))) = true ->
  parse (u_alnum U) (as_str v) = POk sc rest ->
  eval_script exec (set_levels st (i_levels st + 1)) sc = (st2, r) ->
  let st3 := set_levels st2 (i_levels st2 - 1) in
  let r' := if i_levels st3 =? 0 then toplevel_boundary r else r in
  (forall e, r' = Err e -> x_code e <> CError) ->
  eval_value_with U exec st v = (st3, r').
Proof. exact eval_value_quiet. Qed.
Print Assumptions C14_quiet_when_no_error.
