(* Props/C01.v — property C01: no input panics, aborts or hangs the interpreter.
   Statements only; proofs in Proofs/NoPanicFacts.v (no panic) and Proofs/TotalFacts.v (the
   parsers and conversions need no more than their stated fuel).

   The model marks every place where the Rust code can panic (unwrap, expect, unreachable!,
   assert!, slice and arithmetic overflow checks, RefCell borrows that the model's value
   semantics turns into explicit sites) by the outcome [Panic site].  [wf_state] is the
   invariant of the interpreter state: scopes non-empty with valid upvar links, every stored
   procedure's parameter specifiers have one or two fields, and only modelled commands are
   registered (time, source, exit and the parse/pdump/pclear debugging commands are excluded by
   the property text or outside the model).

   PROVED: from a well-formed state - in particular from Interp::new() and from the checker's
   interpreter, after ANY history of scripts - evaluating any script or expression with any
   amount of fuel never yields Panic, and leaves a well-formed state.
   NOT A THEOREM (runtime behaviour the model cannot exhibit): native stack exhaustion on
   deeply nested input (known finding D30), and the real time taken by long loops. *)
From Molt Require Import Model.Base Model.ListSyn Model.Float Model.Value Model.State Model.Script
  Model.Parser Model.Eval Model.Expr Model.Commands Model.Unicode Model.Interp Check.ScriptObs.
From Molt Require Import Proofs.NoPanicFacts.

Theorem C01_eval_never_panics : forall U fuel st v st' r,
  wf_state st -> eval_value U fuel st v = (st', r) -> no_panic r /\ (r <> Fuel -> wf_state st').
Proof. exact eval_no_panic. Qed.
Print Assumptions C01_eval_never_panics.

Theorem C01_expr_never_panics : forall U fuel st e st' r,
  wf_state st -> expr U fuel st e = (st', r) -> no_panic r /\ (r <> Fuel -> wf_state st').
Proof. exact expr_no_panic. Qed.
Print Assumptions C01_expr_never_panics.

(* whatever was evaluated on that interpreter before *)
Theorem C01_history_never_panics : forall U fuel scripts st,
  wf_state st -> Forall no_panic (history U fuel st scripts).
Proof. exact history_no_panic. Qed.
Print Assumptions C01_history_never_panics.

(* the hypotheses are met by the interpreters that exist *)
Theorem C01_new_interp_wf : wf_state (drop_unmodelled interp_new).
Proof. exact wf_interp_new. Qed.
Print Assumptions C01_new_interp_wf.
Theorem C01_harness_interp_wf : forall limit, wf_state (drop_unmodelled (harness_interp limit)).
Proof. exact wf_harness_interp. Qed.
Print Assumptions C01_harness_interp_wf.
Theorem C01_from_new_interp : forall U fuel scripts,
  Forall no_panic (history U fuel (drop_unmodelled interp_new) scripts).
Proof. exact initial_history_no_panic. Qed.
Print Assumptions C01_from_new_interp.

(* errors that come out are well-formed exceptions (an error always carries its error data) *)
Theorem C01_errors_well_formed : forall U fuel st v st' e,
  wf_state st -> eval_value U fuel st v = (st', Err e) -> exn_ok e.
Proof. exact eval_exn_ok. Qed.
Print Assumptions C01_errors_well_formed.

(* the excluded commands really are outside: the hypothesis is needed *)
Theorem C01_unmodelled_excluded :
  snd (eval std_uni 10 (harness_interp 0) (lit "pclear")) = Panic (lit "command not modelled").
Proof. exact unmodelled_command_panics. Qed.
Print Assumptions C01_unmodelled_excluded.

(* ---- nothing loops or runs out of fuel: the readers and conversions are total ---- *)
From Molt Require Import Model.Tokenizer Proofs.TotalFacts.

(* the script reader never exhausts the fuel [parse] gives it, for any input *)
Theorem C01_parse_total : forall is_alnum s, parse is_alnum s <> PFuel.
Proof. exact parse_is_total. Qed.
Print Assumptions C01_parse_total.

(* the list reader always answers, so list and dictionary conversions return a value or an error *)
Theorem C01_list_reader_total : forall s, get_list s <> None.
Proof. exact get_list_total. Qed.
Print Assumptions C01_list_reader_total.
Theorem C01_as_list_total : forall v,
  (exists l, v_as_list v = inr l) \/ (exists e, v_as_list v = inl (list_err_msg e)).
Proof. exact v_as_list_total. Qed.
Print Assumptions C01_as_list_total.
Theorem C01_as_dict_total : forall v,
  (exists d, v_as_dict v = inr d)
  \/ (exists e, v_as_dict v = inl (list_err_msg e))
  \/ v_as_dict v = inl (lit "missing value to go with key").
Proof. exact v_as_dict_total. Qed.
Print Assumptions C01_as_dict_total.
Theorem C01_as_int_total : forall v,
  (exists z, v_as_int v = inr z) \/ v_as_int v = inl (err_expected_int (as_str v)).
Proof. exact v_as_int_total. Qed.
Print Assumptions C01_as_int_total.
Theorem C01_as_bool_total : forall v,
  (exists b, v_as_bool v = inr b) \/ v_as_bool v = inl (err_expected_bool (as_str v)).
Proof. exact v_as_bool_total. Qed.
Print Assumptions C01_as_bool_total.
Theorem C01_as_float_total : forall v,
  (exists f, v_as_float v = inr f) \/ v_as_float v = inl (err_expected_float (as_str v)).
Proof. exact v_as_float_total. Qed.
Print Assumptions C01_as_float_total.
Theorem C01_varname_total : forall s,
  exists name idx, parse_varname_literal s = (name, idx) /\ (idx = None -> name = s).
Proof. exact parse_varname_literal_total. Qed.
Print Assumptions C01_varname_total.

(* expression evaluation spends fuel only on what the commands it invokes spend *)
Theorem C01_expr_total : forall (is_alphanumeric is_alphabetic : char -> bool) (exec : executor),
  (forall st cmd argv st', exec st cmd argv <> (st', Fuel)) ->
  forall st e st', expr_eval is_alphanumeric is_alphabetic exec st e <> (st', Fuel).
Proof. exact expr_eval_total. Qed.
Print Assumptions C01_expr_total.

(* a backslash substitution always yields a Unicode scalar value (no invalid char is built) *)
Theorem C01_bsubst_scalar : forall r,
  forallb is_scalar r = true -> is_scalar (fst (bsubst r)) = true.
Proof. exact bsubst_scalar. Qed.
Print Assumptions C01_bsubst_scalar.

(* ---- fuel is only a termination device: it is never observable (Proofs/FuelFacts.v) ---- *)
From Molt Require Import Proofs.FuelFacts.

(* a run that finished gives the same state and result with any larger fuel *)
Theorem C01_fuel_monotone : forall U f f' st s st' r,
  (f <= f')%nat -> eval U f st s = (st', r) -> r <> Fuel -> eval U f' st s = (st', r).
Proof. exact eval_fuel_mono. Qed.
Print Assumptions C01_fuel_monotone.
Theorem C01_expr_fuel_monotone : forall U f f' st e st' r,
  (f <= f')%nat -> expr U f st e = (st', r) -> r <> Fuel -> expr U f' st e = (st', r).
Proof. exact expr_fuel_mono. Qed.
Print Assumptions C01_expr_fuel_monotone.
(* two finished runs agree whatever their fuels *)
Theorem C01_fuel_unobservable : forall U f1 f2 st s st1 r1 st2 r2,
  eval U f1 st s = (st1, r1) -> r1 <> Fuel ->
  eval U f2 st s = (st2, r2) -> r2 <> Fuel ->
  (st1, r1) = (st2, r2).
Proof. exact eval_fuel_unobservable. Qed.
Print Assumptions C01_fuel_unobservable.
(* the readers: any fuel above the stated bound gives the reader's answer *)
Theorem C01_parse_fuel_irrelevant : forall isa s f,
  (parse_fuel s <= f)%nat -> parse_script isa f false s [] = parse isa s.
Proof. exact parse_fuel_irrelevant. Qed.
Print Assumptions C01_parse_fuel_irrelevant.
Theorem C01_list_fuel_irrelevant : forall s f,
  (S (length s) <= f)%nat -> parse_list f s [] = get_list s.
Proof. exact get_list_fuel_irrelevant. Qed.
Print Assumptions C01_list_fuel_irrelevant.
