(* Props/C01.v — property C01: no input panics, aborts or hangs the interpreter.
   Statements only; proofs in Proofs/NoPanicFacts.v (no panic) and Proofs/TotalFacts.v (the
   parsers and conversions need no more than their stated fuel).

   The model marks every place where the Rust code can panic (unwrap, expect, unreachable!,
   assert!, slice and arithmetic overflow checks, RefCell borrows that the model's value
   semantics turns into explicit sites) by the outcome [Panic site].  [wf_state] is the
   invariant of the interpreter state: scopes non-empty with valid upvar links, every stored
   procedure's parameter specifiers have one or two fields, and only modelled commands are
   registered (time, source, exit and the parse/pdump/pclear debugging commands are excluded by
   the property text or outside the model).

   PROVED: from a well-formed state - in particular from Interp::new() and from the checker's
   interpreter, after ANY history of scripts - evaluating any script or expression with any
   amount of fuel never yields Panic, and leaves a well-formed state.
   NOT A THEOREM (runtime behaviour the model cannot exhibit): native stack exhaustion on
   deeply nested input (known finding D30), and the real time taken by long loops. *)
From Molt Require Import Model.Base Model.ListSyn Model.Float Model.Value Model.State Model.Script
  Model.Parser Model.Eval Model.Expr Model.Commands Model.Unicode Model.Interp Check.ScriptObs.
From Molt Require Import Proofs.NoPanicFacts.

Theorem C01_eval_never_panics : forall U fuel st v st' r,
  wf_state st -> eval_value U fuel st v = (st', r) -> no_panic r /\ (r <> Fuel -> wf_state st').
Proof. exact eval_no_panic. Qed.
Print Assumptions C01_eval_never_panics.

Theorem C01_expr_never_panics : forall U fuel st e st' r,
  wf_state st -> expr U fuel st e = (st', r) -> no_panic r /\ (r <> Fuel -> wf_state st').
Proof. exact expr_no_panic. Qed.
Print Assumptions C01_expr_never_panics.

(* whatever was evaluated on that interpreter before *)
Theorem C01_history_never_panics : forall U fuel scripts st,
  wf_state st -> Forall no_panic (history U fuel st scripts).
Proof. exact history_no_panic. Qed.
Print Assumptions C01_history_never_panics.

(* the hypotheses are met by the interpreters that exist *)
Theorem C01_new_interp_wf : wf_state (drop_unmodelled interp_new).
Proof. exact wf_interp_new. Qed.
Print Assumptions C01_new_interp_wf.
Theorem C01_harness_interp_wf : forall limit, wf_state (drop_unmodelled (harness_interp limit)).
Proof. exact wf_harness_interp. Qed.
Print Assumptions C01_harness_interp_wf.
Theorem C01_from_new_interp : forall U fuel scripts,
  Forall no_panic (history U fuel (drop_unmodelled interp_new) scripts).
Proof. exact initial_history_no_panic. Qed.
Print Assumptions C01_from_new_interp.

(* errors that come out are well-formed exceptions (an error always carries its error data) *)
Theorem C01_errors_well_formed : forall U fuel st v st' e,
  wf_state st -> eval_value U fuel st v = (st', Err e) -> exn_ok e.
Proof. exact eval_exn_ok. Qed.
Print Assumptions C01_errors_well_formed.

(* the excluded commands really are outside: the hypothesis is needed *)
Theorem C01_unmodelled_excluded :
  snd (eval std_uni 10 (harness_interp 0) (lit "pclear")) = Panic (lit "command not modelled").
Proof. exact unmodelled_command_panics. Qed.
Print Assumptions C01_unmodelled_excluded.
