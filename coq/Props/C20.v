(* Props/C20.v — property C20: the test harness's verdicts are truthful.  Statements only. *)
From Molt Require Import Model.Base Model.Value Model.State Model.Eval Model.Commands Model.Harness.
From Molt Require Import Proofs.HarnessFacts.
Local Open Scope N_scope.

(* For every test whose setup, body and cleanup return (a value or any exceptional code): they
   run in that order inside a pushed scope that is popped afterwards; the test counter moves by
   one and exactly one of passed / failed / errors moves by one; it is `passed` exactly when the
   body's outcome kind (ok or error) and value equal the stated expectation, and `failed` exactly
   when the kind is the expected one but the value differs; anything else — break, continue,
   return or a custom code escaping the body, or the other kind — is an error. *)
Theorem C20_verdict : forall rec st info st2 r2 st3 rb st4 r4,
  r_eval rec (push_scope st) (VStr (ti_setup info)) = (st2, r2) -> is_value_or_exception r2 ->
  r_eval rec st2 (VStr (ti_body info)) = (st3, rb) -> is_value_or_exception rb ->
  r_eval rec st3 (VStr (ti_cleanup info)) = (st4, r4) -> is_value_or_exception r4 ->
  exists dp df de,
    run_test rec st info =
      (let '(t, p, f, e) := i_test (pop_scope st4) in
       set_test (pop_scope st4) (t + 1, p + dp, f + df, e + de), Ok tt)
    /\ dp + df + de = 1
    /\ (dp = 1 <-> outcome_matches (ti_code info) (ti_expect info) rb)
    /\ (df = 1 <-> outcome_differs (ti_code info) (ti_expect info) rb).
Proof. exact run_test_spec. Qed.
Print Assumptions C20_verdict.

(* variables created by one test are not visible to the next: its scope is gone *)
Theorem C20_isolation : forall rec st info st2 r2 st3 rb st4 r4,
  r_eval rec (push_scope st) (VStr (ti_setup info)) = (st2, r2) -> is_value_or_exception r2 ->
  r_eval rec st2 (VStr (ti_body info)) = (st3, rb) -> is_value_or_exception rb ->
  r_eval rec st3 (VStr (ti_cleanup info)) = (st4, r4) -> is_value_or_exception r4 ->
  i_scopes (fst (run_test rec st info)) = sc_pop (i_scopes st4).
Proof. exact run_test_pops_scope. Qed.
Print Assumptions C20_isolation.

(* the harness reports overall success exactly when nothing failed or errored *)
Theorem C20_overall : forall st v,
  harness_verdict st (Ok v) = true <-> (let '(_, _, f, e) := i_test st in f + e = 0).
Proof. exact harness_verdict_spec. Qed.
Print Assumptions C20_overall.

Theorem C20_script_error_is_failure : forall st e, harness_verdict st (Err e) = false.
Proof. exact harness_verdict_script_error. Qed.
Print Assumptions C20_script_error_is_failure.
