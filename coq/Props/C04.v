(* Props/C04.v — property C04: a value's string is immutable and its typed views are faithful
   to it.  Statements only.  In the model a value is the immutable tree it was built from; its
   string is a function [as_str] of that tree (so it cannot change), and the typed views are the
   functions below. *)
From Molt Require Import Model.Base Model.ListSyn Model.Value.
From Molt Require Import Proofs.ValueFacts.

(* every i64 — including i64::MIN — converts to a string that converts back *)
Theorem C04_int_roundtrip : forall z : Z, in_i64 z = true -> get_int (show_Z z) = Some z.
Proof. exact int_roundtrip. Qed.
Print Assumptions C04_int_roundtrip.
Theorem C04_int_value_roundtrip : forall z, in_i64 z = true -> v_as_int (VStr (as_str (VInt z))) = inr z.
Proof. exact int_value_roundtrip. Qed.
Print Assumptions C04_int_value_roundtrip.
Theorem C04_bool_roundtrip : forall b, v_as_bool (VStr (as_str (VBool b))) = inr b.
Proof. exact bool_value_roundtrip. Qed.
Print Assumptions C04_bool_roundtrip.
(* a list of arbitrary values; a dictionary with distinct keys *)
Theorem C04_list_roundtrip : forall l : list value,
  v_as_list (VStr (as_str (VList l))) = inr (map (fun v => VStr (as_str v)) l).
Proof. exact list_value_roundtrip. Qed.
Print Assumptions C04_list_roundtrip.
Theorem C04_dict_roundtrip : forall d : list (value * value),
  NoDup (map (fun kv => as_str (fst kv)) d) ->
  v_as_dict (VStr (as_str (VDict d))) = inr (map (fun kv => (VStr (as_str (fst kv)), VStr (as_str (snd kv)))) d).
Proof. exact dict_value_roundtrip. Qed.
Print Assumptions C04_dict_roundtrip.

(* each view other than the documented numeric-as-boolean shortcut is a function of the string
   alone: viewing the value and viewing a fresh value with the same string agree *)
Theorem C04_int_view_of_string : forall v,
  (forall f, v <> VFlt f) -> (forall z, v = VInt z -> in_i64 z = true) ->
  v_as_int v = v_as_int (VStr (as_str v)).
Proof. exact int_view_of_string. Qed.
Print Assumptions C04_int_view_of_string.
Theorem C04_bool_view_of_string : forall v,
  (forall z, v <> VInt z) -> (forall f, v <> VFlt f) -> v_as_bool v = v_as_bool (VStr (as_str v)).
Proof. exact bool_view_of_string. Qed.
Print Assumptions C04_bool_view_of_string.
Theorem C04_list_view_of_string : forall v,
  map_as_str_sum (v_as_list v) = map_as_str_sum (v_as_list (VStr (as_str v))).
Proof. exact list_view_of_string. Qed.
Print Assumptions C04_list_view_of_string.

(* equality (and hence hashing) follows the string form *)
Theorem C04_eq_by_string : forall a b, v_eqb a b = true <-> as_str a = as_str b.
Proof. exact v_eqb_eq. Qed.
Print Assumptions C04_eq_by_string.

(* ---- floats: the printer and the reader round-trip (Proofs/FloatFacts.v) ----
   `fmt_float` prints the shortest digit string that reads back as the float: it tries 1..17
   significant digits and takes the first that `f_parse`'s conversion maps back to the same bits
   (`found a`: the search succeeds before its unchecked 17-digit fallback).  Whenever it does, the
   printed text - after trailing zeros are stripped and in each of the three positional layouts -
   reads back as exactly the same float; so do the zeros, the infinities, and every integer-valued
   float below 2^53 (for which the search is shown to succeed).  Every NaN prints as "NaN" and reads
   back as the canonical NaN (the payload is not kept: `nan_payload_lost`).  Not proved: that the
   search succeeds for EVERY finite float (the classical "17 digits suffice" fact); the
   correspondence run tests the round trip on special and random bit patterns. *)
From Molt Require Import Model.Float.
From Molt Require Proofs.FloatFacts.

Theorem C04_float_round_trip_when_search_succeeds : forall a,
  FloatFacts.finite_bits a = true -> FloatFacts.found a = true -> f_parse (fmt_float a) = Some a.
Proof. exact FloatFacts.fmt_parse_found. Qed.
Print Assumptions C04_float_round_trip_when_search_succeeds.

Theorem C04_float_round_trip_integral : forall z, (Z.abs z < 2^53)%Z ->
  f_parse (fmt_float (f_of_Z z)) = Some (f_of_Z z).
Proof. exact FloatFacts.fmt_parse_f_of_Z. Qed.
Print Assumptions C04_float_round_trip_integral.

Theorem C04_float_round_trip_zero_inf :
  (f_parse (fmt_float 0%Z) = Some 0%Z /\ f_parse (fmt_float (sign_bit true)) = Some (sign_bit true)) /\
  (f_parse (fmt_float f_pos_inf) = Some f_pos_inf /\ f_parse (fmt_float f_neg_inf) = Some f_neg_inf).
Proof. exact (conj FloatFacts.fmt_parse_zero FloatFacts.fmt_parse_inf). Qed.
Print Assumptions C04_float_round_trip_zero_inf.

Theorem C04_nan_reads_back_canonical : forall a, f_is_nan a = true ->
  fmt_float a = lit "NaN" /\ f_parse (fmt_float a) = Some f_nan.
Proof. exact FloatFacts.fmt_parse_nan. Qed.
Print Assumptions C04_nan_reads_back_canonical.
