(* Props/C06.v — property C06: exceptional returns propagate by the documented return/catch
   protocol.  Statements only.  Spec/SpecExc.v: pb (the procedure boundary as a function on
   results; ExcFacts.proc_boundary_pb links it to the model), iter_pb, frames and propagate. *)
From Molt Require Import Model.Base Model.Value Model.State Model.Eval Model.Commands Model.Interp.
From Molt Require Import Spec.SpecExc Proofs.ExcFacts.
From Molt Require Proofs.NoPanicFacts.
Local Open Scope N_scope.

(* the model's procedure boundary is the pure function pb and leaves the state alone *)
Theorem C06_boundary_is_pb : forall st r, proc_boundary st r = (st, pb r).
Proof. exact proc_boundary_pb. Qed.
Print Assumptions C06_boundary_is_pb.

(* `return -code C -level L v` unwinds through exactly L procedure boundaries — it is still a
   return in flight, with L - k levels left, after k < L of them — and then takes effect as code
   C: ok yields v, break/continue/other codes are raised there, `-code return` is a plain return *)
Theorem C06_return_unwinds : forall v L C,
  1 <= L ->
  let e := molt_return_ext v L C in
  (forall k, (k < N.to_nat L)%nat ->
     exists e', iter_pb k (Err e) = Err e' /\
       x_code e' = CReturn /\ x_level e' = L - N.of_nat k /\ x_value e' = v /\ x_next e' = C /\
       x_data e' = None)
  /\ iter_pb (N.to_nat L) (Err e) =
       match C with
       | COkay => Ok v
       | CReturn => Err {| x_code := CReturn; x_value := v; x_level := 1; x_next := COkay; x_data := None |}
       | c => Err {| x_code := c; x_value := v; x_level := 0; x_next := c; x_data := None |}
       end.
Proof. exact return_unwinds. Qed.
Print Assumptions C06_return_unwinds.

(* -code error raises an ordinary error in that caller *)
Theorem C06_return_error_unwinds : forall v L,
  1 <= L -> iter_pb (N.to_nat L) (Err (molt_return_err v L None None)) = Err (molt_err_v v).
Proof. exact return_err_unwinds_plain. Qed.
Print Assumptions C06_return_error_unwinds.

(* plain bodies (if, nested scripts) do not consume levels: only procedure boundaries do *)
Theorem C06_return_through_frames : forall v L C fs,
  1 <= L -> Forall proc_or_plain fs -> procs fs = N.to_nat L ->
  propagate fs (Err (molt_return_ext v L C)) = landed v C None.
Proof. exact return_through_frames. Qed.
Print Assumptions C06_return_through_frames.

(* `return -code break -level L` ends the loop of the caller L procedures up *)
Theorem C06_return_break_ends_loop : forall v L fs gs,
  1 <= L -> Forall proc_or_plain fs -> procs fs = N.to_nat L -> Forall proc_or_plain gs ->
  propagate (fs ++ FLoop :: gs) (Err (molt_return_ext v L CBreak)) = Ok v_empty.
Proof. exact return_break_ends_loop. Qed.
Print Assumptions C06_return_break_ends_loop.

(* a plain break acts on the innermost enclosing loop ... *)
Theorem C06_break_innermost_loop : forall fs gs,
  Forall (fun f => f = FPlain) fs ->
  propagate (fs ++ FLoop :: gs) (Err molt_break) = propagate gs (Ok v_empty).
Proof. exact break_innermost_loop. Qed.
Print Assumptions C06_break_innermost_loop.

(* ... and becomes an error if it escapes a procedure body or the top level *)
Theorem C06_break_escapes_proc : forall fs gs,
  Forall (fun f => f = FPlain) fs ->
  propagate (fs ++ FProc :: gs) (Err molt_break) =
  propagate gs (err (lit "invoked ""break"" outside of a loop")).
Proof. exact break_escapes_proc. Qed.
Print Assumptions C06_break_escapes_proc.

Theorem C06_break_escapes_toplevel : forall fs,
  Forall (fun f => f = FPlain) fs ->
  toplevel fs (Err molt_break) = err (lit "invoked ""break"" outside of a loop").
Proof. exact break_escapes_toplevel. Qed.
Print Assumptions C06_break_escapes_toplevel.

(* catch intercepts every code and returns its number; other integers stay catchable under
   that number *)
Theorem C06_catch_returns_code : forall v L C fs,
  1 <= L -> Forall proc_or_plain fs -> procs fs = N.to_nat L -> C <> COkay -> C <> CReturn ->
  propagate (fs ++ [FCatch]) (Err (molt_return_ext v L C)) = Ok (VInt (rcode_as_int C)).
Proof. exact return_caught_landed. Qed.
Print Assumptions C06_catch_returns_code.

(* the options catch stores carry the -code and -level that were in flight *)
Theorem C06_catch_options : forall e,
  x_code e <> COkay -> (x_code e = CError -> x_data e <> None) ->
  exists d, return_options (Err e) = Ok (VDict d)
    /\ dict_get d k_code = Some (code_entry e)
    /\ dict_get d k_level = Some (level_entry e)
    /\ v_as_int (code_entry e) = inr (rcode_as_int (effective_code e))
    /\ v_as_int (level_entry e) = inr (to_i64 (Z.of_N (x_level e))).
Proof. exact return_options_entries. Qed.
Print Assumptions C06_catch_options.

(* re-raising with those options (`return {*}$opts $value`) reproduces the original outcome *)
Theorem C06_reraise : forall st r e d,
  exn_wf e -> effective_code e <> CError ->
  canonical_code (effective_code e) -> x_level e < 2 ^ 64 ->
  return_options (Err e) = Ok (VDict d) ->
  cmd_return st (r :: dict_words d ++ [x_value e]) = (st, Err e).
Proof. exact catch_reraise_id. Qed.
Print Assumptions C06_reraise.

(* the hypothesis on the level holds of every exception an evaluation raises (so of every
   exception `catch` can store): levels come from the i64 -> usize cast of `return -level` and only
   decrease *)
Theorem C06_raised_level_fits : forall U fuel st v st' e,
  NoPanicFacts.wf_state st -> eval_value U fuel st v = (st', Err e) -> x_level e < 2 ^ 64.
Proof. exact NoPanicFacts.eval_exn_level. Qed.
Print Assumptions C06_raised_level_fits.

(* what `return` itself raises, and what the boundaries make of it, stays below 2^64 *)
Theorem C06_return_level_fits : forall st argv st' e, cmd_return st argv = (st', Err e) -> lvl_ok e.
Proof. exact cmd_return_lvl. Qed.
Print Assumptions C06_return_level_fits.
